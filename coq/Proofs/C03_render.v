(* C03 proofs, part 3: what Griffe's printer writes for each node, as a string equation over its children; the lambda
   parameter loops (before and after the repair); and the main theorem: outside the known-gap families that the repairs
   present in the tree leave, str(build e) is the reference printer's text.  For every combination [fx] of the repairs. *)
From Coq Require Import List ZArith String Ascii Bool Arith Lia.
From Verif Require Import Lib.Sexp Model.C03_ops Gen.C03_tables Model.C03_expr Model.C03_spec
  Proofs.C03_ind Proofs.C03_iter Proofs.C03_rule.
Import ListNotations.
Open Scope list_scope. Open Scope nat_scope. Open Scope string_scope.

Section Render.
Variable fx : fixes.
Variable env : nenv.
Local Notation build := (C03_expr.build fx env).
Local Notation render := (C03_expr.render fx).
Local Notation iterate := (C03_expr.iterate fx).
Local Notation yb := (C03_iter.yb fx).
Local Notation rtext := (C03_iter.rtext fx).
Local Notation gaps := (C03_spec.gaps fx).
Local Notation need := (C03_spec.need fx).

Ltac rnorm :=
  unfold C03_expr.render;
  rewrite ?it_Str, ?it_Name, ?it_Attribute, ?it_BinOp, ?it_BoolOp, ?it_Call, ?it_Compare, ?it_Comprehension,
    ?it_Dict, ?it_DictComp, ?it_Formatted, ?it_GeneratorExp, ?it_IfExp, ?it_JoinedStr, ?it_Keyword, ?it_VarPositional,
    ?it_VarKeyword, ?it_Lambda, ?it_List, ?it_ListComp, ?it_NamedExpr, ?it_Set, ?it_SetComp, ?it_Slice, ?it_Subscript,
    ?it_Tuple, ?it_UnaryOp, ?it_Yield, ?it_YieldFrom; cbn [app];
  repeat (rewrite ?render_items_app, ?render_items_cons_str, ?render_ijoin, ?map_render_yb, ?render_yb, ?render_wrap, ?render_items_nil, ?sapp_nil_r).

(* ---------- Griffe's printer, node by node (rtext req c: the text of operand c in a slot requiring precedence req) ---------- *)
Lemma render_Str s : render (GStr s) = s.
Proof. rnorm. rewrite ?sapp_assoc. reflexivity. Qed.
Lemma render_Name n p : render (GName n p) = n.
Proof. unfold C03_expr.render, render_items. simpl. apply sapp_nil_r. Qed.
Lemma render_BinOp l op r : render (GBinOp l op r) = rtext (gbin_lreq op) l ++ " " ++ op ++ " " ++ rtext (gbin_rreq op) r.
Proof. rnorm. rewrite !sapp_assoc. reflexivity. Qed.
Lemma render_BoolOp op vs : render (GBoolOp op vs) = sjoin (" " ++ op ++ " ") (map (rtext (S (gprec (GBoolOp op vs)))) vs).
Proof. rnorm. rewrite ?sapp_assoc. reflexivity. Qed.
Lemma render_IfExp b t o : render (GIfExp b t o) = rtext P_OR b ++ " if " ++ rtext P_OR t ++ " else " ++ rtext P_TEST o.
Proof. rnorm. rewrite ?sapp_assoc. reflexivity. Qed.
Lemma render_JoinedStr vs : render (GJoinedStr vs) = "f'" ++ sconcat (map (rtext P_NONE) vs) ++ "'".
Proof. rnorm. rewrite sjoin_empty_sep. reflexivity. Qed.
Lemma render_Keyword n v : render (GKeyword n v) = n ++ "=" ++ rtext P_TEST v.
Proof. rnorm. rewrite ?sapp_assoc. reflexivity. Qed.
Lemma render_VarPositional v : render (GVarPositional v) = "*" ++ rtext P_BOR v.
Proof. rnorm. rewrite ?sapp_assoc. reflexivity. Qed.
Lemma render_VarKeyword v : render (GVarKeyword v) = "**" ++ rtext P_TEST v.
Proof. rnorm. rewrite ?sapp_assoc. reflexivity. Qed.
Lemma render_List es : render (GList es) = "[" ++ sjoin ", " (map (rtext P_TEST) es) ++ "]".
Proof. rnorm. rewrite ?sapp_assoc. reflexivity. Qed.
Lemma render_Set es : render (GSet es) = "{" ++ sjoin ", " (map (rtext P_TEST) es) ++ "}".
Proof. rnorm. rewrite ?sapp_assoc. reflexivity. Qed.
Lemma render_ListComp e gens : render (GListComp e gens) = "[" ++ rtext P_TEST e ++ " " ++ sjoin " " (map (rtext P_NONE) gens) ++ "]".
Proof. rnorm. rewrite ?sapp_assoc. reflexivity. Qed.
Lemma render_SetComp e gens : render (GSetComp e gens) = "{" ++ rtext P_TEST e ++ " " ++ sjoin " " (map (rtext P_NONE) gens) ++ "}".
Proof. rnorm. rewrite ?sapp_assoc. reflexivity. Qed.
Lemma render_GeneratorExp e gens :
  render (GGeneratorExp e gens) = paren_if (fx_genexp fx) (rtext P_TEST e ++ " " ++ sjoin " " (map (rtext P_NONE) gens)).
Proof. rnorm. rewrite ?sapp_assoc. reflexivity. Qed.
Lemma render_NamedExpr t v : render (GNamedExpr t v) = "(" ++ rtext P_ATOM t ++ " := " ++ rtext P_TEST v ++ ")".
Proof. rnorm. rewrite ?sapp_assoc. reflexivity. Qed.
Lemma render_Subscript l s : render (GSubscript l s) = rtext P_ATOM l ++ "[" ++ rtext P_TEST s ++ "]".
Proof. rnorm. rewrite ?sapp_assoc. reflexivity. Qed.
Lemma render_UnaryOp op v : render (GUnaryOp op v) = op ++ rtext (gprec (GUnaryOp op v)) v.
Proof. rnorm. rewrite ?sapp_assoc. reflexivity. Qed.
Lemma render_YieldFrom v : render (GYieldFrom v) = "yield from " ++ rtext P_TEST v.
Proof. rnorm. rewrite ?sapp_assoc. reflexivity. Qed.
Lemma render_Yield v : render (GYield v) = "yield" ++ (match v with Some c => " " ++ rtext P_TEST c | None => "" end).
Proof. destruct v; rnorm; reflexivity. Qed.
Lemma render_Slice lo up st :
  render (GSlice lo up st) =
  optstr (rtext P_TEST) lo ++ ":" ++ optstr (rtext P_TEST) up ++ (match st with Some s => ":" ++ rtext P_TEST s | None => "" end).
Proof. destruct lo, up, st; rnorm; unfold yob, optstr; rewrite ?render_yb, ?render_items_nil; rewrite ?sapp_assoc; reflexivity. Qed.
Lemma render_Tuple es implicit :
  render (GTuple es implicit) =
  let body := sjoin ", " (map (rtext P_TEST) es) ++ (match es with [_] => "," | _ => "" end) in
  if tuple_par fx es implicit then "(" ++ body ++ ")" else body.
Proof. destruct (tuple_par fx es implicit) eqn:E, es as [|? [|? ?]]; rnorm; rewrite ?E; rnorm; rewrite ?sapp_assoc; reflexivity. Qed.
Lemma render_Comprehension t it conds a :
  render (GComprehension t it conds a) =
  (if a then "async " else "") ++ "for " ++ rtext P_BOR t ++ " in " ++ rtext P_OR it
  ++ (if is_nil conds then "" else " if " ++ sjoin " if " (map (rtext P_OR) conds)).
Proof. destruct a, conds; rnorm; cbn [is_nil]; rnorm; rewrite ?sapp_assoc; reflexivity. Qed.
Definition dtxt (kv : option gexpr * gexpr) : string :=
  match fst kv with None => "**" ++ rtext P_BOR (snd kv) | Some k => rtext P_TEST k ++ ": " ++ rtext P_TEST (snd kv) end.
Lemma render_Dict items : render (GDict items) = "{" ++ sjoin ", " (map dtxt items) ++ "}".
Proof.
  rnorm. rewrite map_map. f_equal. f_equal. f_equal. apply map_ext. intros [[k|] v]; unfold dict_item, dtxt; cbn [fst snd]; rnorm;
    rewrite ?sapp_assoc; reflexivity.
Qed.
Lemma render_DictComp k v gens :
  render (GDictComp k v gens) = "{" ++ rtext P_TEST k ++ ": " ++ rtext P_TEST v ++ " " ++ sjoin " " (map (rtext P_NONE) gens) ++ "}".
Proof. rnorm. rewrite ?sapp_assoc. reflexivity. Qed.
Lemma render_Lambda params body :
  render (GLambda params body) =
  "lambda" ++ (if is_nil params then "" else " ")
  ++ render_items (lam_items fx (map (conv_param fx true) params)) ++ ": " ++ rtext P_TEST body.
Proof. destruct params; rnorm; reflexivity. Qed.

(* a slot that requires nothing never adds parentheses *)
Lemma rtext_none g : rtext P_NONE g = render g.
Proof. unfold C03_iter.rtext, ypar. destruct g; try reflexivity; cbn [Nat.ltb Nat.leb]; rewrite andb_false_r; reflexivity. Qed.

(* comparison chains: with as many operators as comparators the zip has no filler *)
Lemma render_cmp_zip ops (gs : list gexpr) :
  List.length ops = List.length gs ->
  map render_items (cmp_zip ops (map (yb true P_BOR) gs)) = map (fun oc => fst oc ++ " " ++ snd oc) (combine ops (map (rtext P_BOR) gs)).
Proof.
  revert gs. induction ops as [|o ops IH]; intros [|g gs] H; try discriminate; [reflexivity|].
  simpl in H. injection H as H. cbn [cmp_zip map combine fst snd]. rewrite IH by assumption. f_equal.
  rewrite render_items_app, render_yb. unfold C03_iter.rtext. rewrite !render_items_cons_str, render_items_nil, sapp_nil_r, !sapp_assoc. reflexivity.
Qed.
Lemma render_Compare l ops cs :
  List.length ops = List.length cs ->
  render (GCompare l ops cs) = rtext P_BOR l ++ " " ++ sjoin " " (map (fun oc => fst oc ++ " " ++ snd oc) (combine ops (map (rtext P_BOR) cs))).
Proof. intros H. rnorm. rewrite render_cmp_zip by assumption. reflexivity. Qed.

(* ---------- attribute chains ---------- *)
Lemma sjoin_snoc sep (l : list string) x : l <> [] -> sjoin sep (l ++ [x]) = (sjoin sep l ++ sep ++ x)%string.
Proof.
  induction l as [|y l IH]; [congruence|]. intros _. destruct l as [|z l].
  - reflexivity.
  - change ((y :: z :: l) ++ [x])%list with (y :: ((z :: l) ++ [x]))%list.
    rewrite (sjoin_cons sep y ((z :: l) ++ [x])%list) by discriminate. rewrite IH by discriminate.
    rewrite (sjoin_cons sep y (z :: l)) by discriminate. rewrite !sapp_assoc. reflexivity.
Qed.

Definition attr_head (g : gexpr) : string :=
  match g with
  | GAttribute _ => render g
  | GStr s => if fx_intattr fx && is_decimal s then "(" ++ s ++ ")" else s
  | _ => rtext P_ATOM g
  end.

Lemma render_Attribute vs : render (GAttribute vs) = sjoin "." (map render_items (attr_parts fx true vs)).
Proof. rnorm. reflexivity. Qed.

Lemma rtext_name_atom n p : rtext P_ATOM (GName n p) = n.
Proof. unfold C03_iter.rtext, ypar. cbn [gprec]. rewrite andb_false_r. cbn [paren_if]. apply render_Name. Qed.

Lemma attr_parts_snoc vs x : vs <> [] -> attr_parts fx true (vs ++ [x]) = (attr_parts fx true vs ++ [yb true P_ATOM x])%list.
Proof.
  unfold attr_parts, attr_parts_gen. rqnorm. destruct vs as [|v rest]; [congruence|]. intros _.
  destruct v; rewrite <- ?app_comm_cons; cbn [map]; rewrite ?map_app; reflexivity.
Qed.

Lemma render_attach g a : gnonempty g -> render (attach_attr g a) = (attr_head g ++ "." ++ a)%string.
Proof.
  intros H.
  assert (Hother : forall g0, render (GAttribute [g0; GName a ParNone]) = render (GAttribute [g0; GName a ParNone])) by reflexivity.
  destruct g; unfold attach_attr, attr_head;
    try (rewrite render_Attribute; unfold attr_parts, attr_parts_gen; rqnorm; cbn [map sjoin]; rewrite !render_yb;
         fold (rtext P_ATOM (GName a ParNone)); rewrite ?rtext_name_atom; reflexivity).
  - (* GStr *) rewrite render_Attribute. unfold attr_parts, attr_parts_gen. rqnorm. cbn [map sjoin]. rewrite render_yb.
    fold (rtext P_ATOM (GName a ParStr)). rewrite rtext_name_atom.
    destruct (fx_intattr fx && is_decimal s); cbn [render_items map item_text sconcat fold_right]; rewrite ?sapp_nil_r, ?sapp_assoc; reflexivity.
  - (* GName *) rewrite render_Attribute. unfold attr_parts, attr_parts_gen. rqnorm. cbn [map sjoin]. rewrite !render_yb.
    fold (rtext P_ATOM (GName a (ParName (gname_path (GName name par))))). rewrite rtext_name_atom. reflexivity.
  - (* GAttribute *) destruct vs as [|v0 vs]; [contradiction|].
    rewrite !render_Attribute, attr_parts_snoc by discriminate. rewrite map_app. cbn [map]. rewrite render_yb.
    fold (rtext P_ATOM (GName a (ParName (gname_path (last (v0 :: vs) (GStr "")))))). rewrite rtext_name_atom.
    apply sjoin_snoc. unfold attr_parts, attr_parts_gen. rqnorm. destruct v0; discriminate.
Qed.

(* ---------- calls ---------- *)
Lemma render_Call f args : render (GCall f args) = rtext P_ATOM f ++ render_items (call_args fx true args).
Proof. rnorm. reflexivity. Qed.

Lemma call_args_general args :
  match args with [GGeneratorExp _ _] => False | _ => True end ->
  render_items (call_args fx true args) = "(" ++ sjoin ", " (map (rtext P_TEST) args) ++ ")".
Proof.
  intros H. unfold call_args, call_args_gen.
  assert (Hgen : render_items ([IStr "("] ++ ijoin [IStr ", "] (map (yb true P_TEST) args) ++ [IStr ")"])
                 = "(" ++ sjoin ", " (map (rtext P_TEST) args) ++ ")").
  { rewrite !render_items_app, render_ijoin, map_render_yb. reflexivity. }
  destruct args as [|a r]; [exact Hgen|]. destruct a; try exact Hgen. destruct r; [contradiction|exact Hgen].
Qed.

Definition genexp_inner (e : gexpr) (gens : list gexpr) : string :=
  rtext P_TEST e ++ " " ++ sjoin " " (map (rtext P_NONE) gens).

Lemma call_args_genexp e gens :
  render_items (call_args fx true [GGeneratorExp e gens]) = "(" ++ genexp_inner e gens ++ ")".
Proof.
  unfold call_args, call_args_gen. destruct (fx_genexp fx) eqn:E.
  - rewrite render_yb. unfold ypar. cbn [gprec]. rewrite andb_false_r. cbn [paren_if]. rewrite render_GeneratorExp, E. reflexivity.
  - rewrite !render_items_app, render_yb. unfold ypar. cbn [gprec]. rewrite andb_false_r. cbn [paren_if].
    rewrite render_GeneratorExp, E. reflexivity.
Qed.

(* ---------- replacement fields ---------- *)
Lemma conv_items_text conv : render_items (if (conv =? -1)%Z then [] else [IStr (conv_text conv)]) = conv_text conv.
Proof.
  unfold conv_text. destruct (conv =? -1)%Z; [reflexivity|]. cbn [render_items map item_text sconcat fold_right]. apply sapp_nil_r.
Qed.

Definition spec_text (spec : option gexpr) : string :=
  match spec with
  | Some (GJoinedStr vs) => ":" ++ sconcat (map (rtext P_NONE) vs)
  | Some o => ":" ++ rtext P_NONE o
  | None => ""
  end.

Lemma spec_items_text spec : render_items (spec_items fx true spec) = spec_text spec.
Proof.
  unfold spec_items, spec_items_gen, spec_text. destruct spec as [o|]; [|reflexivity].
  assert (Ho : render_items (IStr ":" :: yb true P_NONE o) = ":" ++ rtext P_NONE o) by (rewrite render_items_cons_str, render_yb; reflexivity).
  destruct o; try exact Ho.
  rewrite render_items_cons_str, render_ijoin, map_render_yb, sjoin_empty_sep. reflexivity.
Qed.

Definition glue_text (v : gexpr) : string :=
  if fx_fglue fx && Nat.leb P_OR (gprec v) && starts_brace (render v) then " " else "".

Lemma glue_items_text v : render_items (glue fx v) = glue_text v.
Proof.
  unfold glue, glue_text.
  assert (E : render_items (match v with GStr s => [IStr s] | _ => iterate true v end) = render v) by (destruct v; reflexivity).
  rewrite E. destruct (_ && _); reflexivity.
Qed.

Lemma render_Formatted v conv spec :
  render (GFormatted v conv spec) = "{" ++ glue_text v ++ rtext P_OR v ++ conv_text conv ++ spec_text spec ++ "}".
Proof.
  unfold C03_expr.render. rewrite it_Formatted. rewrite !render_items_app, glue_items_text, render_yb, conv_items_text, spec_items_text.
  reflexivity.
Qed.

Lemma render_yb' req c : render_items (yb true req c) = rtext req c.
Proof. apply render_yb. Qed.

(* ---------- the lambda parameter loop ---------- *)
Definition gpar := (string * pkind * option gexpr)%type.
Definition pkindof (p : gpar) : pkind := snd (fst p).
Definition gptxt (p : gpar) : string :=
  fst (fst p) ++ (match snd p with Some d => if is_variadic (pkindof p) then "" else "=" ++ rtext P_TEST d | None => "" end).

(* one text chunk per parameter; the pos_or_kw flag of the loop never influences the output *)
Fixpoint lam_chunks (ps : list gpar) (f1 f3 : bool) : list string :=
  match ps with
  | [] => []
  | p :: rest =>
      let k := pkindof p in
      let pre := match k with VP => "*" | VK => "**" | KO => if f3 then "" else "*, " | _ => "" end in
      let f1' := match k with PO => true | _ => f1 end in
      let sl := negb (is_po k) && f1' in
      (pre ++ (if sl then "/, " else "") ++ gptxt p) :: lam_chunks rest (if sl then false else f1') (match k with KO => true | _ => f3 end)
  end.

Lemma lam_params_chunks ps f1 f2 f3 :
  render_items (lam_params (map (conv_param fx true) ps) f1 f2 f3) = sjoin ", " (lam_chunks ps f1 f3).
Proof.
  revert f1 f2 f3. induction ps as [|[[n k] d] ps IH]; intros f1 f2 f3; [reflexivity|].
  cbn [map C03_iter.conv_param lam_params lam_chunks fst snd pkindof].
  rewrite is_nil_map.
  assert (Hj : forall x, sjoin ", " (x :: lam_chunks ps
            (if negb (is_po k) && match k with PO => true | _ => f1 end then false else match k with PO => true | _ => f1 end)
            (match k with KO => true | _ => f3 end)) =
          x ++ (if is_nil ps then "" else ", ") ++ sjoin ", " (lam_chunks ps
            (if negb (is_po k) && match k with PO => true | _ => f1 end then false else match k with PO => true | _ => f1 end)
            (match k with KO => true | _ => f3 end))).
  { intros x. destruct ps as [|q ps]; [simpl; rewrite sapp_nil_r; reflexivity|]. reflexivity. }
  rewrite Hj. unfold gptxt. cbn [fst snd pkindof].
  destruct k, f1, f3, d as [dd|]; cbn [is_po is_variadic negb andb];
    repeat (rewrite ?render_items_app, ?render_items_cons_str, ?render_items_nil, ?render_yb', ?IH, ?sapp_nil_r);
    destruct (is_nil ps); repeat (rewrite ?render_items_app, ?render_items_cons_str, ?render_items_nil, ?IH, ?sapp_nil_r);
    rewrite ?sapp_assoc; cbn [String.append]; rewrite ?sapp_assoc; reflexivity.
Qed.

Definition allk (k : pkind) (l : list gpar) : Prop := Forall (fun p => pkindof p = k) l.

Lemma chunks_po l rest f1 f3 :
  allk PO l -> lam_chunks (l ++ rest) f1 f3 = (map gptxt l ++ lam_chunks rest (f1 || negb (is_nil l)) f3)%list.
Proof.
  intros H. revert f1. induction H as [|p l Hp _ IH]; intros f1.
  - simpl. rewrite orb_false_r. reflexivity.
  - cbn [app lam_chunks map]. rewrite Hp. cbn [is_po negb andb]. rewrite IH. cbn [String.append is_nil negb].
    rewrite orb_true_r. destruct l; reflexivity.
Qed.

Lemma chunks_pk0 l rest f3 :
  allk PK l -> lam_chunks (l ++ rest) false f3 = (map gptxt l ++ lam_chunks rest false f3)%list.
Proof.
  induction 1 as [|p l Hp _ IH]; [reflexivity|].
  cbn [app lam_chunks map]. rewrite Hp. cbn [is_po negb andb]. rewrite IH. reflexivity.
Qed.

Lemma chunks_pk l rest f1 f3 :
  allk PK l ->
  lam_chunks (l ++ rest) f1 f3 =
  ((match l with [] => [] | p :: r => ((if f1 then "/, " else "") ++ gptxt p)%string :: map gptxt r end)
   ++ lam_chunks rest (if is_nil l then f1 else false) f3)%list.
Proof.
  intros H. destruct H as [|p l Hp Hl]; [reflexivity|].
  cbn [app lam_chunks is_nil]. rewrite Hp. destruct f1; cbn [is_po negb andb]; rewrite (chunks_pk0 l rest f3 Hl); reflexivity.
Qed.

Lemma chunks_ko1 l rest :
  allk KO l -> lam_chunks (l ++ rest) false true = (map gptxt l ++ lam_chunks rest false true)%list.
Proof.
  induction 1 as [|p l Hp _ IH]; [reflexivity|].
  cbn [app lam_chunks map]. rewrite Hp. cbn [is_po negb andb]. rewrite IH. reflexivity.
Qed.

Lemma chunks_ko l rest f3 :
  allk KO l ->
  lam_chunks (l ++ rest) false f3 =
  ((match l with [] => [] | p :: r => ((if f3 then "" else "*, ") ++ gptxt p)%string :: map gptxt r end)
   ++ lam_chunks rest false (f3 || negb (is_nil l)))%list.
Proof.
  intros H. destruct H as [|p l Hp Hl].
  - simpl. rewrite orb_false_r. reflexivity.
  - cbn [app lam_chunks is_nil negb]. rewrite Hp. cbn [is_po negb andb]. rewrite (chunks_ko1 l rest Hl), orb_true_r.
    destruct f3; reflexivity.
Qed.

Definition vpl (vp : option string) : list gpar := match vp with Some n => [(n, VP, None)] | None => [] end.
Definition vkl (vk : option string) : list gpar := match vk with Some n => [(n, VK, None)] | None => [] end.

Definition lam_entries (a b : list gpar) (vp : option string) (d : list gpar) (vk : option string) : list string :=
  (map gptxt a ++ (if is_nil a then [] else ["/"]) ++ map gptxt b
   ++ (match vp with Some n => [("*" ++ n)%string] | None => if is_nil d then [] else ["*"] end)
   ++ map gptxt d ++ (match vk with Some n => [("**" ++ n)%string] | None => [] end))%list.

Lemma sjoin_glue0 (sep a b : string) (ys : list string) :
  sjoin sep ((a ++ sep ++ b) :: ys) = sjoin sep (a :: b :: ys).
Proof. exact (sjoin_glue sep a b [] ys). Qed.

Lemma lambda_chunks_entries a b vp d vk :
  allk PO a -> allk PK b -> allk KO d ->
  (negb (is_nil a) && is_nil b) || (match vp with Some _ => negb (is_nil d) | None => false end) = false ->
  sjoin ", " (lam_chunks (a ++ b ++ vpl vp ++ d ++ vkl vk) false false) = sjoin ", " (lam_entries a b vp d vk).
Proof.
  intros Ha Hb Hd Hg. apply orb_false_iff in Hg. destruct Hg as [Hg1 Hg2].
  rewrite (chunks_po a _ false false Ha). cbn [orb].
  rewrite (chunks_pk b _ _ false Hb).
  assert (Hf1 : (if is_nil b then negb (is_nil a) else false) = false).
  { destruct (is_nil b); [|reflexivity]. rewrite andb_true_r in Hg1. exact Hg1. }
  rewrite Hf1. unfold lam_entries.
  (* the tail after the positional parameters *)
  assert (Htail : forall xs,
    sjoin ", " (xs ++ lam_chunks (vpl vp ++ d ++ vkl vk) false false)%list =
    sjoin ", " (xs ++ (match vp with Some n => [("*" ++ n)%string] | None => if is_nil d then [] else ["*"] end)
                   ++ map gptxt d ++ (match vk with Some n => [("**" ++ n)%string] | None => [] end))%list).
  { intros xs. destruct vp as [n|]; cbn [vpl app].
    - (* *args present: no keyword-only parameters *)
      destruct d as [|q d]; [|discriminate]. cbn [lam_chunks pkindof fst snd is_po negb andb app map gptxt is_variadic].
      destruct vk as [m|]; cbn [vkl lam_chunks pkindof fst snd is_po negb andb app gptxt is_variadic String.append];
        rewrite ?sapp_nil_r; reflexivity.
    - rewrite (chunks_ko d _ false Hd). cbn [orb].
      assert (Hvk : forall f3, lam_chunks (vkl vk) false f3 = match vk with Some n => [("**" ++ n)%string] | None => [] end).
      { intros f3. destruct vk; cbn [vkl lam_chunks pkindof fst snd is_po negb andb gptxt is_variadic String.append];
          rewrite ?sapp_nil_r; reflexivity. }
      rewrite Hvk. destruct d as [|q d]; [reflexivity|]. cbn [is_nil app map].
      change ("*, " ++ gptxt q) with ("*" ++ ", " ++ gptxt q). rewrite sjoin_glue. reflexivity. }
  destruct a as [|p a]; cbn [is_nil negb map app].
  - (* no positional-only parameters *)
    destruct b as [|q b]; cbn [app String.append]; [apply (Htail [])|].
    change (gptxt q :: (map gptxt b ++ ?t)%list) with ((gptxt q :: map gptxt b) ++ t)%list. 
    rewrite <- !app_comm_cons. apply (Htail (gptxt q :: map gptxt b)).
  - destruct b as [|q b]; [discriminate|]. cbn [app].
    change ("/, " ++ gptxt q) with ("/" ++ ", " ++ gptxt q).
    rewrite (app_comm_cons (map gptxt a)), (sjoin_glue ", " "/" (gptxt q) (gptxt p :: map gptxt a)).
    replace ((gptxt p :: map gptxt a) ++ "/" :: gptxt q :: (map gptxt b ++ lam_chunks (vpl vp ++ d ++ vkl vk) false false))%list
      with (((gptxt p :: map gptxt a) ++ "/" :: gptxt q :: map gptxt b) ++ lam_chunks (vpl vp ++ d ++ vkl vk) false false)%list
      by (rewrite <- app_assoc; reflexivity).
    rewrite Htail. rewrite <- app_assoc. reflexivity.
Qed.


(* ---------- the repaired loop: no hypothesis on the shape of the signature ---------- *)
Fixpoint lam_chunks2 (ps : list gpar) (f1 f3 : bool) : list string :=
  match ps with
  | [] => if f1 then ["/"] else []
  | p :: rest =>
      let k := pkindof p in
      let pre := match k with VP => "*" | VK => "**" | KO => if f3 then "" else "*, " | _ => "" end in
      ((if negb (is_po k) && f1 then "/, " else "") ++ pre ++ gptxt p)
        :: lam_chunks2 rest (is_po k) (match k with VP | KO => true | _ => f3 end)
  end.

Lemma lam_chunks2_nonnil p ps f1 f3 : lam_chunks2 (p :: ps) f1 f3 <> [].
Proof. discriminate. Qed.

Definition chunk2 (p : gpar) (f1 f3 : bool) : string :=
  let k := pkindof p in
  (if negb (is_po k) && f1 then "/, " else "")
  ++ (match k with VP => "*" | VK => "**" | KO => if f3 then "" else "*, " | _ => "" end) ++ gptxt p.
Definition f3next (k : pkind) (f3 : bool) : bool := match k with VP | KO => true | _ => f3 end.

Lemma lam_chunks2_cons p rest f1 f3 :
  lam_chunks2 (p :: rest) f1 f3 = chunk2 p f1 f3 :: lam_chunks2 rest (is_po (pkindof p)) (f3next (pkindof p) f3).
Proof. reflexivity. Qed.

(* one parameter of the repaired loop, then the rest *)
Lemma lam_params2_cons p rest f1 f3 :
  render_items (lam_params2 (conv_param fx true p :: rest) f1 f3) =
  chunk2 p f1 f3 ++ (if is_nil rest then "" else ", ") ++ render_items (lam_params2 rest (is_po (pkindof p)) (f3next (pkindof p) f3)).
Proof.
  destruct p as [[n k] d]. unfold chunk2, gptxt, f3next. cbn [C03_iter.conv_param lam_params2 fst snd pkindof].
  destruct k, f1, f3, d as [dd|]; cbn [is_po is_variadic negb andb];
    repeat (rewrite ?render_items_app, ?render_items_cons_str, ?render_items_nil, ?render_yb', ?sapp_nil_r);
    destruct (is_nil rest); repeat (rewrite ?render_items_app, ?render_items_cons_str, ?render_items_nil, ?sapp_nil_r);
    rewrite ?sapp_assoc; cbn [String.append]; rewrite ?sapp_assoc; reflexivity.
Qed.

Lemma lam_params2_chunks p ps f1 f3 :
  render_items (lam_params2 (map (conv_param fx true) (p :: ps)) f1 f3) = sjoin ", " (lam_chunks2 (p :: ps) f1 f3).
Proof.
  revert p f1 f3. induction ps as [|q ps IH]; intros p f1 f3.
  - cbn [map]. rewrite lam_params2_cons, lam_chunks2_cons. cbn [is_nil lam_params2 lam_chunks2].
    destruct (is_po (pkindof p)); cbn [render_items map item_text sconcat fold_right sjoin String.append];
      rewrite ?sapp_nil_r; reflexivity.
  - change (map (conv_param fx true) (p :: q :: ps)) with (conv_param fx true p :: map (conv_param fx true) (q :: ps)).
    rewrite lam_params2_cons, lam_chunks2_cons. change (is_nil (map (conv_param fx true) (q :: ps))) with false.
    rewrite IH. rewrite (sjoin_cons ", " _ (lam_chunks2 (q :: ps) _ _)) by apply lam_chunks2_nonnil. reflexivity.
Qed.

Lemma chunks2_po l rest f1 f3 :
  allk PO l -> lam_chunks2 (l ++ rest) f1 f3 = (map gptxt l ++ lam_chunks2 rest (if is_nil l then f1 else true) f3)%list.
Proof.
  intros H. revert f1. induction H as [|p l Hp _ IH]; intros f1; [reflexivity|].
  cbn [app lam_chunks2 map is_nil]. rewrite Hp. cbn [is_po negb andb String.append]. rewrite IH. destruct l; reflexivity.
Qed.

Definition no_po (l : list gpar) : Prop := Forall (fun p => is_po (pkindof p) = false) l.

(* the slash is an entry of its own *)
Lemma chunks2_slash xs rest f1 f3 :
  no_po rest ->
  sjoin ", " (xs ++ lam_chunks2 rest f1 f3)%list = sjoin ", " (xs ++ (if f1 then ["/"] else []) ++ lam_chunks2 rest false f3)%list.
Proof.
  intros H. destruct f1; [|reflexivity]. destruct H as [|p rest Hp _]; [reflexivity|].
  cbn [lam_chunks2]. rewrite Hp. cbn [negb andb app].
  change ("/, " ++ ?x) with ("/" ++ ", " ++ x). rewrite sjoin_glue. reflexivity.
Qed.

Lemma chunks2_pk l rest f3 :
  allk PK l -> lam_chunks2 (l ++ rest) false f3 = (map gptxt l ++ lam_chunks2 rest false f3)%list.
Proof.
  induction 1 as [|p l Hp _ IH]; [reflexivity|].
  cbn [app lam_chunks2 map]. rewrite Hp. cbn [is_po negb andb String.append]. rewrite IH. reflexivity.
Qed.

Lemma chunks2_ko1 l rest :
  allk KO l -> lam_chunks2 (l ++ rest) false true = (map gptxt l ++ lam_chunks2 rest false true)%list.
Proof.
  induction 1 as [|p l Hp _ IH]; [reflexivity|].
  cbn [app lam_chunks2 map]. rewrite Hp. cbn [is_po negb andb String.append]. rewrite IH. reflexivity.
Qed.

Lemma chunks2_vk vk f3 : lam_chunks2 (vkl vk) false f3 = match vk with Some n => [("**" ++ n)%string] | None => [] end.
Proof. destruct vk; cbn [vkl lam_chunks2 pkindof fst snd is_po negb andb gptxt is_variadic String.append]; rewrite ?sapp_nil_r; reflexivity. Qed.

Lemma allk_no_po k l : is_po k = false -> allk k l -> no_po l.
Proof. intros Hk H. eapply Forall_impl; [|exact H]. intros p Hp. simpl in Hp. rewrite Hp. exact Hk. Qed.

Lemma no_po_app a b : no_po a -> no_po b -> no_po (a ++ b).
Proof. intros. apply Forall_app. split; assumption. Qed.

Lemma lambda_chunks2_entries a b vp d vk :
  allk PO a -> allk PK b -> allk KO d ->
  sjoin ", " (lam_chunks2 (a ++ b ++ vpl vp ++ d ++ vkl vk) false false) = sjoin ", " (lam_entries a b vp d vk).
Proof.
  intros Ha Hb Hd. rewrite (chunks2_po a _ false false Ha).
  assert (Hnp : no_po (b ++ vpl vp ++ d ++ vkl vk)).
  { apply no_po_app; [apply (allk_no_po PK); [reflexivity|assumption]|].
    apply no_po_app; [destruct vp; repeat constructor|].
    apply no_po_app; [apply (allk_no_po KO); [reflexivity|assumption]|destruct vk; repeat constructor]. }
  rewrite (chunks2_slash (map gptxt a) _ _ false Hnp).
  replace (if if is_nil a then false else true then ["/"] else []) with (if is_nil a then @nil string else ["/"]) by (destruct a; reflexivity).
  rewrite (chunks2_pk b _ false Hb). unfold lam_entries.
  (* the tail after the positional parameters *)
  assert (Htail : forall xs,
    sjoin ", " (xs ++ lam_chunks2 (vpl vp ++ d ++ vkl vk) false false)%list =
    sjoin ", " (xs ++ (match vp with Some n => [("*" ++ n)%string] | None => if is_nil d then [] else ["*"] end)
                   ++ map gptxt d ++ (match vk with Some n => [("**" ++ n)%string] | None => [] end))%list).
  { intros xs. destruct vp as [n|]; cbn [vpl app].
    - cbn [lam_chunks2 pkindof fst snd is_po negb andb gptxt is_variadic String.append]. rewrite sapp_nil_r.
      rewrite (chunks2_ko1 d _ Hd), chunks2_vk. reflexivity.
    - destruct Hd as [|q d Hq Hd].
      + cbn [app is_nil map]. rewrite chunks2_vk. reflexivity.
      + cbn [app lam_chunks2 is_nil map]. rewrite Hq. cbn [is_po negb andb String.append].
        rewrite (chunks2_ko1 d _ Hd), chunks2_vk.
        exact (sjoin_glue ", " "*" (gptxt q) xs _). }
  rewrite !app_assoc. rewrite <- !app_assoc.
  replace (map gptxt a ++ (if is_nil a then [] else ["/"]) ++ map gptxt b ++ lam_chunks2 (vpl vp ++ d ++ vkl vk) false false)%list
    with ((map gptxt a ++ (if is_nil a then [] else ["/"]) ++ map gptxt b) ++ lam_chunks2 (vpl vp ++ d ++ vkl vk) false false)%list
    by (rewrite <- !app_assoc; reflexivity).
  rewrite Htail. rewrite <- !app_assoc. reflexivity.
Qed.


(* ---------- the main induction ---------- *)
Open Scope list_scope. Open Scope nat_scope.

(* the model's operand requirements are the grammar's *)
Lemma gbinop_prec_spec o : gbinop_prec (spec_binop o) = binop_prec o. Proof. destruct o; reflexivity. Qed.
Lemma gbin_lreq_spec o : gbin_lreq (spec_binop o) = binop_lreq o. Proof. destruct o; reflexivity. Qed.
Lemma gbin_rreq_spec o : gbin_rreq (spec_binop o) = binop_rreq o. Proof. destruct o; reflexivity. Qed.
Lemma binop_lreq_le o : Nat.leb (binop_lreq o) P_ATOM = true. Proof. destruct o; reflexivity. Qed.
Lemma binop_rreq_le o : Nat.leb (binop_rreq o) P_ATOM = true. Proof. destruct o; reflexivity. Qed.
Lemma gboolop_prec_spec o vs : gprec (GBoolOp (spec_boolop o) vs) = boolop_prec o. Proof. destruct o; reflexivity. Qed.
Lemma gunop_prec_spec o v : gprec (GUnaryOp (spec_unop o) v) = unop_prec o. Proof. destruct o; reflexivity. Qed.
Lemma boolop_req_le o : Nat.leb (S (boolop_prec o)) P_ATOM = true. Proof. destruct o; reflexivity. Qed.
Lemma unop_prec_le o : Nat.leb (unop_prec o) P_ATOM = true. Proof. destruct o; reflexivity. Qed.

(* an integer literal is stored as its decimal digits, and nothing else is *)
Definition int_lit_inv (g : gexpr) (e : pyexpr) : Prop :=
  match g with GStr s => is_decimal s = is_int_lit e | _ => is_int_lit e = false end.

Definition RenderP (e : pyexpr) : Prop :=
  forall direct isub ijoin ifmt,
    isub = direct -> wfk KExpr e = true -> gaps direct isub ijoin ifmt e = [] ->
    exists g, build (mkCtx NoParse isub ijoin ifmt) e = Some g /\ render g = rprint direct e
              /\ gprec g = prec e /\ int_lit_inv g e.

Fixpoint kidsR (Q : pyexpr -> Prop) (e : pyexpr) : Prop :=
  match e with
  | PDictItem k v => OptP Q k /\ Q v
  | PParam _ d => OptP Q d
  | PGeneratorExp e1 gens => Q e1 /\ Forall Q gens
  | PJoinedStr vs => Forall Q vs
  | PParsed p => kidsR Q p
  | _ => True
  end.

Definition RenderP' (e : pyexpr) : Prop := RenderP e /\ kidsR RenderP e.

Ltac split_nil :=
  repeat match goal with
         | H : _ ++ _ = [] |- _ => apply app_eq_nil in H; destruct H
         | H : _ :: _ = [] |- _ => discriminate H
         | H : (if ?b then _ :: _ else []) = [] |- _ => destruct b eqn:?; [discriminate H|clear H]
         end.

(* the text of a built operand in a slot of precedence req *)
Lemma rtext_at g c req X :
  render g = X -> gprec g = prec c -> Nat.leb req P_ATOM = true -> need req c = [] ->
  rtext req g = paren_if (prec c <? req) X.
Proof.
  intros HR HP Hle Hn. unfold C03_iter.rtext. rewrite HR. f_equal. unfold ypar. rewrite HP.
  assert (Hatom : forall s, g = GStr s -> (prec c <? req) = false).
  { intros s ->. cbn [gprec] in HP. rewrite <- HP. apply Nat.ltb_ge. apply Nat.leb_le. exact Hle. }
  unfold C03_spec.need, need_top in Hn.
  destruct (fx_prec fx).
  - destruct g; try reflexivity. symmetry. eapply Hatom. reflexivity.
  - destruct (prec c <? req); [discriminate Hn|]. destruct g; reflexivity.
Qed.

Lemma child_at c req ijoin ifmt :
  RenderP c -> wfk KExpr c = true -> Nat.leb req P_ATOM = true -> need req c = [] -> gaps false false ijoin ifmt c = [] ->
  exists g, build (mkCtx NoParse false ijoin ifmt) c = Some g
            /\ rtext req g = paren_if (prec c <? req) (rprint false c)
            /\ render g = rprint false c /\ gprec g = prec c /\ int_lit_inv g c.
Proof.
  intros H Hw Hle Hn Hg. destruct (H false false ijoin ifmt eq_refl Hw Hg) as [g [B [R [P I]]]].
  exists g. repeat split; try assumption. apply rtext_at; assumption.
Qed.

Lemma mapo_render {B} (bld : pyexpr -> option B) (txt : B -> string) (G : pyexpr -> list nat) (R : pyexpr -> string) vs :
  Forall (fun c => G c = [] -> exists g, bld c = Some g /\ txt g = R c) vs ->
  flat_map G vs = [] -> exists gs, mapo bld vs = Some gs /\ map txt gs = map R vs.
Proof.
  induction 1 as [|x l Hx _ IH]; intros Hg; [exists []; split; reflexivity|].
  simpl in Hg. apply app_eq_nil in Hg. destruct Hg as [Hg1 Hg2].
  destruct (Hx Hg1) as [g [Bg Tg]]. destruct (IH Hg2) as [gs [Bgs Tgs]].
  exists (g :: gs). simpl. rewrite Bg, Bgs, Tg, Tgs. split; reflexivity.
Qed.

Lemma fproj vs : Forall RenderP' vs -> Forall RenderP vs.
Proof. intros H. eapply Forall_impl; [|exact H]. intros x [Hx _]. exact Hx. Qed.

Lemma children_at vs req ijoin ifmt :
  Forall RenderP vs -> forallb (wfk KExpr) vs = true -> Nat.leb req P_ATOM = true ->
  flat_map (fun c => need req c ++ gaps false false ijoin ifmt c) vs = [] ->
  exists gs, mapo (build (mkCtx NoParse false ijoin ifmt)) vs = Some gs /\
             map (rtext req) gs = map (fun c => paren_if (prec c <? req) (rprint false c)) vs.
Proof.
  intros H Hw Hle. apply mapo_render. apply forallb_Forall in Hw.
  eapply Forall_impl2; [|exact H|exact Hw]. intros c Hc Hwc Hg. simpl in Hwc.
  apply app_eq_nil in Hg. destruct Hg as [Hn Hg].
  destruct (child_at c req ijoin ifmt Hc Hwc Hle Hn Hg) as [g [Bg [Tg _]]]. exists g. split; assumption.
Qed.

Lemma children_plain vs ijoin ifmt :
  Forall RenderP vs -> forallb (wfk KExpr) vs = true ->
  flat_map (gaps false false ijoin ifmt) vs = [] ->
  exists gs, mapo (build (mkCtx NoParse false ijoin ifmt)) vs = Some gs /\ map (rtext P_NONE) gs = map (rprint false) vs.
Proof.
  intros H Hw. apply mapo_render. apply forallb_Forall in Hw.
  eapply Forall_impl2; [|exact H|exact Hw]. intros c Hc Hwc Hg. simpl in Hwc.
  destruct (Hc false false ijoin ifmt eq_refl Hwc Hg) as [g [Bg [Rg _]]]. exists g. split; [assumption|]. rewrite rtext_none. exact Rg.
Qed.

Lemma child_opt o req ijoin ifmt :
  OptP RenderP' o -> (match o with Some c => wfk KExpr c | None => true end) = true -> Nat.leb req P_ATOM = true ->
  (match o with Some c => need req c ++ gaps false false ijoin ifmt c | None => [] end) = [] ->
  exists go, optb (build (mkCtx NoParse false ijoin ifmt)) o = Some go /\
             match o, go with
             | Some c, Some g => rtext req g = paren_if (prec c <? req) (rprint false c)
             | None, None => True
             | _, _ => False
             end.
Proof.
  destruct o as [c|]; simpl; intros H Hw Hle Hg; [|exists None; split; [reflexivity|exact I]].
  apply app_eq_nil in Hg. destruct Hg as [Hn Hg]. destruct H as [H _].
  destruct (child_at c req ijoin ifmt H Hw Hle Hn Hg) as [g [Bg [Tg _]]].
  exists (Some g). rewrite Bg. split; [reflexivity|exact Tg].
Qed.

Lemma fesc_id s : has_brace s = false -> has_unsafe s = false -> fesc s = s.
Proof.
  induction s as [|c s IH]; [reflexivity|]. cbn [has_brace has_unsafe fesc]. intros Hb Hu.
  apply orb_false_iff in Hb. destruct Hb as [Hb1 Hb]. apply orb_false_iff in Hb1. destruct Hb1 as [Hl Hr].
  apply orb_false_iff in Hu. destruct Hu as [Hu Hs]. apply orb_false_iff in Hu. destruct Hu as [Hu H92].
  apply orb_false_iff in Hu. destruct Hu as [Hu H39]. apply orb_false_iff in Hu. destruct Hu as [H32 H127].
  rewrite IH by assumption. unfold fesc_char. rewrite H92, H39.
  assert (E1 : (nat_of_ascii c =? 10) = false) by (apply Nat.eqb_neq; intros E; rewrite E in H32; discriminate H32).
  assert (E2 : (nat_of_ascii c =? 13) = false) by (apply Nat.eqb_neq; intros E; rewrite E in H32; discriminate H32).
  assert (E3 : (nat_of_ascii c =? 9) = false) by (apply Nat.eqb_neq; intros E; rewrite E in H32; discriminate H32).
  rewrite E1, E2, E3, H32, H127. cbn [orb].
  assert (E4 : (nat_of_ascii c =? 123) = false).
  { apply Nat.eqb_neq. intros E. assert (c = "{"%char) by (rewrite <- (ascii_nat_embedding c), E; reflexivity). subst c. discriminate Hl. }
  assert (E5 : (nat_of_ascii c =? 125) = false).
  { apply Nat.eqb_neq. intros E. assert (c = "}"%char) by (rewrite <- (ascii_nat_embedding c), E; reflexivity). subst c. discriminate Hr. }
  rewrite E4, E5. reflexivity.
Qed.

Lemma combine_map_l {A B C} (f : A -> B) (l : list A) (r : list C) :
  combine (map f l) r = map (fun p => (f (fst p), snd p)) (combine l r).
Proof. revert r. induction l as [|x l IH]; intros [|y r]; simpl; try reflexivity. rewrite IH. reflexivity. Qed.

Lemma compare_text (ops : list cmpop) (R : list string) :
  is_nil ops = false -> List.length ops = List.length R ->
  (" " ++ sjoin " " (map (fun oc => fst oc ++ " " ++ snd oc) (combine (map spec_cmpop ops) R)))%string
  = sconcat (map (fun oc : cmpop * string => (" " ++ spec_cmpop (fst oc) ++ " " ++ snd oc)%string) (combine ops R)).
Proof.
  intros Hn Hl. rewrite combine_map_l, map_map. cbn [fst snd].
  pose proof (sjoin_prefix " " (map (fun x : cmpop * string => (spec_cmpop (fst x) ++ " " ++ snd x)%string) (combine ops R))) as Hp.
  destruct ops as [|o ops]; [discriminate|]. destruct R as [|r R]; [discriminate|].
  cbn [combine map is_nil] in *. rewrite Hp. cbn [map]. f_equal. rewrite map_map. reflexivity.
Qed.

(* dict items and lambda parameters: the pseudo-nodes *)
Definition build_item (c : bctx) (it : pyexpr) : option (option gexpr * gexpr) :=
  match it with
  | PDictItem None v => match build c v with Some v' => Some (None, v') | None => None end
  | PDictItem (Some k) v =>
      match build c k, build c v with
      | Some k', Some v' => Some (Some k', v')
      | _, _ => None
      end
  | _ => None
  end.

Lemma dict_items_at items ijoin ifmt :
  Forall RenderP' items -> forallb (wfk KItem) items = true -> flat_map (gaps false false ijoin ifmt) items = [] ->
  exists its, mapo (build_item (mkCtx NoParse false ijoin ifmt)) items = Some its /\ map dtxt its = map (rprint false) items.
Proof.
  intros H Hw. apply mapo_render. apply forallb_Forall in Hw.
  eapply Forall_impl2; [|exact H|exact Hw]. intros c [_ Hk] Hwc Hg.
  destruct c as [| | | | | | | | | | | | | | | | | |k v| | | | | | | | | | | | | | |]; try (cbn in Hwc; discriminate Hwc).
  cbn in Hwc. split_andb. destruct Hk as [Hk Hv]. cbn [C03_spec.gaps] in Hg.
  destruct k as [key|]; split_nil; simpl in Hk.
  - destruct (child_at key P_TEST _ _ Hk ltac:(assumption) eq_refl ltac:(eassumption) ltac:(eassumption)) as [gk [Bk [Tk _]]].
    destruct (child_at v P_TEST _ _ Hv ltac:(assumption) eq_refl ltac:(eassumption) ltac:(eassumption)) as [gv [Bv [Tv _]]].
    exists (Some gk, gv). cbn [build_item]. rewrite Bk, Bv. split; [reflexivity|].
    unfold dtxt. cbn [fst snd rprint]. rewrite Tk, Tv. reflexivity.
  - destruct (child_at v P_BOR _ _ Hv ltac:(assumption) eq_refl ltac:(eassumption) ltac:(eassumption)) as [gv [Bv [Tv _]]].
    exists (None, gv). cbn [build_item]. rewrite Bv. split; [reflexivity|].
    unfold dtxt. cbn [fst snd rprint]. rewrite Tv. reflexivity.
Qed.

Definition par_of (j f : bool) (k : pkind) (p : pyexpr) : option gpar :=
  match p with
  | PParam n d =>
      match d with
      | Some d' => match build (mkCtx NoParse false j f) d' with Some g => Some (n, k, Some g) | None => None end
      | None => Some (n, k, None)
      end
  | _ => None
  end.

Lemma par_of_allk j f k ps gs : mapo (par_of j f k) ps = Some gs -> allk k gs.
Proof.
  revert gs. induction ps as [|p ps IH]; simpl; intros gs H.
  - inversion H. constructor.
  - destruct (par_of j f k p) as [gp|] eqn:Ep; [|discriminate]. destruct (mapo (par_of j f k) ps); [|discriminate]. inversion H; subst.
    constructor; [|apply IH; reflexivity].
    destruct p; try discriminate Ep. cbn [par_of] in Ep. destruct default as [d'|]; [destruct (build _ d'); [|discriminate Ep]|]; inversion Ep; reflexivity.
Qed.

Lemma params_at k ps ijoin ifmt :
  is_variadic k = false ->
  Forall RenderP' ps -> forallb (wfk KParam) ps = true -> flat_map (gaps false false ijoin ifmt) ps = [] ->
  exists gs, mapo (par_of ijoin ifmt k) ps = Some gs /\ map gptxt gs = map (rprint false) ps.
Proof.
  intros Hk H Hw. apply mapo_render. apply forallb_Forall in Hw.
  eapply Forall_impl2; [|exact H|exact Hw]. intros c [_ Hd] Hwc Hg.
  destruct c as [| | | | | | | | | | | | | | | | | | | | |pn d| | | | | | | | | | | |]; try (cbn in Hwc; discriminate Hwc).
  cbn in Hwc. cbn [C03_spec.gaps] in Hg. simpl in Hd. destruct d as [dd|].
  - split_nil. simpl in Hd.
    destruct (child_at dd P_TEST _ _ Hd ltac:(assumption) eq_refl ltac:(eassumption) ltac:(eassumption)) as [gd [Bd [Td _]]].
    eexists. cbn [par_of]. rewrite Bd. split; [reflexivity|].
    unfold gptxt, pkindof. cbn [fst snd rprint]. rewrite Hk, Td. reflexivity.
  - eexists. cbn [par_of]. split; [reflexivity|]. reflexivity.
Qed.

Lemma is_nil_of_map_eq {A B C} (f : A -> C) (g : B -> C) (l : list A) (r : list B) : map f l = map g r -> is_nil l = is_nil r.
Proof. destruct l, r; simpl; intros H; try reflexivity; discriminate. Qed.

Lemma lam_entries_nil a b vp d vk : is_nil (lam_entries a b vp d vk) = is_nil (a ++ b ++ vpl vp ++ d ++ vkl vk).
Proof. unfold lam_entries. destruct a, b, vp, d, vk; reflexivity. Qed.

(* the parameter list of a lambda, whichever loop the tree has *)
Lemma lam_items_entries a b vp d vk :
  allk PO a -> allk PK b -> allk KO d ->
  (fx_lambda fx = false -> (negb (is_nil a) && is_nil b) || (match vp with Some _ => negb (is_nil d) | None => false end) = false) ->
  render_items (lam_items fx (map (conv_param fx true) (a ++ b ++ vpl vp ++ d ++ vkl vk))) = sjoin ", " (lam_entries a b vp d vk).
Proof.
  intros Ha Hb Hd Hg. unfold lam_items. destruct (fx_lambda fx).
  - destruct (a ++ b ++ vpl vp ++ d ++ vkl vk) as [|p ps] eqn:E.
    + assert (En : is_nil (lam_entries a b vp d vk) = true) by (rewrite lam_entries_nil, E; reflexivity).
      destruct (lam_entries a b vp d vk); [reflexivity|discriminate En].
    + rewrite lam_params2_chunks. rewrite <- (lambda_chunks2_entries a b vp d vk Ha Hb Hd).
      f_equal. f_equal. symmetry. exact E.
  - rewrite lam_params_chunks. apply lambda_chunks_entries; try assumption. apply Hg. reflexivity.
Qed.

(* the pieces of an f-string or of a format spec *)
Definition fpart_txt (c : pyexpr) : string := match c with PStr _ raw _ => fesc raw | _ => rprint false c end.
Definition fpart_gaps (nfmt : bool) (c : pyexpr) : list nat :=
  match c with
  | PStr _ raw _ => if nfmt || (negb (fx_fesc fx) && (has_brace raw || has_unsafe raw)) then [G_FSTRING] else []
  | PParsed _ => [G_FSTRING]
  | _ => gaps false false true nfmt c
  end.

Lemma fparts_at vs nfmt :
  Forall RenderP vs -> forallb (wfk KExpr) vs = true -> flat_map (fpart_gaps nfmt) vs = [] ->
  exists gs, mapo (build (mkCtx NoParse false true nfmt)) vs = Some gs /\ map (rtext P_NONE) gs = map fpart_txt vs.
Proof.
  intros H Hw. apply mapo_render. apply forallb_Forall in Hw.
  eapply Forall_impl2; [|exact H|exact Hw]. intros c Hc Hwc Hgc. simpl in Hwc.
  destruct c; try (destruct (Hc false false true nfmt eq_refl Hwc Hgc) as [g [Bg [Rg _]]]; exists g; split; [assumption|rewrite rtext_none; exact Rg]).
  - (* literal text *) cbn [fpart_gaps] in Hgc. destruct nfmt; [discriminate Hgc|]. cbn [orb] in Hgc.
    cbn [C03_expr.build enter keeps_insub mapped node_builder injoin infmt andb negb].
    eexists; split; [reflexivity|]. rewrite rtext_none, render_Str. cbn [fpart_txt].
    destruct (fx_fesc fx); [reflexivity|]. cbn [negb andb] in Hgc.
    destruct (has_brace raw || has_unsafe raw) eqn:E; [discriminate Hgc|]. apply orb_false_iff in E. destruct E.
    symmetry. apply fesc_id; assumption.
  - (* PParsed *) discriminate Hgc.
Qed.

(* a generator expression (possibly written as a string annotation): what is inside its parentheses *)
Lemma genexp_at : forall a, is_genexp_src a = true -> kidsR RenderP a ->
  forall direct isub ijoin ifmt, wfk KExpr a = true ->
  (if fx_genexp fx then gaps direct isub ijoin ifmt a else tl (gaps direct isub ijoin ifmt a)) = [] ->
  exists e' gens', build (mkCtx NoParse isub ijoin ifmt) a = Some (GGeneratorExp e' gens')
                   /\ ("(" ++ genexp_inner e' gens' ++ ")")%string = rprint direct a.
Proof.
  induction a; intros Hs Hk direct isub ijoin ifmt Hw Hg; try discriminate Hs.
  - (* PParsed *) cbn [is_genexp_src] in Hs. cbn [kidsR] in Hk. cbn in Hw. cbn [C03_spec.gaps] in Hg.
    destruct (IHa Hs Hk direct isub false false Hw Hg) as [e' [gens' [B T]]].
    exists e', gens'. split; [exact B|exact T].
  - (* PGeneratorExp *) cbn [kidsR] in Hk. destruct Hk as [Hke Hkg]. cbn in Hw. split_andb.
    assert (Hg' : (need P_TEST a ++ gaps false false ijoin ifmt a) ++ flat_map (gaps false false ijoin ifmt) gens = []).
    { cbn [C03_spec.gaps] in Hg. destruct (fx_genexp fx); cbn [app tl] in Hg; exact Hg. }
    apply app_eq_nil in Hg'. destruct Hg' as [Hge Hgg]. apply app_eq_nil in Hge. destruct Hge as [Hne Hge].
    destruct (child_at a P_TEST ijoin ifmt Hke ltac:(assumption) eq_refl Hne Hge) as [ge [Be [Te _]]].
    destruct (children_plain gens ijoin ifmt Hkg ltac:(assumption) Hgg) as [gs [Bs Ts]].
    exists ge, gs. cbn [C03_expr.build enter keeps_insub mapped node_builder pm insub injoin infmt]. rewrite Be, Bs.
    split; [reflexivity|]. unfold genexp_inner. rewrite Te, Ts. cbn [rprint]. rewrite !sapp_assoc. reflexivity.
Qed.

Ltac rstart :=
  split; [|try exact I]; intros direct isub ijoin ifmt Hd Hwf Hg; cbn [wfk] in Hwf; cbn [andb] in Hwf; split_andb; cbn [C03_spec.gaps] in Hg; split_nil.

Ltac kid c req IH g B T :=
  destruct (child_at c req _ _ IH ltac:(assumption) ltac:(first [reflexivity | apply binop_lreq_le | apply binop_rreq_le | apply unop_prec_le]) ltac:(eassumption) ltac:(eassumption)) as [g [B [T _]]].

Ltac bsimpl := cbn [C03_expr.build enter keeps_insub mapped node_builder pm insub injoin infmt].
(* the built value is the witness: render equation left to prove, precedence and literal invariants by computation *)
Ltac fin := eexists; split; [reflexivity|split; [|split; reflexivity]].

Lemma mapo_app {A B} (f : A -> option B) l1 l2 r1 r2 :
  mapo f l1 = Some r1 -> mapo f l2 = Some r2 -> mapo f (l1 ++ l2) = Some (r1 ++ r2).
Proof.
  revert r1. induction l1 as [|x l IH]; intros r1 H1 H2; simpl in *.
  - inversion H1. exact H2.
  - destruct (f x); [|discriminate]. destruct (mapo f l) eqn:E; [|discriminate]. inversion H1; subst.
    rewrite (IH l0 eq_refl H2). reflexivity.
Qed.

(* what builds to a generator expression is one (possibly written as a string annotation) *)
Lemma build_genexp_src : forall a c e' gens', pm c = NoParse -> build c a = Some (GGeneratorExp e' gens') -> is_genexp_src a = true.
Proof.
  induction a; intros c e' gens' Hm Hb; try reflexivity; cbn in Hb; try rewrite Hm in Hb;
    repeat match type of Hb with
           | (if ?b then _ else _) = _ => destruct b
           | match ?x with _ => _ end = _ => destruct x eqn:?
           end; try discriminate Hb.
  - (* PParsed *) eapply IHa; [|exact Hb]. reflexivity.
  - (* PAttribute *) inversion Hb as [Hb']. unfold attach_attr in Hb'. destruct g; discriminate Hb'.
  - (* PKeyword *) destruct name; discriminate Hb.
Qed.

Theorem render_all : forall e, RenderP' e.
Proof.
  apply pyexpr_ind'.
  - (* PName *) intros id loc. rstart. bsimpl. fin. apply render_Name.
  - (* PNum *) intros isint r. rstart. bsimpl. eexists; split; [reflexivity|split; [apply render_Str|split; [reflexivity|]]].
    cbn [int_lit_inv is_int_lit]. apply eqb_prop in Hwf. rewrite Hwf. destruct isint; reflexivity.
  - (* PConst *) intros r. rstart. bsimpl. eexists; split; [reflexivity|split; [apply render_Str|split; [reflexivity|]]].
    cbn [int_lit_inv is_int_lit]. apply negb_true_iff in Hwf. exact Hwf.
  - (* PStr *) intros r raw parsed _. rstart. bsimpl. rewrite Heqb.
    eexists; split; [reflexivity|split; [apply render_Str|split; [reflexivity|]]].
    cbn [int_lit_inv is_int_lit]. apply negb_true_iff in Hwf. exact Hwf.
  - (* PParsed *) intros p [IH Hk]. split; [|exact Hk].
    intros direct isub ijoin ifmt Hd Hwf Hg. cbn in Hwf. cbn [C03_spec.gaps] in Hg. bsimpl. cbn [rprint prec].
    destruct (IH direct isub false false Hd Hwf Hg) as [g [B [R [P I0]]]]. exists g. repeat split; assumption.
  - (* PAttribute *) intros v a [IH _]. rstart.
    destruct (child_at v P_ATOM _ _ IH ltac:(assumption) eq_refl ltac:(eassumption) ltac:(eassumption)) as [g [B [T [R [P I0]]]]].
    bsimpl. rewrite B. pose proof (build_nonempty _ _ _ _ _ B) as Hne.
    eexists; split; [reflexivity|split; [|split; [destruct g; reflexivity|destruct g; reflexivity]]].
    rewrite (render_attach _ _ Hne). cbn [rprint]. f_equal.
    destruct g; cbn [attr_head int_lit_inv] in *; try (rewrite I0; exact T).
    + (* a constant *) rewrite render_Str in R. subst s. rewrite I0.
      destruct (is_int_lit v) eqn:Ei.
      * (* an integer literal: parenthesised, or a known gap *)
        match goal with H : _ && negb (fx_intattr fx) = false |- _ => cbn [andb] in H; apply negb_false_iff in H; rewrite H end.
        reflexivity.
      * rewrite andb_false_r. rewrite <- T. unfold C03_iter.rtext. cbn [ypar paren_if]. symmetry. apply render_Str.
    + (* a chain *) rewrite I0. rewrite <- T. unfold C03_iter.rtext, ypar. cbn [gprec]. rewrite andb_false_r. reflexivity.
  - (* PBinOp *) intros l o r [IHl _] [IHr _]. rstart. kid l (binop_lreq o) IHl gl Bl Tl. kid r (binop_rreq o) IHr gr Br Tr.
    bsimpl. rewrite Bl, Br, binop_table. eexists; split; [reflexivity|split; [|split; [apply gbinop_prec_spec|reflexivity]]].
    rewrite render_BinOp, gbin_lreq_spec, gbin_rreq_spec, Tl, Tr. reflexivity.
  - (* PBoolOp *) intros o vs IH. rstart.
    destruct (children_at vs (S (boolop_prec o)) _ _ (fproj _ IH) ltac:(assumption) (boolop_req_le o) Hg) as [gs [Bs Ts]].
    bsimpl. rewrite Bs, boolop_table. eexists; split; [reflexivity|split; [|split; [apply gboolop_prec_spec|reflexivity]]].
    rewrite render_BoolOp, gboolop_prec_spec, Ts. reflexivity.
  - (* PUnaryOp *) intros o v [IH _]. rstart. kid v (unop_prec o) IH g B T.
    bsimpl. rewrite B, unop_table. eexists; split; [reflexivity|split; [|split; [apply gunop_prec_spec|reflexivity]]].
    rewrite render_UnaryOp, gunop_prec_spec, T. reflexivity.
  - (* PCompare *) intros l ops cs [IHl _] IH. rstart. kid l P_BOR IHl gl Bl Tl.
    destruct (children_at cs P_BOR _ _ (fproj _ IH) ltac:(assumption) eq_refl ltac:(eassumption)) as [gs [Bs Ts]].
    bsimpl. rewrite Bl, Bs, cmpops_table. fin.
    match goal with H : (List.length ops =? List.length cs) = true |- _ => apply Nat.eqb_eq in H; rename H into Hlen end.
    rewrite render_Compare by (rewrite map_length, (mapo_length _ _ _ Bs); exact Hlen).
    rewrite Tl, Ts. cbn [rprint]. f_equal. apply compare_text.
    + match goal with H : negb (is_nil ops) = true |- _ => destruct ops; [discriminate H|reflexivity] end.
    + rewrite map_length. exact Hlen.
  - (* PCall *) intros fn args kws [IHf _] IHa IHk. rstart. kid fn P_ATOM IHf gf Bf Tf.
    destruct (sole_genexp (args ++ kws)) eqn:Esole; split_nil.
    + (* a generator expression as the only argument *)
      assert (Hone : exists a, args ++ kws = [a] /\ is_genexp_src a = true /\ RenderP' a /\ wfk KExpr a = true
                               /\ (if fx_genexp fx then gaps false false ijoin ifmt a else tl (gaps false false ijoin ifmt a)) = []).
      { unfold sole_genexp in Esole.
        destruct args as [|a [|a' r]], kws as [|k [|k' r']]; try discriminate Esole; cbn [app] in *.
        - exists k. inversion IHk; subst. cbn [forallb flat_map app] in *. split_andb. rewrite app_nil_r in *. (split; [reflexivity|split; [assumption|split; [assumption|split; assumption]]]).
        - exists a. inversion IHa; subst. cbn [forallb flat_map app] in *. split_andb. rewrite ?app_nil_r in *. (split; [reflexivity|split; [assumption|split; [assumption|split; assumption]]]). }
      destruct Hone as [a [Ea [Hsa [[_ Hka] [Hwa Hga]]]]].
      destruct (genexp_at a Hsa Hka false false ijoin ifmt Hwa Hga) as [e' [gens' [Ba Ta]]].
      assert (Bargs : exists a' k', mapo (build (mkCtx NoParse false ijoin ifmt)) args = Some a'
                                  /\ mapo (build (mkCtx NoParse false ijoin ifmt)) kws = Some k' /\ (a' ++ k' = [GGeneratorExp e' gens'])%list).
      { destruct args as [|x [|x' r]], kws as [|k [|k' r']]; try discriminate Ea; cbn [app] in Ea; inversion Ea; subst.
        - exists [], [GGeneratorExp e' gens']. cbn [mapo]. rewrite Ba. repeat split; reflexivity.
        - exists [GGeneratorExp e' gens'], []. cbn [mapo]. rewrite Ba. repeat split; reflexivity. }
      destruct Bargs as [a' [k' [Ba' [Bk' Eak]]]].
      bsimpl. rewrite Bf, Ba', Bk', Eak. fin.
      rewrite render_Call, call_args_genexp, Tf. cbn [rprint]. rewrite Esole. f_equal.
      rewrite <- map_app, Ea. cbn [map sconcat fold_right]. rewrite sapp_nil_r. exact Ta.
    + destruct (children_at args P_TEST _ _ (fproj _ IHa) ltac:(assumption) eq_refl ltac:(eassumption)) as [ga [Ba Ta]].
      destruct (children_at kws P_TEST _ _ (fproj _ IHk) ltac:(assumption) eq_refl ltac:(eassumption)) as [gk [Bk Tk]].
      bsimpl. rewrite Bf, Ba, Bk. fin.
      rewrite render_Call, Tf. cbn [rprint]. rewrite Esole. f_equal.
      rewrite call_args_general; [rewrite map_app, Ta, Tk; reflexivity|].
      (* the built list is not a lone generator expression *)
      pose proof (mapo_length _ _ _ Ba) as La. pose proof (mapo_length _ _ _ Bk) as Lk.
      destruct (ga ++ gk) as [|g0 r0] eqn:Egk; [exact I|]. destruct g0; try exact I. destruct r0; [|exact I]. exfalso.
      unfold sole_genexp in Esole.
      destruct ga as [|x [|x' r]], gk as [|y [|y' r']]; try discriminate Egk; cbn [app] in Egk; inversion Egk; subst.
      * destruct args; [|discriminate La]. destruct kws as [|k [|? ?]]; try discriminate Lk. cbn [app] in Esole.
        cbn [mapo] in Bk. destruct (build _ k) eqn:Ek; [|discriminate Bk]. inversion Bk; subst.
        rewrite (build_genexp_src k (mkCtx NoParse false ijoin ifmt) _ _ eq_refl Ek) in Esole. discriminate Esole.
      * destruct kws; [|discriminate Lk]. destruct args as [|k [|? ?]]; try discriminate La. cbn [app] in Esole.
        cbn [mapo] in Ba. destruct (build _ k) eqn:Ek; [|discriminate Ba]. inversion Ba; subst.
        rewrite (build_genexp_src k (mkCtx NoParse false ijoin ifmt) _ _ eq_refl Ek) in Esole. discriminate Esole.
  - (* PKeyword *) intros n v [IH _]. rstart. kid v P_TEST IH g B T.
    bsimpl. rewrite B. destruct n; fin.
    + rewrite render_Keyword, T. reflexivity.
    + rewrite render_VarKeyword, T. reflexivity.
  - (* PSubscript *) intros v lit sl [IHv _] [IHs _]. rstart. kid v P_ATOM IHv gv Bv Tv.
    destruct (IHs true true ijoin ifmt eq_refl ltac:(assumption) ltac:(assumption)) as [gs [Bs [Rs [Ps _]]]].
    bsimpl. rewrite Bv, Bs. fin.
    rewrite render_Subscript, Tv. cbn [rprint]. rewrite (rtext_at gs sl P_TEST _ Rs Ps eq_refl ltac:(assumption)). reflexivity.
  - (* PSlice *) intros lo up st IHl IHu IHs. rstart.
    destruct (child_opt lo P_TEST _ _ IHl ltac:(assumption) eq_refl ltac:(eassumption)) as [glo [Blo Rlo]].
    destruct (child_opt up P_TEST _ _ IHu ltac:(assumption) eq_refl ltac:(eassumption)) as [gup [Bup Rup]].
    destruct (child_opt st P_TEST _ _ IHs ltac:(assumption) eq_refl ltac:(eassumption)) as [gst [Bst Rst]].
    bsimpl. rewrite Blo, Bup, Bst. fin.
    rewrite render_Slice. cbn [rprint].
    destruct lo, glo; try contradiction; destruct up, gup; try contradiction; destruct st, gst; try contradiction;
      cbn [optstr]; rewrite ?Rlo, ?Rup, ?Rst; reflexivity.
  - (* PTuple *) intros es IH. rstart.
    destruct (children_at es P_TEST _ _ (fproj _ IH) ltac:(assumption) eq_refl ltac:(eassumption)) as [gs [Bs Ts]].
    bsimpl. rewrite Bs. fin.
    rewrite render_Tuple. cbn [rprint]. cbv zeta. rewrite Ts.
    assert (Hone : (match gs with [_] => "," | _ => "" end)%string = (match es with [_] => "," | _ => "" end)%string).
    { pose proof (mapo_length _ _ _ Bs) as Hl. destruct gs as [|? [|? ?]], es as [|? [|? ?]]; try discriminate Hl; reflexivity. }
    rewrite Hone.
    assert (Hn : is_nil gs = is_nil es).
    { pose proof (mapo_length _ _ _ Bs) as Hl. destruct gs, es; try discriminate Hl; reflexivity. }
    assert (Himp : tuple_par fx gs isub = negb (direct && negb (is_nil es))).
    { unfold tuple_par. rewrite Hn. subst isub.
      match goal with H : direct && is_nil es && negb (fx_tuple0 fx) = false |- _ =>
        destruct direct, (is_nil es), (fx_tuple0 fx); try reflexivity; discriminate H end. }
    rewrite Himp. destruct (direct && negb (is_nil es)); reflexivity.
  - (* PList *) intros es IH. rstart.
    destruct (children_at es P_TEST _ _ (fproj _ IH) ltac:(assumption) eq_refl Hg) as [gs [Bs Ts]].
    bsimpl. rewrite Bs. fin. rewrite render_List, Ts. reflexivity.
  - (* PSet *) intros es IH. rstart.
    destruct (children_at es P_TEST _ _ (fproj _ IH) ltac:(assumption) eq_refl Hg) as [gs [Bs Ts]].
    bsimpl. rewrite Bs. fin. rewrite render_Set, Ts. reflexivity.
  - (* PDict *) intros items IH. rstart.
    destruct (dict_items_at items _ _ IH ltac:(assumption) Hg) as [its [Bi Ri]]. unfold build_item in Bi.
    bsimpl. rewrite Bi. fin. rewrite render_Dict, Ri. reflexivity.
  - (* PDictItem *) intros k v Hk [Hv _]. split; [intros direct isub ijoin ifmt Hd Hwf; discriminate Hwf|].
    cbn [kidsR]. split; [destruct k; simpl in *; [destruct Hk; assumption|exact I]|assumption].
  - (* PIfExp *) intros b t o [IHb _] [IHt _] [IHo _]. rstart. kid b P_OR IHb gb Bb Tb. kid t P_OR IHt gtt Bt Tt. kid o P_TEST IHo go Bo To.
    bsimpl. rewrite Bb, Bt, Bo. fin. rewrite render_IfExp, Tb, Tt, To. reflexivity.
  - (* PLambda *) intros po pk vp ko vk body IHpo IHpk IHko [IHb _]. rstart. kid body P_TEST IHb gb Bb Tb.
    destruct (params_at PO po _ _ eq_refl IHpo ltac:(assumption) ltac:(eassumption)) as [a [Ba Ta]].
    destruct (params_at PK pk _ _ eq_refl IHpk ltac:(assumption) ltac:(eassumption)) as [b [Bb' Tb']].
    destruct (params_at KO ko _ _ eq_refl IHko ltac:(assumption) ltac:(eassumption)) as [d [Bd Td]].
    pose proof (par_of_allk _ _ _ _ _ Ba) as Ka. pose proof (par_of_allk _ _ _ _ _ Bb') as Kb. pose proof (par_of_allk _ _ _ _ _ Bd) as Kd.
    unfold par_of, gpar in Ba, Bb', Bd. bsimpl. rewrite Ba, Bb', Bd, Bb. fin.
    change (match vp with Some n => [(n, VP, @None gexpr)] | None => [] end) with (vpl vp).
    change (match vk with Some n => [(n, VK, @None gexpr)] | None => [] end) with (vkl vk).
    assert (Ea : is_nil a = is_nil po) by (apply (is_nil_of_map_eq _ _ _ _ Ta)).
    assert (Eb : is_nil b = is_nil pk) by (apply (is_nil_of_map_eq _ _ _ _ Tb')).
    assert (Ed : is_nil d = is_nil ko) by (apply (is_nil_of_map_eq _ _ _ _ Td)).
    rewrite render_Lambda, Tb, lam_items_entries; try assumption.
    2:{ intros Hfl. rewrite Ea, Eb, Ed.
        match goal with H : lambda_gap po pk vp ko && negb (fx_lambda fx) = false |- _ =>
          rewrite Hfl in H; cbn [negb] in H; rewrite andb_true_r in H; exact H end. }
    rewrite <- lam_entries_nil. unfold lam_entries. rewrite Ta, Tb', Td, Ea, Ed. cbn [rprint]. cbv zeta.
    match goal with |- context [is_nil ?l] => destruct (is_nil l) eqn:En end.
    + destruct (map (rprint false) po), (if is_nil po then [] else ["/"]), (map (rprint false) pk); try discriminate En.
      cbn [app] in *. destruct vp; [discriminate En|]. destruct (is_nil ko); [|discriminate En].
      destruct (map (rprint false) ko); [|discriminate En]. destruct vk; [discriminate En|]. reflexivity.
    + rewrite !sapp_assoc. reflexivity.
  - (* PParam *) intros n d Hd. split; [intros direct isub ijoin ifmt Hd' Hwf; discriminate Hwf|].
    cbn [kidsR]. destruct d; simpl in *; [destruct Hd; assumption|exact I].
  - (* PNamedExpr *) intros t v [IHt _] [IHv _]. rstart. kid t P_ATOM IHt gt' Bt Tt. kid v P_TEST IHv gv Bv Tv.
    bsimpl. rewrite Bt, Bv. fin. rewrite render_NamedExpr, Tt, Tv. reflexivity.
  - (* PStarred *) intros v [IH _]. rstart. kid v P_BOR IH g B T.
    bsimpl. rewrite B. fin. rewrite render_VarPositional, T. reflexivity.
  - (* PListComp *) intros e gens [IHe _] IH. rstart. kid e P_TEST IHe ge1 Be Te.
    destruct (children_plain gens _ _ (fproj _ IH) ltac:(assumption) ltac:(eassumption)) as [gs [Bs Ts]].
    bsimpl. rewrite Be, Bs. fin. rewrite render_ListComp, Te, Ts. reflexivity.
  - (* PSetComp *) intros e gens [IHe _] IH. rstart. kid e P_TEST IHe ge1 Be Te.
    destruct (children_plain gens _ _ (fproj _ IH) ltac:(assumption) ltac:(eassumption)) as [gs [Bs Ts]].
    bsimpl. rewrite Be, Bs. fin. rewrite render_SetComp, Te, Ts. reflexivity.
  - (* PGeneratorExp *) intros e gens [IHe _] IH. split; [|cbn [kidsR]; split; [exact IHe|exact (fproj _ IH)]].
    intros direct isub ijoin ifmt Hd Hwf Hg.
    assert (Hfx : fx_genexp fx = true).
    { cbn [C03_spec.gaps] in Hg. destruct (fx_genexp fx); [reflexivity|discriminate Hg]. }
    destruct (genexp_at (PGeneratorExp e gens) eq_refl (conj IHe (fproj _ IH)) direct isub ijoin ifmt Hwf) as [e' [gens' [B T]]].
    { rewrite Hfx. exact Hg. }
    exists (GGeneratorExp e' gens'). split; [exact B|split; [|split; reflexivity]].
    rewrite render_GeneratorExp, Hfx. exact T.
  - (* PDictComp *) intros k v gens [IHk _] [IHv _] IH. rstart. kid k P_TEST IHk gk Bk Tk. kid v P_TEST IHv gv Bv Tv.
    destruct (children_plain gens _ _ (fproj _ IH) ltac:(assumption) ltac:(eassumption)) as [gs [Bs Ts]].
    bsimpl. rewrite Bk, Bv, Bs. fin. rewrite render_DictComp, Tk, Tv, Ts. reflexivity.
  - (* PComprehension *) intros t it ifs a [IHt _] [IHi _] IH. rstart. kid t P_BOR IHt gt' Bt Tt. kid it P_OR IHi gi Bi Ti.
    destruct (children_at ifs P_OR _ _ (fproj _ IH) ltac:(assumption) eq_refl ltac:(eassumption)) as [gs [Bs Ts]].
    bsimpl. rewrite Bt, Bi, Bs. fin.
    rewrite render_Comprehension, Tt, Ti. cbn [rprint].
    rewrite <- (is_nil_map (rtext P_OR) gs). rewrite (sjoin_prefix " if " (map (rtext P_OR) gs)). rewrite Ts, map_map. reflexivity.
  - (* PJoinedStr *) intros vs IH. split; [|cbn [kidsR]; exact (fproj _ IH)].
    intros direct isub ijoin ifmt Hd Hwf Hg. cbn in Hwf. cbn [C03_spec.gaps] in Hg.
    destruct (fparts_at vs (if fx_fnest fx then false else ifmt) (fproj _ IH) Hwf Hg) as [gs [Bs Ts]].
    bsimpl. rewrite Bs. fin. rewrite render_JoinedStr, Ts. reflexivity.
  - (* PFormattedValue *) intros v conv spec [IH _] IHsp. rstart.
    destruct (child_at v P_OR _ _ IH ltac:(assumption) eq_refl ltac:(eassumption) ltac:(eassumption)) as [g [B [T [R [P _]]]]].
    bsimpl. rewrite B.
    (* the brace glue is the reference printer's *)
    assert (Hglue : glue_text g = (if starts_brace (paren_if (Nat.ltb (prec v) P_OR) (rprint false v)) then " " else "")%string).
    { unfold glue_text. rewrite P, R.
      destruct (fx_fglue fx) eqn:Efg.
      - cbn [andb]. destruct (prec v <? P_OR) eqn:El.
        + apply Nat.ltb_lt in El. assert (El' : Nat.leb P_OR (prec v) = false) by (apply Nat.leb_gt; exact El).
          rewrite El'. reflexivity.
        + apply Nat.ltb_ge in El. assert (El' : Nat.leb P_OR (prec v) = true) by (apply Nat.leb_le; exact El).
          rewrite El'. reflexivity.
      - cbn [andb]. match goal with H : negb false && starts_brace (ref_at P_OR v) = false |- _ =>
          cbn [negb andb] in H; unfold ref_at in H; rewrite H; reflexivity end. }
    destruct (fx_fconv fx) eqn:Efc.
    + (* conversion and format spec are stored *)
      destruct spec as [sp|].
      * destruct sp as [| | | | | | | | | | | | | | | | | | | | | | | | | | | | |fvs| | | |];
          try (match goal with H : (_ :: _) = [] |- _ => discriminate H | H : _ ++ (_ :: _) = [] |- _ => apply app_eq_nil in H; destruct H; discriminate end).
        cbn [optb]. simpl in IHsp. destruct IHsp as [_ IHk]. cbn [kidsR] in IHk.
        match goal with H : wfk KExpr (PJoinedStr fvs) = true |- _ => cbn in H; rename H into Hwsp end.
        match goal with H : flat_map _ fvs = [] |- _ => rename H into Hgsp end.
        destruct (fparts_at fvs false IHk Hwsp Hgsp) as [gs [Bs Ts]].
        bsimpl. destruct (fx_fnest fx); rewrite Bs; fin;
          rewrite render_Formatted, Hglue, T; cbn [rprint spec_text]; cbv zeta; rewrite Ts, ?sapp_assoc; reflexivity.
      * cbn [optb]. fin. rewrite render_Formatted, Hglue, T. cbn [rprint spec_text]. cbv zeta. rewrite ?sapp_assoc. reflexivity.
    + (* dropped by the unrepaired builder: a gap unless absent *)
      match goal with H : negb false && _ = false |- _ => cbn [negb andb] in H; rename H into Ecs end.
      apply orb_false_iff in Ecs. destruct Ecs as [Ec Es]. apply negb_false_iff in Ec. apply Z.eqb_eq in Ec. subst conv.
      destruct spec; [discriminate Es|]. fin.
      rewrite render_Formatted, Hglue, T. cbn [rprint spec_text conv_text]. cbv zeta. rewrite ?sapp_assoc. reflexivity.
  - (* PYield *) intros v IH. rstart.
    destruct (child_opt v P_TEST _ _ IH ltac:(assumption) eq_refl Hg) as [gv [Bv Rv]].
    bsimpl. rewrite Bv. fin.
    rewrite render_Yield. cbn [rprint]. destruct v, gv; try contradiction; [rewrite Rv|]; reflexivity.
  - (* PYieldFrom *) intros v [IH _]. rstart. kid v P_TEST IH g B T.
    bsimpl. rewrite B. fin. rewrite render_YieldFrom, T. reflexivity.
  - (* PAwait: gap family 10 *) intros v _. split; [|exact I].
    intros direct isub ijoin ifmt Hd Hwf Hg. cbn [C03_spec.gaps] in Hg. discriminate Hg.
Qed.

(* ---------- the property-level statements ---------- *)
Theorem render_eq_reference_modulo_known (top : nat) (e : pyexpr) :
  wf e = true -> known_gap fx top e = false ->
  exists g, build ctx0 e = Some g /\ render g = ref_top top e.
Proof.
  intros Hw Hk. unfold known_gap, gaps_top in Hk. apply negb_false_iff in Hk.
  destruct (need_top top e ++ gaps false false false false e) eqn:E; [|discriminate Hk].
  apply app_eq_nil in E. destruct E as [Hn Hg].
  destruct (proj1 (render_all e) false false false false eq_refl Hw Hg) as [g [B [R _]]].
  exists g. split; [exact B|]. rewrite R. unfold ref_top, ref_at. unfold need_top in Hn.
  destruct (prec e <? top); [discriminate Hn|reflexivity].
Qed.

(* with string parsing: the text is the reference text of the tree in which the rule's strings are code *)
Theorem render_eq_reference_with_strings (top : nat) (m : pmode) (e : pyexpr) :
  rule_ok (fx_litroot fx) e = true -> wf (C03_spec.subst fx env m false false e) = true ->
  known_gap fx top (C03_spec.subst fx env m false false e) = false ->
  exists g, build (mkCtx m false false false) e = Some g /\ render g = ref_top top (C03_spec.subst fx env m false false e).
Proof.
  intros Hn Hw Hk. rewrite (string_annotation_rule fx env e (mkCtx m false false false) Hn).
  exact (render_eq_reference_modulo_known top _ Hw Hk).
Qed.

End Render.
