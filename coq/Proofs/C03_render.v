(* C03 proofs, part 3: what Griffe's printer writes for each node, as a string equation over its children; the lambda
   parameter loop; and the main theorem: outside the known-gap families str(build e) is the reference printer's text. *)
From Coq Require Import List ZArith String Ascii Bool Arith Lia.
From Verif Require Import Lib.Sexp Model.C03_ops Gen.C03_tables Model.C03_expr Model.C03_spec
  Proofs.C03_ind Proofs.C03_iter Proofs.C03_rule.
Import ListNotations.
Open Scope list_scope. Open Scope nat_scope. Open Scope string_scope.

Ltac rnorm :=
  unfold render at 1; autorewrite with iter_eq; cbn [app];
  repeat (rewrite ?render_items_app, ?render_items_cons_str, ?render_ijoin, ?map_render_yb, ?render_yb, ?render_items_nil, ?sapp_nil_r).

(* ---------- Griffe's printer, node by node ---------- *)
Lemma render_Str s : render (GStr s) = s.
Proof. rnorm. rewrite ?sapp_assoc. reflexivity. Qed.
Lemma render_Name n p : render (GName n p) = n.
Proof. unfold render, render_items. simpl. apply sapp_nil_r. Qed.
Lemma render_Attribute vs : render (GAttribute vs) = sjoin "." (map render vs).
Proof. rnorm. rewrite ?sapp_assoc. reflexivity. Qed.
Lemma render_BinOp l op r : render (GBinOp l op r) = render l ++ " " ++ op ++ " " ++ render r.
Proof. rnorm. rewrite !sapp_assoc. reflexivity. Qed.
Lemma render_BoolOp op vs : render (GBoolOp op vs) = sjoin (" " ++ op ++ " ") (map render vs).
Proof. rnorm. rewrite ?sapp_assoc. reflexivity. Qed.
Lemma render_Call f args : render (GCall f args) = render f ++ "(" ++ sjoin ", " (map render args) ++ ")".
Proof. rnorm. rewrite ?sapp_assoc. reflexivity. Qed.
Lemma render_Formatted v : render (GFormatted v) = "{" ++ render v ++ "}".
Proof. rnorm. rewrite ?sapp_assoc. reflexivity. Qed.
Lemma render_GeneratorExp e gens : render (GGeneratorExp e gens) = render e ++ " " ++ sjoin " " (map render gens).
Proof. rnorm. rewrite ?sapp_assoc. reflexivity. Qed.
Lemma render_IfExp b t o : render (GIfExp b t o) = render b ++ " if " ++ render t ++ " else " ++ render o.
Proof. rnorm. rewrite ?sapp_assoc. reflexivity. Qed.
Lemma render_JoinedStr vs : render (GJoinedStr vs) = "f'" ++ sconcat (map render vs) ++ "'".
Proof. rnorm. rewrite sjoin_empty_sep. reflexivity. Qed.
Lemma render_Keyword n v : render (GKeyword n v) = n ++ "=" ++ render v.
Proof. rnorm. rewrite ?sapp_assoc. reflexivity. Qed.
Lemma render_VarPositional v : render (GVarPositional v) = "*" ++ render v.
Proof. rnorm. rewrite ?sapp_assoc. reflexivity. Qed.
Lemma render_VarKeyword v : render (GVarKeyword v) = "**" ++ render v.
Proof. rnorm. rewrite ?sapp_assoc. reflexivity. Qed.
Lemma render_List es : render (GList es) = "[" ++ sjoin ", " (map render es) ++ "]".
Proof. rnorm. rewrite ?sapp_assoc. reflexivity. Qed.
Lemma render_Set es : render (GSet es) = "{" ++ sjoin ", " (map render es) ++ "}".
Proof. rnorm. rewrite ?sapp_assoc. reflexivity. Qed.
Lemma render_ListComp e gens : render (GListComp e gens) = "[" ++ render e ++ " " ++ sjoin " " (map render gens) ++ "]".
Proof. rnorm. rewrite ?sapp_assoc. reflexivity. Qed.
Lemma render_SetComp e gens : render (GSetComp e gens) = "{" ++ render e ++ " " ++ sjoin " " (map render gens) ++ "}".
Proof. rnorm. rewrite ?sapp_assoc. reflexivity. Qed.
Lemma render_NamedExpr t v : render (GNamedExpr t v) = "(" ++ render t ++ " := " ++ render v ++ ")".
Proof. rnorm. rewrite ?sapp_assoc. reflexivity. Qed.
Lemma render_Subscript l s : render (GSubscript l s) = render l ++ "[" ++ render s ++ "]".
Proof. rnorm. rewrite ?sapp_assoc. reflexivity. Qed.
Lemma render_UnaryOp op v : render (GUnaryOp op v) = op ++ render v.
Proof. rnorm. rewrite ?sapp_assoc. reflexivity. Qed.
Lemma render_YieldFrom v : render (GYieldFrom v) = "yield from " ++ render v.
Proof. rnorm. rewrite ?sapp_assoc. reflexivity. Qed.
Lemma render_Yield v : render (GYield v) = "yield" ++ (match v with Some c => " " ++ render c | None => "" end).
Proof. destruct v; rnorm; reflexivity. Qed.
Lemma render_Slice lo up st :
  render (GSlice lo up st) =
  optstr render lo ++ ":" ++ optstr render up ++ (match st with Some s => ":" ++ render s | None => "" end).
Proof. destruct lo, up, st; rnorm; unfold yob, optstr; rewrite ?render_yb, ?render_items_nil; rewrite ?sapp_assoc; reflexivity. Qed.
Lemma render_Tuple es implicit :
  render (GTuple es implicit) =
  let body := sjoin ", " (map render es) ++ (match es with [_] => "," | _ => "" end) in
  if implicit then body else "(" ++ body ++ ")".
Proof. destruct implicit, es as [|? [|? ?]]; rnorm; rewrite ?sapp_assoc; reflexivity. Qed.
Lemma render_Comprehension t it conds a :
  render (GComprehension t it conds a) =
  (if a then "async " else "") ++ "for " ++ render t ++ " in " ++ render it
  ++ (if is_nil conds then "" else " if " ++ sjoin " if " (map render conds)).
Proof. destruct a, conds; rnorm; cbn [is_nil]; rnorm; rewrite ?sapp_assoc; reflexivity. Qed.
Lemma render_Dict items :
  render (GDict items) =
  "{" ++ sjoin ", " (map (fun kv => (match fst kv with None => "**" | Some k => render k ++ ": " end) ++ render (snd kv)) items) ++ "}".
Proof.
  rnorm. rewrite map_map. f_equal. f_equal. f_equal. apply map_ext. intros [[k|] v]; unfold dict_item; simpl fst; simpl snd; rnorm;
    rewrite ?sapp_assoc; reflexivity.
Qed.
Lemma render_DictComp k v gens :
  render (GDictComp k v gens) = "{" ++ render k ++ ": " ++ render v ++ " " ++ sjoin " " (map render gens) ++ "}".
Proof. rnorm. rewrite ?sapp_assoc. reflexivity. Qed.
Lemma render_Lambda params body :
  render (GLambda params body) =
  "lambda" ++ (if is_nil params then "" else " ")
  ++ render_items (lam_params (map (conv_param true) params) false false false) ++ ": " ++ render body.
Proof. destruct params; rnorm; reflexivity. Qed.

(* comparison chains: with as many operators as comparators the zip has no filler *)
Lemma render_cmp_zip ops (gs : list gexpr) :
  List.length ops = List.length gs ->
  map render_items (cmp_zip ops (map (yb true) gs)) = map (fun oc => fst oc ++ " " ++ snd oc) (combine ops (map render gs)).
Proof.
  revert gs. induction ops as [|o ops IH]; intros [|g gs] H; try discriminate; [reflexivity|].
  simpl in H. injection H as H. cbn [cmp_zip map combine fst snd]. rewrite IH by assumption. f_equal. rnorm. reflexivity.
Qed.
Lemma render_Compare l ops cs :
  List.length ops = List.length cs ->
  render (GCompare l ops cs) = render l ++ " " ++ sjoin " " (map (fun oc => fst oc ++ " " ++ snd oc) (combine ops (map render cs))).
Proof. intros H. rnorm. rewrite render_cmp_zip by assumption. reflexivity. Qed.

(* ---------- the lambda parameter loop ---------- *)
Definition gpar := (string * pkind * option gexpr)%type.
Definition pkindof (p : gpar) : pkind := snd (fst p).
Definition gptxt (p : gpar) : string :=
  fst (fst p) ++ (match snd p with Some d => if is_variadic (pkindof p) then "" else "=" ++ render d | None => "" end).

(* one text chunk per parameter; the pos_or_kw flag of the loop never influences the output *)
Fixpoint lam_chunks (ps : list gpar) (f1 f3 : bool) : list string :=
  match ps with
  | [] => []
  | p :: rest =>
      let k := pkindof p in
      let pre := match k with VP => "*" | VK => "**" | KO => if f3 then "" else "*, " | _ => "" end in
      let f1' := match k with PO => true | _ => f1 end in
      let sl := negb (is_po k) && f1' in
      (pre ++ (if sl then "/, " else "") ++ gptxt p) :: lam_chunks rest (if sl then false else f1') (match k with KO => true | _ => f3 end)
  end.

Lemma lam_params_chunks ps f1 f2 f3 :
  render_items (lam_params (map (conv_param true) ps) f1 f2 f3) = sjoin ", " (lam_chunks ps f1 f3).
Proof.
  revert f1 f2 f3. induction ps as [|[[n k] d] ps IH]; intros f1 f2 f3; [reflexivity|].
  cbn [map conv_param lam_params lam_chunks fst snd pkindof].
  rewrite is_nil_map.
  assert (Hj : forall x, sjoin ", " (x :: lam_chunks ps
            (if negb (is_po k) && match k with PO => true | _ => f1 end then false else match k with PO => true | _ => f1 end)
            (match k with KO => true | _ => f3 end)) =
          x ++ (if is_nil ps then "" else ", ") ++ sjoin ", " (lam_chunks ps
            (if negb (is_po k) && match k with PO => true | _ => f1 end then false else match k with PO => true | _ => f1 end)
            (match k with KO => true | _ => f3 end))).
  { intros x. destruct ps as [|q ps]; [simpl; rewrite sapp_nil_r; reflexivity|]. reflexivity. }
  rewrite Hj. unfold gptxt. cbn [fst snd pkindof].
  destruct k, f1, f3, d as [dd|]; cbn [is_po is_variadic negb andb];
    repeat (rewrite ?render_items_app, ?render_items_cons_str, ?render_items_nil, ?render_yb, ?IH, ?sapp_nil_r);
    destruct (is_nil ps); repeat (rewrite ?render_items_app, ?render_items_cons_str, ?render_items_nil, ?IH, ?sapp_nil_r);
    rewrite ?sapp_assoc; cbn [String.append]; rewrite ?sapp_assoc; reflexivity.
Qed.

Definition allk (k : pkind) (l : list gpar) : Prop := Forall (fun p => pkindof p = k) l.

Lemma chunks_po l rest f1 f3 :
  allk PO l -> lam_chunks (l ++ rest) f1 f3 = (map gptxt l ++ lam_chunks rest (f1 || negb (is_nil l)) f3)%list.
Proof.
  intros H. revert f1. induction H as [|p l Hp _ IH]; intros f1.
  - simpl. rewrite orb_false_r. reflexivity.
  - cbn [app lam_chunks map]. rewrite Hp. cbn [is_po negb andb]. rewrite IH. cbn [String.append is_nil negb].
    rewrite orb_true_r. destruct l; reflexivity.
Qed.

Lemma chunks_pk0 l rest f3 :
  allk PK l -> lam_chunks (l ++ rest) false f3 = (map gptxt l ++ lam_chunks rest false f3)%list.
Proof.
  induction 1 as [|p l Hp _ IH]; [reflexivity|].
  cbn [app lam_chunks map]. rewrite Hp. cbn [is_po negb andb]. rewrite IH. reflexivity.
Qed.

Lemma chunks_pk l rest f1 f3 :
  allk PK l ->
  lam_chunks (l ++ rest) f1 f3 =
  ((match l with [] => [] | p :: r => ((if f1 then "/, " else "") ++ gptxt p)%string :: map gptxt r end)
   ++ lam_chunks rest (if is_nil l then f1 else false) f3)%list.
Proof.
  intros H. destruct H as [|p l Hp Hl]; [reflexivity|].
  cbn [app lam_chunks is_nil]. rewrite Hp. destruct f1; cbn [is_po negb andb]; rewrite (chunks_pk0 l rest f3 Hl); reflexivity.
Qed.

Lemma chunks_ko1 l rest :
  allk KO l -> lam_chunks (l ++ rest) false true = (map gptxt l ++ lam_chunks rest false true)%list.
Proof.
  induction 1 as [|p l Hp _ IH]; [reflexivity|].
  cbn [app lam_chunks map]. rewrite Hp. cbn [is_po negb andb]. rewrite IH. reflexivity.
Qed.

Lemma chunks_ko l rest f3 :
  allk KO l ->
  lam_chunks (l ++ rest) false f3 =
  ((match l with [] => [] | p :: r => ((if f3 then "" else "*, ") ++ gptxt p)%string :: map gptxt r end)
   ++ lam_chunks rest false (f3 || negb (is_nil l)))%list.
Proof.
  intros H. destruct H as [|p l Hp Hl].
  - simpl. rewrite orb_false_r. reflexivity.
  - cbn [app lam_chunks is_nil negb]. rewrite Hp. cbn [is_po negb andb]. rewrite (chunks_ko1 l rest Hl), orb_true_r.
    destruct f3; reflexivity.
Qed.

Definition vpl (vp : option string) : list gpar := match vp with Some n => [(n, VP, None)] | None => [] end.
Definition vkl (vk : option string) : list gpar := match vk with Some n => [(n, VK, None)] | None => [] end.

Definition lam_entries (a b : list gpar) (vp : option string) (d : list gpar) (vk : option string) : list string :=
  (map gptxt a ++ (if is_nil a then [] else ["/"]) ++ map gptxt b
   ++ (match vp with Some n => [("*" ++ n)%string] | None => if is_nil d then [] else ["*"] end)
   ++ map gptxt d ++ (match vk with Some n => [("**" ++ n)%string] | None => [] end))%list.

Lemma sjoin_glue0 (sep a b : string) (ys : list string) :
  sjoin sep ((a ++ sep ++ b) :: ys) = sjoin sep (a :: b :: ys).
Proof. exact (sjoin_glue sep a b [] ys). Qed.

Lemma lambda_chunks_entries a b vp d vk :
  allk PO a -> allk PK b -> allk KO d ->
  (negb (is_nil a) && is_nil b) || (match vp with Some _ => negb (is_nil d) | None => false end) = false ->
  sjoin ", " (lam_chunks (a ++ b ++ vpl vp ++ d ++ vkl vk) false false) = sjoin ", " (lam_entries a b vp d vk).
Proof.
  intros Ha Hb Hd Hg. apply orb_false_iff in Hg. destruct Hg as [Hg1 Hg2].
  rewrite (chunks_po a _ false false Ha). cbn [orb].
  rewrite (chunks_pk b _ _ false Hb).
  assert (Hf1 : (if is_nil b then negb (is_nil a) else false) = false).
  { destruct (is_nil b); [|reflexivity]. rewrite andb_true_r in Hg1. exact Hg1. }
  rewrite Hf1. unfold lam_entries.
  (* the tail after the positional parameters *)
  assert (Htail : forall xs,
    sjoin ", " (xs ++ lam_chunks (vpl vp ++ d ++ vkl vk) false false)%list =
    sjoin ", " (xs ++ (match vp with Some n => [("*" ++ n)%string] | None => if is_nil d then [] else ["*"] end)
                   ++ map gptxt d ++ (match vk with Some n => [("**" ++ n)%string] | None => [] end))%list).
  { intros xs. destruct vp as [n|]; cbn [vpl app].
    - (* *args present: no keyword-only parameters *)
      destruct d as [|q d]; [|discriminate]. cbn [lam_chunks pkindof fst snd is_po negb andb app map gptxt is_variadic].
      destruct vk as [m|]; cbn [vkl lam_chunks pkindof fst snd is_po negb andb app gptxt is_variadic String.append];
        rewrite ?sapp_nil_r; reflexivity.
    - rewrite (chunks_ko d _ false Hd). cbn [orb].
      assert (Hvk : forall f3, lam_chunks (vkl vk) false f3 = match vk with Some n => [("**" ++ n)%string] | None => [] end).
      { intros f3. destruct vk; cbn [vkl lam_chunks pkindof fst snd is_po negb andb gptxt is_variadic String.append];
          rewrite ?sapp_nil_r; reflexivity. }
      rewrite Hvk. destruct d as [|q d]; [reflexivity|]. cbn [is_nil app map].
      change ("*, " ++ gptxt q) with ("*" ++ ", " ++ gptxt q). rewrite sjoin_glue. reflexivity. }
  destruct a as [|p a]; cbn [is_nil negb map app].
  - (* no positional-only parameters *)
    destruct b as [|q b]; cbn [app String.append]; [apply (Htail [])|].
    change (gptxt q :: (map gptxt b ++ ?t)%list) with ((gptxt q :: map gptxt b) ++ t)%list. 
    rewrite <- !app_comm_cons. apply (Htail (gptxt q :: map gptxt b)).
  - destruct b as [|q b]; [discriminate|]. cbn [app].
    change ("/, " ++ gptxt q) with ("/" ++ ", " ++ gptxt q).
    rewrite (app_comm_cons (map gptxt a)), (sjoin_glue ", " "/" (gptxt q) (gptxt p :: map gptxt a)).
    replace ((gptxt p :: map gptxt a) ++ "/" :: gptxt q :: (map gptxt b ++ lam_chunks (vpl vp ++ d ++ vkl vk) false false))%list
      with (((gptxt p :: map gptxt a) ++ "/" :: gptxt q :: map gptxt b) ++ lam_chunks (vpl vp ++ d ++ vkl vk) false false)%list
      by (rewrite <- app_assoc; reflexivity).
    rewrite Htail. rewrite <- app_assoc. reflexivity.
Qed.

(* ---------- the main induction ---------- *)
Open Scope list_scope. Open Scope nat_scope.

Definition gnonempty (g : gexpr) : Prop := match g with GAttribute [] => False | _ => True end.

Definition RenderP (e : pyexpr) : Prop :=
  forall direct isub ijoin ifmt,
    isub = direct -> wfk KExpr e = true -> gaps direct isub ijoin ifmt e = [] ->
    exists g, build (mkCtx NoParse isub ijoin ifmt) e = Some g /\ gnonempty g /\ render g = rprint direct e.

Definition RenderP' (e : pyexpr) : Prop := RenderP e /\ kidsP RenderP e.

Ltac split_nil :=
  repeat match goal with
         | H : _ ++ _ = [] |- _ => apply app_eq_nil in H; destruct H
         | H : _ :: _ = [] |- _ => discriminate H
         | H : (if ?b then _ :: _ else []) = [] |- _ => destruct b eqn:?; [discriminate H|clear H]
         end.

Lemma need_nil req c : need req c = [] -> (prec c <? req) = false.
Proof. unfold need. destruct (prec c <? req); [discriminate|reflexivity]. Qed.

Lemma child_at c req ijoin ifmt :
  RenderP c -> wfk KExpr c = true -> need req c = [] -> gaps false false ijoin ifmt c = [] ->
  exists g, build (mkCtx NoParse false ijoin ifmt) c = Some g /\ gnonempty g
            /\ render g = paren_if (prec c <? req) (rprint false c).
Proof.
  intros H Hw Hn Hg. rewrite (need_nil _ _ Hn). cbn [paren_if].
  apply H; try assumption. reflexivity.
Qed.

Lemma mapo_render {B} (bld : pyexpr -> option B) (txt : B -> string) (G : pyexpr -> list nat) (R : pyexpr -> string) vs :
  Forall (fun c => G c = [] -> exists g, bld c = Some g /\ txt g = R c) vs ->
  flat_map G vs = [] -> exists gs, mapo bld vs = Some gs /\ map txt gs = map R vs.
Proof.
  induction 1 as [|x l Hx _ IH]; intros Hg; [exists []; split; reflexivity|].
  simpl in Hg. apply app_eq_nil in Hg. destruct Hg as [Hg1 Hg2].
  destruct (Hx Hg1) as [g [Bg Tg]]. destruct (IH Hg2) as [gs [Bgs Tgs]].
  exists (g :: gs). simpl. rewrite Bg, Bgs, Tg, Tgs. split; reflexivity.
Qed.

Lemma children_at vs req ijoin ifmt :
  Forall RenderP' vs -> forallb (wfk KExpr) vs = true ->
  flat_map (fun c => need req c ++ gaps false false ijoin ifmt c) vs = [] ->
  exists gs, mapo (build (mkCtx NoParse false ijoin ifmt)) vs = Some gs /\
             map render gs = map (fun c => paren_if (prec c <? req) (rprint false c)) vs.
Proof.
  intros H Hw. apply mapo_render. apply forallb_Forall in Hw.
  eapply Forall_impl2; [|exact H|exact Hw]. intros c [Hc _] Hwc Hg. simpl in Hwc.
  apply app_eq_nil in Hg. destruct Hg as [Hn Hg].
  destruct (child_at c req ijoin ifmt Hc Hwc Hn Hg) as [g [Bg [_ Rg]]]. exists g. split; assumption.
Qed.

Lemma children_plain vs ijoin ifmt :
  Forall RenderP' vs -> forallb (wfk KExpr) vs = true ->
  flat_map (gaps false false ijoin ifmt) vs = [] ->
  exists gs, mapo (build (mkCtx NoParse false ijoin ifmt)) vs = Some gs /\ map render gs = map (rprint false) vs.
Proof.
  intros H Hw. apply mapo_render. apply forallb_Forall in Hw.
  eapply Forall_impl2; [|exact H|exact Hw]. intros c [Hc _] Hwc Hg. simpl in Hwc.
  destruct (Hc false false ijoin ifmt eq_refl Hwc Hg) as [g [Bg [_ Rg]]]. exists g. split; assumption.
Qed.

Lemma child_opt o req ijoin ifmt :
  OptP RenderP' o -> (match o with Some c => wfk KExpr c | None => true end) = true ->
  (match o with Some c => need req c ++ gaps false false ijoin ifmt c | None => [] end) = [] ->
  exists go, optb (build (mkCtx NoParse false ijoin ifmt)) o = Some go /\
             match o, go with
             | Some c, Some g => render g = paren_if (prec c <? req) (rprint false c)
             | None, None => True
             | _, _ => False
             end.
Proof.
  destruct o as [c|]; simpl; intros H Hw Hg; [|exists None; split; [reflexivity|exact I]].
  apply app_eq_nil in Hg. destruct Hg as [Hn Hg]. destruct H as [H _].
  destruct (child_at c req ijoin ifmt H Hw Hn Hg) as [g [Bg [_ Rg]]].
  exists (Some g). rewrite Bg. split; [reflexivity|exact Rg].
Qed.

Lemma esc_braces_id s : has_brace s = false -> esc_braces s = s.
Proof.
  induction s as [|c s IH]; [reflexivity|]. cbn [has_brace esc_braces]. intros H.
  apply orb_false_iff in H. destruct H as [H1 H2]. rewrite H1. rewrite IH by assumption. reflexivity.
Qed.

Lemma sjoin_snoc sep (l : list string) x : l <> [] -> sjoin sep (l ++ [x]) = (sjoin sep l ++ sep ++ x)%string.
Proof.
  induction l as [|y l IH]; [congruence|]. intros _. destruct l as [|z l].
  - reflexivity.
  - change ((y :: z :: l) ++ [x]) with (y :: ((z :: l) ++ [x])).
    rewrite (sjoin_cons sep y ((z :: l) ++ [x])) by discriminate. rewrite IH by discriminate.
    rewrite (sjoin_cons sep y (z :: l)) by discriminate. rewrite !sapp_assoc. reflexivity.
Qed.

Lemma render_attach g a : gnonempty g -> render (attach_attr g a) = (render g ++ "." ++ a)%string /\ gnonempty (attach_attr g a).
Proof.
  intros H. destruct g; try (split; [unfold attach_attr; rewrite render_Attribute; cbn [map sjoin]; rewrite !render_Name; reflexivity|exact I]).
  (* GAttribute *)
  unfold attach_attr. split.
  - rewrite !render_Attribute, map_app. cbn [map]. rewrite render_Name. apply sjoin_snoc. destruct vs; [contradiction|discriminate].
  - destruct vs; [contradiction|exact I].
Qed.

Lemma combine_map_l {A B C} (f : A -> B) (l : list A) (r : list C) :
  combine (map f l) r = map (fun p => (f (fst p), snd p)) (combine l r).
Proof. revert r. induction l as [|x l IH]; intros [|y r]; simpl; try reflexivity. rewrite IH. reflexivity. Qed.

Lemma compare_text (ops : list cmpop) (R : list string) :
  is_nil ops = false -> List.length ops = List.length R ->
  (" " ++ sjoin " " (map (fun oc => fst oc ++ " " ++ snd oc) (combine (map spec_cmpop ops) R)))%string
  = sconcat (map (fun oc : cmpop * string => (" " ++ spec_cmpop (fst oc) ++ " " ++ snd oc)%string) (combine ops R)).
Proof.
  intros Hn Hl. rewrite combine_map_l, map_map. cbn [fst snd].
  pose proof (sjoin_prefix " " (map (fun x : cmpop * string => (spec_cmpop (fst x) ++ " " ++ snd x)%string) (combine ops R))) as Hp.
  destruct ops as [|o ops]; [discriminate|]. destruct R as [|r R]; [discriminate|].
  cbn [combine map is_nil] in *. rewrite Hp. cbn [map]. f_equal. rewrite map_map. reflexivity.
Qed.

(* dict items and lambda parameters: the pseudo-nodes *)
Definition build_item (c : bctx) (it : pyexpr) : option (option gexpr * gexpr) :=
  match it with
  | PDictItem None v => match build c v with Some v' => Some (None, v') | None => None end
  | PDictItem (Some k) v =>
      match build c k, build c v with
      | Some k', Some v' => Some (Some k', v')
      | _, _ => None
      end
  | _ => None
  end.
Definition dtxt (kv : option gexpr * gexpr) : string :=
  ((match fst kv with None => "**" | Some k => render k ++ ": " end) ++ render (snd kv))%string.

Lemma dict_items_at items ijoin ifmt :
  Forall RenderP' items -> forallb (wfk KItem) items = true -> flat_map (gaps false false ijoin ifmt) items = [] ->
  exists its, mapo (build_item (mkCtx NoParse false ijoin ifmt)) items = Some its /\ map dtxt its = map (rprint false) items.
Proof.
  intros H Hw. apply mapo_render. apply forallb_Forall in Hw.
  eapply Forall_impl2; [|exact H|exact Hw]. intros c [_ Hk] Hwc Hg.
  destruct c as [| | | | | | | | | | | | | | | | | |k v| | | | | | | | | | | | | | |]; try (cbn in Hwc; discriminate Hwc).
  cbn in Hwc. split_andb. destruct Hk as [Hk Hv]. cbn [gaps] in Hg.
  destruct k as [key|]; split_nil; simpl in Hk.
  - destruct (child_at key _ _ _ Hk ltac:(assumption) ltac:(eassumption) ltac:(eassumption)) as [gk [Bk [_ Rk]]].
    destruct (child_at v _ _ _ Hv ltac:(assumption) ltac:(eassumption) ltac:(eassumption)) as [gv [Bv [_ Rv]]].
    exists (Some gk, gv). cbn [build_item]. rewrite Bk, Bv. split; [reflexivity|].
    unfold dtxt. cbn [fst snd rprint]. rewrite Rk, Rv, sapp_assoc. reflexivity.
  - destruct (child_at v _ _ _ Hv ltac:(assumption) ltac:(eassumption) ltac:(eassumption)) as [gv [Bv [_ Rv]]].
    exists (None, gv). cbn [build_item]. rewrite Bv. split; [reflexivity|].
    unfold dtxt. cbn [fst snd rprint]. rewrite Rv. reflexivity.
Qed.

Definition par_of (k : pkind) (p : pyexpr) : option gpar :=
  match p with
  | PParam n d => Some (n, k, match d with Some d' => build ctx0 d' | None => None end)
  | _ => None
  end.

Lemma par_of_allk k ps gs : mapo (par_of k) ps = Some gs -> allk k gs.
Proof.
  revert gs. induction ps as [|p ps IH]; simpl; intros gs H.
  - inversion H. constructor.
  - destruct p; try discriminate. cbn [par_of] in H. destruct (mapo (par_of k) ps); [|discriminate]. inversion H; subst.
    constructor; [reflexivity|apply IH; reflexivity].
Qed.

Lemma params_at k ps ijoin ifmt :
  is_variadic k = false ->
  Forall RenderP' ps -> forallb (wfk KParam) ps = true -> flat_map (gaps false false ijoin ifmt) ps = [] ->
  exists gs, mapo (par_of k) ps = Some gs /\ map gptxt gs = map (rprint false) ps.
Proof.
  intros Hk H Hw. apply mapo_render. apply forallb_Forall in Hw.
  eapply Forall_impl2; [|exact H|exact Hw]. intros c [_ Hd] Hwc Hg.
  destruct c as [| | | | | | | | | | | | | | | | | | | | |pn d| | | | | | | | | | | |]; try (cbn in Hwc; discriminate Hwc).
  cbn in Hwc. cbn [gaps] in Hg. simpl in Hd. destruct d as [dd|].
  - split_nil. simpl in Hd.
    destruct (child_at dd _ _ _ Hd ltac:(assumption) ltac:(eassumption) ltac:(eassumption)) as [gd [Bd [_ Rd]]].
    eexists. cbn [par_of]. unfold ctx0. rewrite Bd. split; [reflexivity|].
    unfold gptxt, pkindof. cbn [fst snd rprint]. rewrite Hk, Rd. reflexivity.
  - eexists. cbn [par_of]. split; [reflexivity|]. reflexivity.
Qed.

Lemma is_nil_of_map_eq {A B C} (f : A -> C) (g : B -> C) (l : list A) (r : list B) : map f l = map g r -> is_nil l = is_nil r.
Proof. destruct l, r; simpl; intros H; try reflexivity; discriminate. Qed.

Lemma lam_entries_nil a b vp d vk : is_nil (lam_entries a b vp d vk) = is_nil (a ++ b ++ vpl vp ++ d ++ vkl vk).
Proof. unfold lam_entries. destruct a, b, vp, d, vk; reflexivity. Qed.

Ltac rstart :=
  split; [|try exact I]; intros direct isub ijoin ifmt Hd Hwf Hg; cbn in Hwf; split_andb; cbn [gaps] in Hg; split_nil.

Ltac kid c IH g B R :=
  destruct (child_at c _ _ _ IH ltac:(assumption) ltac:(eassumption) ltac:(eassumption)) as [g [B [_ R]]].

Ltac bsimpl := cbn [build enter keeps_insub mapped node_builder pm insub injoin infmt].
Ltac done_with g := exists g; split; [reflexivity|split; [exact I|]].

Theorem render_all : forall e, RenderP' e.
Proof.
  apply pyexpr_ind'.
  - (* PName *) intros id. rstart. bsimpl. eexists; split; [reflexivity|split; [exact I|]]. apply render_Name.
  - (* PNum *) intros isint r. rstart. bsimpl. eexists; split; [reflexivity|split; [exact I|]].
    rewrite render_Str. reflexivity.
  - (* PConst *) intros r. rstart. bsimpl. eexists; split; [reflexivity|split; [exact I|]]. apply render_Str.
  - (* PStr *) intros r raw parsed _. rstart. bsimpl. rewrite Heqb. eexists; split; [reflexivity|split; [exact I|]]. apply render_Str.
  - (* PParsed *) intros p [IH _]. rstart. bsimpl. cbn [rprint]. apply IH; assumption.
  - (* PAttribute *) intros v a [IH _]. rstart. 
    destruct (child_at v _ _ _ IH ltac:(assumption) ltac:(eassumption) ltac:(eassumption)) as [g [B [Hne R]]].
    bsimpl. rewrite B. destruct (render_attach g a Hne) as [Ra Hna].
    eexists; split; [reflexivity|split; [exact Hna|]]. rewrite Ra, R. cbn [rprint]. rewrite Heqb. reflexivity.
  - (* PBinOp *) intros l o r [IHl _] [IHr _]. rstart. kid l IHl gl Bl Rl. kid r IHr gr Br Rr.
    bsimpl. rewrite Bl, Br, binop_table. eexists; split; [reflexivity|split; [exact I|]].
    rewrite render_BinOp, Rl, Rr. reflexivity.
  - (* PBoolOp *) intros o vs IH. rstart.
    destruct (children_at vs _ _ _ IH ltac:(assumption) Hg) as [gs [Bs Rs]].
    bsimpl. rewrite Bs, boolop_table. eexists; split; [reflexivity|split; [exact I|]].
    rewrite render_BoolOp, Rs. reflexivity.
  - (* PUnaryOp *) intros o v [IH _]. rstart. kid v IH g B R.
    bsimpl. rewrite B, unop_table. eexists; split; [reflexivity|split; [exact I|]]. rewrite render_UnaryOp, R. reflexivity.
  - (* PCompare *) intros l ops cs [IHl _] IH. rstart. kid l IHl gl Bl Rl.
    destruct (children_at cs _ _ _ IH ltac:(assumption) ltac:(eassumption)) as [gs [Bs Rs]].
    bsimpl. rewrite Bl, Bs, cmpops_table. eexists; split; [reflexivity|split; [exact I|]].
    match goal with H : (List.length ops =? List.length cs) = true |- _ => apply Nat.eqb_eq in H; rename H into Hlen end.
    rewrite render_Compare by (rewrite map_length, (mapo_length _ _ _ Bs); exact Hlen).
    rewrite Rl, Rs. cbn [rprint]. f_equal. apply compare_text.
    + match goal with H : negb (is_nil ops) = true |- _ => destruct ops; [discriminate H|reflexivity] end.
    + rewrite map_length. exact Hlen.
  - (* PCall *) intros fn args kws [IHf _] IHa IHk. rstart. kid fn IHf gf Bf Rf.
    destruct (children_at args _ _ _ IHa ltac:(assumption) ltac:(eassumption)) as [ga [Ba Ra]].
    destruct (children_plain kws _ _ IHk ltac:(assumption) ltac:(eassumption)) as [gk [Bk Rk]].
    bsimpl. rewrite Bf, Ba, Bk. eexists; split; [reflexivity|split; [exact I|]].
    rewrite render_Call, Rf, map_app, Ra, Rk. reflexivity.
  - (* PKeyword *) intros n v [IH _]. rstart. kid v IH g B R.
    bsimpl. rewrite B. destruct n; (eexists; split; [reflexivity|split; [exact I|]]).
    + rewrite render_Keyword, R. reflexivity.
    + rewrite render_VarKeyword, R. reflexivity.
  - (* PSubscript *) intros v lit sl [IHv _] [IHs _]. rstart. kid v IHv gv Bv Rv.
    destruct (IHs true true ijoin ifmt eq_refl ltac:(assumption) ltac:(assumption)) as [gs [Bs [_ Rs]]].
    bsimpl. rewrite Bv, Bs. eexists; split; [reflexivity|split; [exact I|]].
    rewrite render_Subscript, Rv, Rs. cbn [rprint].
    match goal with H : need P_TEST sl = [] |- _ => rewrite (need_nil _ _ H) end. reflexivity.
  - (* PSlice *) intros lo up st IHl IHu IHs. rstart.
    destruct (child_opt lo _ _ _ IHl ltac:(assumption) ltac:(eassumption)) as [glo [Blo Rlo]].
    destruct (child_opt up _ _ _ IHu ltac:(assumption) ltac:(eassumption)) as [gup [Bup Rup]].
    destruct (child_opt st _ _ _ IHs ltac:(assumption) ltac:(eassumption)) as [gst [Bst Rst]].
    bsimpl. rewrite Blo, Bup, Bst. eexists; split; [reflexivity|split; [exact I|]].
    rewrite render_Slice. cbn [rprint].
    destruct lo, glo; try contradiction; destruct up, gup; try contradiction; destruct st, gst; try contradiction;
      cbn [optstr]; rewrite ?Rlo, ?Rup, ?Rst; reflexivity.
  - (* PTuple *) intros es IH. rstart.
    destruct (children_at es _ _ _ IH ltac:(assumption) ltac:(eassumption)) as [gs [Bs Rs]].
    bsimpl. rewrite Bs. eexists; split; [reflexivity|split; [exact I|]].
    rewrite render_Tuple. cbn [rprint]. cbv zeta. rewrite Rs.
    assert (Hone : (match gs with [_] => "," | _ => "" end)%string = (match es with [_] => "," | _ => "" end)%string).
    { pose proof (mapo_length _ _ _ Bs) as Hl. destruct gs as [|? [|? ?]], es as [|? [|? ?]]; try discriminate Hl; reflexivity. }
    rewrite Hone.
    assert (Himp : isub = direct && negb (is_nil es)).
    { subst isub. destruct direct, (is_nil es); try reflexivity; discriminate. }
    rewrite <- Himp. reflexivity.
  - (* PList *) intros es IH. rstart.
    destruct (children_at es _ _ _ IH ltac:(assumption) Hg) as [gs [Bs Rs]].
    bsimpl. rewrite Bs. eexists; split; [reflexivity|split; [exact I|]]. rewrite render_List, Rs. reflexivity.
  - (* PSet *) intros es IH. rstart.
    destruct (children_at es _ _ _ IH ltac:(assumption) Hg) as [gs [Bs Rs]].
    bsimpl. rewrite Bs. eexists; split; [reflexivity|split; [exact I|]]. rewrite render_Set, Rs. reflexivity.
  - (* PDict *) intros items IH. rstart.
    destruct (dict_items_at items _ _ IH ltac:(assumption) Hg) as [its [Bi Ri]]. unfold build_item in Bi.
    bsimpl. rewrite Bi. eexists; split; [reflexivity|split; [exact I|]].
    rewrite render_Dict. change (fun kv : option gexpr * gexpr => ((match fst kv with None => "**" | Some k => render k ++ ": " end) ++ render (snd kv))%string) with dtxt.
    rewrite Ri. reflexivity.
  - (* PDictItem *) intros k v Hk [Hv _]. split; [intros direct isub ijoin ifmt Hd Hwf; discriminate Hwf|].
    split; [destruct k; simpl in *; [destruct Hk; assumption|exact I]|assumption].
  - (* PIfExp *) intros b t o [IHb _] [IHt _] [IHo _]. rstart. kid b IHb gb Bb Rb. kid t IHt gtt Bt Rt. kid o IHo go Bo Ro.
    bsimpl. rewrite Bb, Bt, Bo. eexists; split; [reflexivity|split; [exact I|]]. rewrite render_IfExp, Rb, Rt, Ro. reflexivity.
  - (* PLambda *) intros po pk vp ko vk body IHpo IHpk IHko [IHb _]. rstart. kid body IHb gb Bb Rb.
    destruct (params_at PO po _ _ eq_refl IHpo ltac:(assumption) ltac:(eassumption)) as [a [Ba Ta]].
    destruct (params_at PK pk _ _ eq_refl IHpk ltac:(assumption) ltac:(eassumption)) as [b [Bb' Tb]].
    destruct (params_at KO ko _ _ eq_refl IHko ltac:(assumption) ltac:(eassumption)) as [d [Bd Td]].
    pose proof (par_of_allk _ _ _ Ba) as Ka. pose proof (par_of_allk _ _ _ Bb') as Kb. pose proof (par_of_allk _ _ _ Bd) as Kd.
    unfold par_of, gpar in Ba, Bb', Bd. bsimpl. rewrite Ba, Bb', Bd, Bb.
    eexists; split; [reflexivity|split; [exact I|]].
    change (match vp with Some n => [(n, VP, @None gexpr)] | None => [] end) with (vpl vp).
    change (match vk with Some n => [(n, VK, @None gexpr)] | None => [] end) with (vkl vk).
    rewrite render_Lambda, lam_params_chunks, Rb.
    assert (Ea : is_nil a = is_nil po) by (apply (is_nil_of_map_eq _ _ _ _ Ta)).
    assert (Eb : is_nil b = is_nil pk) by (apply (is_nil_of_map_eq _ _ _ _ Tb)).
    assert (Ed : is_nil d = is_nil ko) by (apply (is_nil_of_map_eq _ _ _ _ Td)).
    rewrite lambda_chunks_entries; try assumption.
    2:{ rewrite Ea, Eb, Ed. match goal with H : lambda_gap po pk vp ko = false |- _ => exact H end. }
    rewrite <- lam_entries_nil. unfold lam_entries. rewrite Ta, Tb, Td, Ea, Ed. cbn [rprint]. cbv zeta.
    match goal with |- context [is_nil ?l] => destruct (is_nil l) eqn:En end.
    + destruct (map (rprint false) po), (if is_nil po then [] else ["/"]), (map (rprint false) pk); try discriminate En.
      cbn [app] in *. destruct vp; [discriminate En|]. destruct (is_nil ko); [|discriminate En].
      destruct (map (rprint false) ko); [|discriminate En]. destruct vk; [discriminate En|]. reflexivity.
    + rewrite !sapp_assoc. reflexivity.
  - (* PParam *) intros n d Hd. split; [intros direct isub ijoin ifmt Hd' Hwf; discriminate Hwf|].
    destruct d; simpl in *; [destruct Hd; assumption|exact I].
  - (* PNamedExpr *) intros t v [IHt _] [IHv _]. rstart. kid v IHv gv Bv Rv.
    destruct (IHt false false ijoin ifmt eq_refl ltac:(assumption) ltac:(assumption)) as [gt' [Bt [_ Rt]]].
    bsimpl. rewrite Bt, Bv. eexists; split; [reflexivity|split; [exact I|]]. rewrite render_NamedExpr, Rt, Rv. reflexivity.
  - (* PStarred *) intros v [IH _]. rstart. kid v IH g B R.
    bsimpl. rewrite B. eexists; split; [reflexivity|split; [exact I|]]. rewrite render_VarPositional, R. reflexivity.
  - (* PListComp *) intros e gens [IHe _] IH. rstart. kid e IHe ge1 Be Re.
    destruct (children_plain gens _ _ IH ltac:(assumption) ltac:(eassumption)) as [gs [Bs Rs]].
    bsimpl. rewrite Be, Bs. eexists; split; [reflexivity|split; [exact I|]]. rewrite render_ListComp, Re, Rs. reflexivity.
  - (* PSetComp *) intros e gens [IHe _] IH. rstart. kid e IHe ge1 Be Re.
    destruct (children_plain gens _ _ IH ltac:(assumption) ltac:(eassumption)) as [gs [Bs Rs]].
    bsimpl. rewrite Be, Bs. eexists; split; [reflexivity|split; [exact I|]]. rewrite render_SetComp, Re, Rs. reflexivity.
  - (* PGeneratorExp *) intros e gens [IHe _] IH. rstart. kid e IHe ge1 Be Re.
    destruct (children_plain gens _ _ IH ltac:(assumption) ltac:(eassumption)) as [gs [Bs Rs]].
    bsimpl. rewrite Be, Bs. eexists; split; [reflexivity|split; [exact I|]]. rewrite render_GeneratorExp, Re, Rs. reflexivity.
  - (* PDictComp *) intros k v gens [IHk _] [IHv _] IH. rstart. kid k IHk gk Bk Rk. kid v IHv gv Bv Rv.
    destruct (children_plain gens _ _ IH ltac:(assumption) ltac:(eassumption)) as [gs [Bs Rs]].
    bsimpl. rewrite Bk, Bv, Bs. eexists; split; [reflexivity|split; [exact I|]]. rewrite render_DictComp, Rk, Rv, Rs. reflexivity.
  - (* PComprehension *) intros t it ifs a [IHt _] [IHi _] IH. rstart. kid t IHt gt' Bt Rt. kid it IHi gi Bi Ri.
    destruct (children_at ifs _ _ _ IH ltac:(assumption) ltac:(eassumption)) as [gs [Bs Rs]].
    bsimpl. rewrite Bt, Bi, Bs. eexists; split; [reflexivity|split; [exact I|]].
    rewrite render_Comprehension, Rt, Ri. cbn [rprint].
    rewrite <- (is_nil_map render gs). rewrite (sjoin_prefix " if " (map render gs)). rewrite Rs, map_map. reflexivity.
  - (* PJoinedStr *) intros vs IH. rstart.
    assert (Hx : exists gs, mapo (build (mkCtx NoParse false true ifmt)) vs = Some gs /\ map render gs = map (fun c => match c with PStr _ raw _ => esc_braces raw | _ => rprint false c end) vs).
    { refine (mapo_render _ render _ _ vs _ Hg). apply forallb_Forall in Hwf.
      eapply Forall_impl2; [|exact IH|exact Hwf]. intros c [Hc _] Hwc Hgc. simpl in Hwc.
      destruct c; try (destruct (Hc false false true ifmt eq_refl Hwc Hgc) as [g [Bg [_ Rg]]]; exists g; split; assumption).
      - (* literal text *) destruct ifmt; [discriminate Hgc|]. cbn [orb] in Hgc.
        destruct (has_brace raw) eqn:Hb; [discriminate Hgc|]. cbn [build enter keeps_insub mapped node_builder injoin infmt andb negb].
        eexists; split; [reflexivity|]. rewrite render_Str, esc_braces_id by assumption. reflexivity.
      - (* PParsed *) discriminate Hgc. }
    destruct Hx as [gs [Bs Rs]]. bsimpl. rewrite Bs. eexists; split; [reflexivity|split; [exact I|]].
    rewrite render_JoinedStr, Rs. reflexivity.
  - (* PFormattedValue *) intros v conv spec [IH _] _. rstart. kid v IH g B R.
    bsimpl. rewrite B. eexists; split; [reflexivity|split; [exact I|]].
    rewrite render_Formatted, R. cbn [rprint]. cbv zeta.
    match goal with H : starts_brace (ref_at P_OR v) = false |- _ => unfold ref_at in H; rewrite H end. reflexivity.
  - (* PYield *) intros v IH. rstart.
    destruct (child_opt v _ _ _ IH ltac:(assumption) Hg) as [gv [Bv Rv]].
    bsimpl. rewrite Bv. eexists; split; [reflexivity|split; [exact I|]].
    rewrite render_Yield. cbn [rprint]. destruct v, gv; try contradiction; [rewrite Rv|]; reflexivity.
  - (* PYieldFrom *) intros v [IH _]. rstart. kid v IH g B R.
    bsimpl. rewrite B. eexists; split; [reflexivity|split; [exact I|]]. rewrite render_YieldFrom, R. reflexivity.
  - (* PAwait: gap family 10 *) intros v _. split; [|exact I].
    intros direct isub ijoin ifmt Hd Hwf Hg. cbn [gaps] in Hg. discriminate Hg.
Qed.

(* ---------- the property-level statements ---------- *)
Theorem render_eq_reference_modulo_known (top : nat) (e : pyexpr) :
  wf e = true -> known_gap top e = false ->
  exists g, build ctx0 e = Some g /\ render g = ref_top top e.
Proof.
  intros Hw Hk. unfold known_gap, gaps_top in Hk. apply negb_false_iff in Hk.
  destruct (need top e ++ gaps false false false false e) eqn:E; [|discriminate Hk].
  apply app_eq_nil in E. destruct E as [Hn Hg].
  destruct (child_at e top false false (proj1 (render_all e)) Hw Hn Hg) as [g [B [_ R]]].
  exists g. split; [exact B|exact R].
Qed.

(* with string parsing: the text is the reference text of the tree in which the rule's strings are code *)
Theorem render_eq_reference_with_strings (top : nat) (m : pmode) (e : pyexpr) :
  no_parsed e = true -> wf (subst m false false e) = true -> known_gap top (subst m false false e) = false ->
  exists g, build (mkCtx m false false false) e = Some g /\ render g = ref_top top (subst m false false e).
Proof.
  intros Hn Hw Hk. rewrite (string_annotation_rule e (mkCtx m false false false) Hn).
  exact (render_eq_reference_modulo_known top _ Hw Hk).
Qed.
