(* C14, the state of a process: several loaders with their finders, a history of requests.
   The machine [step] keeps what the code keeps -- each finder's search paths and its memo of directory listings, each
   loader's collection of loaded packages -- and nothing at class level.  Theorem: every answer of every history is the
   answer of the STATELESS reference, which looks only at the search paths the loader was created with and at the
   requests by path addressed to that very loader (they may add a search directory, by design).  In particular a
   request by name on a loader that has only served requests by name answers what a fresh process answers. *)
From Coq Require Import List ZArith String Ascii Bool Arith Lia.
From Verif Require Import Lib.Sexp Gen.C14_tables Model.C14_finder Proofs.C14_finder Proofs.C14_bypath.
Import ListNotations.
Open Scope string_scope. Open Scope list_scope.

(* the memo of directory listings only ever holds the listings of the (unchanged) file system *)
Definition cache_ok (U : universe) (c : list (nat * listing)) : Prop := forall i L, lookup_nat i c = Some L -> L = root U i.

Lemma lookup_nat_app : forall (c : list (nat * listing)) i k L,
  lookup_nat i (c ++ [(k, L)]) = match lookup_nat i c with Some x => Some x | None => if (k =? i)%nat then Some L else None end.
Proof. induction c as [|[j M] c IH]; intros; simpl. reflexivity. destruct (j =? i)%nat; auto. Qed.

Lemma contents_ok : forall U c i, cache_ok U c -> fst (contents U c i) = root U i /\ cache_ok U (snd (contents U c i)).
Proof.
  intros U c i H. unfold contents. destruct (lookup_nat i c) as [L|] eqn:E; simpl.
  - split; auto.
  - split; auto. intros j L Hj. rewrite lookup_nat_app in Hj. destruct (lookup_nat j c) eqn:Ej.
    + inversion Hj; subst. auto.
    + destruct (i =? j)%nat eqn:Eij; [|discriminate]. apply Nat.eqb_eq in Eij. inversion Hj; subst. reflexivity.
Qed.

(* reading the listings through the memo changes nothing *)
Lemma g_find_c_spec : forall U name paths nsacc c, cache_ok U c ->
  fst (g_find_c U name paths nsacc c) = g_find U name paths nsacc /\ cache_ok U (snd (g_find_c U name paths nsacc c)).
Proof.
  intros U name. induction paths as [|i r IH]; intros nsacc c Hc; simpl.
  - split; auto.
  - destruct (contents_ok U c i Hc) as [HL Hc1]. destruct (contents U c i) as [L c1]. simpl in HL, Hc1. subst L.
    repeat (match goal with
            | |- context [match lookup_entry ?n ?l with _ => _ end] => destruct (lookup_entry n l)
            | |- context [if ?b then _ else _] => destruct b
            | |- context [match ?x with File _ _ => _ | Dir _ => _ end] => destruct x
            end; simpl); try (split; [reflexivity|assumption]); try (apply IH; assumption).
Qed.

(* ------------------------------------------------------------------------------------------------------------- *)
(* the simulation: a state and the history that led to it *)
Definition sim (U : universe) (S : pstate) (hist : list request) : Prop :=
  forall id, match get_loader id S with
             | Some l => ref_paths U hist id None = Some (fs_paths (ls_f l)) /\ cache_ok U (fs_cache (ls_f l))
             | None => ref_paths U hist id None = None
             end.

Lemma get_set_same : forall id l S, get_loader id (set_loader id l S) = Some l.
Proof. induction S as [|[k x] S IH]; simpl. rewrite Nat.eqb_refl. auto. destruct (k =? id)%nat eqn:E; simpl; rewrite E; auto. Qed.

Lemma get_set_other : forall id id' l S, id' <> id -> get_loader id' (set_loader id l S) = get_loader id' S.
Proof.
  induction S as [|[k x] S IH]; simpl; intro H.
  - destruct (id =? id')%nat eqn:E; auto. apply Nat.eqb_eq in E. congruence.
  - destruct (k =? id)%nat eqn:E; simpl.
    + apply Nat.eqb_eq in E. subst k. destruct (id =? id')%nat eqn:E2; auto. apply Nat.eqb_eq in E2. congruence.
    + destruct (k =? id')%nat; auto.
Qed.

Lemma ref_paths_snoc : forall U hist r id cur,
  ref_paths U (hist ++ [r]) id cur = ref_paths U [r] id (ref_paths U hist id cur).
Proof.
  intros U. induction hist as [|q hist IH]; intros r id cur. reflexivity.
  destruct q; simpl; apply IH.
Qed.

Lemma init_cache_ok : forall U sps, cache_ok U (map (fun i => (i, root U i)) sps).
Proof.
  intros U sps. induction sps as [|a sps IH]; intros i L H; simpl in H. discriminate.
  destruct (a =? i)%nat eqn:E. apply Nat.eqb_eq in E. inversion H; subst. reflexivity. apply IH. auto.
Qed.

Lemma step_sim : forall U S hist r, sim U S hist ->
  sim U (fst (step U S r)) (hist ++ [r]) /\ snd (step U S r) = ref_answer U (ref_paths U hist (request_id r) None) r.
Proof.
  intros U S hist r Hs. destruct r as [id sps|id name|id p]; simpl.
  - split; auto. intro k. rewrite ref_paths_snoc. simpl. destruct (Nat.eq_dec k id) as [->|Hk].
    + rewrite get_set_same, Nat.eqb_refl. simpl. split; auto. apply init_cache_ok.
    + rewrite get_set_other by auto. replace (id =? k)%nat with false by (symmetry; apply Nat.eqb_neq; auto). apply Hs.
  - pose proof (Hs id) as Hid. destruct (get_loader id S) as [l|] eqn:El.
    + destruct Hid as [Hp Hc]. rewrite Hp. simpl.
      pose proof (g_find_c_spec U name (fs_paths (ls_f l)) [] (fs_cache (ls_f l)) Hc) as [Hf Hc'].
      destruct (g_find_c U name (fs_paths (ls_f l)) [] (fs_cache (ls_f l))) as [f c']. simpl in *. subst f. split; auto.
      intro k. rewrite ref_paths_snoc. simpl. destruct (Nat.eq_dec k id) as [->|Hk].
      * rewrite get_set_same. simpl. auto.
      * rewrite get_set_other by auto. apply Hs.
    + rewrite Hid. simpl. split; auto. intro k. rewrite ref_paths_snoc. simpl. apply Hs.
  - pose proof (Hs id) as Hid. destruct (get_loader id S) as [l|] eqn:El.
    + destruct Hid as [Hp Hc]. rewrite Hp. simpl.
      destruct (path_request_names U (fs_paths (ls_f l)) p) as [[[[mn top] paths']|]|] eqn:Epr; simpl.
      * pose proof (g_find_c_spec U top paths' [] (fs_cache (ls_f l)) Hc) as [Hf Hc'].
        destruct (g_find_c U top paths' [] (fs_cache (ls_f l))) as [f c']. simpl in *. subst f. split; auto.
        intro k. rewrite ref_paths_snoc. simpl. destruct (Nat.eq_dec k id) as [->|Hk].
        -- rewrite get_set_same, Nat.eqb_refl, Hp, Epr. simpl. auto.
        -- rewrite get_set_other by auto. replace (id =? k)%nat with false by (symmetry; apply Nat.eqb_neq; auto). apply Hs.
      * split; auto. intro k. rewrite ref_paths_snoc. simpl. destruct (Nat.eq_dec k id) as [->|Hk].
        -- rewrite Nat.eqb_refl, El, Hp, Epr. split; auto.
        -- replace (id =? k)%nat with false by (symmetry; apply Nat.eqb_neq; auto). apply Hs.
      * split; auto. intro k. rewrite ref_paths_snoc. simpl. destruct (Nat.eq_dec k id) as [->|Hk].
        -- rewrite Nat.eqb_refl, El, Hp, Epr. split; auto.
        -- replace (id =? k)%nat with false by (symmetry; apply Nat.eqb_neq; auto). apply Hs.
    + rewrite Hid. simpl. split; auto. intro k. rewrite ref_paths_snoc. simpl. destruct (Nat.eq_dec k id) as [->|Hk].
      * rewrite Nat.eqb_refl, El, Hid. auto.
      * replace (id =? k)%nat with false by (symmetry; apply Nat.eqb_neq; auto). apply Hs.
Qed.

(* the answers of the stateless reference along a history *)
Fixpoint ref_answers (U : universe) (done rs : list request) : list answer :=
  match rs with
  | [] => []
  | r :: rest => ref_answer U (ref_paths U done (request_id r) None) r :: ref_answers U (done ++ [r]) rest
  end.

Lemma run_sim : forall U rs S hist, sim U S hist -> snd (run_requests U S rs) = ref_answers U hist rs.
Proof.
  intros U. induction rs as [|r rs IH]; intros S hist Hs; simpl. reflexivity.
  destruct (step_sim U S hist r Hs) as [Hs' Ha]. destruct (step U S r) as [S1 a]. simpl in *.
  specialize (IH S1 (hist ++ [r]) Hs'). destruct (run_requests U S1 rs) as [S2 l]. simpl in *. subst. reflexivity.
Qed.

(* History independence: in every history of a process, every answer is the answer of the stateless reference. *)
Theorem history_independent : forall U rs, snd (run_requests U [] rs) = ref_answers U [] rs.
Proof. intros. apply run_sim. intro id. simpl. reflexivity. Qed.

(* ... and the reference, for a loader that has served no request by path since it was created, is the load of a fresh
   process: whatever the other loaders did, whatever was requested by name before *)
Fixpoint no_path_for (id : nat) (rs : list request) : bool :=
  match rs with [] => true | RPath k _ :: r => negb (k =? id)%nat && no_path_for id r | _ :: r => no_path_for id r end.

Fixpoint no_new_for (id : nat) (rs : list request) : bool :=
  match rs with [] => true | RNew k _ :: r => negb (k =? id)%nat && no_new_for id r | _ :: r => no_new_for id r end.

Lemma ref_paths_app : forall U a b id cur, ref_paths U (a ++ b) id cur = ref_paths U b id (ref_paths U a id cur).
Proof. intros U. induction a as [|q a IH]; intros b id cur. reflexivity. destruct q; simpl; apply IH. Qed.

Lemma ref_paths_quiet : forall U h id cur, no_path_for id h = true -> no_new_for id h = true -> ref_paths U h id cur = cur.
Proof.
  intros U. induction h as [|q h IH]; intros id cur H1 H2. reflexivity.
  destruct q as [k sps|k n|k p]; simpl in *.
  - apply andb_true_iff in H2. destruct H2 as [Hk H2]. apply negb_true_iff in Hk. rewrite Hk. apply IH; auto.
  - apply IH; auto.
  - apply andb_true_iff in H1. destruct H1 as [Hk H1]. apply negb_true_iff in Hk. rewrite Hk. apply IH; auto.
Qed.

Theorem request_by_name_is_fresh : forall U hist id sps name,
  ref_paths U hist id None = Some (g_paths U sps) ->
  ref_answer U (ref_paths U hist id None) (RName id name) = ALoaded (load false U sps name).
Proof. intros U hist id sps name H. rewrite H. reflexivity. Qed.

(* a loader created with search paths sps that has since served only requests by name -- whatever the other loaders of
   the process were asked, by name or by path -- answers a request by name like a fresh process *)
Corollary fresh_after_names_only : forall U hist1 hist2 id sps name,
  no_path_for id hist2 = true -> no_new_for id hist2 = true ->
  ref_answer U (ref_paths U (hist1 ++ RNew id sps :: hist2) id None) (RName id name) = ALoaded (load false U sps name).
Proof.
  intros U hist1 hist2 id sps name H1 H2. apply request_by_name_is_fresh.
  rewrite ref_paths_app. simpl. rewrite Nat.eqb_refl. apply ref_paths_quiet; auto.
Qed.

(* the request by path answers what the stateless by-path load answers, when the loader still has its own search paths *)
Lemma path_request_is_load_by_path : forall U sps p,
  ref_answer U (Some (g_paths U sps)) (RPath 0 p) = APath (load_by_path U sps p).
Proof.
  intros U sps p. unfold ref_answer, load_by_path, path_request_names.
  destruct (module_name_path U p) as [[mn mp]|]; auto.
  destruct (top_module_name U (g_paths U sps) mp) as [[top extra]|]; auto.
  unfold keep_or_keyerror. destruct extra; destruct (load_found false U _); reflexivity.
Qed.

(* non-vacuity, and the one way in which history matters by design: a request by the path of a directory that is not
   searched adds that directory to the loader's search paths, and later requests by name on THAT loader see it *)
Definition U_st : universe :=
  [(0, [("aa", Dir [("__init__.py", File false []); ("m.py", File false [])])]);
   (1, [("bb", Dir [("__init__.py", File false []); ("n.py", File false [])])])].
Example history_example :
  let rs := [RNew 0 [0]; RNew 1 [0]; RName 0 "bb"; RPath 0 (1, ["bb"]); RName 0 "bb"; RName 1 "bb"; RName 1 "aa"; RName 0 "aa"] in
  exists M Ma, snd (run_requests U_st [] rs) =
    [ANew; ANew; ALoaded LNotFound; APath (BPLoaded "bb" (LOk M)); ALoaded (LOk M); ALoaded LNotFound; ALoaded (LOk Ma); ALoaded (LOk Ma)] /\
    lookup_m ["n"] M = Some (MFile (1, ["bb"; "n.py"])) /\ load false U_st [0] "aa" = LOk Ma.
Proof. cbv zeta. eexists. eexists. split. vm_compute. reflexivity. split; vm_compute; reflexivity. Qed.

(* the state the machine keeps is the state the code keeps: census regenerated from finder.py / loader.py on every run.
   finder: search_paths = fs_paths, _paths_contents = fs_cache, _always_scan_for is only written while the finder is built
   (editable installs, outside the model); loader: modules_collection = ls_coll, finder = ls_f, lines_collection and
   _time_stats do not reach the tree, the rest are options fixed at construction; class-level data is never written. *)
Example state_census_agrees :
  gen_finder_state = ["_always_scan_for"; "_paths_contents"; "search_paths"] /\
  gen_loader_state = ["_time_stats"; "allow_inspection"; "docstring_options"; "docstring_parser"; "extensions"; "finder";
                      "force_inspection"; "lines_collection"; "modules_collection"; "store_source"] /\
  gen_classvar_writes = [].
Proof. repeat split; reflexivity. Qed.
