(* C19 proofs, second part: the loader's second merge (Model/C19_reload.v). *)
From Coq Require Import List ZArith String Bool Arith Lia.
From Verif Require Import Lib.Sexp Model.C19_merge Model.C19_reload Proofs.C19_merge.
Import ListNotations.
Open Scope string_scope. Open Scope list_scope. Open Scope nat_scope.

(* ------------------------------------------------------------------ small facts *)
Lemma assign_same : forall A n (v : A) l, lookup n l = Some v -> assign n v l = l.
Proof.
  induction l as [|[k w] r IH]; simpl; intros H; [discriminate|].
  destruct (String.eqb k n) eqn:E.
  - inversion H; subst. reflexivity.
  - f_equal. auto.
Qed.

Lemma node_eta_doc : forall d, with_doc d (ndoc d) = d. Proof. destruct d; reflexivity. Qed.
Lemma node_eta_imp : forall d, with_imp d (nimp d) = d. Proof. destruct d; reflexivity. Qed.

Lemma merge_doc_idem : forall a b, merge_doc (merge_doc a b) b = merge_doc a b.
Proof. intros [x|] [y|]; reflexivity. Qed.

Lemma set_ann_id : forall n a ps, (lookup n ps = Some a \/ lookup n ps = None) -> set_ann n a ps = ps.
Proof.
  induction ps as [|[k b] r IH]; simpl; intros H; auto.
  destruct (String.eqb k n) eqn:E.
  - destruct H as [H|H]; [inversion H; subst; reflexivity|discriminate].
  - f_equal. auto.
Qed.

Lemma fold_set_ann_id : forall sps l,
  (forall k a, In (k, a) sps -> set_ann k a l = l) ->
  fold_left (fun acc p => set_ann (fst p) (snd p) acc) sps l = l.
Proof.
  induction sps as [|[k a] r IH]; simpl; intros l H; auto.
  rewrite (H k a) by now left. apply IH. intros; apply H; now right.
Qed.

Lemma merge_params_idem : forall sps ops, NoDup (names sps) ->
  merge_params (merge_params ops sps) sps = merge_params ops sps.
Proof.
  intros sps ops ND. unfold merge_params at 1. apply fold_set_ann_id.
  intros k a I. apply set_ann_id.
  rewrite (merge_params_lookup sps ops k ND).
  destruct (lookup k ops); [left|right; reflexivity].
  now rewrite (in_lookup_nodup _ _ _ _ ND I).
Qed.

Lemma merge_fun_idem : forall o s, NoDup (names (nparams s)) -> merge_fun (merge_fun o s) s = merge_fun o s.
Proof.
  intros o s ND. unfold merge_fun.
  destruct (truthy (nov s)); unfold with_ov, with_ret, with_params, with_doc; simpl;
    rewrite merge_doc_idem, (merge_params_idem _ _ ND); reflexivity.
Qed.

Lemma merge_attr_idem : forall o s, merge_attr (merge_attr o s) s = merge_attr o s.
Proof. intros. unfold merge_attr, with_ann, with_doc; simpl. now rewrite merge_doc_idem. Qed.

Lemma fold_assign_id : forall A (j l : list (string * A)),
  (forall k v, In (k, v) j -> lookup k l = Some v) ->
  fold_left (fun acc p => assign (fst p) (snd p) acc) j l = l.
Proof.
  induction j as [|[k v] r IH]; simpl; intros l H; auto.
  rewrite assign_same by (apply H; now left). apply IH. intros; apply H; now right.
Qed.

Lemma fold_assign_lookup : forall A (j l : list (string * A)) k v, NoDup (names j) -> In (k, v) j ->
  lookup k (fold_left (fun acc p => assign (fst p) (snd p) acc) j l) = Some v.
Proof.
  induction j as [|[k' v'] r IH]; simpl; intros l k v ND I; [contradiction|].
  inversion ND as [|? ? NI ND']; subst.
  destruct I as [I|I].
  - inversion I; subst.
    assert (G : forall (r : list (string * A)) l, ~ In k (names r) -> lookup k l = Some v ->
                lookup k (fold_left (fun acc p => assign (fst p) (snd p) acc) r l) = Some v).
    { clear. induction r as [|[a b] r IH]; simpl; intros l NI L; auto.
      apply IH; [tauto|]. rewrite lookup_assign_other; auto. }
    apply G; auto. apply lookup_assign_same.
  - apply IH; auto.
Qed.

Lemma update_imports_idem : forall i j, NoDup (names j) -> update_imports (update_imports i j) j = update_imports i j.
Proof.
  intros i j ND. unfold update_imports at 1. apply fold_assign_id.
  intros k v I. unfold update_imports. now apply fold_assign_lookup.
Qed.

(* ------------------------------------------------------------------ what the second merge amounts to *)
Section Resettle.
  Variable rec : tree -> tree -> tree -> tree.
  (* per name of the stubs scope: a member moved by the first merge (absent from the runtime scope before it) is merged
     into itself (settle); a class / module present on both sides: recursively; everything else: unchanged *)
  Fixpoint resettle_members (sl : list (string * tree)) (oms0 acc : list (string * tree)) : list (string * tree) :=
    match sl with
    | [] => acc
    | (n, sm) :: r =>
        match lookup n acc, sm with
        | Some cm, Obj smd _ =>
            match lookup n oms0 with
            | None => resettle_members r oms0 (assign n (settle cm) acc)
            | Some om0 =>
                match final cm with
                | Obj cmd cmms =>
                    if kind_eqb (nkind cmd) (nkind smd) && is_container (nkind cmd)
                    then resettle_members r oms0 (assign n (retarget cm (rec sm (final om0) (Obj cmd cmms))) acc)
                    else resettle_members r oms0 acc
                | _ => resettle_members r oms0 acc
                end
            end
        | _, _ => resettle_members r oms0 acc
        end
    end.
End Resettle.

Fixpoint resettle (s o0 cur : tree) {struct s} : tree :=
  match s, o0, cur with
  | Obj sd sms, Obj od oms, Obj cd cms => Obj cd (resettle_members resettle sms oms cms)
  | _, _, _ => cur
  end.

(* stubs are dict-based objects: member names, parameter names, import names, buffer keys are unique, at every depth *)
Fixpoint wfs (t : tree) : Prop :=
  match t with
  | Obj d ms =>
      NoDup (names ms) /\ NoDup (names (nparams d)) /\ NoDup (names (nimp d)) /\ NoDup (names (buf_of d)) /\
      (fix all (l : list (string * tree)) : Prop := match l with [] => True | p :: r => wfs (snd p) /\ all r end) ms
  | _ => True
  end.

Lemma wfs_members : forall d ms, wfs (Obj d ms) -> Forall (fun p => wfs (snd p)) ms.
Proof.
  intros d ms (_ & _ & _ & _ & H). induction ms as [|p r IH]; constructor; simpl in H; tauto.
Qed.

Lemma has_dicts_dict_ok : forall t, has_dicts t = dict_ok t.
Proof.
  (* the two fixpoints have the same body *)
  induction t as [tg rt|tg rt x IH|d ms IH] using tree_ind'; simpl; auto.
Qed.

Lemma has_dicts_set_rt : forall b t, has_dicts (set_rt b t) = has_dicts t.
Proof. intros b [d ms|tg rt|tg rt x]; reflexivity. Qed.

Lemma has_dicts_member : forall d ms n m, has_dicts (Obj d ms) = true -> In (n, m) ms -> has_dicts m = true.
Proof.
  intros d ms n m H I. simpl in H. apply andb_true_iff in H. destruct H as [_ H].
  rewrite forallb_forall in H. exact (H (n, m) I).
Qed.

(* the state of the runtime member under the name n after the first merge, as far as the second merge cares *)
Definition merged_state (rec : tree -> tree -> tree -> outcome) (rec' : tree -> tree -> tree -> tree)
                        (oms0 : list (string * tree)) (n : string) (sm cm : tree) : Prop :=
  match sm with
  | Obj smd _ =>
      match lookup n oms0 with
      | None => has_dicts cm = true
      | Some om0 =>
          match final cm with
          | Obj cmd cmms =>
              if kind_eqb (nkind cmd) (nkind smd) then
                match nkind cmd with
                | KFun => merge_fun cmd smd = cmd
                | KAttr => merge_attr cmd smd = cmd
                | _ => rec sm (final om0) (Obj cmd cmms) = Done (rec' sm (final om0) (Obj cmd cmms))
                end
              else True
          | _ => True
          end
      end
  | _ => True
  end.

Lemma remerge_members_resettle : forall rec rec' sl oms0 cms,
  NoDup (names sl) ->
  (forall n sm, In (n, sm) sl -> exists cm, lookup n cms = Some cm /\ merged_state rec rec' oms0 n sm cm) ->
  forall acc, (forall n, In n (names sl) -> lookup n acc = lookup n cms) ->
  remerge_members rec (fun _ => false) sl oms0 acc = (resettle_members rec' sl oms0 acc, None).
Proof.
  intros rec rec'. induction sl as [|[n sm] r IH]; intros oms0 cms ND H acc AG; [reflexivity|].
  inversion ND as [|? ? NI ND']; subst.
  assert (H' : forall n0 sm0, In (n0, sm0) r -> exists cm, lookup n0 cms = Some cm /\ merged_state rec rec' oms0 n0 sm0 cm)
    by (intros; apply H; now right).
  assert (KEEP : forall acc', (forall k, k <> n -> lookup k acc' = lookup k acc) ->
            forall k, In k (names r) -> lookup k acc' = lookup k cms).
  { intros acc' E k Ik. rewrite E; [apply AG; now right|]. intros ->. contradiction. }
  assert (KEEPA : forall v k, In k (names r) -> lookup k (assign n v acc) = lookup k cms).
  { intros v. apply KEEP. intros k NE. apply lookup_assign_other; auto. }
  assert (KEEP0 : forall k, In k (names r) -> lookup k acc = lookup k cms) by (apply KEEP; auto).
  destruct (H n sm (or_introl eq_refl)) as (cm & L & MS).
  assert (LA : lookup n acc = Some cm) by (rewrite AG; [exact L|now left]).
  simpl. rewrite LA.
  destruct sm as [smd smms|tg rt|tg rt y]; [|apply IH with (cms := cms); auto|apply IH with (cms := cms); auto].
  unfold merged_state in MS.
  destruct (lookup n oms0) as [om0|].
  - destruct (final cm) as [cmd cmms|tg rt|tg rt y] eqn:FC; [|apply IH with (cms := cms); auto|apply IH with (cms := cms); auto].
    destruct (kind_eqb (nkind cmd) (nkind smd)) eqn:K; simpl; [|apply IH with (cms := cms); auto].
    assert (SAME : assign n (retarget cm (Obj cmd cmms)) acc = acc).
    { rewrite <- FC, retarget_final. now apply assign_same. }
    destruct (nkind cmd) eqn:KC; simpl.
    + rewrite MS. apply IH with (cms := cms); auto.
    + rewrite MS. apply IH with (cms := cms); auto.
    + rewrite MS, SAME. apply IH with (cms := cms); auto.
    + rewrite MS, SAME. apply IH with (cms := cms); auto.
  - rewrite MS. apply IH with (cms := cms); auto.
Qed.

Lemma buffered_final_container : forall buf n om d ms,
  final (buffered buf n om) = Obj d ms -> is_container (nkind d) = true -> final om = Obj d ms /\ buffered buf n om = om.
Proof.
  intros buf n om d ms F C. unfold buffered in *. destruct (hit1 buf n) as [ovs|]; [|auto].
  unfold set_ov in *. destruct (final om) as [d0 ms0|tg rt|tg rt y] eqn:FO; auto.
  - destruct (kind_eqb (nkind d0) KFun) eqn:K; auto.
    + rewrite final_retarget_obj in F. inversion F; subst. simpl in C.
      destruct (nkind d0); simpl in *; discriminate.
    + rewrite FO in F. auto.
  - rewrite FO in F. discriminate.
  - pose proof (final_not_alto om) as NA. rewrite FO in NA. discriminate.
Qed.

Lemma kind_eqb_eq : forall a b, kind_eqb a b = true -> a = b.
Proof. intros [] []; simpl; auto; discriminate. Qed.
Lemma kind_eqb_refl : forall a, kind_eqb a a = true.
Proof. intros []; reflexivity. Qed.

Lemma wfs_member : forall d ms n m, wfs (Obj d ms) -> In (n, m) ms -> wfs m.
Proof.
  intros d ms n m W I. pose proof (wfs_members d ms W) as F. rewrite Forall_forall in F. exact (F (n, m) I).
Qed.

(* The loader's second merge of a pair that merged before does exactly this: stub-only members, moved into the runtime
   tree by the first merge, are merged into themselves; nothing else changes, at any depth. *)
Theorem second_merge_resettles : forall s,
  wfs s -> has_dicts s = true -> root_container s = true ->
  forall o r, merge_obj s o = Done r -> remerge s o r = Done (resettle s o r).
Proof.
  induction s as [tg rt|tg rt x _|sd sms IH] using tree_ind'; intros W HD RC o r M; [discriminate|discriminate|].
  destruct o as [od oms|tg rt|tg rt x]; [|simpl in M; discriminate|simpl in M; discriminate].
  pose proof W as (NDm & _ & NDi & NDb & _).
  destruct (field_table _ _ _ _ _ M NDm NDb) as (rms & -> & _ & T).
  cbn [remerge resettle].
  assert (E : with_imp (with_doc
              (with_imp (with_doc od (merge_doc (ndoc od) (ndoc sd))) (update_imports (nimp od) (nimp sd)))
              (merge_doc (ndoc (with_imp (with_doc od (merge_doc (ndoc od) (ndoc sd))) (update_imports (nimp od) (nimp sd)))) (ndoc sd)))
              (update_imports (nimp (with_imp (with_doc od (merge_doc (ndoc od) (ndoc sd))) (update_imports (nimp od) (nimp sd)))) (nimp sd))
            = with_imp (with_doc od (merge_doc (ndoc od) (ndoc sd))) (update_imports (nimp od) (nimp sd))).
  { destruct od; unfold with_imp, with_doc; simpl. rewrite merge_doc_idem, (update_imports_idem _ _ NDi). reflexivity. }
  rewrite E. clear E.
  rewrite (remerge_members_resettle remerge resettle sms oms rms NDm); auto.
  intros n sm I.
  pose proof (in_lookup_nodup _ _ _ _ NDm I) as LS.
  pose proof (wfs_member _ _ _ _ W I) as Wm.
  pose proof (has_dicts_member _ _ _ _ HD I) as HDm.
  rewrite Forall_forall in IH. specialize (IH (n, sm) I). simpl in IH.
  rewrite (T n). unfold table. rewrite LS. unfold one, merged_state.
  destruct (lookup n oms) as [om|] eqn:LO; simpl.
  - eexists; split; [reflexivity|].
    destruct sm as [smd smms|tg rt|tg rt y]; auto.
    set (om1 := buffered (buf_of sd) n om) in *.
    cbn [member_result].
    destruct (final om1) as [omd omms|tg rt|tg rt y] eqn:F1.
    + destruct (kind_eqb (nkind omd) (nkind smd)) eqn:K.
      * apply kind_eqb_eq in K.
        destruct (nkind omd) eqn:KO.
        -- (* module *)
           assert (C : is_container (nkind omd) = true) by (rewrite KO; reflexivity).
           destruct (buffered_final_container _ _ _ _ _ F1 C) as (FO & _).
           assert (RCm : root_container (Obj smd smms) = true) by (simpl; now rewrite <- K).
           assert (DKm : dict_ok (Obj smd smms) = true) by (now rewrite <- has_dicts_dict_ok).
           destruct (never_raises _ DKm RCm omd omms) as (t' & Mt).
           rewrite Mt. cbn [out_tree].
           pose proof Wm as (NDm' & _ & _ & NDb' & _).
           destruct (scope_level _ _ _ _ _ Mt NDm' NDb') as (rd & rms' & -> & Kr & _).
           rewrite final_retarget_obj. rewrite Kr, KO. rewrite <- K. cbn [kind_eqb].
           rewrite FO. apply IH; auto.
        -- (* class *)
           assert (C : is_container (nkind omd) = true) by (rewrite KO; reflexivity).
           destruct (buffered_final_container _ _ _ _ _ F1 C) as (FO & _).
           assert (RCm : root_container (Obj smd smms) = true) by (simpl; now rewrite <- K).
           assert (DKm : dict_ok (Obj smd smms) = true) by (now rewrite <- has_dicts_dict_ok).
           destruct (never_raises _ DKm RCm omd omms) as (t' & Mt).
           rewrite Mt. cbn [out_tree].
           pose proof Wm as (NDm' & _ & _ & NDb' & _).
           destruct (scope_level _ _ _ _ _ Mt NDm' NDb') as (rd & rms' & -> & Kr & _).
           rewrite final_retarget_obj. rewrite Kr, KO. rewrite <- K. cbn [kind_eqb].
           rewrite FO. apply IH; auto.
        -- rewrite final_retarget_obj. rewrite merge_fun_kind, KO. rewrite <- K. simpl.
           apply merge_fun_idem. destruct Wm as (_ & NP & _). exact NP.
        -- rewrite final_retarget_obj. simpl. rewrite KO. rewrite <- K. simpl.
           apply merge_attr_idem.
      * rewrite F1, K. trivial.
    + rewrite F1. trivial.
    + rewrite F1. trivial.
  - eexists; split; [reflexivity|].
    destruct sm as [smd smms|tg rt|tg rt y]; auto.
Qed.

(* ------------------------------------------------------------------ idempotence up to buffers, modulo finding C19-F5 *)
Definition fun_final (t : tree) : bool :=
  match final t with Obj d _ => kind_eqb (nkind d) KFun | _ => false end.

(* the pending overload groups of a scope name none of its own functions (overloads precede their implementation) *)
Definition quiet_scope (buf : list (string * list string)) (ms : list (string * tree)) : bool :=
  forallb (fun e => match snd e with
                    | [] => true
                    | _ :: _ => match lookup (fst e) ms with Some m => negb (fun_final m) | None => true end
                    end) buf.

Fixpoint quiet (t : tree) : bool :=
  match t with
  | Obj d ms => (if is_container (nkind d) then quiet_scope (buf_of d) ms else true)
                && forallb (fun p => quiet (snd p)) ms
  | _ => true
  end.

Section QuietMoved.
  Variable rec : tree -> tree -> bool.
  Fixpoint quiet_moved_members (sl oms0 : list (string * tree)) : bool :=
    match sl with
    | [] => true
    | (n, sm) :: r =>
        match sm with
        | Obj smd _ =>
            match lookup n oms0 with
            | None => quiet sm
            | Some om0 =>
                match final om0 with
                | Obj omd omms =>
                    if kind_eqb (nkind omd) (nkind smd) && is_container (nkind omd) then rec sm (Obj omd omms) else true
                | _ => true
                end
            end
        | _ => true
        end && quiet_moved_members r oms0
    end.
End QuietMoved.

(* the complement of the gap predicate of C19-F5: every stub-only class / module (at any depth reached by the merge) is quiet *)
Fixpoint quiet_moved (s o : tree) {struct s} : bool :=
  match s, o with
  | Obj sd sms, Obj od oms => quiet_moved_members quiet_moved sms oms
  | _, _ => true
  end.

Definition map_snd (f : tree -> tree) (l : list (string * tree)) : list (string * tree) :=
  map (fun p => (fst p, f (snd p))) l.

Lemma settle_eq : forall d ms,
  settle (Obj d ms) = if is_container (nkind d)
                      then Obj (with_ov d (OvDict [])) (apply_buffer (buf_of d) (map_snd settle ms))
                      else Obj d ms.
Proof.
  intros. simpl. destruct (is_container (nkind d)); auto. f_equal. f_equal.
  induction ms as [|[n m] r IH]; simpl; auto. now rewrite IH.
Qed.

Lemma erase_eq : forall d ms,
  erase_buf (Obj d ms) = Obj (match nov d with OvDict _ => with_ov d (OvDict []) | _ => d end) (map_snd erase_buf ms).
Proof.
  intros. simpl. f_equal. induction ms as [|[n m] r IH]; simpl; auto. now rewrite IH.
Qed.

Lemma lookup_map_snd : forall f n l, lookup n (map_snd f l) = option_map f (lookup n l).
Proof.
  induction l as [|[k v] r IH]; simpl; auto. destruct (String.eqb k n); auto.
Qed.

Lemma map_snd_assign : forall f n v l, map_snd f (assign n v l) = assign n (f v) (map_snd f l).
Proof.
  induction l as [|[k w] r IH]; simpl; auto. destruct (String.eqb k n); simpl; auto. now rewrite IH.
Qed.

Lemma apply_buffer_quiet : forall buf l,
  (forall fn x ovs m, In (fn, x :: ovs) buf -> lookup fn l = Some m -> set_ov m (x :: ovs) = m) ->
  apply_buffer buf l = l.
Proof.
  induction buf as [|[fn ovs] r IH]; simpl; intros l H; auto.
  destruct ovs as [|x ovs]; [apply IH; intros; eapply H; eauto|].
  destruct (lookup fn l) as [m|] eqn:L; [|apply IH; intros; eapply H; eauto].
  rewrite (H fn x ovs m) by auto. rewrite assign_same by auto. apply IH; intros; eapply H; eauto.
Qed.

Lemma set_ov_not_fun : forall m ovs, fun_final m = false -> set_ov m ovs = m.
Proof.
  intros m ovs F. unfold set_ov, fun_final in *. destruct (final m); auto. now rewrite F.
Qed.

Lemma fun_final_settle : forall m, fun_final (settle m) = fun_final m.
Proof.
  intros [d ms|tg rt|tg rt x]; auto. rewrite settle_eq. unfold fun_final.
  destruct (is_container (nkind d)) eqn:C; auto.
Qed.

Lemma with_ov_twice : forall d x, with_ov (with_ov d x) x = with_ov d x.
Proof. destruct d; reflexivity. Qed.

Lemma settle_erase : forall t, quiet t = true -> has_dicts t = true -> erase_buf (settle t) = erase_buf t.
Proof.
  induction t as [tg rt|tg rt x _|d ms IH] using tree_ind'; intros Q HD; auto.
  rewrite settle_eq. destruct (is_container (nkind d)) eqn:C; auto.
  simpl in Q, HD. rewrite C in Q, HD.
  apply andb_true_iff in Q. destruct Q as [QS QM]. apply andb_true_iff in HD. destruct HD as [HV HM].
  rewrite apply_buffer_quiet.
  - rewrite !erase_eq. destruct (nov d) eqn:NV; try discriminate. simpl. rewrite with_ov_twice. f_equal.
    rewrite forallb_forall in QM, HM. rewrite Forall_forall in IH.
    clear - IH QM HM. unfold map_snd. induction ms as [|[n m] r IHr]; simpl; auto.
    assert (E : erase_buf (settle m) = erase_buf m).
    { apply (IH (n, m)); [now left|apply (QM (n, m)); now left|apply (HM (n, m)); now left]. }
    rewrite E. f_equal. apply IHr.
    + intros x Ix. apply IH. now right.
    + intros x Ix. apply QM. now right.
    + intros x Ix. apply HM. now right.
  - intros fn x ovs m I L. rewrite lookup_map_snd in L.
    destruct (lookup fn ms) as [m0|] eqn:L0; [|discriminate]. inversion L; subst.
    apply set_ov_not_fun. rewrite fun_final_settle.
    unfold quiet_scope in QS. rewrite forallb_forall in QS. specialize (QS _ I). simpl in QS. rewrite L0 in QS.
    now apply negb_true_iff in QS.
Qed.

Lemma quiet_set_rt : forall b t, quiet (set_rt b t) = quiet t.
Proof. intros b [d ms|tg rt|tg rt x]; reflexivity. Qed.

Lemma erase_retarget : forall cm x, erase_buf x = erase_buf (final cm) -> erase_buf (retarget cm x) = erase_buf cm.
Proof.
  induction cm as [d ms|tg rt|tg rt y IH]; simpl; intros x E; auto. f_equal. auto.
Qed.

Lemma erase_ms_assign_same : forall n x cm acc, lookup n acc = Some cm -> erase_buf x = erase_buf cm ->
  map_snd erase_buf (assign n x acc) = map_snd erase_buf acc.
Proof.
  intros. rewrite map_snd_assign. apply assign_same. rewrite lookup_map_snd, H. simpl. now f_equal.
Qed.

(* what the second merge does to the member under n leaves it unchanged up to buffers *)
Definition resettle_neutral (rec' : tree -> tree -> tree -> tree) (oms0 : list (string * tree)) (n : string) (sm cm : tree) : Prop :=
  match sm with
  | Obj smd _ =>
      match lookup n oms0 with
      | None => erase_buf (settle cm) = erase_buf cm
      | Some om0 =>
          match final cm with
          | Obj cmd cmms =>
              if kind_eqb (nkind cmd) (nkind smd) && is_container (nkind cmd)
              then erase_buf (rec' sm (final om0) (Obj cmd cmms)) = erase_buf (Obj cmd cmms)
              else True
          | _ => True
          end
      end
  | _ => True
  end.

Lemma resettle_members_erase : forall rec' sl oms0 cms,
  NoDup (names sl) ->
  (forall n sm, In (n, sm) sl -> exists cm, lookup n cms = Some cm /\ resettle_neutral rec' oms0 n sm cm) ->
  forall acc, (forall n, In n (names sl) -> lookup n acc = lookup n cms) ->
  map_snd erase_buf (resettle_members rec' sl oms0 acc) = map_snd erase_buf acc.
Proof.
  intros rec'. induction sl as [|[n sm] r IH]; intros oms0 cms ND H acc AG; [reflexivity|].
  inversion ND as [|? ? NI ND']; subst.
  assert (H' : forall n0 sm0, In (n0, sm0) r -> exists cm, lookup n0 cms = Some cm /\ resettle_neutral rec' oms0 n0 sm0 cm)
    by (intros; apply H; now right).
  assert (KEEPA : forall v k, In k (names r) -> lookup k (assign n v acc) = lookup k cms).
  { intros v k Ik. rewrite lookup_assign_other; [apply AG; now right|]. intros ->. contradiction. }
  assert (KEEP0 : forall k, In k (names r) -> lookup k acc = lookup k cms) by (intros; apply AG; now right).
  destruct (H n sm (or_introl eq_refl)) as (cm & L & RN).
  assert (LA : lookup n acc = Some cm) by (rewrite AG; [exact L|now left]).
  simpl. rewrite LA.
  destruct sm as [smd smms|tg rt|tg rt y]; [|apply IH with (cms := cms); auto|apply IH with (cms := cms); auto].
  unfold resettle_neutral in RN.
  destruct (lookup n oms0) as [om0|].
  - destruct (final cm) as [cmd cmms|tg rt|tg rt y] eqn:FC; [|apply IH with (cms := cms); auto|apply IH with (cms := cms); auto].
    destruct (kind_eqb (nkind cmd) (nkind smd) && is_container (nkind cmd)); [|apply IH with (cms := cms); auto].
    rewrite (IH oms0 cms ND' H' _ (KEEPA _)).
    eapply erase_ms_assign_same; eauto. apply erase_retarget. now rewrite FC.
  - rewrite (IH oms0 cms ND' H' _ (KEEPA _)).
    eapply erase_ms_assign_same; eauto.
Qed.

Lemma quiet_moved_members_in : forall rec sl oms0 n smd smms,
  quiet_moved_members rec sl oms0 = true -> In (n, Obj smd smms) sl ->
  match lookup n oms0 with
  | None => quiet (Obj smd smms) = true
  | Some om0 =>
      match final om0 with
      | Obj omd omms =>
          if kind_eqb (nkind omd) (nkind smd) && is_container (nkind omd) then rec (Obj smd smms) (Obj omd omms) = true else True
      | _ => True
      end
  end.
Proof.
  induction sl as [|[k sm] r IH]; simpl; intros oms0 n smd smms Q I; [contradiction|].
  apply andb_true_iff in Q. destruct Q as [Q1 Q2].
  destruct I as [I|I]; [|apply IH; auto].
  inversion I; subst. destruct (lookup n oms0) as [om0|]; auto.
  destruct (final om0); auto. destruct (kind_eqb (nkind d) (nkind smd) && is_container (nkind d)); auto.
Qed.

(* Unless a stub-only class / module carries a pending overload group for one of its own functions (finding C19-F5),
   the second merge changes nothing but the bookkeeping dicts. *)
Theorem second_merge_neutral_modulo_known : forall s,
  wfs s -> has_dicts s = true -> root_container s = true ->
  forall o r, merge_obj s o = Done r -> quiet_moved s o = true ->
  erase_buf (resettle s o r) = erase_buf r.
Proof.
  induction s as [tg rt|tg rt x _|sd sms IH] using tree_ind'; intros W HD RC o r M Q; [discriminate|discriminate|].
  destruct o as [od oms|tg rt|tg rt x]; [|simpl in M; discriminate|simpl in M; discriminate].
  pose proof W as (NDm & _ & NDi & NDb & _).
  destruct (field_table _ _ _ _ _ M NDm NDb) as (rms & -> & _ & T).
  cbn [resettle]. rewrite !erase_eq. f_equal.
  cbn [quiet_moved] in Q.
  apply (resettle_members_erase resettle sms oms rms NDm); auto.
  intros n sm I.
  pose proof (in_lookup_nodup _ _ _ _ NDm I) as LS.
  pose proof (wfs_member _ _ _ _ W I) as Wm.
  pose proof (has_dicts_member _ _ _ _ HD I) as HDm.
  rewrite Forall_forall in IH. specialize (IH (n, sm) I). simpl in IH.
  rewrite (T n). unfold table. rewrite LS. unfold one, resettle_neutral.
  destruct sm as [smd smms|tg rt|tg rt y]; [|destruct (lookup n oms); simpl; eauto|destruct (lookup n oms); simpl; eauto].
  pose proof (quiet_moved_members_in _ _ _ _ _ _ Q I) as QE.
  destruct (lookup n oms) as [om|] eqn:LO; cbn [option_map].
  - eexists; split; [reflexivity|].
    set (om1 := buffered (buf_of sd) n om) in *.
    cbn [member_result].
    destruct (final om1) as [omd omms|tg rt|tg rt y] eqn:F1.
    + destruct (kind_eqb (nkind omd) (nkind smd)) eqn:K.
      * destruct (is_container (nkind omd)) eqn:C.
        -- destruct (buffered_final_container _ _ _ _ _ F1 C) as (FO & _).
           rewrite FO, K, C in QE. simpl in QE.
           assert (RCm : root_container (Obj smd smms) = true).
           { simpl. apply kind_eqb_eq in K. now rewrite <- K. }
           assert (DKm : dict_ok (Obj smd smms) = true) by (now rewrite <- has_dicts_dict_ok).
           destruct (never_raises _ DKm RCm omd omms) as (t' & Mt).
           pose proof Wm as (NDm' & _ & _ & NDb' & _).
           destruct (scope_level _ _ _ _ _ Mt NDm' NDb') as (rd & rms' & -> & Kr & _).
           assert (CM : retarget om1 (out_tree (merge_obj (Obj smd smms) (Obj omd omms))) = retarget om1 (Obj rd rms')) by (now rewrite Mt).
           destruct (nkind omd) eqn:KO; simpl in C; try discriminate; rewrite CM, final_retarget_obj, Kr, K;
             cbn [andb is_container]; rewrite FO; apply IH; auto.
        -- destruct (nkind omd) eqn:KO; simpl in C; try discriminate.
           ++ rewrite final_retarget_obj, merge_fun_kind, KO. now rewrite andb_false_r.
           ++ rewrite final_retarget_obj. simpl. rewrite KO. now rewrite andb_false_r.
      * rewrite F1, K. cbn [andb]. trivial.
    + rewrite F1. trivial.
    + rewrite F1. trivial.
  - eexists; split; [reflexivity|].
    apply settle_erase; [now rewrite quiet_set_rt|now rewrite has_dicts_set_rt].
Qed.

(* ------------------------------------------------------------------ the loader: stubs on the package __init__, no stubs submodules *)
Lemma remerge_top_nil : forall s o cur, root_container s = true -> remerge_top [] s o cur = remerge s o cur.
Proof.
  intros [sd sms|tg rt|tg rt x] o cur RC; try discriminate.
  destruct o as [od oms|? ?|? ? ?], cur as [cd cms|? ?|? ? ?]; reflexivity.
Qed.

Theorem load_package_in_package_stubs : forall s,
  wfs s -> has_dicts s = true -> root_container s = true ->
  forall top r, merge_obj s top = Done r ->
  load_package2 top s [] = Ok (resettle s top r) /\
  (quiet_moved s top = true -> erase_buf (resettle s top r) = erase_buf r).
Proof.
  intros s W HD RC top r M. split.
  - unfold load_package2. rewrite M, remerge_top_nil by auto.
    now rewrite (second_merge_resettles s W HD RC top r M).
  - intros Q. now apply second_merge_neutral_modulo_known.
Qed.

(* ------------------------------------------------------------------ examples *)
(* stubs:  class S:  def g(self, x: float) -> float   then   @overload def g(self, x: int) -> int   (still pending) *)
Definition ex5_g : tree := Obj (with_ret (with_params (nd KFun) [("self", None); ("x", Some "float")]) (Some "float")) [].
Definition ex5_S (buf : list (string * list string)) (ms : list (string * tree)) : tree := Obj (scope KCls buf) ms.
Definition ex5_s : tree := Obj (scope KMod []) [("S", ex5_S [("g", ["g(self, x: int) -> int"])] [("g", ex5_g)])].
(* runtime:  A = 1 *)
Definition ex5_o : tree := Obj (scope KMod []) [("A", Obj (nd KAttr) [])].
(* stubs with a usual stub-only class: only @overload signatures for m (no member m), and a method k *)
Definition ex5_s_ok : tree :=
  Obj (scope KMod []) [("S", ex5_S [("m", ["m(self) -> int"; "m(self, x: int) -> str"])] [("k", ex5_g)])].

Lemma ex5_wfs : wfs ex5_s /\ wfs ex5_s_ok.
Proof. split; simpl; repeat split; repeat constructor; simpl; intuition discriminate. Qed.

(* finding C19-F5: the double merge is not idempotent, even up to the bookkeeping dicts *)
Example double_merge_refuted :
  exists s o r r2, wfs s /\ has_dicts s = true /\ root_container s = true /\ quiet_moved s o = false /\
    merge_obj s o = Done r /\ load_package2 o s [] = Ok r2 /\ erase_buf r2 <> erase_buf r /\
    at_path ["S"; "g"] r = Some ex5_g /\
    at_path ["S"; "g"] r2 = Some (Obj (with_ov (with_ret (with_params (nd KFun) [("self", None); ("x", Some "float")]) (Some "float"))
                                               (OvList ["g(self, x: int) -> int"])) []).
Proof.
  exists ex5_s, ex5_o. eexists. eexists.
  split; [exact (proj1 ex5_wfs)|]. split; [reflexivity|]. split; [reflexivity|]. split; [reflexivity|].
  split; [vm_compute; reflexivity|]. split; [vm_compute; reflexivity|].
  split; [vm_compute; discriminate|]. split; vm_compute; reflexivity.
Qed.

(* the hypotheses of the idempotence theorem are satisfiable, and "up to buffers" is needed: the second merge drains the
   pending group of the stub-only class *)
Example double_merge_hypotheses_satisfiable :
  exists r r2, wfs ex5_s_ok /\ has_dicts ex5_s_ok = true /\ root_container ex5_s_ok = true /\ quiet_moved ex5_s_ok ex5_o = true /\
    merge_obj ex5_s_ok ex5_o = Done r /\ load_package2 ex5_o ex5_s_ok [] = Ok r2 /\
    erase_buf r2 = erase_buf r /\ r2 <> r /\
    at_path ["S"] r2 = Some (set_rt false (ex5_S [] [("k", ex5_g)])).
Proof.
  eexists. eexists.
  split; [exact (proj2 ex5_wfs)|]. split; [reflexivity|]. split; [reflexivity|]. split; [reflexivity|].
  split; [vm_compute; reflexivity|]. split; [vm_compute; reflexivity|].
  split; [vm_compute; reflexivity|]. split; [vm_compute; discriminate|]. vm_compute; reflexivity.
Qed.

(* finding C19-F4: in-package stubs of a submodule are merged before the wildcard import of the runtime module is
   expanded.  Runtime module as visited:  from _pkg import *  (one unexpanded alias);  stubs:  def scale(value: float) -> float.
   CPython has pkg.sub.scale; the merged module holds it as a stub-only member. *)
Definition ex4_o : tree := Obj (with_imp (scope KMod []) [("_pkg/*", "_pkg")]) [("_pkg/*", Al "_pkg" true)].
Definition ex4_scale : tree := Obj (with_ret (with_params (nd KFun) [("value", Some "float")]) (Some "float")) [].
Definition ex4_s : tree := Obj (scope KMod []) [("scale", ex4_scale)].

Example F4_wildcard_facade_refuted :
  exists r, set_member_module (mkF false ex4_o) (mkF true ex4_s) = Ok (mkF false r) /\
    set_member_module (mkF true ex4_s) (mkF false ex4_o) = Ok (mkF false r) /\
    names (members r) = ["_pkg/*"; "scale"] /\
    at_path ["scale"] r = Some (set_rt false ex4_scale) /\ runtime_of (set_rt false ex4_scale) = false.
Proof. eexists. repeat split; vm_compute; reflexivity. Qed.

(* ------------------------------------------------------------------ finding C19-F6 on the sequential model *)
From Verif Require Import Model.C19_seq.
(* pkg/m.py: A = 1     pkg/m.pyi: A: int     pkg/user.py: from pkg.m import A     pkg/user.pyi: A: complex *)
Definition ex6_mpy : fmod := mkF false (Obj (scope KMod []) [("A", Obj (nd KAttr) [])]).
Definition ex6_mpyi : fmod := mkF true (Obj (scope KMod []) [("A", Obj (with_ann (nd KAttr) (Some "int")) [])]).
Definition ex6_upy : fmod := mkF false (Obj (with_imp (scope KMod []) [("A", "pkg.m.A")]) [("A", Al "pkg.m.A" true)]).
Definition ex6_upyi : fmod := mkF true (Obj (scope KMod []) [("A", Obj (with_ann (nd KAttr) (Some "complex")) [])]).

Definition ann_of_A (s : seq_state) : option (option string) :=
  match lookup "m" (s_mods s) with
  | Some fm => match get_path ["A"] (body fm) with Some (Obj d _) => Some (nann d) | _ => None end
  | None => None
  end.

(* the pair (m.py, m.pyi) with the pair of a re-exporting module arriving in between: which file of the pair comes first
   decides the merged annotation, and stubs-first leaves pkg.user.A bound to the dropped stub object *)
Example interleaved_pair_order_refuted :
  let stubs_first := load_seq 8 "pkg" [("m", ex6_mpyi); ("user", ex6_upy); ("user", ex6_upyi); ("m", ex6_mpy)] in
  let runtime_first := load_seq 8 "pkg" [("m", ex6_mpy); ("user", ex6_upy); ("user", ex6_upyi); ("m", ex6_mpyi)] in
  ann_of_A stubs_first = Some (Some "complex") /\ ann_of_A runtime_first = Some (Some "int") /\
  s_stale stubs_first = ["pkg.user.A"] /\ s_stale runtime_first = [] /\
  s_dirty stubs_first = false /\ s_dirty runtime_first = false /\
  (* adjacent files of the pair: the same result in both orders *)
  s_mods (load_seq 8 "pkg" [("m", ex6_mpyi); ("m", ex6_mpy); ("user", ex6_upy); ("user", ex6_upyi)]) =
  s_mods (load_seq 8 "pkg" [("m", ex6_mpy); ("m", ex6_mpyi); ("user", ex6_upy); ("user", ex6_upyi)]).
Proof. repeat split; vm_compute; reflexivity. Qed.
