(* C19 proofs, second part: the loader's second merge (Model/C19_reload.v). *)
From Coq Require Import List ZArith String Bool Arith Lia.
From Verif Require Import Lib.Sexp Model.C19_merge Model.C19_reload Proofs.C19_merge.
Import ListNotations.
Open Scope string_scope. Open Scope list_scope. Open Scope nat_scope.

(* ------------------------------------------------------------------ small facts *)
Lemma assign_same : forall A n (v : A) l, lookup n l = Some v -> assign n v l = l.
Proof.
  induction l as [|[k w] r IH]; simpl; intros H; [discriminate|].
  destruct (String.eqb k n) eqn:E.
  - inversion H; subst. reflexivity.
  - f_equal. auto.
Qed.

Lemma node_eta_doc : forall d, with_doc d (ndoc d) = d. Proof. destruct d; reflexivity. Qed.
Lemma node_eta_imp : forall d, with_imp d (nimp d) = d. Proof. destruct d; reflexivity. Qed.

Lemma merge_doc_idem : forall a b, merge_doc (merge_doc a b) b = merge_doc a b.
Proof. intros [x|] [y|]; reflexivity. Qed.

Lemma set_ann_id : forall n a ps, (lookup n ps = Some a \/ lookup n ps = None) -> set_ann n a ps = ps.
Proof.
  induction ps as [|[k b] r IH]; simpl; intros H; auto.
  destruct (String.eqb k n) eqn:E.
  - destruct H as [H|H]; [inversion H; subst; reflexivity|discriminate].
  - f_equal. auto.
Qed.

Lemma fold_set_ann_id : forall sps l,
  (forall k a, In (k, a) sps -> set_ann k a l = l) ->
  fold_left (fun acc p => set_ann (fst p) (snd p) acc) sps l = l.
Proof.
  induction sps as [|[k a] r IH]; simpl; intros l H; auto.
  rewrite (H k a) by now left. apply IH. intros; apply H; now right.
Qed.

Lemma merge_params_idem : forall sps ops, NoDup (names sps) ->
  merge_params (merge_params ops sps) sps = merge_params ops sps.
Proof.
  intros sps ops ND. unfold merge_params at 1. apply fold_set_ann_id.
  intros k a I. apply set_ann_id.
  rewrite (merge_params_lookup sps ops k ND).
  destruct (lookup k ops); [left|right; reflexivity].
  now rewrite (in_lookup_nodup _ _ _ _ ND I).
Qed.

Lemma merge_fun_idem : forall o s, NoDup (names (nparams s)) -> merge_fun (merge_fun o s) s = merge_fun o s.
Proof.
  intros o s ND. unfold merge_fun.
  destruct (truthy (nov s)); unfold with_ov, with_ret, with_params, with_doc; simpl;
    rewrite merge_doc_idem, (merge_params_idem _ _ ND); reflexivity.
Qed.

Lemma merge_attr_idem : forall o s, merge_attr (merge_attr o s) s = merge_attr o s.
Proof. intros. unfold merge_attr, with_ann, with_doc; simpl. now rewrite merge_doc_idem. Qed.

Lemma fold_assign_id : forall A (j l : list (string * A)),
  (forall k v, In (k, v) j -> lookup k l = Some v) ->
  fold_left (fun acc p => assign (fst p) (snd p) acc) j l = l.
Proof.
  induction j as [|[k v] r IH]; simpl; intros l H; auto.
  rewrite assign_same by (apply H; now left). apply IH. intros; apply H; now right.
Qed.

Lemma fold_assign_lookup : forall A (j l : list (string * A)) k v, NoDup (names j) -> In (k, v) j ->
  lookup k (fold_left (fun acc p => assign (fst p) (snd p) acc) j l) = Some v.
Proof.
  induction j as [|[k' v'] r IH]; simpl; intros l k v ND I; [contradiction|].
  inversion ND as [|? ? NI ND']; subst.
  destruct I as [I|I].
  - inversion I; subst.
    assert (G : forall (r : list (string * A)) l, ~ In k (names r) -> lookup k l = Some v ->
                lookup k (fold_left (fun acc p => assign (fst p) (snd p) acc) r l) = Some v).
    { clear. induction r as [|[a b] r IH]; simpl; intros l NI L; auto.
      apply IH; [tauto|]. rewrite lookup_assign_other; auto. }
    apply G; auto. apply lookup_assign_same.
  - apply IH; auto.
Qed.

Lemma update_imports_idem : forall i j, NoDup (names j) -> update_imports (update_imports i j) j = update_imports i j.
Proof.
  intros i j ND. unfold update_imports at 1. apply fold_assign_id.
  intros k v I. unfold update_imports. now apply fold_assign_lookup.
Qed.

(* ------------------------------------------------------------------ what the second merge amounts to *)
Section Resettle.
  Variable rec : tree -> tree -> tree -> tree.
  (* per name of the stubs scope: a member moved by the first merge (absent from the runtime scope before it) is merged
     into itself (settle); a class / module present on both sides: recursively; everything else: unchanged *)
  Fixpoint resettle_members (sl : list (string * tree)) (oms0 acc : list (string * tree)) : list (string * tree) :=
    match sl with
    | [] => acc
    | (n, sm) :: r =>
        match lookup n acc, sm with
        | Some cm, Obj smd _ =>
            match lookup n oms0 with
            | None => resettle_members r oms0 (assign n (settle cm) acc)
            | Some om0 =>
                match final cm with
                | Obj cmd cmms =>
                    if kind_eqb (nkind cmd) (nkind smd) && is_container (nkind cmd)
                    then resettle_members r oms0 (assign n (retarget cm (rec sm (final om0) (Obj cmd cmms))) acc)
                    else resettle_members r oms0 acc
                | _ => resettle_members r oms0 acc
                end
            end
        | _, _ => resettle_members r oms0 acc
        end
    end.
End Resettle.

Fixpoint resettle (s o0 cur : tree) {struct s} : tree :=
  match s, o0, cur with
  | Obj sd sms, Obj od oms, Obj cd cms => Obj cd (resettle_members resettle sms oms cms)
  | _, _, _ => cur
  end.

(* stubs are dict-based objects: member names, parameter names, import names, buffer keys are unique, at every depth *)
Fixpoint wfs (t : tree) : Prop :=
  match t with
  | Obj d ms =>
      NoDup (names ms) /\ NoDup (names (nparams d)) /\ NoDup (names (nimp d)) /\ NoDup (names (buf_of d)) /\
      (fix all (l : list (string * tree)) : Prop := match l with [] => True | p :: r => wfs (snd p) /\ all r end) ms
  | _ => True
  end.

Lemma wfs_members : forall d ms, wfs (Obj d ms) -> Forall (fun p => wfs (snd p)) ms.
Proof.
  intros d ms (_ & _ & _ & _ & H). induction ms as [|p r IH]; constructor; simpl in H; tauto.
Qed.

Lemma has_dicts_dict_ok : forall t, has_dicts t = dict_ok t.
Proof.
  induction t as [tg rt|tg rt x IH|d ms IH] using tree_ind'; simpl; auto.
  f_equal. induction IH as [|p r H F IHF]; simpl; auto. rewrite H, IHF. reflexivity.
Qed.

Lemma has_dicts_set_rt : forall b t, has_dicts (set_rt b t) = has_dicts t.
Proof. intros b [d ms|tg rt|tg rt x]; reflexivity. Qed.

Lemma has_dicts_member : forall d ms n m, has_dicts (Obj d ms) = true -> In (n, m) ms -> has_dicts m = true.
Proof.
  intros d ms n m H I. simpl in H. apply andb_true_iff in H. destruct H as [_ H].
  rewrite forallb_forall in H. exact (H (n, m) I).
Qed.

(* the state of the runtime member under the name n after the first merge, as far as the second merge cares *)
Definition merged_state (rec : tree -> tree -> tree -> outcome) (rec' : tree -> tree -> tree -> tree)
                        (oms0 : list (string * tree)) (n : string) (sm cm : tree) : Prop :=
  match sm with
  | Obj smd _ =>
      match lookup n oms0 with
      | None => has_dicts cm = true
      | Some om0 =>
          match final cm with
          | Obj cmd cmms =>
              if kind_eqb (nkind cmd) (nkind smd) then
                match nkind cmd with
                | KFun => merge_fun cmd smd = cmd
                | KAttr => merge_attr cmd smd = cmd
                | _ => rec sm (final om0) (Obj cmd cmms) = Done (rec' sm (final om0) (Obj cmd cmms))
                end
              else True
          | _ => True
          end
      end
  | _ => True
  end.

Lemma remerge_members_resettle : forall rec rec' sl oms0 cms,
  NoDup (names sl) ->
  (forall n sm, In (n, sm) sl -> exists cm, lookup n cms = Some cm /\ merged_state rec rec' oms0 n sm cm) ->
  forall acc, (forall n, In n (names sl) -> lookup n acc = lookup n cms) ->
  remerge_members rec (fun _ => false) sl oms0 acc = (resettle_members rec' sl oms0 acc, None).
Proof.
  intros rec rec'. induction sl as [|[n sm] r IH]; intros oms0 cms ND H acc AG; [reflexivity|].
  inversion ND as [|? ? NI ND']; subst.
  assert (H' : forall n0 sm0, In (n0, sm0) r -> exists cm, lookup n0 cms = Some cm /\ merged_state rec rec' oms0 n0 sm0 cm)
    by (intros; apply H; now right).
  assert (KEEP : forall acc', (forall k, k <> n -> lookup k acc' = lookup k acc) ->
            forall k, In k (names r) -> lookup k acc' = lookup k cms).
  { intros acc' E k Ik. rewrite E; [apply AG; now right|]. intros ->. contradiction. }
  assert (KEEPA : forall v k, In k (names r) -> lookup k (assign n v acc) = lookup k cms).
  { intros v. apply KEEP. intros k NE. apply lookup_assign_other; auto. }
  assert (KEEP0 : forall k, In k (names r) -> lookup k acc = lookup k cms) by (apply KEEP; auto).
  destruct (H n sm (or_introl eq_refl)) as (cm & L & MS).
  assert (LA : lookup n acc = Some cm) by (rewrite AG; [exact L|now left]).
  simpl. rewrite LA.
  destruct sm as [smd smms|tg rt|tg rt y]; [|apply IH with (cms := cms); auto|apply IH with (cms := cms); auto].
  unfold merged_state in MS.
  destruct (lookup n oms0) as [om0|].
  - destruct (final cm) as [cmd cmms|tg rt|tg rt y] eqn:FC; [|apply IH with (cms := cms); auto|apply IH with (cms := cms); auto].
    destruct (kind_eqb (nkind cmd) (nkind smd)) eqn:K; simpl; [|apply IH with (cms := cms); auto].
    assert (SAME : assign n (retarget cm (Obj cmd cmms)) acc = acc).
    { rewrite <- FC, retarget_final. now apply assign_same. }
    destruct (nkind cmd) eqn:KC; simpl.
    + rewrite MS. apply IH with (cms := cms); auto.
    + rewrite MS. apply IH with (cms := cms); auto.
    + rewrite MS, SAME. apply IH with (cms := cms); auto.
    + rewrite MS, SAME. apply IH with (cms := cms); auto.
  - rewrite MS. apply IH with (cms := cms); auto.
Qed.
