(* C19 proofs, second part: the loader's second merge (Model/C19_reload.v). *)
From Coq Require Import List ZArith String Bool Arith Lia.
From Verif Require Import Lib.Sexp Model.C19_merge Model.C19_reload Proofs.C19_merge.
Import ListNotations.
Open Scope string_scope. Open Scope list_scope. Open Scope nat_scope.

(* ------------------------------------------------------------------ small facts *)
Lemma assign_same : forall A n (v : A) l, lookup n l = Some v -> assign n v l = l.
Proof.
  induction l as [|[k w] r IH]; simpl; intros H; [discriminate|].
  destruct (String.eqb k n) eqn:E.
  - inversion H; subst. reflexivity.
  - f_equal. auto.
Qed.

Lemma node_eta_doc : forall d, with_doc d (ndoc d) = d. Proof. destruct d; reflexivity. Qed.
Lemma node_eta_imp : forall d, with_imp d (nimp d) = d. Proof. destruct d; reflexivity. Qed.

Lemma merge_doc_idem : forall a b, merge_doc (merge_doc a b) b = merge_doc a b.
Proof. intros [x|] [y|]; reflexivity. Qed.

Lemma set_ann_id : forall n a ps, (lookup n ps = Some a \/ lookup n ps = None) -> set_ann n a ps = ps.
Proof.
  induction ps as [|[k b] r IH]; simpl; intros H; auto.
  destruct (String.eqb k n) eqn:E.
  - destruct H as [H|H]; [inversion H; subst; reflexivity|discriminate].
  - f_equal. auto.
Qed.

Lemma fold_set_ann_id : forall sps l,
  (forall k a, In (k, a) sps -> set_ann k a l = l) ->
  fold_left (fun acc p => set_ann (fst p) (snd p) acc) sps l = l.
Proof.
  induction sps as [|[k a] r IH]; simpl; intros l H; auto.
  rewrite (H k a) by now left. apply IH. intros; apply H; now right.
Qed.

Lemma merge_params_idem : forall sps ops, NoDup (names sps) ->
  merge_params (merge_params ops sps) sps = merge_params ops sps.
Proof.
  intros sps ops ND. unfold merge_params at 1. apply fold_set_ann_id.
  intros k a I. apply set_ann_id.
  rewrite (merge_params_lookup sps ops k ND).
  destruct (lookup k ops); [left|right; reflexivity].
  now rewrite (in_lookup_nodup _ _ _ _ ND I).
Qed.

Lemma merge_fun_idem : forall o s, NoDup (names (nparams s)) -> merge_fun (merge_fun o s) s = merge_fun o s.
Proof.
  intros o s ND. unfold merge_fun.
  destruct (truthy (nov s)); unfold with_ov, with_ret, with_params, with_doc; simpl;
    rewrite merge_doc_idem, (merge_params_idem _ _ ND); reflexivity.
Qed.

Lemma merge_attr_idem : forall o s, merge_attr (merge_attr o s) s = merge_attr o s.
Proof. intros. unfold merge_attr, with_ann, with_doc; simpl. now rewrite merge_doc_idem. Qed.

Lemma fold_assign_id : forall A (j l : list (string * A)),
  (forall k v, In (k, v) j -> lookup k l = Some v) ->
  fold_left (fun acc p => assign (fst p) (snd p) acc) j l = l.
Proof.
  induction j as [|[k v] r IH]; simpl; intros l H; auto.
  rewrite assign_same by (apply H; now left). apply IH. intros; apply H; now right.
Qed.

Lemma fold_assign_lookup : forall A (j l : list (string * A)) k v, NoDup (names j) -> In (k, v) j ->
  lookup k (fold_left (fun acc p => assign (fst p) (snd p) acc) j l) = Some v.
Proof.
  induction j as [|[k' v'] r IH]; simpl; intros l k v ND I; [contradiction|].
  inversion ND as [|? ? NI ND']; subst.
  destruct I as [I|I].
  - inversion I; subst.
    assert (G : forall (r : list (string * A)) l, ~ In k (names r) -> lookup k l = Some v ->
                lookup k (fold_left (fun acc p => assign (fst p) (snd p) acc) r l) = Some v).
    { clear. induction r as [|[a b] r IH]; simpl; intros l NI L; auto.
      apply IH; [tauto|]. rewrite lookup_assign_other; auto. }
    apply G; auto. apply lookup_assign_same.
  - apply IH; auto.
Qed.

Lemma update_imports_idem : forall i j, NoDup (names j) -> update_imports (update_imports i j) j = update_imports i j.
Proof.
  intros i j ND. unfold update_imports at 1. apply fold_assign_id.
  intros k v I. unfold update_imports. now apply fold_assign_lookup.
Qed.

(* ------------------------------------------------------------------ the second merge changes nothing *)
(* stubs are dict-based objects: member names, parameter names, import names, buffer keys are unique, at every depth *)
Fixpoint wfs (t : tree) : Prop :=
  match t with
  | Obj d ms =>
      NoDup (names ms) /\ NoDup (names (nparams d)) /\ NoDup (names (nimp d)) /\ NoDup (names (buf_of d)) /\
      (fix all (l : list (string * tree)) : Prop := match l with [] => True | p :: r => wfs (snd p) /\ all r end) ms
  | _ => True
  end.

Lemma wfs_members : forall d ms, wfs (Obj d ms) -> Forall (fun p => wfs (snd p)) ms.
Proof.
  intros d ms (_ & _ & _ & _ & H). induction ms as [|p r IH]; constructor; simpl in H; tauto.
Qed.

Lemma has_dicts_dict_ok : forall t, has_dicts t = dict_ok t.
Proof.
  (* the two fixpoints have the same body *)
  induction t as [tg rt|tg rt x IH|d ms IH] using tree_ind'; simpl; auto.
Qed.

Lemma has_dicts_set_rt : forall b t, has_dicts (set_rt b t) = has_dicts t.
Proof. intros b [d ms|tg rt|tg rt x]; reflexivity. Qed.

Lemma has_dicts_member : forall d ms n m, has_dicts (Obj d ms) = true -> In (n, m) ms -> has_dicts m = true.
Proof.
  intros d ms n m H I. simpl in H. apply andb_true_iff in H. destruct H as [_ H].
  rewrite forallb_forall in H. exact (H (n, m) I).
Qed.

(* the state of the runtime member under the name n after the first merge, as far as the second merge cares *)
Definition merged_state (rec : tree -> tree -> tree -> outcome) (oms0 : list (string * tree)) (n : string) (sm cm : tree) : Prop :=
  match sm with
  | Obj smd _ =>
      match lookup n oms0 with
      | None => True                                   (* moved by the first merge: skipped *)
      | Some om0 =>
          match final cm with
          | Obj cmd cmms =>
              if kind_eqb (nkind cmd) (nkind smd) then
                match nkind cmd with
                | KFun => merge_fun cmd smd = cmd
                | KAttr => merge_attr cmd smd = cmd
                | _ => rec sm (final om0) (Obj cmd cmms) = Done (Obj cmd cmms)
                end
              else True
          | _ => True
          end
      end
  | _ => True
  end.

Lemma remerge_members_id : forall rec sl oms0 acc,
  (forall n sm, In (n, sm) sl -> exists cm, lookup n acc = Some cm /\ merged_state rec oms0 n sm cm) ->
  remerge_members rec (fun _ => false) sl oms0 acc = (acc, None).
Proof.
  intros rec. induction sl as [|[n sm] r IH]; intros oms0 acc H; [reflexivity|].
  assert (H' : forall n0 sm0, In (n0, sm0) r -> exists cm, lookup n0 acc = Some cm /\ merged_state rec oms0 n0 sm0 cm)
    by (intros; apply H; now right).
  destruct (H n sm (or_introl eq_refl)) as (cm & LA & MS).
  simpl. rewrite LA.
  destruct sm as [smd smms|tg rt|tg rt y]; [|apply IH; auto|apply IH; auto].
  unfold merged_state in MS.
  destruct (lookup n oms0) as [om0|]; [|apply IH; auto].
  destruct (final cm) as [cmd cmms|tg rt|tg rt y] eqn:FC; [|apply IH; auto|apply IH; auto].
  destruct (kind_eqb (nkind cmd) (nkind smd)) eqn:K; simpl; [|apply IH; auto].
  assert (SAME : assign n (retarget cm (Obj cmd cmms)) acc = acc).
  { rewrite <- FC, retarget_final. now apply assign_same. }
  destruct (nkind cmd) eqn:KC; simpl; rewrite MS, SAME; apply IH; auto.
Qed.

Lemma buffered_final_container : forall buf n om d ms,
  final (buffered buf n om) = Obj d ms -> is_container (nkind d) = true -> final om = Obj d ms /\ buffered buf n om = om.
Proof.
  intros buf n om d ms F C. unfold buffered in *. destruct (hit1 buf n) as [ovs|]; [|auto].
  unfold set_ov in *. destruct (final om) as [d0 ms0|tg rt|tg rt y] eqn:FO; auto.
  - destruct (kind_eqb (nkind d0) KFun) eqn:K; auto.
    + rewrite final_retarget_obj in F. inversion F; subst. simpl in C.
      destruct (nkind d0); simpl in *; discriminate.
    + rewrite FO in F. auto.
  - rewrite FO in F. discriminate.
  - pose proof (final_not_alto om) as NA. rewrite FO in NA. discriminate.
Qed.

Lemma kind_eqb_eq : forall a b, kind_eqb a b = true -> a = b.
Proof. intros [] []; simpl; auto; discriminate. Qed.
Lemma kind_eqb_refl : forall a, kind_eqb a a = true.
Proof. intros []; reflexivity. Qed.

Lemma wfs_member : forall d ms n m, wfs (Obj d ms) -> In (n, m) ms -> wfs m.
Proof.
  intros d ms n m W I. pose proof (wfs_members d ms W) as F. rewrite Forall_forall in F. exact (F (n, m) I).
Qed.

(* The loader's second merge of a pair that merged before changes NOTHING, at any depth: stub-only members, moved into
   the runtime tree by the first merge, are skipped (same object on both sides); every field rule is idempotent. *)
Theorem second_merge_identity : forall s,
  wfs s -> has_dicts s = true -> root_container s = true ->
  forall o r, merge_obj s o = Done r -> remerge s o r = Done r.
Proof.
  induction s as [tg rt|tg rt x _|sd sms IH] using tree_ind'; intros W HD RC o r M; [discriminate|discriminate|].
  destruct o as [od oms|tg rt|tg rt x]; [|simpl in M; discriminate|simpl in M; discriminate].
  pose proof W as (NDm & _ & NDi & NDb & _).
  destruct (field_table _ _ _ _ _ M NDm NDb) as (rms & -> & _ & T).
  cbn [remerge].
  assert (E : with_imp (with_doc
              (with_imp (with_doc od (merge_doc (ndoc od) (ndoc sd))) (update_imports (nimp od) (nimp sd)))
              (merge_doc (ndoc (with_imp (with_doc od (merge_doc (ndoc od) (ndoc sd))) (update_imports (nimp od) (nimp sd)))) (ndoc sd)))
              (update_imports (nimp (with_imp (with_doc od (merge_doc (ndoc od) (ndoc sd))) (update_imports (nimp od) (nimp sd)))) (nimp sd))
            = with_imp (with_doc od (merge_doc (ndoc od) (ndoc sd))) (update_imports (nimp od) (nimp sd))).
  { destruct od; unfold with_imp, with_doc; simpl. rewrite merge_doc_idem, (update_imports_idem _ _ NDi). reflexivity. }
  rewrite E. clear E.
  rewrite (remerge_members_id remerge sms oms rms); auto.
  intros n sm I.
  pose proof (in_lookup_nodup _ _ _ _ NDm I) as LS.
  pose proof (wfs_member _ _ _ _ W I) as Wm.
  pose proof (has_dicts_member _ _ _ _ HD I) as HDm.
  rewrite Forall_forall in IH. specialize (IH (n, sm) I). simpl in IH.
  rewrite (T n). unfold table. rewrite LS. unfold one, merged_state.
  destruct (lookup n oms) as [om|] eqn:LO; cbn [option_map].
  - eexists; split; [reflexivity|].
    destruct sm as [smd smms|tg rt|tg rt y]; auto.
    set (om1 := buffered (buf_of sd) n om) in *.
    cbn [member_result].
    destruct (final om1) as [omd omms|tg rt|tg rt y] eqn:F1.
    + destruct (kind_eqb (nkind omd) (nkind smd)) eqn:K.
      * apply kind_eqb_eq in K.
        destruct (nkind omd) eqn:KO.
        -- (* module *)
           assert (C : is_container (nkind omd) = true) by (rewrite KO; reflexivity).
           destruct (buffered_final_container _ _ _ _ _ F1 C) as (FO & _).
           assert (RCm : root_container (Obj smd smms) = true) by (simpl; now rewrite <- K).
           assert (DKm : dict_ok (Obj smd smms) = true) by (now rewrite <- has_dicts_dict_ok).
           destruct (never_raises _ DKm RCm omd omms) as (t' & Mt).
           rewrite Mt. cbn [out_tree].
           pose proof Wm as (NDm' & _ & _ & NDb' & _).
           destruct (scope_level _ _ _ _ _ Mt NDm' NDb') as (rd & rms' & -> & Kr & _).
           rewrite final_retarget_obj. rewrite Kr, KO. rewrite <- K. cbn [kind_eqb].
           rewrite FO. apply IH; auto.
        -- (* class *)
           assert (C : is_container (nkind omd) = true) by (rewrite KO; reflexivity).
           destruct (buffered_final_container _ _ _ _ _ F1 C) as (FO & _).
           assert (RCm : root_container (Obj smd smms) = true) by (simpl; now rewrite <- K).
           assert (DKm : dict_ok (Obj smd smms) = true) by (now rewrite <- has_dicts_dict_ok).
           destruct (never_raises _ DKm RCm omd omms) as (t' & Mt).
           rewrite Mt. cbn [out_tree].
           pose proof Wm as (NDm' & _ & _ & NDb' & _).
           destruct (scope_level _ _ _ _ _ Mt NDm' NDb') as (rd & rms' & -> & Kr & _).
           rewrite final_retarget_obj. rewrite Kr, KO. rewrite <- K. cbn [kind_eqb].
           rewrite FO. apply IH; auto.
        -- rewrite final_retarget_obj. rewrite merge_fun_kind, KO. rewrite <- K. simpl.
           apply merge_fun_idem. destruct Wm as (_ & NP & _). exact NP.
        -- rewrite final_retarget_obj. simpl. rewrite KO. rewrite <- K. simpl.
           apply merge_attr_idem.
      * rewrite F1, K. trivial.
    + rewrite F1. trivial.
    + rewrite F1. trivial.
  - eexists; split; [reflexivity|].
    destruct sm as [smd smms|tg rt|tg rt y]; simpl; auto.
Qed.

(* ------------------------------------------------------------------ the loader: stubs on the package __init__, no stubs submodules *)
Lemma remerge_top_nil : forall s o cur, root_container s = true -> remerge_top [] s o cur = remerge s o cur.
Proof.
  intros [sd sms|tg rt|tg rt x] o cur RC; try discriminate.
  destruct o as [od oms|? ?|? ? ?], cur as [cd cms|? ?|? ? ?]; reflexivity.
Qed.

(* Idempotence of the loader's double merge: with the stubs on the package __init__ (in the package itself) the loaded
   module IS the single merge - pending-overloads dicts included. *)
Theorem load_package_in_package_stubs : forall s,
  wfs s -> has_dicts s = true -> root_container s = true ->
  forall top r, merge_obj s top = Done r -> load_package2 top s [] = Ok r.
Proof.
  intros s W HD RC top r M.
  unfold load_package2. rewrite M, remerge_top_nil by auto.
  now rewrite (second_merge_identity s W HD RC top r M).
Qed.

(* ------------------------------------------------------------------ examples *)
(* stubs:  class S:  def g(self, x: float) -> float   then   @overload def g(self, x: int) -> int   (still pending) *)
Definition ex5_g : tree := Obj (with_ret (with_params (nd KFun) [("self", None); ("x", Some "float")]) (Some "float")) [].
Definition ex5_S (buf : list (string * list string)) (ms : list (string * tree)) : tree := Obj (scope KCls buf) ms.
Definition ex5_s : tree := Obj (scope KMod []) [("S", ex5_S [("g", ["g(self, x: int) -> int"])] [("g", ex5_g)])].
(* runtime:  A = 1 *)
Definition ex5_o : tree := Obj (scope KMod []) [("A", Obj (nd KAttr) [])].
(* stubs with a usual stub-only class: only @overload signatures for m (no member m), and a method k *)
Definition ex5_s_ok : tree :=
  Obj (scope KMod []) [("S", ex5_S [("m", ["m(self) -> int"; "m(self, x: int) -> str"])] [("k", ex5_g)])].

Lemma ex5_wfs : wfs ex5_s /\ wfs ex5_s_ok.
Proof. split; simpl; repeat split; repeat constructor; simpl; intuition discriminate. Qed.

(* repaired finding C19-F5 (/repo 79c2f6a): its witness - a stub-only class with a pending overload group for its own
   method - now loads to the single merge; so does an ordinary stub-only class, whose pending group stays pending *)
Example double_merge_examples :
  wfs ex5_s /\ has_dicts ex5_s = true /\ root_container ex5_s = true /\
  wfs ex5_s_ok /\ has_dicts ex5_s_ok = true /\ root_container ex5_s_ok = true /\
  (exists r, merge_obj ex5_s ex5_o = Done r /\ load_package2 ex5_o ex5_s [] = Ok r /\ at_path ["S"; "g"] r = Some ex5_g) /\
  (exists r, merge_obj ex5_s_ok ex5_o = Done r /\ load_package2 ex5_o ex5_s_ok [] = Ok r /\
     at_path ["S"] r = Some (set_rt false (ex5_S [("m", ["m(self) -> int"; "m(self, x: int) -> str"])] [("k", ex5_g)]))).
Proof.
  split; [exact (proj1 ex5_wfs)|]. split; [reflexivity|]. split; [reflexivity|].
  split; [exact (proj2 ex5_wfs)|]. split; [reflexivity|]. split; [reflexivity|].
  split; eexists; (split; [vm_compute; reflexivity|]); split; vm_compute; reflexivity.
Qed.

(* finding C19-F4: in-package stubs of a submodule are merged before the wildcard import of the runtime module is
   expanded.  Runtime module as visited:  from _pkg import *  (one unexpanded alias);  stubs:  def scale(value: float) -> float.
   CPython has pkg.sub.scale; the merged module holds it as a stub-only member. *)
Definition ex4_o : tree := Obj (with_imp (scope KMod []) [("_pkg/*", "_pkg")]) [("_pkg/*", Al "_pkg" true)].
Definition ex4_scale : tree := Obj (with_ret (with_params (nd KFun) [("value", Some "float")]) (Some "float")) [].
Definition ex4_s : tree := Obj (scope KMod []) [("scale", ex4_scale)].

Example F4_wildcard_facade_refuted :
  exists r, set_member_module (mkF false ex4_o) (mkF true ex4_s) = Ok (mkF false r) /\
    set_member_module (mkF true ex4_s) (mkF false ex4_o) = Ok (mkF false r) /\
    names (members r) = ["_pkg/*"; "scale"] /\
    at_path ["scale"] r = Some (set_rt false ex4_scale) /\ runtime_of (set_rt false ex4_scale) = false.
Proof. eexists. repeat split; vm_compute; reflexivity. Qed.

(* ------------------------------------------------------------------ finding C19-F6 on the sequential model *)
From Verif Require Import Model.C19_seq.
(* pkg/m.py: A = 1     pkg/m.pyi: A: int     pkg/user.py: from pkg.m import A     pkg/user.pyi: A: complex *)
Definition ex6_mpy : fmod := mkF false (Obj (scope KMod []) [("A", Obj (nd KAttr) [])]).
Definition ex6_mpyi : fmod := mkF true (Obj (scope KMod []) [("A", Obj (with_ann (nd KAttr) (Some "int")) [])]).
Definition ex6_upy : fmod := mkF false (Obj (with_imp (scope KMod []) [("A", "pkg.m.A")]) [("A", Al "pkg.m.A" true)]).
Definition ex6_upyi : fmod := mkF true (Obj (scope KMod []) [("A", Obj (with_ann (nd KAttr) (Some "complex")) [])]).

Definition ann_of_A (s : seq_state) : option (option string) :=
  match lookup "m" (s_mods s) with
  | Some fm => match get_path ["A"] (body fm) with Some (Obj d _) => Some (nann d) | _ => None end
  | None => None
  end.

(* the pair (m.py, m.pyi) with the pair of a re-exporting module arriving in between: which file of the pair comes first
   decides the merged annotation, and stubs-first leaves pkg.user.A bound to the dropped stub object *)
Example interleaved_pair_order_refuted :
  let stubs_first := load_seq 8 "pkg" [("m", ex6_mpyi); ("user", ex6_upy); ("user", ex6_upyi); ("m", ex6_mpy)] in
  let runtime_first := load_seq 8 "pkg" [("m", ex6_mpy); ("user", ex6_upy); ("user", ex6_upyi); ("m", ex6_mpyi)] in
  ann_of_A stubs_first = Some (Some "complex") /\ ann_of_A runtime_first = Some (Some "int") /\
  s_stale stubs_first = ["pkg.user.A"] /\ s_stale runtime_first = [] /\
  s_dirty stubs_first = false /\ s_dirty runtime_first = false /\
  (* adjacent files of the pair: the same result in both orders *)
  s_mods (load_seq 8 "pkg" [("m", ex6_mpyi); ("m", ex6_mpy); ("user", ex6_upy); ("user", ex6_upyi)]) =
  s_mods (load_seq 8 "pkg" [("m", ex6_mpy); ("m", ex6_mpyi); ("user", ex6_upy); ("user", ex6_upyi)]).
Proof. repeat split; vm_compute; reflexivity. Qed.
