(* C14, .pth files: the search-path extension (_extend_from_pth_files, repaired) against site.addsitedir, and its
   independence of the directory listing order (sorted() is modelled by an insertion sort on the file names). *)
From Coq Require Import List ZArith NArith String Ascii Bool Arith Lia Permutation Sorting.Sorted.
From Verif Require Import Lib.Sexp Model.C14_finder Proofs.C14_finder Proofs.C14_order.
Import ListNotations.
Open Scope string_scope. Open Scope list_scope.

(* ------------------------------------------------------------------------------------------------------------- *)
(* A.  the order on file names is a total order *)
Lemma ascii_cmp_refl : forall a, Ascii.compare a a = Eq.
Proof. intro a. unfold Ascii.compare. apply N.compare_refl. Qed.

Lemma ascii_cmp_lt_trans : forall a b c, Ascii.compare a b = Lt -> Ascii.compare b c = Lt -> Ascii.compare a c = Lt.
Proof. intros a b c. unfold Ascii.compare. rewrite !N.compare_lt_iff. apply N.lt_trans. Qed.

Lemma str_cmp_lt_trans : forall a b c, String.compare a b = Lt -> String.compare b c = Lt -> String.compare a c = Lt.
Proof.
  induction a as [|x a IH]; intros b c; destruct b as [|y b], c as [|z c]; simpl; try discriminate; auto.
  destruct (Ascii.compare x y) eqn:E1; try discriminate; destruct (Ascii.compare y z) eqn:E2; try discriminate; intros H1 H2.
  - apply Ascii.compare_eq_iff in E1, E2. subst. rewrite ascii_cmp_refl. eapply IH; eauto.
  - apply Ascii.compare_eq_iff in E1. subst. rewrite E2. reflexivity.
  - apply Ascii.compare_eq_iff in E2. subst. rewrite E1. reflexivity.
  - rewrite (ascii_cmp_lt_trans _ _ _ E1 E2). reflexivity.
Qed.

Lemma leb_trans : forall a b c, String.leb a b = true -> String.leb b c = true -> String.leb a c = true.
Proof.
  intros a b c. unfold String.leb.
  destruct (String.compare a b) eqn:E1; try discriminate; destruct (String.compare b c) eqn:E2; try discriminate; intros _ _.
  - apply String.compare_eq_iff in E1. subst. rewrite E2. reflexivity.
  - apply String.compare_eq_iff in E1. subst. rewrite E2. reflexivity.
  - apply String.compare_eq_iff in E2. subst. rewrite E1. reflexivity.
  - rewrite (str_cmp_lt_trans _ _ _ E1 E2). reflexivity.
Qed.

Lemma leb_false_true : forall a b, String.leb a b = false -> String.leb b a = true.
Proof. intros a b H. destruct (String.leb_total a b); congruence. Qed.

(* ------------------------------------------------------------------------------------------------------------- *)
(* B.  sorted(): inserting two entries with different names commutes, hence the result does not depend on the order
   in which the entries are listed *)
Lemma insert_comm : forall x y l, fst x <> fst y ->
  insert_sorted x (insert_sorted y l) = insert_sorted y (insert_sorted x l).
Proof.
  intros x y l Hne. induction l as [|z r IH]; simpl.
  - destruct (String.leb (fst x) (fst y)) eqn:A, (String.leb (fst y) (fst x)) eqn:B; auto.
    + exfalso. apply Hne. apply String.leb_antisym; auto.
    + apply leb_false_true in A. congruence.
  - destruct (String.leb (fst y) (fst z)) eqn:D, (String.leb (fst x) (fst z)) eqn:C; simpl; rewrite ?C, ?D.
    + destruct (String.leb (fst x) (fst y)) eqn:A, (String.leb (fst y) (fst x)) eqn:B; auto.
      * exfalso. apply Hne. apply String.leb_antisym; auto.
      * apply leb_false_true in A. congruence.
    + destruct (String.leb (fst x) (fst y)) eqn:A; auto.
      rewrite (leb_trans _ _ _ A D) in C. discriminate.
    + destruct (String.leb (fst y) (fst x)) eqn:B; auto.
      rewrite (leb_trans _ _ _ B C) in D. discriminate.
    + rewrite IH. reflexivity.
Qed.

Definition Rn (a b : string * node) : Prop := fst a = fst b /\ perm_node (snd a) (snd b).

Lemma insert_rel : forall a b s s', Rn a b -> Forall2 Rn s s' -> Forall2 Rn (insert_sorted a s) (insert_sorted b s').
Proof.
  intros a b s s' Hab H. induction H as [|c d s s' Hcd H IH]; simpl. constructor; auto.
  destruct Hab as [Hk Hn]. destruct Hcd as [Hk2 Hn2]. rewrite <- Hk, <- Hk2.
  destruct (String.leb (fst a) (fst c)).
  - constructor. split; auto. constructor; auto. split; auto.
  - constructor. split; auto. apply IH.
Qed.

Lemma perm_node_trans : forall x y z, perm_node x y -> perm_node y z -> perm_node x z.
Proof.
  intros x y z H12 H23. revert z H23. induction H12; intros; auto.
  inversion H23; subst. apply PN_dir; auto. apply PN_dir. eapply PL_trans; eauto.
Qed.

Lemma Forall2_Rn_refl : forall l, Forall2 Rn l l.
Proof. induction l; constructor; auto. split; auto. apply PN_refl. Qed.

Lemma Forall2_Rn_trans : forall l1 l2 l3, Forall2 Rn l1 l2 -> Forall2 Rn l2 l3 -> Forall2 Rn l1 l3.
Proof.
  intros l1 l2 l3 H. revert l3. induction H as [|a b l1 l2 Hab H IH]; intros l3 H3; inversion H3; subst. constructor.
  constructor; auto. destruct Hab, H2. split. congruence. eapply perm_node_trans; eauto.
Qed.

Lemma sort_perm : forall l l', perm_listing l l' -> NoDup (map fst l) -> Forall2 Rn (sort_listing l) (sort_listing l').
Proof.
  apply (perm_listing_mut (fun x y => perm_node x y)
          (fun l l' => NoDup (map fst l) -> Forall2 Rn (sort_listing l) (sort_listing l'))).
  - apply PN_refl.
  - intros. apply PN_dir. auto.
  - intros l _. apply Forall2_Rn_refl.
  - intros n x y l l' Hxy _ _ IH Hnd. simpl in *. inversion Hnd; subst. apply insert_rel; auto. split; auto.
  - intros a b l Hnd. simpl in *. inversion Hnd as [|? ? Ha Hnd']; subst.
    rewrite insert_comm. apply Forall2_Rn_refl. intro E. apply Ha. left. auto.
  - intros l1 l2 l3 H12 IH12 _ IH23 Hnd.
    eapply Forall2_Rn_trans. apply IH12; auto. apply IH23.
    eapply Permutation_NoDup. apply (proj1 (lookup_perm l1 l2 H12)). auto.
Qed.

Lemma flat_map_rel : forall (f : string * node -> list nat) s s',
  (forall a b, Rn a b -> f a = f b) -> Forall2 Rn s s' -> flat_map f s = flat_map f s'.
Proof. intros f s s' Hf H. induction H; simpl; auto. rewrite (Hf _ _ H), IHForall2. reflexivity. Qed.

Lemma pth_targets_griffe_perm : forall l l', perm_listing l l' -> NoDup (map fst l) ->
  pth_targets_griffe l = pth_targets_griffe l'.
Proof.
  intros l l' Hp Hnd. unfold pth_targets_griffe. apply flat_map_rel. 2: apply sort_perm; auto.
  intros [n x] [n' y] [Hk Hn]. simpl in *. subst n'. destruct x as [ns p|es].
  - apply perm_node_file_inv in Hn. subst y. reflexivity.
  - apply perm_node_dir_inv in Hn. destruct Hn as (es' & -> & _). reflexivity.
Qed.

Lemma pth_targets_py_perm : forall l l', perm_listing l l' -> NoDup (map fst l) ->
  pth_targets_py l = pth_targets_py l'.
Proof.
  intros l l' Hp Hnd. unfold pth_targets_py. apply flat_map_rel. 2: apply sort_perm; auto.
  intros [n x] [n' y] [Hk Hn]. simpl in *. subst n'. destruct x as [ns p|es].
  - apply perm_node_file_inv in Hn. subst y. reflexivity.
  - apply perm_node_dir_inv in Hn. destruct Hn as (es' & -> & _). reflexivity.
Qed.

Lemma fold_left_ext_in : forall (A B : Type) (f g : A -> B -> A) l a, (forall a b, In b l -> f a b = g a b) ->
  fold_left f l a = fold_left g l a.
Proof.
  induction l as [|b l IH]; intros a H; simpl; auto. rewrite H by (left; auto). apply IH. intros. apply H. right; auto.
Qed.

(* The effective search paths do not depend on the order in which any directory is listed. *)
Theorem g_paths_order_invariant : forall U U' sps, perm_universe U U' -> wf_universe U -> g_paths U sps = g_paths U' sps.
Proof.
  intros U U' sps Hp Hw. unfold g_paths. apply fold_left_ext_in. intros acc p _.
  rewrite (pth_targets_griffe_perm (root U p) (root U' p)); auto. apply root_perm; auto.
  pose proof (root_wf U p Hw) as H. inversion H; auto.
Qed.

Theorem py_paths_order_invariant : forall U U' sps, perm_universe U U' -> wf_universe U -> py_paths U sps = py_paths U' sps.
Proof.
  intros U U' sps Hp Hw. unfold py_paths. apply fold_left_ext_in. intros acc p _.
  rewrite (pth_targets_py_perm (root U p) (root U' p)); auto. apply root_perm; auto.
  pose proof (root_wf U p Hw) as H. inversion H; auto.
Qed.

(* ------------------------------------------------------------------------------------------------------------- *)
(* C.  agreement with site.addsitedir *)

(* pathlib's suffix test and site's endswith test single out the same names, except the name ".pth" itself *)
Lemma strip_suffix_sound : forall s suf a, strip_suffix s suf = Some a -> s = (a ++ suf)%string.
Proof.
  induction s as [|c r IH]; intros suf a H; cbn [strip_suffix] in H.
  - destruct ("" =? suf) eqn:E; [|discriminate]. apply String.eqb_eq in E. inversion H; subst. reflexivity.
  - destruct (String c r =? suf) eqn:E.
    + apply String.eqb_eq in E. inversion H; subst. reflexivity.
    + destruct (strip_suffix r suf) as [a'|] eqn:E2; [|discriminate]. inversion H; subst.
      simpl. f_equal. apply IH. auto.
Qed.

Lemma split_last_dot_pth : forall m, split_last_dot (m ++ ".pth")%string = Some (m, ".pth").
Proof. induction m as [|c r IH]; simpl. reflexivity. rewrite IH. reflexivity. Qed.

Lemma strip_suffix_app' : forall n s, strip_suffix (n ++ s)%string s <> None.
Proof.
  assert (Hrefl : forall s, strip_suffix s s <> None).
  { intro s. destruct s; cbn [strip_suffix]; rewrite String.eqb_refl; intro H; discriminate. }
  induction n as [|c r IH]; intros s. apply Hrefl.
  change (String c r ++ s)%string with (String c (r ++ s)). cbn [strip_suffix].
  destruct (String c (r ++ s) =? s). intro H; discriminate.
  specialize (IH s). destruct (strip_suffix (r ++ s) s); [intro H; discriminate|congruence].
Qed.

Lemma pth_name_tests_agree : forall n, n <> ".pth" ->
  (pl_suffix n =? ".pth") = match strip_suffix n ".pth" with Some _ => true | None => false end.
Proof.
  intros n Hn. destruct (strip_suffix n ".pth") as [a|] eqn:E.
  - apply strip_suffix_sound in E. subst n. unfold pl_suffix, pl_split. rewrite split_last_dot_pth.
    destruct a as [|c a]. exfalso. apply Hn. reflexivity. reflexivity.
  - destruct (pl_suffix n =? ".pth") eqn:E2; auto. apply String.eqb_eq in E2.
    exfalso. pose proof (strip_suffix_app' (pl_stem n) ".pth") as H. rewrite <- E2, pl_split_app in H. congruence.
Qed.

(* no file is called ".pth" (site of CPython 3.12.1 reads such a file, pathlib gives it no suffix; newer CPythons skip
   every hidden .pth file) *)
Definition pth_names_ok (L : listing) : Prop := forall n x, In (n, x) L -> n <> ".pth".
(* F6, what is left of it: no .pth line of this directory exists relative to the current directory only *)
Definition no_cwd_lines (L : listing) : Prop :=
  forall n ns lines l, In (n, File ns lines) L -> pl_suffix n = ".pth" -> In l lines -> fst l = false.

Lemma flat_map_ext_in : forall (A B : Type) (f g : A -> list B) l, (forall a, In a l -> f a = g a) -> flat_map f l = flat_map g l.
Proof. induction l as [|a l IH]; intros H; simpl; auto. rewrite H by (left; auto). rewrite IH; auto. intros. apply H. right; auto. Qed.

Lemma insert_sorted_In : forall x e l, In x (insert_sorted e l) <-> x = e \/ In x l.
Proof.
  intros x e l. induction l as [|y r IH]; simpl. intuition.
  destruct (String.leb (fst e) (fst y)); simpl. intuition. rewrite IH. intuition.
Qed.

Lemma sort_listing_In : forall x l, In x (sort_listing l) <-> In x l.
Proof. intros x l. induction l as [|y r IH]; simpl. tauto. rewrite insert_sorted_In, IH. intuition. Qed.

Lemma pth_targets_agree : forall L, pth_names_ok L -> no_cwd_lines L -> pth_targets_griffe L = pth_targets_py L.
Proof.
  intros L Hn Hc. unfold pth_targets_griffe, pth_targets_py. apply flat_map_ext_in.
  intros [n x] Hin. apply (proj1 (sort_listing_In _ _)) in Hin. simpl. destruct x as [ns lines|es]; auto.
  pose proof (pth_name_tests_agree n (Hn _ _ Hin)) as Ht. rewrite Ht.
  destruct (strip_suffix n ".pth"); auto. apply String.eqb_eq in Ht.
  assert (H : forall ls : list (bool * nat), (forall l, In l ls -> fst l = false) ->
              map snd ls = flat_map (fun l : bool * nat => if fst l then [] else [snd l]) ls).
  { induction ls as [|l ls IH]; intros H; simpl; auto. rewrite (H l) by (left; auto). simpl. f_equal. apply IH. intros. apply H. right; auto. }
  apply H. intros l Hl. eapply Hc; eauto.
Qed.

(* The .pth extension of the search paths is site.addsitedir's, for every universe and every list of search paths,
   provided no .pth line exists relative to the current directory only (F6) and no file is called ".pth". *)
Theorem g_paths_eq_site : forall U sps,
  (forall i, pth_names_ok (root U i)) -> (forall i, no_cwd_lines (root U i)) ->
  g_paths U sps = py_paths U sps.
Proof.
  intros U sps Hn Hc. unfold g_paths, py_paths. apply fold_left_ext_in. intros acc p _.
  rewrite pth_targets_agree; auto.
Qed.

(* decidable forms *)
Lemma root_In : forall U i n x, In (n, x) (root U i) -> exists l, In (i, l) U /\ In (n, x) l.
Proof.
  intros U i n x H. unfold root in H. destruct (lookup_nat i U) as [l|] eqn:E; [|contradiction].
  exists l. split; auto. apply lookup_nat_In. auto.
Qed.

Lemma pth_names_okb_sound : forall U, pth_names_okb U = true -> forall i, pth_names_ok (root U i).
Proof.
  intros U H i n x Hin. destruct (root_In _ _ _ _ Hin) as (l & Hl & Hx).
  unfold pth_names_okb in H. rewrite forallb_forall in H. specialize (H _ Hl). simpl in H.
  rewrite forallb_forall in H. specialize (H _ Hx). simpl in H. apply negb_true_iff in H. apply String.eqb_neq. auto.
Qed.

Lemma gapU_F6_sound : forall U, gapU_F6 U = false -> forall i, no_cwd_lines (root U i).
Proof.
  intros U H i n ns lines l Hin Hsuf Hl. destruct (root_In _ _ _ _ Hin) as (L & HL & Hx).
  destruct (fst l) eqn:E; auto. exfalso.
  unfold gapU_F6 in H. rewrite <- not_true_iff_false in H. apply H. apply existsb_exists. exists (i, L). split; auto.
  apply existsb_exists. exists (n, lines). split.
  - unfold pth_files. apply in_flat_map. exists (n, File ns lines). split; auto. simpl. rewrite Hsuf. simpl. auto.
  - apply existsb_exists. exists l. auto.
Qed.

(* the same with the hypotheses in decidable form (evaluated by the extracted model on every generated layout) *)
Theorem g_paths_eq_site_checked : forall U sps,
  pth_names_okb U = true -> gapU_F6 U = false -> g_paths U sps = py_paths U sps.
Proof. intros. apply g_paths_eq_site. apply pth_names_okb_sound; auto. apply gapU_F6_sound; auto. Qed.

(* The top-level answer on the extended search paths: find_package after _extend_from_pth_files = PathFinder after
   site.addsitedir. *)
Theorem find_on_extended_paths_eq_cpython : forall U sps name,
  (forall i, pth_names_ok (root U i)) -> (forall i, no_cwd_lines (root U i)) ->
  forallb (top_ok U name) (g_paths U sps) = true ->
  find_agree (g_find U name (g_paths U sps) []) (py_find U name (top_dirs (py_paths U sps))).
Proof.
  intros U sps name Hn Hc Hok. rewrite <- (g_paths_eq_site U sps Hn Hc). apply find_eq_cpython. auto.
Qed.

Theorem find_on_extended_paths_eq_cpython_checked : forall U sps name,
  pth_names_okb U = true -> gapU_F6 U = false ->
  forallb (top_ok U name) (g_paths U sps) = true ->
  find_agree (g_find U name (g_paths U sps) []) (py_find U name (top_dirs (py_paths U sps))).
Proof.
  intros U sps name Hn Hc. apply find_on_extended_paths_eq_cpython.
  apply pth_names_okb_sound; auto. apply gapU_F6_sound; auto.
Qed.

(* non-vacuity *)
Definition U_pth : universe :=
  [(0, [("b.pth", File false [(false, 1)]); ("a.pth", File false [(false, 2); (false, 0)]); ("x.txt", File false [])]);
   (1, [("c.pth", File false [(false, 3)]); ("aa", Dir [("__init__.py", File false [])])]);
   (2, [("aa", Dir [("m.py", File false [])])]); (3, [])].
Example g_paths_example : g_paths U_pth [0] = [0; 2; 1] /\ py_paths U_pth [0] = [0; 2; 1] /\
  (forall i, pth_names_ok (root U_pth i)) /\ (forall i, no_cwd_lines (root U_pth i)).
Proof.
  split. vm_compute; reflexivity. split. vm_compute; reflexivity. split.
  - apply pth_names_okb_sound. vm_compute. reflexivity.
  - apply gapU_F6_sound. vm_compute. reflexivity.
Qed.
