(* C02 proofs: Griffe's reversed/zip_longest alignment equals CPython's right-alignment for every
   length combination (over the constants regenerated from the source); required-ness; the generated tables. *)
From Coq Require Import List ZArith String Bool Arith Lia.
From Verif Require Import Lib.Sexp Model.C02_kinds Gen.C02_tables Model.C02_params.
Import ListNotations.
Open Scope list_scope.
Open Scope nat_scope.

Section ZL.
Context {A B : Type}.

Definition cpython_align (ps : list A) (ds : list B) : list (option A * option B) :=
  let n := List.length ps - List.length ds in
  map (fun p => (Some p, None)) (firstn n ps) ++
  map (fun pd => (Some (fst pd), Some (snd pd))) (combine (skipn n ps) ds).

Lemma zl_nil_r (xs : list A) : zip_longest xs (@nil B) = map (fun p => (Some p, None)) xs.
Proof. induction xs as [|x xs IH]; simpl; congruence. Qed.

Lemma zl_nil_l (ys : list B) : zip_longest (@nil A) ys = map (fun y => (None, Some y)) ys.
Proof. reflexivity. Qed.

Lemma zl_app_same (xs1 xs2 : list A) (ys1 ys2 : list B) : List.length xs1 = List.length ys1 ->
  zip_longest (xs1 ++ xs2) (ys1 ++ ys2) =
  map (fun pd => (Some (fst pd), Some (snd pd))) (combine xs1 ys1) ++ zip_longest xs2 ys2.
Proof.
  revert ys1; induction xs1 as [|x xs1 IH]; intros [|y ys1] H; simpl in *; try discriminate; auto.
  f_equal. apply IH. lia.
Qed.

Lemma combine_app (a1 a2 : list A) (b1 b2 : list B) : List.length a1 = List.length b1 ->
  combine (a1 ++ a2) (b1 ++ b2) = combine a1 b1 ++ combine a2 b2.
Proof.
  revert b1; induction a1 as [|x a1 IH]; intros [|y b1] H; simpl in *; try discriminate; auto.
  f_equal; apply IH; lia.
Qed.

Lemma rev_combine_rev (a : list A) (b : list B) : List.length a = List.length b ->
  rev (combine (rev a) (rev b)) = combine a b.
Proof.
  revert b; induction a as [|x a IH]; intros [|y b] H; simpl in *; try discriminate; auto.
  rewrite combine_app by (rewrite !rev_length; lia).
  rewrite rev_app_distr. simpl. f_equal. apply IH. lia.
Qed.

Theorem align_eq (ps : list A) (ds : list B) :
  List.length ds <= List.length ps -> griffe_align ps ds = cpython_align ps ds.
Proof.
  intros H. unfold griffe_align, cpython_align.
  set (n := List.length ps - List.length ds).
  rewrite <- (firstn_skipn n ps) at 1.
  rewrite rev_app_distr.
  assert (Hl : List.length (rev (skipn n ps)) = List.length (rev ds)).
  { rewrite !rev_length, skipn_length. subst n. lia. }
  rewrite <- (app_nil_r (rev ds)).
  rewrite zl_app_same by exact Hl.
  rewrite zl_nil_r, rev_app_distr. rewrite <- map_rev, rev_involutive.
  f_equal. rewrite <- map_rev. f_equal.
  apply rev_combine_rev. rewrite !rev_length in Hl. exact Hl.
Qed.

(* more defaults than parameters: the first aligned pair has no parameter *)
Lemma align_too_many (ps : list A) (ds : list B) :
  List.length ps < List.length ds -> exists d r, griffe_align ps ds = (None, Some d) :: r.
Proof.
  intros H. unfold griffe_align.
  set (n := List.length ds - List.length ps).
  rewrite <- (firstn_skipn n ds).
  rewrite rev_app_distr.
  assert (Hl : List.length (rev ps) = List.length (rev (skipn n ds))).
  { rewrite !rev_length, skipn_length. subst n. lia. }
  rewrite <- (app_nil_r (rev ps)).
  rewrite zl_app_same by exact Hl.
  rewrite zl_nil_l, rev_app_distr, <- map_rev, rev_involutive.
  destruct (firstn n ds) as [|d r] eqn:E.
  - apply (f_equal (@List.length B)) in E. rewrite firstn_length in E. simpl in E. subst n. lia.
  - simpl. eauto.
Qed.
End ZL.

Lemma positional_params_app l1 l2 ps1 ps2 :
  positional_params l1 = Ok ps1 -> positional_params l2 = Ok ps2 ->
  positional_params (l1 ++ l2) = Ok (ps1 ++ ps2).
Proof.
  revert ps1; induction l1 as [|[[[a k]|] d] l1 IH]; simpl; intros ps1 H1 H2.
  - inversion H1; subst; exact H2.
  - destruct (positional_params l1) as [q|e] eqn:E; [|discriminate].
    inversion H1; subst. rewrite (IH q eq_refl H2). reflexivity.
  - discriminate.
Qed.

Lemma positional_params_plain (l : list (arg * kind)) :
  positional_params (map (fun p => (Some p, None)) l) =
  Ok (map (fun xk => mkParam (aname (fst xk)) (aann (fst xk)) (snd xk) DNone) l).
Proof. induction l as [|[a k] l IH]; simpl; [reflexivity|]. rewrite IH. reflexivity. Qed.

Lemma positional_params_dflt (l : list ((arg * kind) * Z)) :
  positional_params (map (fun pd => (Some (fst pd), Some (snd pd))) l) =
  Ok (map (fun xkd => mkParam (aname (fst (fst xkd))) (aann (fst (fst xkd))) (snd (fst xkd)) (DExpr (snd xkd))) l).
Proof. induction l as [|[[a k] d] l IH]; simpl; [reflexivity|]. rewrite IH. reflexivity. Qed.

Lemma kwonly_params_dflt (l : list (arg * option Z)) :
  kwonly_params KO (map (fun pd => (Some (fst pd), Some (snd pd))) l) =
  Ok (map (fun xd => mkParam (aname (fst xd)) (aann (fst xd)) KO
                       (match snd xd with Some e => DExpr e | None => DNone end)) l).
Proof.
  induction l as [|[a d] l IH]; simpl; [reflexivity|]. rewrite IH. destruct d; reflexivity.
Qed.

Lemma wf_inv a : wf a = true ->
  List.length (defaults a) <= List.length (posonly a) + List.length (args a) /\
  List.length (kw_defaults a) = List.length (kwonly a).
Proof.
  unfold wf. intros H. apply andb_prop in H. destruct H as [H1 H2].
  apply Nat.leb_le in H1. apply Nat.eqb_eq in H2. auto.
Qed.

Theorem parameters_eq_cpython a : wf a = true -> get_parameters a = Ok (cpython_signature a).
Proof.
  intros Hwf. destruct (wf_inv a Hwf) as [Hd Hk].
  unfold get_parameters, cpython_signature. cbn [emission_order emit_all emit].
  unfold posonly_kind, args_kind, vararg_kind, kwonly_kind, kwarg_kind, vararg_default, kwarg_default.
  set (tagged := map (fun x => (x, PO)) (posonly a) ++ map (fun x => (x, PK)) (args a)).
  assert (Hlen : List.length (defaults a) <= List.length tagged).
  { subst tagged. rewrite app_length, !map_length. exact Hd. }
  rewrite (align_eq tagged (defaults a) Hlen). unfold cpython_align.
  rewrite (positional_params_app _ _ _ _ (positional_params_plain _) (positional_params_dflt _)).
  rewrite (align_eq (kwonly a) (kw_defaults a)) by lia. unfold cpython_align.
  replace (List.length (kwonly a) - List.length (kw_defaults a)) with 0 by lia.
  cbn [firstn skipn map app].
  rewrite kwonly_params_dflt. rewrite app_nil_r. reflexivity.
Qed.

Theorem too_many_defaults_rejected a :
  List.length (posonly a) + List.length (args a) < List.length (defaults a) ->
  get_parameters a = Err "TypeError".
Proof.
  intros H. unfold get_parameters. cbn [emission_order emit_all emit].
  set (tagged := map (fun x => (x, posonly_kind)) (posonly a) ++ map (fun x => (x, args_kind)) (args a)).
  assert (Hlen : List.length tagged < List.length (defaults a)).
  { subst tagged. rewrite app_length, !map_length. exact H. }
  destruct (align_too_many tagged (defaults a) Hlen) as [d [r E]]. rewrite E. reflexivity.
Qed.

(* the other ill-formed shape (ast.parse never produces it): fewer kw_defaults than keyword-only parameters is
   tolerated (missing entries read as "no default"), more raises AttributeError unless the positional block raised first *)
Theorem too_many_kw_defaults_rejected a :
  List.length (defaults a) <= List.length (posonly a) + List.length (args a) ->
  List.length (kwonly a) < List.length (kw_defaults a) ->
  get_parameters a = Err "AttributeError".
Proof.
  intros Hd H. unfold get_parameters. cbn [emission_order emit_all emit].
  set (tagged := map (fun x => (x, posonly_kind)) (posonly a) ++ map (fun x => (x, args_kind)) (args a)).
  assert (Hlen : List.length (defaults a) <= List.length tagged).
  { subst tagged. rewrite app_length, !map_length. exact Hd. }
  rewrite (align_eq tagged (defaults a) Hlen). unfold cpython_align.
  rewrite (positional_params_app _ _ _ _ (positional_params_plain _) (positional_params_dflt _)).
  destruct (align_too_many (kwonly a) (kw_defaults a) H) as [d [r E]]. rewrite E. reflexivity.
Qed.

(* the generated tables: the enum has five distinct members with distinct values (equal values would make two
   kinds aliases of one another), and a decorator path belongs to at most one of the role tables *)
Theorem kind_values_distinct :
  map fst kind_values = [PO; PK; VP; KO; VK] /\ NoDup (map snd kind_values).
Proof.
  split; [reflexivity|]. unfold kind_values; simpl.
  repeat (constructor; [simpl; intuition discriminate|]). constructor.
Qed.

(* required-ness by position: exactly the parameters before the right-aligned defaults are required *)
Theorem required_iff_no_default a i :
  wf a = true ->
  i < List.length (posonly a) + List.length (args a) ->
  option_map required (nth_error (cpython_signature a) i) =
  Some (i <? (List.length (posonly a) + List.length (args a)) - List.length (defaults a)).
Proof.
  intros Hwf Hi. destruct (wf_inv a Hwf) as [Hd _].
  unfold cpython_signature, cpython_positional.
  set (tagged := map (fun x => (x, PO)) (posonly a) ++ map (fun x => (x, PK)) (args a)).
  assert (Hl : List.length tagged = List.length (posonly a) + List.length (args a)).
  { subst tagged. rewrite app_length, !map_length. reflexivity. }
  rewrite <- Hl in *. set (n := List.length tagged - List.length (defaults a)).
  set (P1 := map _ (firstn n tagged)). set (P2 := map _ (combine (skipn n tagged) (defaults a))).
  assert (L1 : List.length P1 = n).
  { subst P1. rewrite map_length, firstn_length. subst n. lia. }
  assert (L2 : List.length P2 = List.length tagged - n).
  { subst P2. rewrite map_length, combine_length, skipn_length. subst n. lia. }
  rewrite <- app_assoc.
  destruct (Nat.ltb_spec i n) as [Hlt|Hge].
  - rewrite nth_error_app1 by lia.
    subst P1. rewrite nth_error_map.
    destruct (nth_error (firstn n tagged) i) eqn:E; [reflexivity|].
    apply nth_error_None in E. rewrite firstn_length in E. lia.
  - rewrite nth_error_app2 by lia. rewrite nth_error_app1 by lia.
    subst P2. rewrite nth_error_map.
    destruct (nth_error (combine (skipn n tagged) (defaults a)) (i - List.length P1)) eqn:E; [reflexivity|].
    apply nth_error_None in E. rewrite combine_length, skipn_length in E. lia.
Qed.

(* non-vacuity *)
Example params_example :
  let a := mkArgs [mkArg "a" None; mkArg "b" (Some 7%Z)] [mkArg "c" None] (Some (mkArg "r" None))
                  [mkArg "k" None; mkArg "l" None] [None; Some 5%Z] (Some (mkArg "kw" None)) [1%Z; 2%Z] in
  wf a = true /\
  get_parameters a = Ok [mkParam "a" None PO DNone; mkParam "b" (Some 7%Z) PO (DExpr 1); mkParam "c" None PK (DExpr 2);
                         mkParam "r" None VP (DStr "()"); mkParam "k" None KO DNone; mkParam "l" None KO (DExpr 5);
                         mkParam "kw" None VK (DStr "{}")].
Proof. split; reflexivity. Qed.
