(* C01: whatever the history of loads on a lines collection, after a load the collection holds, for the loaded path,
   exactly the text that load has read -- so spans, lines and sources are about the same text. *)
From Coq Require Import List String Ascii Bool Arith Lia.
From Verif Require Import Lib.Sexp Model.C01_base Gen.C01_tables Model.C01_visitor Model.C01_layout Model.C01_dedent Model.C01_lines
  Proofs.C01_visitor.
Import ListNotations.
Open Scope string_scope.
Open Scope list_scope.

Lemma run_lines_app : forall pre s post lc,
  nth_error (run_lines lc (pre ++ s :: post)) (List.length pre) =
  Some (lookup (s_path s) (load_step (final_collection lc pre) s)).
Proof. induction pre as [|x r IH]; intros; simpl; [reflexivity|apply IH]. Qed.

(* the last store wins: for every history before and after, every collection to start with, every kind of loader *)
Theorem lines_last_store_wins : forall pre s post lc,
  nth_error (run_lines lc (pre ++ s :: post)) (List.length pre) = Some (Some (s_text s)) /\
  forall a b, source_from (load_step (final_collection lc pre) s) (s_path s) a b = Some (object_source (s_text s) a b).
Proof.
  intros. split.
  - rewrite run_lines_app. unfold load_step. rewrite lookup_assign_same. reflexivity.
  - intros. unfold source_from, load_step. rewrite lookup_assign_same. reflexivity.
Qed.

Example lines_sample :
  run_lines [] [mkStep "m.py" ["a = 1"] LFresh; mkStep "m.py" ["# edit"; "a = 1"] LSame; mkStep "n.py" ["b = 2"] LShared;
                mkStep "m.py" ["c = 3"] LShared] =
  [Some ["a = 1"]; Some ["# edit"; "a = 1"]; Some ["b = 2"]; Some ["c = 3"]].
Proof. vm_compute. reflexivity. Qed.
