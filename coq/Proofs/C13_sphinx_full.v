(* C13 proofs, Sphinx style, full field list: :type: / :vartype: / :rtype: fields anywhere, blank lines inside and after
   descriptions, deeper-indented continuation lines; modulo the known gap C13-F8. *)
From Coq Require Import List Ascii String Bool Arith Lia.
From Verif Require Import Model.C13_strings Model.C13_google Model.C13_google_spec Model.C13_sphinx Model.C13_sphinx_spec
  Proofs.C13_strings Proofs.C13_sphinx.
Import ListNotations.
Open Scope char_scope.
Open Scope list_scope.
Open Scope nat_scope.

Arguments ceq : simpl never.
Arguments spaces : simpl never.
Arguments is_space : simpl never.
Arguments is_word : simpl never.
Arguments printable : simpl never.

(* ---- descriptions *)
Lemma tailjoin_app : forall a b, tailjoin (a ++ b) = tailjoin a ++ tailjoin b.
Proof. intros. unfold tailjoin. apply flat_map_app. Qed.

Lemma tailjoin_blanks : forall k, tailjoin (repeat [] k) = repeat sp k.
Proof. induction k; [reflexivity|]. simpl. rewrite <- IHk. reflexivity. Qed.

Lemma map_lstrip_sp_blanks : forall k, map lstrip_sp (repeat [] k) = repeat [] k.
Proof. induction k; [reflexivity|]. simpl. rewrite IHk. reflexivity. Qed.

Lemma lstrip_printable : forall c, forallb printable c = true -> lstrip c = lstrip_sp c.
Proof.
  induction c as [|x c IH]; intros H; [reflexivity|]. simpl in H. apply andb_true_iff in H. destruct H as [Hx Hc].
  simpl. rewrite (printable_space x Hx). rewrite (IH Hc). reflexivity.
Qed.

Lemma wf_xcont_facts : forall c, wf_xcont c = true -> forallb printable c = true /\ (c = [] \/ is_empty_line c = false).
Proof.
  intros c H. unfold wf_xcont in H. apply andb_true_iff in H. destruct H as [Hp H]. split; [exact Hp|].
  destruct c; [left; reflexivity|right]. apply negb_true_iff in H. exact H.
Qed.

Lemma lstrip_conts_x : forall cs, forallb wf_xcont cs = true -> map lstrip (map (indent_line 4) cs) = map lstrip_sp cs.
Proof.
  induction cs as [|c cs IH]; intros H; [reflexivity|]. simpl in H. apply andb_true_iff in H. destruct H as [Hc Hcs].
  destruct (wf_xcont_facts c Hc) as [Hp _].
  simpl map. rewrite (IH Hcs). f_equal.
  destruct c as [|x c']; [reflexivity|]. change (indent_line 4 (x :: c')) with (spaces 4 ++ x :: c').
  rewrite lstrip_spaces. apply lstrip_printable. exact Hp.
Qed.

Lemma lstrip_sp_printable : forall c, forallb printable c = true -> forallb printable (lstrip_sp c) = true.
Proof.
  induction c as [|x c IH]; intros H; [reflexivity|]. simpl in H. apply andb_true_iff in H. destruct H as [Hx Hc].
  simpl. destruct (ceq x sp); [apply IH; exact Hc|]. simpl. rewrite Hx, Hc. reflexivity.
Qed.

Lemma forallb_repeat_c : forall (f : ascii -> bool) c n, f c = true -> forallb f (repeat c n) = true.
Proof. intros f c n H. induction n; simpl; [reflexivity|rewrite H, IHn; reflexivity]. Qed.

Lemma forallb_cons_eq : forall (f : ascii -> bool) x l, forallb f (x :: l) = f x && forallb f l.
Proof. reflexivity. Qed.

Lemma tailjoin_printable_x : forall cs, forallb wf_xcont cs = true -> forallb printable (tailjoin (map lstrip_sp cs)) = true.
Proof.
  induction cs as [|c cs IH]; intros H; [reflexivity|]. simpl in H. apply andb_true_iff in H. destruct H as [Hc Hcs].
  destruct (wf_xcont_facts c Hc) as [Hp _].
  simpl map. unfold tailjoin. simpl flat_map. fold (tailjoin (map lstrip_sp cs)).
  rewrite forallb_cons_eq.
  rewrite forallb_app. rewrite (lstrip_sp_printable c Hp), (IH Hcs). reflexivity.
Qed.

(* the last character of `pre c1 c2 ... cn` is the last character of cn when cn is not empty *)
Lemma last_tailjoin : forall cs pre d, cs <> [] -> last cs [] <> [] ->
  last (pre ++ tailjoin cs) d = last (last cs []) d.
Proof.
  induction cs as [|c cs IH]; intros pre d Hn Hl; [congruence|].
  change (tailjoin (c :: cs)) with ((sp :: c) ++ tailjoin cs). rewrite app_assoc.
  destruct cs as [|c2 cs'].
  - simpl tailjoin. rewrite app_nil_r. simpl in Hl. simpl last at 2.
    rewrite last_app_ne by discriminate.
    destruct c as [|x c']; [congruence|]. reflexivity.
  - rewrite (IH (pre ++ sp :: c) d) by (try discriminate; exact Hl). reflexivity.
Qed.

Lemma last_lstrip_sp : forall c d, is_empty_line c = false -> forallb printable c = true ->
  lstrip_sp c <> [] /\ last (lstrip_sp c) d = last c d.
Proof.
  induction c as [|x c IH]; intros d He Hp; [discriminate|].
  simpl in Hp. apply andb_true_iff in Hp. destruct Hp as [Hx Hc].
  simpl lstrip_sp. destruct (ceq x sp) eqn:E.
  - apply ceq_eq in E. subst x.
    assert (He' : is_empty_line c = false).
    { unfold is_empty_line in *. simpl in He. exact He. }
    destruct (IH d He' Hc) as [A B]. split; [exact A|].
    rewrite B. destruct c; [discriminate|reflexivity].
  - split; [discriminate|reflexivity].
Qed.

Lemma last_map_lstrip_sp : forall core, core <> [] -> forallb wf_xcont core = true -> last core [] <> [] ->
  last (map lstrip_sp core) [] <> [] /\ forall d, last (last (map lstrip_sp core) []) d = last (last core []) d.
Proof.
  induction core as [|c core IH]; intros Hn Hw Hl; [congruence|].
  simpl in Hw. apply andb_true_iff in Hw. destruct Hw as [Hc Hcs].
  destruct core as [|c2 core'].
  - simpl in *. destruct (wf_xcont_facts c Hc) as [Hp [->|He]]; [congruence|].
    split; [apply (last_lstrip_sp c "x" He Hp)|intros d; apply (last_lstrip_sp c d He Hp)].
  - change (map lstrip_sp (c :: c2 :: core')) with (lstrip_sp c :: map lstrip_sp (c2 :: core')).
    change (last (lstrip_sp c :: map lstrip_sp (c2 :: core')) []) with (last (map lstrip_sp (c2 :: core')) []).
    change (last (c :: c2 :: core') []) with (last (c2 :: core') []) in *.
    apply IH; auto. discriminate.
Qed.

Lemma last_default_irrel : forall (s : str) d1 d2, s <> [] -> last s d1 = last s d2.
Proof.
  induction s as [|x s IH]; intros d1 d2 H; [congruence|]. destruct s as [|y s']; [reflexivity|].
  simpl. simpl in IH. apply IH. discriminate.
Qed.

Lemma strip_value_x : forall d0 cs, wf_xdesc d0 cs = true ->
  strip (sp :: d0 ++ tailjoin (map lstrip_sp cs)) = xdesc d0 cs.
Proof.
  intros d0 cs H. unfold wf_xdesc in H. apply andb_true_iff in H. destruct H as [H Hl]. apply andb_true_iff in H. destruct H as [Hd Hcs].
  destruct (wf_sline_facts d0 Hd) as [Hns [Hp Hne]].
  destruct (rstrip_blank_split cs) as [k [E Hcore]].
  set (core := rstrip_blank cs) in *.
  assert (Hwcore : forallb wf_xcont core = true).
  { rewrite E in Hcs. rewrite forallb_app in Hcs. apply andb_true_iff in Hcs. destruct Hcs as [A _]. exact A. }
  unfold xdesc. fold core. rewrite join_with_sp.
  rewrite E at 1. rewrite map_app, tailjoin_app, map_lstrip_sp_blanks, tailjoin_blanks.
  unfold strip. rewrite lstrip_sp_cons. rewrite app_assoc.
  rewrite lstrip_nsp by (apply nsp_head_app'; apply nsp_head_app'; exact Hns).
  unfold rstrip. rewrite rstrip_by_app_drop by (apply forallb_repeat_c; reflexivity).
  apply rstrip_by_noop. intros d Hn.
  assert (Hpr : forallb printable (d0 ++ tailjoin (map lstrip_sp core)) = true)
    by (rewrite forallb_app, Hp, (tailjoin_printable_x core Hwcore); reflexivity).
  rewrite (printable_space _ (all_printable_last _ d Hn Hpr)).
  unfold lns in Hl. apply negb_true_iff in Hl.
  destruct Hcore as [Hc0|Hc1].
  - rewrite Hc0 in *. simpl tailjoin. rewrite app_nil_r. simpl in Hl.
    rewrite (last_default_irrel d0 d "x" Hne). exact Hl.
  - assert (Hcn : core <> []) by (destruct core; [simpl in Hc1; congruence|discriminate]).
    destruct (last_map_lstrip_sp core Hcn Hwcore Hc1) as [A B].
    rewrite (last_tailjoin (map lstrip_sp core) d0 d); [|destruct core; [congruence|discriminate]|exact A].
    rewrite B.
    replace (last (d0 :: core) []) with (last core []) in Hl by (destruct core; [congruence|reflexivity]).
    rewrite (last_default_irrel (last core []) d "x" Hc1). exact Hl.
Qed.

(* ---- _parse_directive on a rendered field *)
Lemma parse_directive_x : forall DIR d0 cs, contains_char colon DIR = false -> forallb printable DIR = true ->
  wf_xdesc d0 cs = true ->
  parse_directive (colon :: DIR ++ colon :: sp :: d0) (map (indent_line 4) cs) = Some (split_all sp DIR, xdesc d0 cs).
Proof.
  intros DIR d0 cs Hc Hp Hw. assert (Hw' := Hw).
  unfold wf_xdesc in Hw'. apply andb_true_iff in Hw'. destruct Hw' as [Hw' _]. apply andb_true_iff in Hw'. destruct Hw' as [Hd Hcs].
  destruct (wf_sline_facts d0 Hd) as [_ [Hpd _]].
  unfold parse_directive, consolidate.
  change (map lstrip ((colon :: DIR ++ colon :: sp :: d0) :: map (indent_line 4) cs)) with
    (lstrip (colon :: DIR ++ colon :: sp :: d0) :: map lstrip (map (indent_line 4) cs)).
  rewrite (lstrip_nsp (colon :: DIR ++ colon :: sp :: d0)) by reflexivity.
  rewrite lstrip_conts_x by auto. rewrite join_with_sp.
  rewrite rstrip_nl_printable.
  2:{ rewrite forallb_app. rewrite (tailjoin_printable_x cs Hcs). rewrite andb_true_r.
      rewrite forallb_cons_eq. rewrite forallb_app. rewrite Hp. rewrite !forallb_cons_eq. rewrite Hpd. reflexivity. }
  rewrite <- app_comm_cons.
  change (split_first colon (colon :: (DIR ++ colon :: sp :: d0) ++ tailjoin (map lstrip_sp cs))) with
    (if ceq colon colon then Some (@nil ascii, (DIR ++ colon :: sp :: d0) ++ tailjoin (map lstrip_sp cs))
     else match split_first colon ((DIR ++ colon :: sp :: d0) ++ tailjoin (map lstrip_sp cs)) with Some (a, b) => Some (colon :: a, b) | None => None end).
  rewrite ceq_refl.
  rewrite <- app_assoc. rewrite <- !app_comm_cons.
  rewrite (split_first_app colon DIR (sp :: d0 ++ tailjoin (map lstrip_sp cs)) Hc).
  rewrite strip_value_x by auto. reflexivity.
Qed.

Lemma rstrip_blank_blanks : forall k, rstrip_blank (repeat [] k) = [].
Proof. induction k; [reflexivity|]. simpl. rewrite IHk. reflexivity. Qed.

Lemma indent_blanks : forall k, map (indent_line 4) (repeat [] k) = repeat [] k.
Proof. induction k; [reflexivity|]. simpl. rewrite IHk. reflexivity. Qed.

Lemma wf_tyann_desc : forall a k, wf_tyann a = true -> wf_xdesc a (repeat [] k) = true /\ xdesc a (repeat [] k) = a /\ replace_or a = a.
Proof.
  intros a k H. unfold wf_tyann in H. apply andb_true_iff in H. destruct H as [H Hor]. apply andb_true_iff in H. destruct H as [Hs Hl].
  split; [|split].
  - unfold wf_xdesc. rewrite Hs. rewrite rstrip_blank_blanks. simpl last. rewrite Hl.
    replace (forallb wf_xcont (repeat [] k)) with true; [reflexivity|]. symmetry. induction k; [reflexivity|exact IHk].
  - unfold xdesc. rewrite rstrip_blank_blanks. reflexivity.
  - apply negb_true_iff in Hor. unfold replace_or. generalize (S (List.length a)). intros fuel. revert a Hs Hl Hor.
    induction fuel as [|f IH]; intros a Hs Hl Hor; [reflexivity|].
    destruct a as [|x a']; [reflexivity|].
    change (has_or (x :: a')) with (startswith s_or (x :: a') || has_or a') in Hor. apply orb_false_iff in Hor. destruct Hor as [H1 H2].
    change (replace_or_fuel (S f) (x :: a')) with
      (if startswith s_or (x :: a') then s_bar ++ replace_or_fuel f (skipn 4 (x :: a')) else x :: replace_or_fuel f a').
    rewrite H1. f_equal.
    clear Hs Hl H1. revert a' H2. clear IH. induction f as [|f' IHf]; intros a' H2; [reflexivity|].
    destruct a' as [|y a'']; [reflexivity|].
    change (has_or (y :: a'')) with (startswith s_or (y :: a'') || has_or a'') in H2. apply orb_false_iff in H2. destruct H2 as [H1 H2].
    change (replace_or_fuel (S f') (y :: a'')) with
      (if startswith s_or (y :: a'') then s_bar ++ replace_or_fuel f' (skipn 4 (y :: a'')) else y :: replace_or_fuel f' a'').
    rewrite H1. f_equal. apply IHf. exact H2.
Qed.

(* ---- events *)
Definition xkind (f : xfield) : fkind :=
  match f with
  | XParam _ _ _ _ _ => FParam | XType _ _ _ => FType | XVar _ _ _ _ => FVar | XVartype _ _ _ => FVartype
  | XRaises _ _ _ _ => FExc | XReturns _ _ _ => FReturn | XRtype _ _ => FRtype
  end.

Definition xev_of (f : xfield) : event :=
  match render_xfield f with
  | l :: cs => EField (xkind f) l cs
  | [] => EDesc []
  end.

Lemma indent_no_colon : forall cs, Forall (fun l => starts_colon l = false) (map (indent_line 4) cs).
Proof.
  intros cs. apply Forall_forall. intros l Hin. apply in_map_iff in Hin. destruct Hin as [c [<- _]].
  destruct c; reflexivity.
Qed.

Lemma blanks_no_colon : forall k, Forall (fun l : str => starts_colon l = false) (repeat [] k).
Proof. induction k; constructor; auto. Qed.

Lemma x_first_line : forall f, wf_xfield f = true ->
  exists l cs, render_xfield f = l :: cs /\ match_field field_names l = Some (xkind f) /\
               Forall (fun l => starts_colon l = false) cs.
Proof.
  intros f H. destruct f as [fn ty n d0 cs|n a b|fn n d0 cs|n a b|fn e d0 cs|fn d0 cs|a b]; simpl in H.
  - apply andb_true_iff in H. destruct H as [H _]. apply andb_true_iff in H. destruct H as [H _]. apply andb_true_iff in H. destruct H as [Hfn _].
    eexists. eexists. split; [reflexivity|]. split; [|apply indent_no_colon].
    destruct ty as [t|].
    + destruct (param_names_ok fn (t ++ sp :: n ++ colon :: sp :: d0) Hfn) as [Hm _]. exact Hm.
    + destruct (param_names_ok fn (n ++ colon :: sp :: d0) Hfn) as [Hm _]. exact Hm.
  - eexists. eexists. split; [reflexivity|]. split; [reflexivity|apply blanks_no_colon].
  - apply andb_true_iff in H. destruct H as [H _]. apply andb_true_iff in H. destruct H as [Hfn _].
    eexists. eexists. split; [reflexivity|]. split; [|apply indent_no_colon].
    destruct (var_names_ok fn (n ++ colon :: sp :: d0) Hfn) as [Hm _]. exact Hm.
  - eexists. eexists. split; [reflexivity|]. split; [reflexivity|apply blanks_no_colon].
  - apply andb_true_iff in H. destruct H as [H _]. apply andb_true_iff in H. destruct H as [Hfn _].
    eexists. eexists. split; [reflexivity|]. split; [|apply indent_no_colon].
    destruct (exc_names_ok fn (e ++ colon :: sp :: d0) Hfn) as [Hm _]. exact Hm.
  - apply andb_true_iff in H. destruct H as [Hfn _].
    eexists. eexists. split; [reflexivity|]. split; [|apply indent_no_colon].
    destruct (ret_names_ok fn (sp :: d0) Hfn) as [Hm _]. exact Hm.
  - eexists. eexists. split; [reflexivity|]. split; [reflexivity|apply blanks_no_colon].
Qed.

Lemma events_fields_x : forall fs, forallb wf_xfield fs = true ->
  events_aux (flat_map render_xfield fs) = (map xev_of fs, []).
Proof.
  induction fs as [|f fs IH]; intros H; [reflexivity|].
  simpl in H. apply andb_true_iff in H. destruct H as [Hf Hfs].
  destruct (x_first_line f Hf) as [l [cs [Er [Hm Hcs]]]].
  change (flat_map render_xfield (f :: fs)) with (render_xfield f ++ flat_map render_xfield fs).
  assert (Hev : xev_of f = EField (xkind f) l cs) by (unfold xev_of; rewrite Er; reflexivity).
  rewrite Er. rewrite <- app_comm_cons.
  change (events_aux (l :: cs ++ flat_map render_xfield fs)) with
    (let '(evs0, acc0) := events_aux (cs ++ flat_map render_xfield fs) in
     match match_field field_names l with
     | Some k => (EField k l acc0 :: evs0, [])
     | None => if starts_colon l then (EDesc l :: map EDesc acc0 ++ evs0, []) else (evs0, l :: acc0)
     end).
  rewrite (events_aux_plain cs _ (map xev_of fs) [] Hcs (IH Hfs)).
  rewrite Hm. rewrite app_nil_r. simpl map. rewrite Hev. reflexivity.
Qed.

Lemma events_render_x : forall text fs, forallb wf_stext_line text = true -> forallb wf_xfield fs = true ->
  events (render_sphinx_full text fs) = map EDesc (text ++ [[]]) ++ map xev_of fs.
Proof.
  intros text fs Ht Hf. unfold events, render_sphinx_full.
  change (text ++ [] :: flat_map render_xfield fs) with (text ++ [[]] ++ flat_map render_xfield fs).
  rewrite app_assoc.
  rewrite (events_aux_plain (text ++ [[]]) _ (map xev_of fs) [] ).
  - rewrite app_nil_r. reflexivity.
  - apply Forall_app. split.
    + apply Forall_forall. intros l Hin. rewrite forallb_forall in Ht. specialize (Ht l Hin).
      unfold wf_stext_line in Ht. apply andb_true_iff in Ht. destruct Ht as [_ Ht]. apply negb_true_iff in Ht. exact Ht.
    + constructor; [reflexivity|constructor].
  - apply events_fields_x. exact Hf.
Qed.

(* ---- one step of the parser on a rendered field = a step on the written field *)
Definition upd_params (st : sstate) (p : list (str * pitem)) (pt : list (str * str)) : sstate :=
  mkS (s_desc st) p pt (s_attrs st) (s_atypes st) (s_excs st) (s_ret st) (s_rtype st).
Definition upd_attrs (st : sstate) (a : list (str * pitem)) (at_ : list (str * str)) : sstate :=
  mkS (s_desc st) (s_params st) (s_ptypes st) a at_ (s_excs st) (s_ret st) (s_rtype st).
Definition upd_excs (st : sstate) (x : list pitem) : sstate :=
  mkS (s_desc st) (s_params st) (s_ptypes st) (s_attrs st) (s_atypes st) x (s_ret st) (s_rtype st).
Definition upd_ret (st : sstate) (r : option pitem) (rt : option str) : sstate :=
  mkS (s_desc st) (s_params st) (s_ptypes st) (s_attrs st) (s_atypes st) (s_excs st) r rt.

Definition set_ann (t : str) (p : pitem) : pitem := mkItem (p_name p) (Some t) (p_desc p) (p_value p).

Definition astep (c : pctx) (ra : bool) (st : sstate) (f : xfield) : sstate :=
  match f with
  | XParam _ ty n d0 cs =>
      if has_key n (s_params st) then st
      else upd_params st (s_params st ++ [(n, mkItem (Some n) (orelse ty (orelse (assoc n (s_ptypes st)) (sig_ann c n)))
                                                      (xdesc d0 cs) (sig_default c n))]) (s_ptypes st)
  | XType n a _ => upd_params st (set_ann_if_none n a (s_params st)) (dict_set n a (s_ptypes st))
  | XVar _ n d0 cs =>
      if has_key n (s_attrs st) then st
      else upd_attrs st (s_attrs st ++ [(n, mkItem (Some n) (orelse (assoc n (s_atypes st)) (attr_ann c n)) (xdesc d0 cs) None)]) (s_atypes st)
  | XVartype n a _ => upd_attrs st (set_ann_if_none n a (s_attrs st)) (dict_set n a (s_atypes st))
  | XRaises _ e d0 cs => upd_excs st (s_excs st ++ [mkItem None (Some e) (xdesc d0 cs) None])
  | XReturns _ d0 cs => upd_ret st (Some (mkItem (Some []) (orelse (s_rtype st) (ret_ann c ra)) (xdesc d0 cs) None)) (s_rtype st)
  | XRtype a _ => upd_ret st (match s_ret st with Some p => Some (set_ann a p) | None => None end) (Some a)
  end.

Lemma contains_colon_dir2 : forall a n, contains_char colon a = false -> contains_char colon n = false ->
  contains_char colon (a ++ sp :: n) = false.
Proof.
  intros a n Ha Hn. rewrite contains_char_app, Ha. unfold contains_char. simpl. fold (contains_char colon n). rewrite Hn. reflexivity.
Qed.

Lemma printable_dir2 : forall a n, forallb printable a = true -> forallb printable n = true -> forallb printable (a ++ sp :: n) = true.
Proof. intros a n Ha Hn. rewrite forallb_app, Ha. rewrite forallb_cons_eq. rewrite Hn. reflexivity. Qed.

Lemma dir_assoc3 : forall (a t n X : str), a ++ (sp :: t) ++ sp :: n ++ X = ((a ++ sp :: t) ++ sp :: n) ++ X.
Proof. intros. rewrite <- !app_assoc. reflexivity. Qed.
Lemma dir_assoc2 : forall (a n X : str), a ++ sp :: n ++ X = (a ++ sp :: n) ++ X.
Proof. intros. rewrite <- !app_assoc. reflexivity. Qed.

Lemma split3 : forall (a t n : str), contains_char sp a = false -> contains_char sp t = false -> wf_tok n = true ->
  split_all sp ((a ++ sp :: t) ++ sp :: n) = [a; t; n].
Proof.
  intros a t n Ha Ht Hn. rewrite <- app_assoc. rewrite <- app_comm_cons.
  rewrite (split_all_app sp a (t ++ sp :: n) Ha). rewrite (wf_tok_split1 t n Ht Hn). reflexivity.
Qed.

Lemma step_astep : forall c ra st f, wf_xfield f = true -> step c ra st (xev_of f) = astep c ra st f.
Proof.
  intros c ra st f Hw.
  destruct f as [fn ty n d0 cs|n a b|fn n d0 cs|n a b|fn e d0 cs|fn d0 cs|a b]; simpl in Hw.
  - (* :param: *)
    apply andb_true_iff in Hw. destruct Hw as [Hw Hd]. apply andb_true_iff in Hw. destruct Hw as [Hw Hn].
    apply andb_true_iff in Hw. destruct Hw as [Hfn Hty].
    destruct (param_names_ok fn [] Hfn) as [_ [Hfs [Hfc Hfp]]].
    destruct (wf_tok_facts n Hn) as [Hns [Hnc [Hnp' _]]].
    unfold xev_of. simpl render_xfield. simpl xkind. unfold step.
    destruct ty as [t|].
    + destruct (wf_tok_facts t Hty) as [Hts [Htc [Htp _]]].
      rewrite dir_assoc3.
      rewrite parse_directive_x; auto.
      2:{ apply contains_colon_dir2; auto. apply contains_colon_dir2; auto. }
      2:{ apply printable_dir2; auto. apply printable_dir2; auto. }
      rewrite split3 by auto.
      unfold astep. destruct (has_key n (s_params st)); reflexivity.
    + rewrite app_nil_l. rewrite dir_assoc2.
      rewrite parse_directive_x; auto.
      2:{ apply contains_colon_dir2; auto. }
      2:{ apply printable_dir2; auto. }
      rewrite wf_tok_split1 by auto.
      unfold astep. destruct (has_key n (s_params st)); [reflexivity|]. destruct (assoc n (s_ptypes st)); reflexivity.
  - (* :type: *)
    apply andb_true_iff in Hw. destruct Hw as [Hn Ha].
    destruct (wf_tok_facts n Hn) as [Hns [Hnc [Hnp' _]]].
    destruct (wf_tyann_desc a b Ha) as [Hd [Hx Hor]].
    unfold xev_of. simpl render_xfield. simpl xkind. unfold step.
    change (":" :: "t" :: "y" :: "p" :: "e" :: " " :: n ++ colon :: sp :: a) with (colon :: (s_of "type" ++ sp :: n) ++ colon :: sp :: a).
    rewrite <- (indent_blanks b).
    rewrite parse_directive_x; auto; try (apply contains_colon_dir2; auto); try (apply printable_dir2; auto).
    rewrite wf_tok_split1 by (auto; reflexivity).
    rewrite Hx, Hor. reflexivity.
  - (* :var: *)
    apply andb_true_iff in Hw. destruct Hw as [Hw Hd]. apply andb_true_iff in Hw. destruct Hw as [Hfn Hn].
    destruct (var_names_ok fn [] Hfn) as [_ [Hfs [Hfc Hfp]]].
    destruct (wf_tok_facts n Hn) as [Hns [Hnc [Hnp' _]]].
    unfold xev_of. simpl render_xfield. simpl xkind. unfold step.
    rewrite dir_assoc2.
    rewrite parse_directive_x; auto.
    2:{ apply contains_colon_dir2; auto. }
    2:{ apply printable_dir2; auto. }
    rewrite wf_tok_split1 by auto.
    unfold astep. destruct (has_key n (s_attrs st)); [reflexivity|]. destruct (assoc n (s_atypes st)); reflexivity.
  - (* :vartype: *)
    apply andb_true_iff in Hw. destruct Hw as [Hn Ha].
    destruct (wf_tok_facts n Hn) as [Hns [Hnc [Hnp' _]]].
    destruct (wf_tyann_desc a b Ha) as [Hd [Hx Hor]].
    unfold xev_of. simpl render_xfield. simpl xkind. unfold step.
    change (":" :: "v" :: "a" :: "r" :: "t" :: "y" :: "p" :: "e" :: " " :: n ++ colon :: sp :: a) with (colon :: (s_of "vartype" ++ sp :: n) ++ colon :: sp :: a).
    rewrite <- (indent_blanks b).
    rewrite parse_directive_x; auto; try (apply contains_colon_dir2; auto); try (apply printable_dir2; auto).
    rewrite wf_tok_split1 by (auto; reflexivity).
    rewrite Hx, Hor. reflexivity.
  - (* :raises: *)
    apply andb_true_iff in Hw. destruct Hw as [Hw Hd]. apply andb_true_iff in Hw. destruct Hw as [Hfn Hn].
    destruct (exc_names_ok fn [] Hfn) as [_ [Hfs [Hfc Hfp]]].
    destruct (wf_tok_facts e Hn) as [Hns [Hnc [Hnp' _]]].
    unfold xev_of. simpl render_xfield. simpl xkind. unfold step.
    rewrite dir_assoc2.
    rewrite parse_directive_x; auto.
    2:{ apply contains_colon_dir2; auto. }
    2:{ apply printable_dir2; auto. }
    rewrite wf_tok_split1 by auto. reflexivity.
  - (* :returns: *)
    apply andb_true_iff in Hw. destruct Hw as [Hfn Hd].
    destruct (ret_names_ok fn [] Hfn) as [_ [Hfs [Hfc Hfp]]].
    unfold xev_of. simpl render_xfield. simpl xkind. unfold step.
    rewrite parse_directive_x; auto.
    unfold astep. destruct (s_rtype st); reflexivity.
  - (* :rtype: *)
    destruct (wf_tyann_desc a b Hw) as [Hd [Hx Hor]].
    unfold xev_of. simpl render_xfield. simpl xkind. unfold step.
    change (":" :: "r" :: "t" :: "y" :: "p" :: "e" :: ":" :: " " :: a) with (colon :: s_of "rtype" ++ colon :: sp :: a).
    rewrite <- (indent_blanks b).
    rewrite parse_directive_x; auto.
    rewrite Hx, Hor. reflexivity.
Qed.

(* ---- the dictionaries *)
Lemma type_of_app : forall pre post n,
  type_of (pre ++ post) n = match type_of pre n with Some x => Some x | None => type_of post n end.
Proof.
  induction pre as [|f pre IH]; intros post n; [reflexivity|].
  destruct f; simpl; try apply IH. destruct (str_eqb name n); [reflexivity|apply IH].
Qed.
Lemma vtype_of_app : forall pre post n,
  vtype_of (pre ++ post) n = match vtype_of pre n with Some x => Some x | None => vtype_of post n end.
Proof.
  induction pre as [|f pre IH]; intros post n; [reflexivity|].
  destruct f; simpl; try apply IH. destruct (str_eqb name n); [reflexivity|apply IH].
Qed.
Lemma rtype_of_app : forall pre post,
  rtype_of (pre ++ post) = match rtype_of pre with Some x => Some x | None => rtype_of post end.
Proof.
  induction pre as [|f pre IH]; intros post; [reflexivity|]. destruct f; simpl; try apply IH. reflexivity.
Qed.

Lemma str_eqb_refl : forall a, str_eqb a a = true.
Proof. intros. apply str_eqb_eq. reflexivity. Qed.

Lemma str_eqb_sym : forall a b, str_eqb a b = str_eqb b a.
Proof.
  intros a b. destruct (str_eqb a b) eqn:E.
  - apply str_eqb_eq in E. subst. symmetry. apply str_eqb_refl.
  - destruct (str_eqb b a) eqn:E2; [|reflexivity]. apply str_eqb_eq in E2. subst. rewrite str_eqb_refl in E. discriminate.
Qed.

Lemma not_in_nodup : forall (a : list str) n, nodupb (a ++ [n]) = true -> existsb (str_eqb n) a = false.
Proof.
  induction a as [|x a IH]; intros n H; [reflexivity|].
  simpl in H. apply andb_true_iff in H. destruct H as [H1 H2]. apply negb_true_iff in H1.
  rewrite existsb_app in H1. apply orb_false_iff in H1. destruct H1 as [_ H1]. simpl in H1. rewrite orb_false_r in H1.
  simpl. rewrite str_eqb_sym, H1. simpl. apply IH. exact H2.
Qed.

Lemma type_of_none : forall pre n, existsb (str_eqb n) (xtnames pre) = false -> type_of pre n = None.
Proof.
  induction pre as [|f pre IH]; intros n H; [reflexivity|].
  destruct f; simpl in *; try (apply IH; exact H).
  apply orb_false_iff in H. destruct H as [H1 H2]. rewrite str_eqb_sym, H1. apply IH. exact H2.
Qed.
Lemma vtype_of_none : forall pre n, existsb (str_eqb n) (xvtnames pre) = false -> vtype_of pre n = None.
Proof.
  induction pre as [|f pre IH]; intros n H; [reflexivity|].
  destruct f; simpl in *; try (apply IH; exact H).
  apply orb_false_iff in H. destruct H as [H1 H2]. rewrite str_eqb_sym, H1. apply IH. exact H2.
Qed.

Lemma assoc_dict_set : forall (l : list (str * str)) n t m,
  assoc m (dict_set n t l) = if str_eqb n m then Some t else assoc m l.
Proof.
  induction l as [|[k v] l IH]; intros n t m.
  - simpl. reflexivity.
  - simpl. destruct (str_eqb k n) eqn:E.
    + apply str_eqb_eq in E. subst k. simpl. destruct (str_eqb n m); reflexivity.
    + simpl. destruct (str_eqb k m) eqn:E2.
      * apply str_eqb_eq in E2. subst k. rewrite str_eqb_sym, E. reflexivity.
      * apply IH.
Qed.

(* ---- parameters *)
Definition pitem_of (c : pctx) (all : list xfield) (f : xfield) : list (str * pitem) := map keyed (xexp_param c all f).

Lemma keyed_param : forall c all fn ty n d0 cs,
  map keyed (xexp_param c all (XParam fn ty n d0 cs)) =
  [(n, mkItem (Some n) (orelse ty (orelse (type_of all n) (sig_ann c n))) (xdesc d0 cs) (sig_default c n))].
Proof. reflexivity. Qed.

Lemma keys_params : forall c all L, map fst (map keyed (flat_map (xexp_param c all) L)) = xpnames L.
Proof.
  intros c all. induction L as [|f L IH]; [reflexivity|].
  change (flat_map (xexp_param c all) (f :: L)) with (xexp_param c all f ++ flat_map (xexp_param c all) L).
  rewrite !map_app. rewrite IH. destruct f; reflexivity.
Qed.

Lemma has_key_keys : forall (l : list (str * pitem)) n, has_key n l = existsb (str_eqb n) (map fst l).
Proof.
  induction l as [|[k v] l IH]; intros n; [reflexivity|].
  unfold has_key. simpl. rewrite str_eqb_sym. destruct (str_eqb n k); [reflexivity|]. apply IH.
Qed.

(* items whose name is not n do not change when a :type n: field joins the list *)
Lemma params_other : forall c all1 all2 n L,
  (forall m, str_eqb n m = false -> type_of all1 m = type_of all2 m) ->
  existsb (str_eqb n) (xpnames L) = false ->
  flat_map (xexp_param c all1) L = flat_map (xexp_param c all2) L.
Proof.
  intros c all1 all2 n L Hty. induction L as [|f L IH]; intros Hn; [reflexivity|].
  change (flat_map (xexp_param c all1) (f :: L)) with (xexp_param c all1 f ++ flat_map (xexp_param c all1) L).
  change (flat_map (xexp_param c all2) (f :: L)) with (xexp_param c all2 f ++ flat_map (xexp_param c all2) L).
  destruct f; simpl in Hn; try (rewrite (IH Hn); reflexivity).
  apply orb_false_iff in Hn. destruct Hn as [H1 H2].
  rewrite (IH H2). simpl. rewrite (Hty name H1). reflexivity.
Qed.

(* the parameters that a later :type n: field must not find already annotated by the signature only *)
Definition no_sig_param (c : pctx) (n : str) (L : list xfield) : Prop :=
  forall fn d0 cs, In (XParam fn None n d0 cs) L -> sig_ann c n = None.

Lemma set_ann_params : forall c all1 all2 n a L,
  type_of all1 n = None -> type_of all2 n = Some a ->
  (forall m, str_eqb n m = false -> type_of all1 m = type_of all2 m) ->
  nodupb (xpnames L) = true -> no_sig_param c n L ->
  set_ann_if_none n a (map keyed (flat_map (xexp_param c all1) L)) = map keyed (flat_map (xexp_param c all2) L).
Proof.
  intros c all1 all2 n a L H1 H2 Hoth. induction L as [|f L IH]; intros Hnd Hsig; [reflexivity|].
  change (flat_map (xexp_param c all1) (f :: L)) with (xexp_param c all1 f ++ flat_map (xexp_param c all1) L).
  change (flat_map (xexp_param c all2) (f :: L)) with (xexp_param c all2 f ++ flat_map (xexp_param c all2) L).
  assert (HsigL : no_sig_param c n L) by (intros fn d0 cs Hin; apply (Hsig fn d0 cs); right; exact Hin).
  destruct f as [fn ty m d0 cs|m a' b|fn m d0 cs|m a' b|fn e d0 cs|fn d0 cs|a' b];
    try (simpl app; apply IH; [exact Hnd|exact HsigL]).
  simpl in Hnd. apply andb_true_iff in Hnd. destruct Hnd as [Hm HndL]. apply negb_true_iff in Hm.
  rewrite !map_app. rewrite !keyed_param. simpl app.
  change (set_ann_if_none n a ((m, mkItem (Some m) (orelse ty (orelse (type_of all1 m) (sig_ann c m))) (xdesc d0 cs) (sig_default c m))
                                 :: map keyed (flat_map (xexp_param c all1) L))) with
    (if str_eqb m n
     then (m, match orelse ty (orelse (type_of all1 m) (sig_ann c m)) with
              | None => mkItem (Some m) (Some a) (xdesc d0 cs) (sig_default c m)
              | Some _ => mkItem (Some m) (orelse ty (orelse (type_of all1 m) (sig_ann c m))) (xdesc d0 cs) (sig_default c m)
              end) :: map keyed (flat_map (xexp_param c all1) L)
     else (m, mkItem (Some m) (orelse ty (orelse (type_of all1 m) (sig_ann c m))) (xdesc d0 cs) (sig_default c m))
            :: set_ann_if_none n a (map keyed (flat_map (xexp_param c all1) L))).
  destruct (str_eqb m n) eqn:E.
  - apply str_eqb_eq in E. subst m.
    rewrite (params_other c all1 all2 n L Hoth Hm). rewrite H1, H2. f_equal.
    destruct ty as [t|]; [reflexivity|]. simpl orelse.
    rewrite (Hsig fn d0 cs (or_introl eq_refl)). reflexivity.
  - rewrite (IH HndL HsigL). rewrite (Hoth m) by (rewrite str_eqb_sym; exact E). reflexivity.
Qed.

(* ---- attributes (same shape) *)
Lemma keyed_var : forall c all fn n d0 cs,
  map keyed (xexp_var c all (XVar fn n d0 cs)) =
  [(n, mkItem (Some n) (orelse (vtype_of all n) (attr_ann c n)) (xdesc d0 cs) None)].
Proof. reflexivity. Qed.

Lemma keys_vars : forall c all L, map fst (map keyed (flat_map (xexp_var c all) L)) = xvnames L.
Proof.
  intros c all. induction L as [|f L IH]; [reflexivity|].
  change (flat_map (xexp_var c all) (f :: L)) with (xexp_var c all f ++ flat_map (xexp_var c all) L).
  rewrite !map_app. rewrite IH. destruct f; reflexivity.
Qed.

Lemma vars_other : forall c all1 all2 n L,
  (forall m, str_eqb n m = false -> vtype_of all1 m = vtype_of all2 m) ->
  existsb (str_eqb n) (xvnames L) = false ->
  flat_map (xexp_var c all1) L = flat_map (xexp_var c all2) L.
Proof.
  intros c all1 all2 n L Hty. induction L as [|f L IH]; intros Hn; [reflexivity|].
  change (flat_map (xexp_var c all1) (f :: L)) with (xexp_var c all1 f ++ flat_map (xexp_var c all1) L).
  change (flat_map (xexp_var c all2) (f :: L)) with (xexp_var c all2 f ++ flat_map (xexp_var c all2) L).
  destruct f; simpl in Hn; try (rewrite (IH Hn); reflexivity).
  apply orb_false_iff in Hn. destruct Hn as [H1 H2].
  rewrite (IH H2). simpl. rewrite (Hty name H1). reflexivity.
Qed.

Definition no_sig_var (c : pctx) (n : str) (L : list xfield) : Prop :=
  forall fn d0 cs, In (XVar fn n d0 cs) L -> attr_ann c n = None.

Lemma set_ann_vars : forall c all1 all2 n a L,
  vtype_of all1 n = None -> vtype_of all2 n = Some a ->
  (forall m, str_eqb n m = false -> vtype_of all1 m = vtype_of all2 m) ->
  nodupb (xvnames L) = true -> no_sig_var c n L ->
  set_ann_if_none n a (map keyed (flat_map (xexp_var c all1) L)) = map keyed (flat_map (xexp_var c all2) L).
Proof.
  intros c all1 all2 n a L H1 H2 Hoth. induction L as [|f L IH]; intros Hnd Hsig; [reflexivity|].
  change (flat_map (xexp_var c all1) (f :: L)) with (xexp_var c all1 f ++ flat_map (xexp_var c all1) L).
  change (flat_map (xexp_var c all2) (f :: L)) with (xexp_var c all2 f ++ flat_map (xexp_var c all2) L).
  assert (HsigL : no_sig_var c n L) by (intros fn d0 cs Hin; apply (Hsig fn d0 cs); right; exact Hin).
  destruct f as [fn ty m d0 cs|m a' b|fn m d0 cs|m a' b|fn e d0 cs|fn d0 cs|a' b];
    try (simpl app; apply IH; [exact Hnd|exact HsigL]).
  simpl in Hnd. apply andb_true_iff in Hnd. destruct Hnd as [Hm HndL]. apply negb_true_iff in Hm.
  rewrite !map_app. rewrite !keyed_var. simpl app.
  change (set_ann_if_none n a ((m, mkItem (Some m) (orelse (vtype_of all1 m) (attr_ann c m)) (xdesc d0 cs) None)
                                 :: map keyed (flat_map (xexp_var c all1) L))) with
    (if str_eqb m n
     then (m, match orelse (vtype_of all1 m) (attr_ann c m) with
              | None => mkItem (Some m) (Some a) (xdesc d0 cs) None
              | Some _ => mkItem (Some m) (orelse (vtype_of all1 m) (attr_ann c m)) (xdesc d0 cs) None
              end) :: map keyed (flat_map (xexp_var c all1) L)
     else (m, mkItem (Some m) (orelse (vtype_of all1 m) (attr_ann c m)) (xdesc d0 cs) None)
            :: set_ann_if_none n a (map keyed (flat_map (xexp_var c all1) L))).
  destruct (str_eqb m n) eqn:E.
  - apply str_eqb_eq in E. subst m.
    rewrite (vars_other c all1 all2 n L Hoth Hm). rewrite H1, H2. f_equal.
    simpl orelse. rewrite (Hsig fn d0 cs (or_introl eq_refl)). reflexivity.
  - rewrite (IH HndL HsigL). rewrite (Hoth m) by (rewrite str_eqb_sym; exact E). reflexivity.
Qed.

(* ---- the invariant: after the fields of a prefix, the state holds what the prefix alone would give *)
Record Inv (c : pctx) (ra : bool) (D : list str) (pre : list xfield) (st : sstate) : Prop := mkInv {
  inv_desc : s_desc st = D;
  inv_params : s_params st = map keyed (flat_map (xexp_param c pre) pre);
  inv_ptypes : forall n, assoc n (s_ptypes st) = type_of pre n;
  inv_attrs : s_attrs st = map keyed (flat_map (xexp_var c pre) pre);
  inv_atypes : forall n, assoc n (s_atypes st) = vtype_of pre n;
  inv_excs : s_excs st = flat_map xexp_exc pre;
  inv_ret : s_ret st = last_opt (flat_map (xexp_ret c ra pre) pre);
  inv_rtype : s_rtype st = rtype_of pre }.

Lemma flat_map_snoc : forall (A B : Type) (g : A -> list B) l x, flat_map g (l ++ [x]) = flat_map g l ++ g x.
Proof. intros. rewrite flat_map_app. simpl. rewrite app_nil_r. reflexivity. Qed.

Lemma flat_map_ext_in : forall (A B : Type) (g h : A -> list B) l, (forall x, In x l -> g x = h x) -> flat_map g l = flat_map h l.
Proof.
  intros A B g h l H. induction l as [|x l IH]; [reflexivity|]. simpl. rewrite (H x (or_introl eq_refl)). rewrite IH; [reflexivity|].
  intros y Hy. apply H. right. exact Hy.
Qed.

Lemma xexp_param_ext : forall c all1 all2 f, (forall n, type_of all1 n = type_of all2 n) -> xexp_param c all1 f = xexp_param c all2 f.
Proof. intros c all1 all2 f H. destruct f; simpl; try reflexivity. rewrite H. reflexivity. Qed.
Lemma xexp_var_ext : forall c all1 all2 f, (forall n, vtype_of all1 n = vtype_of all2 n) -> xexp_var c all1 f = xexp_var c all2 f.
Proof. intros c all1 all2 f H. destruct f; simpl; try reflexivity. rewrite H. reflexivity. Qed.
Lemma xexp_ret_ext : forall c ra all1 all2 f, rtype_of all1 = rtype_of all2 -> xexp_ret c ra all1 f = xexp_ret c ra all2 f.
Proof. intros c ra all1 all2 f H. destruct f; simpl; try reflexivity. rewrite H. reflexivity. Qed.

Definition is_xtype (f : xfield) : bool := match f with XType _ _ _ => true | _ => false end.
Definition is_xvtype (f : xfield) : bool := match f with XVartype _ _ _ => true | _ => false end.
Definition is_xrtype (f : xfield) : bool := match f with XRtype _ _ => true | _ => false end.

Lemma type_of_snoc_other : forall pre f n, is_xtype f = false -> type_of (pre ++ [f]) n = type_of pre n.
Proof. intros pre f n H. rewrite type_of_app. destruct (type_of pre n); [reflexivity|]. destruct f; try reflexivity; discriminate. Qed.
Lemma vtype_of_snoc_other : forall pre f n, is_xvtype f = false -> vtype_of (pre ++ [f]) n = vtype_of pre n.
Proof. intros pre f n H. rewrite vtype_of_app. destruct (vtype_of pre n); [reflexivity|]. destruct f; try reflexivity; discriminate. Qed.
Lemma rtype_of_snoc_other : forall pre f, is_xrtype f = false -> rtype_of (pre ++ [f]) = rtype_of pre.
Proof. intros pre f H. rewrite rtype_of_app. destruct (rtype_of pre); [reflexivity|]. destruct f; try reflexivity; discriminate. Qed.

Definition is_xparam (f : xfield) : bool := match f with XParam _ _ _ _ _ => true | _ => false end.
Definition is_xvar (f : xfield) : bool := match f with XVar _ _ _ _ => true | _ => false end.
Definition is_xret (f : xfield) : bool := match f with XReturns _ _ _ => true | _ => false end.
Definition is_xexc (f : xfield) : bool := match f with XRaises _ _ _ _ => true | _ => false end.

Lemma params_snoc_other : forall c pre f, is_xtype f = false -> is_xparam f = false ->
  flat_map (xexp_param c (pre ++ [f])) (pre ++ [f]) = flat_map (xexp_param c pre) pre.
Proof.
  intros c pre f Ht Hp. rewrite flat_map_snoc.
  replace (xexp_param c (pre ++ [f]) f) with (@nil pitem) by (destruct f; try reflexivity; discriminate).
  rewrite app_nil_r. apply flat_map_ext_in. intros g _. apply xexp_param_ext. intros n. apply type_of_snoc_other. exact Ht.
Qed.

Lemma vars_snoc_other : forall c pre f, is_xvtype f = false -> is_xvar f = false ->
  flat_map (xexp_var c (pre ++ [f])) (pre ++ [f]) = flat_map (xexp_var c pre) pre.
Proof.
  intros c pre f Ht Hp. rewrite flat_map_snoc.
  replace (xexp_var c (pre ++ [f]) f) with (@nil pitem) by (destruct f; try reflexivity; discriminate).
  rewrite app_nil_r. apply flat_map_ext_in. intros g _. apply xexp_var_ext. intros n. apply vtype_of_snoc_other. exact Ht.
Qed.

Lemma rets_snoc_other : forall c ra pre f, is_xrtype f = false -> is_xret f = false ->
  flat_map (xexp_ret c ra (pre ++ [f])) (pre ++ [f]) = flat_map (xexp_ret c ra pre) pre.
Proof.
  intros c ra pre f Ht Hp. rewrite flat_map_snoc.
  replace (xexp_ret c ra (pre ++ [f]) f) with (@nil pitem) by (destruct f; try reflexivity; discriminate).
  rewrite app_nil_r. apply flat_map_ext_in. intros g _. apply xexp_ret_ext. apply rtype_of_snoc_other. exact Ht.
Qed.

Lemma excs_snoc_other : forall pre f, is_xexc f = false -> flat_map xexp_exc (pre ++ [f]) = flat_map xexp_exc pre.
Proof.
  intros pre f H. rewrite flat_map_snoc.
  replace (xexp_exc f) with (@nil pitem) by (destruct f; try reflexivity; discriminate). apply app_nil_r.
Qed.

Definition step_cond (c : pctx) (pre : list xfield) (f : xfield) : Prop :=
  match f with
  | XParam _ _ n _ _ => existsb (str_eqb n) (xpnames pre) = false
  | XType n _ _ => existsb (str_eqb n) (xtnames pre) = false /\ nodupb (xpnames pre) = true /\ no_sig_param c n pre
  | XVar _ n _ _ => existsb (str_eqb n) (xvnames pre) = false
  | XVartype n _ _ => existsb (str_eqb n) (xvtnames pre) = false /\ nodupb (xvnames pre) = true /\ no_sig_var c n pre
  | XRtype _ _ => rtype_of pre = None
  | _ => True
  end.

Lemma inv_step : forall c ra D pre st f, Inv c ra D pre st -> step_cond c pre f -> Inv c ra D (pre ++ [f]) (astep c ra st f).
Proof.
  intros c ra D pre st f [Hd Hp Hpt Ha Hat Hx Hr Hrt] Hc.
  destruct f as [fn ty n d0 cs|n a b|fn n d0 cs|n a b|fn e d0 cs|fn d0 cs|a b]; simpl in Hc.
  - (* :param: *)
    assert (Hk : has_key n (s_params st) = false) by (rewrite has_key_keys, Hp, keys_params; exact Hc).
    unfold astep. rewrite Hk. constructor; simpl.
    + exact Hd.
    + rewrite flat_map_snoc. rewrite map_app. rewrite keyed_param.
      rewrite (type_of_snoc_other pre (XParam fn ty n d0 cs) n eq_refl). rewrite Hpt. rewrite Hp. f_equal. f_equal.
      apply flat_map_ext_in. intros g _. apply xexp_param_ext. intros m. symmetry. apply type_of_snoc_other. reflexivity.
    + intros m. rewrite Hpt. symmetry. apply type_of_snoc_other. reflexivity.
    + rewrite vars_snoc_other by reflexivity. exact Ha.
    + intros m. rewrite Hat. symmetry. apply vtype_of_snoc_other. reflexivity.
    + rewrite excs_snoc_other by reflexivity. exact Hx.
    + rewrite rets_snoc_other by reflexivity. exact Hr.
    + rewrite rtype_of_snoc_other by reflexivity. exact Hrt.
  - (* :type: *)
    destruct Hc as [Hnt [Hnd Hsig]].
    assert (H1 : type_of pre n = None) by (apply type_of_none; exact Hnt).
    assert (H2 : type_of (pre ++ [XType n a b]) n = Some a) by (rewrite type_of_app, H1; simpl; rewrite str_eqb_refl; reflexivity).
    assert (Hoth : forall m, str_eqb n m = false -> type_of pre m = type_of (pre ++ [XType n a b]) m).
    { intros m Hm. rewrite type_of_app. destruct (type_of pre m); [reflexivity|]. simpl. rewrite Hm. reflexivity. }
    unfold astep. constructor; simpl.
    + exact Hd.
    + rewrite flat_map_snoc. simpl xexp_param. rewrite app_nil_r. rewrite Hp.
      apply (set_ann_params c pre (pre ++ [XType n a b]) n a pre H1 H2 Hoth Hnd Hsig).
    + intros m. rewrite assoc_dict_set. rewrite Hpt. rewrite type_of_app.
      destruct (str_eqb n m) eqn:E.
      * apply str_eqb_eq in E. subst m. rewrite H1. simpl. rewrite str_eqb_refl. reflexivity.
      * destruct (type_of pre m); [reflexivity|]. simpl. rewrite E. reflexivity.
    + rewrite vars_snoc_other by reflexivity. exact Ha.
    + intros m. rewrite Hat. symmetry. apply vtype_of_snoc_other. reflexivity.
    + rewrite excs_snoc_other by reflexivity. exact Hx.
    + rewrite rets_snoc_other by reflexivity. exact Hr.
    + rewrite rtype_of_snoc_other by reflexivity. exact Hrt.
  - (* :var: *)
    assert (Hk : has_key n (s_attrs st) = false) by (rewrite has_key_keys, Ha, keys_vars; exact Hc).
    unfold astep. rewrite Hk. constructor; simpl.
    + exact Hd.
    + rewrite params_snoc_other by reflexivity. exact Hp.
    + intros m. rewrite Hpt. symmetry. apply type_of_snoc_other. reflexivity.
    + rewrite flat_map_snoc. rewrite map_app. rewrite keyed_var.
      rewrite (vtype_of_snoc_other pre (XVar fn n d0 cs) n eq_refl). rewrite Hat. rewrite Ha. f_equal. f_equal.
      apply flat_map_ext_in. intros g _. apply xexp_var_ext. intros m. symmetry. apply vtype_of_snoc_other. reflexivity.
    + intros m. rewrite Hat. symmetry. apply vtype_of_snoc_other. reflexivity.
    + rewrite excs_snoc_other by reflexivity. exact Hx.
    + rewrite rets_snoc_other by reflexivity. exact Hr.
    + rewrite rtype_of_snoc_other by reflexivity. exact Hrt.
  - (* :vartype: *)
    destruct Hc as [Hnt [Hnd Hsig]].
    assert (H1 : vtype_of pre n = None) by (apply vtype_of_none; exact Hnt).
    assert (H2 : vtype_of (pre ++ [XVartype n a b]) n = Some a) by (rewrite vtype_of_app, H1; simpl; rewrite str_eqb_refl; reflexivity).
    assert (Hoth : forall m, str_eqb n m = false -> vtype_of pre m = vtype_of (pre ++ [XVartype n a b]) m).
    { intros m Hm. rewrite vtype_of_app. destruct (vtype_of pre m); [reflexivity|]. simpl. rewrite Hm. reflexivity. }
    unfold astep. constructor; simpl.
    + exact Hd.
    + rewrite params_snoc_other by reflexivity. exact Hp.
    + intros m. rewrite Hpt. symmetry. apply type_of_snoc_other. reflexivity.
    + rewrite flat_map_snoc. simpl xexp_var. rewrite app_nil_r. rewrite Ha.
      apply (set_ann_vars c pre (pre ++ [XVartype n a b]) n a pre H1 H2 Hoth Hnd Hsig).
    + intros m. rewrite assoc_dict_set. rewrite Hat. rewrite vtype_of_app.
      destruct (str_eqb n m) eqn:E.
      * apply str_eqb_eq in E. subst m. rewrite H1. simpl. rewrite str_eqb_refl. reflexivity.
      * destruct (vtype_of pre m); [reflexivity|]. simpl. rewrite E. reflexivity.
    + rewrite excs_snoc_other by reflexivity. exact Hx.
    + rewrite rets_snoc_other by reflexivity. exact Hr.
    + rewrite rtype_of_snoc_other by reflexivity. exact Hrt.
  - (* :raises: *)
    unfold astep. constructor; simpl.
    + exact Hd.
    + rewrite params_snoc_other by reflexivity. exact Hp.
    + intros m. rewrite Hpt. symmetry. apply type_of_snoc_other. reflexivity.
    + rewrite vars_snoc_other by reflexivity. exact Ha.
    + intros m. rewrite Hat. symmetry. apply vtype_of_snoc_other. reflexivity.
    + rewrite flat_map_snoc. rewrite Hx. reflexivity.
    + rewrite rets_snoc_other by reflexivity. exact Hr.
    + rewrite rtype_of_snoc_other by reflexivity. exact Hrt.
  - (* :returns: *)
    unfold astep. constructor; simpl.
    + exact Hd.
    + rewrite params_snoc_other by reflexivity. exact Hp.
    + intros m. rewrite Hpt. symmetry. apply type_of_snoc_other. reflexivity.
    + rewrite vars_snoc_other by reflexivity. exact Ha.
    + intros m. rewrite Hat. symmetry. apply vtype_of_snoc_other. reflexivity.
    + rewrite excs_snoc_other by reflexivity. exact Hx.
    + rewrite flat_map_snoc. rewrite last_opt_app. simpl xexp_ret.
      rewrite (rtype_of_snoc_other pre (XReturns fn d0 cs) eq_refl). rewrite Hrt. reflexivity.
    + rewrite rtype_of_snoc_other by reflexivity. exact Hrt.
  - (* :rtype: *)
    unfold astep. constructor; simpl.
    + exact Hd.
    + rewrite params_snoc_other by reflexivity. exact Hp.
    + intros m. rewrite Hpt. symmetry. apply type_of_snoc_other. reflexivity.
    + rewrite vars_snoc_other by reflexivity. exact Ha.
    + intros m. rewrite Hat. symmetry. apply vtype_of_snoc_other. reflexivity.
    + rewrite excs_snoc_other by reflexivity. exact Hx.
    + rewrite flat_map_snoc. simpl xexp_ret. rewrite app_nil_r. rewrite Hr.
      assert (Hrt2 : rtype_of (pre ++ [XRtype a b]) = Some a) by (rewrite rtype_of_app, Hc; reflexivity).
      (* every :returns: item of the prefix had the parent's annotation; now it has the :rtype: text *)
      assert (G : forall L, match last_opt (flat_map (xexp_ret c ra pre) L) with Some p => Some (set_ann a p) | None => None end =
                            last_opt (flat_map (xexp_ret c ra (pre ++ [XRtype a b])) L)).
      { intros L. induction L as [|g L IH] using rev_ind; [reflexivity|].
        rewrite !flat_map_snoc. rewrite !last_opt_app.
        destruct g; simpl xexp_ret; try (simpl last_opt; exact IH).
        rewrite Hrt2. unfold last_opt. simpl. reflexivity. }
      apply G.
    + rewrite rtype_of_app, Hc. reflexivity.
Qed.

Lemma inv_fold : forall c ra D post pre st, Inv c ra D pre st ->
  (forall p1 f p2, post = p1 ++ f :: p2 -> step_cond c (pre ++ p1) f) ->
  Inv c ra D (pre ++ post) (fold_left (astep c ra) post st).
Proof.
  intros c ra D post. induction post as [|f post IH]; intros pre st HI Hc.
  - simpl. rewrite app_nil_r. exact HI.
  - simpl fold_left. replace (pre ++ f :: post) with ((pre ++ [f]) ++ post) by (rewrite <- app_assoc; reflexivity).
    apply IH.
    + apply inv_step; [exact HI|]. specialize (Hc [] f post eq_refl). rewrite app_nil_r in Hc. exact Hc.
    + intros p1 g p2 E. specialize (Hc (f :: p1) g p2). rewrite <- app_assoc. simpl. apply Hc. rewrite E. reflexivity.
Qed.

(* ---- the conditions of every step follow from well-formedness and the absence of the known gap *)
Lemma xpnames_app : forall a b, xpnames (a ++ b) = xpnames a ++ xpnames b.
Proof. intros. unfold xpnames. apply flat_map_app. Qed.
Lemma xvnames_app : forall a b, xvnames (a ++ b) = xvnames a ++ xvnames b.
Proof. intros. unfold xvnames. apply flat_map_app. Qed.
Lemma xtnames_app : forall a b, xtnames (a ++ b) = xtnames a ++ xtnames b.
Proof. intros. unfold xtnames. apply flat_map_app. Qed.
Lemma xvtnames_app : forall a b, xvtnames (a ++ b) = xvtnames a ++ xvtnames b.
Proof. intros. unfold xvtnames. apply flat_map_app. Qed.

Lemma nodup_split : forall (a : list str) n b, nodupb (a ++ n :: b) = true -> existsb (str_eqb n) a = false /\ nodupb a = true.
Proof.
  intros a n b H. split.
  - apply not_in_nodup. replace (a ++ n :: b) with ((a ++ [n]) ++ b) in H by (rewrite <- app_assoc; reflexivity).
    apply nodupb_app_l in H. exact H.
  - apply nodupb_app_l in H. exact H.
Qed.

Lemma gap_app : forall c a b, gap_F8 c (a ++ b) = false -> gap_F8 c b = false.
Proof.
  intros c a b. induction a as [|f a IH]; intros H; [exact H|]. simpl in H. apply orb_false_iff in H. destruct H as [_ H]. apply IH. exact H.
Qed.

Lemma gap_param : forall c p1 fn n d0 cs p2, gap_F8 c (p1 ++ XParam fn None n d0 cs :: p2) = false -> has_type n p2 = true ->
  sig_ann c n = None.
Proof.
  intros c p1 fn n d0 cs p2 H Ht. apply gap_app in H. simpl in H. apply orb_false_iff in H. destruct H as [H _].
  rewrite Ht in H. rewrite andb_true_r in H. destruct (sig_ann c n); [discriminate|reflexivity].
Qed.

Lemma gap_var : forall c p1 fn n d0 cs p2, gap_F8 c (p1 ++ XVar fn n d0 cs :: p2) = false -> has_vtype n p2 = true ->
  attr_ann c n = None.
Proof.
  intros c p1 fn n d0 cs p2 H Ht. apply gap_app in H. simpl in H. apply orb_false_iff in H. destruct H as [H _].
  rewrite Ht in H. rewrite andb_true_r in H. destruct (attr_ann c n); [discriminate|reflexivity].
Qed.

Lemma xrtypes_none : forall pre a b post, xrtypes (pre ++ XRtype a b :: post) <= 1 -> rtype_of pre = None.
Proof.
  intros pre a b post H. unfold xrtypes in H. rewrite flat_map_app in H. rewrite app_length in H. simpl in H.
  assert (G : forall L, rtype_of L <> None -> 1 <= List.length (flat_map (fun f => match f with XRtype _ _ => [tt] | _ => [] end) L)).
  { induction L as [|g L IH]; intros HL; [simpl in HL; congruence|]. destruct g; simpl in *; try (apply IH; exact HL). lia. }
  destruct (rtype_of pre) eqn:E; [|reflexivity]. assert (G' := G pre). rewrite E in G'. specialize (G' ltac:(discriminate)). lia.
Qed.

Lemma global_conds : forall c text fs, wf_sphinx_full text fs = true -> gap_F8 c fs = false ->
  forall pre f post, fs = pre ++ f :: post -> step_cond c pre f.
Proof.
  intros c text fs Hwf Hgap pre f post E. unfold wf_sphinx_full in Hwf.
  apply andb_true_iff in Hwf; destruct Hwf as [Hwf Hrt]. apply andb_true_iff in Hwf; destruct Hwf as [Hwf Hvt].
  apply andb_true_iff in Hwf; destruct Hwf as [Hwf Ht]. apply andb_true_iff in Hwf; destruct Hwf as [Hwf Hv].
  apply andb_true_iff in Hwf; destruct Hwf as [Hwf Hp].
  subst fs.
  destruct f as [fn ty n d0 cs|n a b|fn n d0 cs|n a b|fn e d0 cs|fn d0 cs|a b]; simpl; auto.
  - rewrite xpnames_app in Hp. simpl in Hp. apply (nodup_split _ _ _ Hp).
  - rewrite xtnames_app in Ht. simpl in Ht. destruct (nodup_split _ _ _ Ht) as [A _]. split; [exact A|]. split.
    + rewrite xpnames_app in Hp. apply nodupb_app_l in Hp. exact Hp.
    + intros fn d0 cs Hin. apply in_split in Hin. destruct Hin as [p1 [p2 Ep]]. subst pre.
      rewrite <- app_assoc in Hgap. rewrite <- app_comm_cons in Hgap.
      apply (gap_param c p1 fn n d0 cs _ Hgap).
      unfold has_type. rewrite type_of_app. destruct (type_of p2 n); [reflexivity|]. simpl. rewrite str_eqb_refl. reflexivity.
  - rewrite xvnames_app in Hv. simpl in Hv. apply (nodup_split _ _ _ Hv).
  - rewrite xvtnames_app in Hvt. simpl in Hvt. destruct (nodup_split _ _ _ Hvt) as [A _]. split; [exact A|]. split.
    + rewrite xvnames_app in Hv. apply nodupb_app_l in Hv. exact Hv.
    + intros fn d0 cs Hin. apply in_split in Hin. destruct Hin as [p1 [p2 Ep]]. subst pre.
      rewrite <- app_assoc in Hgap. rewrite <- app_comm_cons in Hgap.
      apply (gap_var c p1 fn n d0 cs _ Hgap).
      unfold has_vtype. rewrite vtype_of_app. destruct (vtype_of p2 n); [reflexivity|]. simpl. rewrite str_eqb_refl. reflexivity.
  - apply Nat.leb_le in Hrt. apply (xrtypes_none pre a b post Hrt).
Qed.

Lemma fold_step_astep : forall c ra fs st, forallb wf_xfield fs = true ->
  fold_left (step c ra) (map xev_of fs) st = fold_left (astep c ra) fs st.
Proof.
  intros c ra fs. induction fs as [|f fs IH]; intros st H; [reflexivity|].
  simpl in H. apply andb_true_iff in H. destruct H as [Hf Hfs].
  simpl. rewrite (step_astep c ra st f Hf). apply IH. exact Hfs.
Qed.

Theorem sphinx_roundtrip_full : forall c ra text fields, wf_sphinx_full text fields = true -> gap_F8 c fields = false ->
  parse_sphinx c ra (render_sphinx_full text fields) = expect_sphinx_full c ra text fields.
Proof.
  intros c ra text fields H Hgap. assert (Hconds := global_conds c text fields H Hgap).
  unfold wf_sphinx_full in H.
  apply andb_true_iff in H; destruct H as [H _]. apply andb_true_iff in H; destruct H as [H _].
  apply andb_true_iff in H; destruct H as [H _]. apply andb_true_iff in H; destruct H as [H _].
  apply andb_true_iff in H; destruct H as [H _]. apply andb_true_iff in H; destruct H as [Ht Hf].
  unfold wf_stext in Ht.
  apply andb_true_iff in Ht. destruct Ht as [Ht Hlast]. apply andb_true_iff in Ht. destruct Ht as [Ht Hhd]. apply andb_true_iff in Ht. destruct Ht as [Hne Hlines].
  apply negb_true_iff in Hlast, Hhd.
  unfold parse_sphinx. rewrite events_render_x by auto.
  rewrite fold_left_app. rewrite fold_desc. simpl s_desc.
  rewrite fold_step_astep by exact Hf.
  set (st1 := mkS ([] ++ text ++ [[]]) (s_params s0) (s_ptypes s0) (s_attrs s0) (s_atypes s0) (s_excs s0) (s_ret s0) (s_rtype s0)).
  assert (HI0 : Inv c ra (text ++ [[]]) [] st1) by (constructor; reflexivity).
  assert (HI := inv_fold c ra (text ++ [[]]) fields [] st1 HI0 (fun p1 f p2 E => Hconds p1 f p2 E)).
  simpl app in HI. destruct HI as [Hd Hp Hpt Ha Hat Hx Hr Hrt].
  unfold sections_of, expect_sphinx_full. rewrite Hd, Hp, Ha, Hx, Hr.
  assert (Htn : text <> []) by (destruct text; [discriminate|discriminate]).
  rewrite (strip_blank_text text Htn Hhd Hlast).
  rewrite !sec_of_keyed.
  destruct (last_opt (flat_map (xexp_ret c ra fields) fields)); destruct (flat_map xexp_exc fields); reflexivity.
Qed.

(* finding C13-F8 as an instance of the gap predicate: a well-formed field list inside the gap whose parse differs *)
Definition f8_fields : list xfield := [XParam "param" None (s_of "a") (s_of "The a.") []; XType (s_of "a") (s_of "str") 0].
Lemma sphinx_F8_in_gap :
  wf_sphinx_full [s_of "Summary."] f8_fields = true /\ gap_F8 f8_ctx f8_fields = true /\
  render_sphinx_full [s_of "Summary."] f8_fields = f8_lines /\
  parse_sphinx f8_ctx true (render_sphinx_full [s_of "Summary."] f8_fields) <> expect_sphinx_full f8_ctx true [s_of "Summary."] f8_fields.
Proof. repeat split; try (vm_compute; reflexivity). vm_compute. discriminate. Qed.

(* non-vacuity: every field kind, a :type: before and one after its :param:, the same name as parameter and attribute
   with different types, blank lines inside and after descriptions, a deeper-indented line, continuation lines that begin
   with a colon (an inline role; text that reads like a field) *)
Definition xsample_ctx : pctx := mkCtx (Some [(s_of "a", (Some (s_of "int"), Some (s_of "1"))); (s_of "b", (None, None))]) (Some []) (RPlain (RPName (s_of "bool"))).
Definition xsample_text : list str := [s_of "Summary."; []; s_of "More: text."].
Definition xsample : list xfield :=
  [XType (s_of "path") (s_of "str") 1;
   XParam "param" None (s_of "path") (s_of "The path,") [s_of "continued."; []; s_of "    code"; []];
   XVar "ivar" (s_of "path") (s_of "As attribute.") [];
   XVartype (s_of "path") (s_of "pathlib.Path") 0;
   XParam "arg" None (s_of "b") (s_of "The b, a") [s_of ":class:`Foo` or"; s_of "    :param x: not a field."];
   XType (s_of "b") (s_of "list of int") 0;
   XParam "keyword" (Some (s_of "float")) (s_of "a") (s_of "The a.") [];
   XRaises "raises" (s_of "ValueError") (s_of "When bad.") [[]];
   XReturns "returns" (s_of "Nothing: really.") [];
   XRtype (s_of "None") 2;
   XRaises "except" (s_of "ValueError") (s_of "Again.") []].
Example xsample_wf : wf_sphinx_full xsample_text xsample = true /\ gap_F8 xsample_ctx xsample = false.
Proof. vm_compute. split; reflexivity. Qed.
Example xsample_parsed :
  parse_sphinx xsample_ctx true (render_sphinx_full xsample_text xsample) =
  [GText (s_of "Summary.

More: text.");
   GItems KParams None
     [mkItem (Some (s_of "path")) (Some (s_of "str")) (s_of "The path, continued.  code") None;
      mkItem (Some (s_of "b")) (Some (s_of "list of int")) (s_of "The b, a :class:`Foo` or :param x: not a field.") None;
      mkItem (Some (s_of "a")) (Some (s_of "float")) (s_of "The a.") (Some (s_of "1"))];
   GItems KAttrs None [mkItem (Some (s_of "path")) (Some (s_of "pathlib.Path")) (s_of "As attribute.") None];
   GItems KReturns None [mkItem (Some []) (Some (s_of "None")) (s_of "Nothing: really.") None];
   GItems KRaises None [mkItem None (Some (s_of "ValueError")) (s_of "When bad.") None;
                        mkItem None (Some (s_of "ValueError")) (s_of "Again.") None]].
Proof. vm_compute. reflexivity. Qed.
