(* C15 proofs, part 3: failures surface as ImportError / LoadingError (exact classification), never SystemExit. *)
From Coq Require Import List ZArith String Ascii Bool Arith Lia.
From Verif Require Import Lib.Sexp Model.C15_base Gen.C15_ladder Model.C15_loader Proofs.C15_loader Proofs.C15_restore.
Import ListNotations.
Open Scope string_scope. Open Scope list_scope. Open Scope nat_scope.
Arguments rewrap : simpl never.
Arguments caught_by : simpl never.
Arguments str_in : simpl never.

(* ================================================================== E. failures are ImportError / LoadingError *)

Lemma with_sys_path_fst :
  forall A paths (body : st -> (exn + A) * st) s,
    exists s0, fst (with_sys_path paths body s) = fst (body s0).
Proof.
  intros A paths body s. unfold with_sys_path.
  destruct (is_nil paths && sys_path_noop_when_empty); [exists s; reflexivity |].
  exists (rebind paths s). destruct (body (rebind paths s)) as [[x | v] s2]; reflexivity.
Qed.

Lemma dyn_attempts_err : forall w rp objs s x, fst (dyn_attempts w rp objs s) = inl x -> x = XImportError.
Proof.
  intros w rp. induction rp as [| l r IH]; intros objs s x; simpl.
  - intro H. inversion H. apply exhausted_is_importerror.
  - destruct (import_module w (rev r ++ [l]) s) as [[y |] s1]; simpl.
    + rewrite import_attempt_catches_all. apply IH.
    + discriminate.
Qed.

Lemma getattrs_err : forall w parts owner s x, fst (getattrs w owner parts s) = inl x -> x = XImportError.
Proof.
  intros w parts. induction parts as [| p r IH]; intros owner s x; simpl.
  - discriminate.
  - destruct (lookup_attr (w_attr w) owner p) as [[y |] |].
    + simpl. rewrite getattr_catches_all. intro H. inversion H. apply getattr_is_importerror.
    + apply IH.
    + destruct (mem_name owner (w_lazy w)).
      * destruct (import_module w (owner ++ [p]) s) as [[y |] s1]; simpl.
        -- rewrite getattr_catches_all. intro H. inversion H. apply getattr_is_importerror.
        -- apply IH.
      * simpl. try rewrite getattr_catches_all. intro H. inversion H. apply getattr_is_importerror.
Qed.

Lemma dynamic_import_err : forall w n paths s x, fst (dynamic_import w n paths s) = inl x -> x = XImportError.
Proof.
  intros w n paths s x. unfold dynamic_import.
  destruct (with_sys_path_fst name paths
              (fun s0 => match dyn_attempts w (rev n) [] s0 with
                         | (inl x, s1) => (inl x, s1)
                         | (inr (m, objs), s1) => getattrs w m objs s1
                         end) s) as [s0 E].
  rewrite E. clear E.
  pose proof (dyn_attempts_err w (rev n) [] s0) as D.
  destruct (dyn_attempts w (rev n) [] s0) as [[y | [m objs]] s1]; simpl in *.
  - intro H. inversion H. subst. apply D. reflexivity.
  - apply getattrs_err.
Qed.

(* the only raw exceptions of analysed code that can leave an inspection: what walking the imported object raises,
   as the handlers of _inspect_module (and of _load_module, when the module has a file) leave it *)
Definition walk_escape (w : world) (x : exn) : Prop :=
  exists v y, lookup_walk (w_walk w) v = Some y /\
              (x = rewrap inspect_module_handlers y \/ x = rewrap load_module_handlers (rewrap inspect_module_handlers y)).

(* walk faults that the handlers turn into the import family: SystemExit (mapped), ImportError and its subclasses *)
Definition walk_convertible (w : world) : Prop :=
  forall v y, lookup_walk (w_walk w) v = Some y -> import_family (rewrap inspect_module_handlers y) = true.
(* the part of the fault alphabet the property speaks about: walking the imported object may exit, nothing else *)
Definition walk_exit_only (w : world) : Prop := forall n x, lookup_walk (w_walk w) n = Some x -> x = XSystemExit.

Lemma walk_exit_only_convertible : forall w, walk_exit_only w -> walk_convertible w.
Proof. intros w H v y E. rewrite (H v y E). reflexivity. Qed.

Lemma walk_escape_converted : forall w x, walk_convertible w -> walk_escape w x -> import_family x = true.
Proof.
  intros w x Hc (v & y & E & [Hx | Hx]); subst x.
  - apply (Hc v y E).
  - apply import_family_through_load_handlers. apply (Hc v y E).
Qed.

Lemma inspect_call_err :
  forall w n file search s x, fst (inspect_call w n file search s) = Some x ->
    x = XImportError \/ exists v, lookup_walk (w_walk w) v = Some x.
Proof.
  intros w n file search s x. unfold inspect_call.
  pose proof (dynamic_import_err w n (import_paths_for n file search) s) as D.
  destruct (dynamic_import w n (import_paths_for n file search) s) as [[y | v] s1]; simpl in *.
  - intro H. inversion H. subst. left. apply D. reflexivity.
  - intro H. right. exists v. exact H.
Qed.

(* whatever the order of its statements, _inspect_module fails with ImportError (ignored module, import failure),
   UnicodeDecodeError (the source file it reads itself) or what the walk raised, as its handlers leave it *)
Lemma run_isteps_err :
  forall steps w store n file search s x,
    fst (run_isteps steps w store n file search s) = Some x ->
    x = XImportError \/ (x = XUnicodeDecode /\ file <> None) \/
    exists v y, lookup_walk (w_walk w) v = Some y /\ x = rewrap inspect_module_handlers y.
Proof.
  intros steps w store n file search. induction steps as [| st r IH]; intros s x; simpl; [discriminate |].
  destruct st.
  - destruct (ignored n); [| apply IH]. simpl. intro H. inversion H. left. apply ignored_is_importerror.
  - destruct (inspect_reads store file) eqn:R; [| apply IH].
    destruct (undecodable file); [| apply IH].
    simpl. intro H. inversion H. right. left. split; [reflexivity |].
    destruct file; [discriminate | discriminate R].
  - pose proof (inspect_call_err w n file search s) as E.
    destruct (inspect_call w n file search s) as [res s1]. simpl in E.
    destruct res as [y |]; [| apply IH].
    simpl. intro H. inversion H.
    destruct (E y eq_refl) as [Ey | [v Ev]].
    + subst y. left. apply import_error_kept.
    + right. right. exists v, y. split; [exact Ev | reflexivity].
Qed.

Lemma load_module_err :
  forall w allow force store search f s x,
    fst (load_module w allow force store search f s) = Some x ->
    x = XLoadingError \/ exists v y, lookup_walk (w_walk w) v = Some y /\ x = rewrap load_module_handlers (rewrap inspect_module_handlers y).
Proof.
  intros w a fo store search f s x. unfold load_module.
  destruct (agent_ladder false fo a (m_suffix f)) as [| | | y] eqn:L; simpl.
  - discriminate.
  - destruct (m_vfault f) as [v |]; simpl; [| discriminate]. intro H. inversion H. left. apply vfault_wrapped.
  - pose proof (run_isteps_err inspect_module_steps w store (m_name f) (Some f) search (log_ev (EvInspect (m_name f) (m_suffix f)) s)) as I.
    unfold inspect_module.
    destruct (run_isteps inspect_module_steps w store (m_name f) (Some f) search (log_ev (EvInspect (m_name f) (m_suffix f)) s)) as [r s1]. simpl in *.
    destruct r as [y |]; simpl; [| discriminate]. intro H. inversion H.
    destruct (I y eq_refl) as [Ey | [[Ey _] | (v & z & Ez & Ey)]]; subst y.
    + left. apply import_error_wrapped.
    + left. apply unicode_wrapped.
    + right. exists v, z. split; [exact Ez | reflexivity].
  - apply ladder_raises_loading_error in L. subst y. intro H. inversion H. left. apply loading_error_rewrap.
Qed.

Lemma load_subs_err :
  forall w allow force store search ns subs loaded s x,
    fst (load_subs w allow force store search ns subs loaded s) = Some x -> walk_escape w x.
Proof.
  intros w a fo store search ns subs. induction subs as [| f r IH]; intros loaded s x; simpl; [discriminate |].
  destruct (negb ns && negb (mem_name (removelast (m_name f)) loaded)); [apply IH |].
  pose proof (load_module_err w a fo store search f s) as E.
  destruct (load_module w a fo store search f s) as [res s1]. simpl in E.
  destruct res as [y |]; [| apply IH].
  destruct (caught_by load_submodule_catches y) eqn:C; [apply IH |].
  simpl. intro H. inversion H. subst y.
  destruct (E x eq_refl) as [Ex | (v & z & Ez & Ex)].
  - subst x. rewrite loading_error_is_skipped in C. discriminate.
  - exists v, z. split; [exact Ez | right; exact Ex].
Qed.

Lemma load_module_err' :
  forall w allow force store search f s x,
    fst (load_module w allow force store search f s) = Some x -> x = XLoadingError \/ walk_escape w x.
Proof.
  intros w a fo store search f s x H. destruct (load_module_err _ _ _ _ _ _ _ _ H) as [E | (v & z & Ez & Ex)]; [left; exact E |].
  right. exists v, z. split; [exact Ez | right; exact Ex].
Qed.

Lemma load_package_with_err :
  forall np w allow force store sm search top subs stubs s x,
    fst (load_package_with np w allow force store sm search top subs stubs s) = Some x ->
    x = XLoadingError \/ walk_escape w x \/ exists s0, fst (np s0) = Some x.
Proof.
  intros np w a fo store sm0 search top subs stubs s x. unfold load_package_with.
  generalize (recurse_submodules sm0). intro sm.
  pose proof (load_module_err' w a fo store search top s) as E1.
  destruct (load_module w a fo store search top s) as [r1 s1]. simpl in E1.
  destruct r1 as [y |]; simpl.
  { intro H. inversion H. subst. destruct (E1 x eq_refl) as [E | E]; auto. }
  assert (E2 : forall y, fst (if sm then load_subs w a fo store search false subs [m_name top] s1 else (None, s1)) = Some y -> walk_escape w y).
  { destruct sm; [intros y; apply load_subs_err | discriminate]. }
  destruct (if sm then load_subs w a fo store search false subs [m_name top] s1 else (None, s1)) as [r2 s2]. simpl in E2.
  destruct r2 as [y |]; simpl.
  { intro H. inversion H. subst. right. left. apply E2. reflexivity. }
  destruct stubs as [[st_top st_subs] |]; simpl; [| discriminate].
  destruct (np s2) as [rn s2'] eqn:En.
  destruct rn as [y |]; simpl.
  { intro H. inversion H. subst y. right. right. exists s2. rewrite En. reflexivity. }
  pose proof (load_module_err' w a fo store search st_top s2') as E3.
  destruct (load_module w a fo store search st_top s2') as [r3 s3]. simpl in E3.
  destruct r3 as [y |]; simpl.
  { intro H. inversion H. subst. destruct (E3 x eq_refl) as [E | E]; auto. }
  destruct sm; simpl; [| discriminate].
  intro H. right. left. eapply load_subs_err. exact H.
Qed.

Lemma inspect_module_top_err :
  forall w store req search s x,
    fst (inspect_module w store [req] None search s) = Some x -> x = XImportError \/ walk_escape w x.
Proof.
  intros w store req search s x H. unfold inspect_module in H.
  destruct (run_isteps_err _ _ _ _ _ _ _ _ H) as [E | [[_ E] | (v & y & Ey & Ex)]].
  - left. exact E.
  - exfalso. apply E. reflexivity.
  - right. exists v, y. split; [exact Ey | left; exact Ex].
Qed.

Lemma load_one_with_err :
  forall np w allow force store sm search req s x,
    fst (load_one_with np w allow force store sm search req s) = Some x ->
    import_family x = true \/ finder_escape w [req] x \/ walk_escape w x \/ exists s0, fst (np s0) = Some x.
Proof.
  intros np w a fo store sm search req s x. unfold load_one_with.
  match goal with |- context [let (r, s') := ?X in _] =>
    assert (H : fst X = Some x -> import_family x = true \/ finder_escape w [req] x \/ walk_escape w x \/ exists s0, fst (np s0) = Some x);
      [| destruct X as [r s']; simpl in *; exact H] end.
  destruct (find_pkg (w_find w) req) as [top subs stubs | n subs | via | e] eqn:F.
  - intro H. apply load_package_with_err in H. destruct H as [H | [H | H]]; [subst; left; reflexivity | auto | auto].
  - destruct (recurse_submodules sm); simpl; [| discriminate].
    intro H. right. right. left. eapply load_subs_err. exact H.
  - destruct (not_found_reraises a fo); simpl.
    + intro H. inversion H. left. reflexivity.
    + pose proof (dynamic_import_err w [req] search s) as D.
      destruct (dynamic_import w [req] search s) as [[y | v] s1]; simpl in *.
      * intro H. inversion H. subst. rewrite (D x eq_refl). left. reflexivity.
      * destruct via as [[top subs] |].
        -- intro H. apply load_package_with_err in H. destruct H as [H | [H | H]]; [subst; left; reflexivity | auto | auto].
        -- intro H. apply inspect_module_top_err in H. destruct H as [H | H]; [subst; left; reflexivity | auto].
  - simpl. intro H. inversion H. right. left. exists req, e. simpl. auto.
Qed.

(* a failing load, at any nesting depth: ImportError / ModuleNotFoundError / LoadingError, or what the finder raised for one
   of the packages asked for, or a walk fault that the handlers leave outside the import family -- nothing else *)
Lemma load_tree_err :
  forall w allow force store search t sm s x,
    fst (load_tree w allow force store sm search t s) = Some x ->
    import_family x = true \/ finder_escape w (tree_reqs t) x \/ walk_escape w x.
Proof.
  intros w a fo store search t. induction t as [req kids IH] using rtree_ind2. intros sm s x H.
  rewrite load_tree_eq in H. apply load_one_with_err in H.
  destruct H as [H | [H | [H | [s0 H]]]]; auto.
  - right. left. eapply finder_escape_mono; [| exact H]. intros q [Hq | []]. subst q. simpl. auto.
  - revert H. apply (reentries_with_res (fun x => import_family x = true \/ finder_escape w (tree_reqs (RNode req kids)) x \/ walk_escape w x)).
    rewrite Forall_forall in IH |- *. intros k Hin s1 y Ey _.
    destruct (IH k Hin true s1 y Ey) as [K | [K | K]]; auto.
    right. left. eapply finder_escape_mono; [| exact K]. intros q Hq. simpl. right. eapply Forall_flat_map_in; eauto.
Qed.

Lemma reentries_err :
  forall w allow force store search ks s x,
    fst (reentries w allow force store search ks s) = Some x ->
    finder_escape w (flat_map tree_reqs ks) x \/ walk_escape w x.
Proof.
  intros w a fo store search ks s x. unfold reentries.
  apply (reentries_with_res (fun x => finder_escape w (flat_map tree_reqs ks) x \/ walk_escape w x)).
  rewrite Forall_forall. intros k Hin s1 y Ey Cy.
  destruct (load_tree_err _ _ _ _ _ _ _ _ _ Ey) as [K | [K | K]]; auto.
  - rewrite (reentry_swallows_import_family y K) in Cy. discriminate.
  - left. eapply finder_escape_mono; [| exact K]. intros q Hq. eapply Forall_flat_map_in; eauto.
Qed.

Definition session_reqs (root : option rtree) (later : list rtree) : list string :=
  (match root with Some t => tree_reqs t | None => [] end) ++ flat_map tree_reqs later.

(* the exact classification of what can leave a session, with no assumption on the world *)
Theorem failures_classified :
  forall w allow force store submodules search root later s x,
    fst (session w allow force store submodules search root later s) = Some x ->
    import_family x = true \/ finder_escape w (session_reqs root later) x \/ walk_escape w x.
Proof.
  intros w a fo store sm search root later s x. unfold session, session_reqs.
  destruct root as [t |].
  - pose proof (load_tree_err w a fo store search t sm s) as E.
    destruct (load_tree w a fo store sm search t s) as [res s1]. simpl in E.
    destruct res as [y |]; simpl.
    + intro H. inversion H. subst y. destruct (E x eq_refl) as [K | [K | K]]; auto.
      right. left. eapply finder_escape_mono; [| exact K]. intros q Hq. apply in_or_app. auto.
    + intro H. destruct (reentries_err _ _ _ _ _ _ _ _ H) as [K | K]; auto.
      right. left. eapply finder_escape_mono; [| exact K]. intros q Hq. apply in_or_app. auto.
  - simpl. intro H. destruct (reentries_err _ _ _ _ _ _ _ _ H) as [K | K]; auto.
Qed.

Theorem failures_become_importerror :
  forall w allow force store submodules search root later s x,
    walk_convertible w ->
    fst (session w allow force store submodules search root later s) = Some x ->
    import_family x = true \/ finder_escape w (session_reqs root later) x.
Proof.
  intros w a fo store sm search root later s x Hw H.
  destruct (failures_classified _ _ _ _ _ _ _ _ _ _ H) as [K | [K | K]]; auto.
  left. eapply walk_escape_converted; eauto.
Qed.

(* sharpness: a walk fault outside the convertible ones does leave load unconverted, at top level ... *)
Example other_walk_fault_escapes :
  let top := mkMod ["p"] ["sp"; "p"] "__init__" ".py" None in
  let w := mkWorld [("p", FPkg top [] None)] [(["p"], mkBeh (Some ["sp"]) true [] None)] [] [(["p"], XRuntimeError)] in
  fst (session w true true true true [["sp"]] (Some (RNode "p" [])) [] (init_state [["orig"]])) = Some XRuntimeError /\ ~ walk_convertible w.
Proof.
  split; [vm_compute; reflexivity |]. intro H. specialize (H ["p"] XRuntimeError eq_refl). discriminate H.
Qed.

(* ... and from a submodule (it aborts the whole load: _load_submodule only skips LoadingError), while OSError raised by
   the walk is wrapped by _load_module and the submodule is skipped *)
Example walk_faults_in_submodules :
  let top := mkMod ["p"] ["sp"; "p"] "__init__" ".py" None in
  let a := mkMod ["p"; "a"] ["sp"; "p"] "a" ".pyc" None in
  let beh := [(["p"], mkBeh (Some ["sp"]) true [] None); (["p"; "a"], mkBeh None true [] None)] in
  let run y := fst (session (mkWorld [("p", FPkg top [a] None)] beh [] [(["p"; "a"], y)]) true false true true [["sp"]]
                            (Some (RNode "p" [])) [] (init_state [["orig"]])) in
  run XPanic = Some XPanic /\ run XKeyboardInterrupt = Some XKeyboardInterrupt /\ run XOSError = None /\ run XSystemExit = None.
Proof. vm_compute. repeat split. Qed.

(* ================================================================== F. SystemExit never leaves load *)

(* whatever the walk raises, whatever the order of the statements of _inspect_module *)
Lemma run_isteps_no_exit :
  forall steps w store n file search s, fst (run_isteps steps w store n file search s) <> Some XSystemExit.
Proof.
  intros steps w store n file search. induction steps as [| st r IH]; intros s; simpl; [discriminate |].
  destruct st.
  - destruct (ignored n); [| apply IH]. simpl. rewrite ignored_is_importerror. discriminate.
  - destruct (inspect_reads store file); [| apply IH]. destruct (undecodable file); [simpl; discriminate | apply IH].
  - destruct (inspect_call w n file search s) as [res s1].
    destruct res as [y |]; [| apply IH]. simpl. intro H. inversion H as [H']. revert H'. apply inspect_rewrap_no_exit.
Qed.

Lemma inspect_module_no_exit :
  forall w store n file search s, fst (inspect_module w store n file search s) <> Some XSystemExit.
Proof. intros. unfold inspect_module. apply run_isteps_no_exit. Qed.

Lemma load_module_no_exit :
  forall w allow force store search f s, fst (load_module w allow force store search f s) <> Some XSystemExit.
Proof.
  intros w a fo store search f s. unfold load_module.
  destruct (agent_ladder false fo a (m_suffix f)) as [| | | y] eqn:L; simpl.
  - discriminate.
  - destruct (m_vfault f) as [v |]; simpl; [| discriminate]. rewrite vfault_wrapped. discriminate.
  - pose proof (inspect_module_no_exit w store (m_name f) (Some f) search (log_ev (EvInspect (m_name f) (m_suffix f)) s)) as I.
    destruct (inspect_module w store (m_name f) (Some f) search (log_ev (EvInspect (m_name f) (m_suffix f)) s)) as [r s1]. simpl in *.
    destruct r as [y |]; simpl; [| discriminate]. intro H. inversion H as [H'].
    revert H'. apply load_rewrap_no_exit. intro E. subst y. apply I. reflexivity.
  - apply ladder_raises_loading_error in L. subst y. rewrite loading_error_rewrap. discriminate.
Qed.

Lemma load_subs_no_exit :
  forall w allow force store search ns subs loaded s, fst (load_subs w allow force store search ns subs loaded s) <> Some XSystemExit.
Proof.
  intros w a fo store search ns subs. induction subs as [| f r IH]; intros loaded s; simpl; [discriminate |].
  destruct (negb ns && negb (mem_name (removelast (m_name f)) loaded)); [apply IH |].
  pose proof (load_module_no_exit w a fo store search f s) as E.
  destruct (load_module w a fo store search f s) as [res s1]. simpl in E.
  destruct res as [x |]; [| apply IH].
  destruct (caught_by load_submodule_catches x); [apply IH | exact E].
Qed.

Lemma load_package_with_no_exit :
  forall np w allow force store sm search top subs stubs s,
    (forall s0, fst (np s0) <> Some XSystemExit) ->
    fst (load_package_with np w allow force store sm search top subs stubs s) <> Some XSystemExit.
Proof.
  intros np w a fo store sm0 search top subs stubs s Hnp. unfold load_package_with.
  generalize (recurse_submodules sm0). intro sm.
  pose proof (load_module_no_exit w a fo store search top s) as E1.
  destruct (load_module w a fo store search top s) as [r1 s1]. simpl in E1.
  destruct r1 as [y |]; [exact E1 |].
  assert (E2 : fst (if sm then load_subs w a fo store search false subs [m_name top] s1 else (None, s1)) <> Some XSystemExit).
  { destruct sm; [apply load_subs_no_exit | discriminate]. }
  destruct (if sm then load_subs w a fo store search false subs [m_name top] s1 else (None, s1)) as [r2 s2]. simpl in E2.
  destruct r2 as [y |]; [exact E2 |].
  destruct stubs as [[st_top st_subs] |]; [| discriminate].
  pose proof (Hnp s2) as En.
  destruct (np s2) as [rn s2']. simpl in En.
  destruct rn as [y |]; [exact En |].
  pose proof (load_module_no_exit w a fo store search st_top s2') as E3.
  destruct (load_module w a fo store search st_top s2') as [r3 s3]. simpl in E3.
  destruct r3 as [y |]; [exact E3 |].
  destruct sm; [apply load_subs_no_exit | discriminate].
Qed.

Lemma load_one_with_no_exit :
  forall np w allow force store sm search req s,
    (forall s0, fst (np s0) <> Some XSystemExit) ->
    fst (load_one_with np w allow force store sm search req s) <> Some XSystemExit.
Proof.
  intros np w a fo store sm search req s Hnp. unfold load_one_with.
  match goal with |- context [let (r, s') := ?X in _] =>
    assert (H : fst X <> Some XSystemExit); [| destruct X as [r s']; simpl in *; exact H] end.
  destruct (find_pkg (w_find w) req) as [top subs stubs | n subs | via | e].
  - apply load_package_with_no_exit; exact Hnp.
  - destruct (recurse_submodules sm); [apply load_subs_no_exit | discriminate].
  - destruct (not_found_reraises a fo); [discriminate |].
    pose proof (dynamic_import_err w [req] search s) as D.
    destruct (dynamic_import w [req] search s) as [[y | v] s1]; simpl in *.
    + rewrite (D y eq_refl). discriminate.
    + destruct via as [[top subs] |]; [apply load_package_with_no_exit; exact Hnp | apply inspect_module_no_exit].
  - destruct e; discriminate.
Qed.

Lemma reentries_with_no_exit :
  forall (load : rtree -> st -> option exn * st) ks,
    Forall (fun k => forall s, fst (load k s) <> Some XSystemExit) ks ->
    forall s, fst (reentries_with load ks s) <> Some XSystemExit.
Proof.
  intros load ks H. induction H as [| k r Hk Hr IH]; intros s; simpl; [discriminate |].
  pose proof (Hk s) as E.
  destruct (load k s) as [res s1]. simpl in E.
  destruct res as [x |]; [| apply IH].
  destruct (caught_by reentry_catches x); [apply IH | exact E].
Qed.

Lemma load_tree_no_exit :
  forall w allow force store search t sm s, fst (load_tree w allow force store sm search t s) <> Some XSystemExit.
Proof.
  intros w a fo store search t. induction t as [req kids IH] using rtree_ind2. intros sm s.
  rewrite load_tree_eq. apply load_one_with_no_exit.
  apply reentries_with_no_exit. eapply Forall_impl; [| exact IH]. intros k Hk s1. apply Hk.
Qed.

Lemma reentries_no_exit :
  forall w allow force store search ks s, fst (reentries w allow force store search ks s) <> Some XSystemExit.
Proof.
  intros. unfold reentries. apply reentries_with_no_exit. rewrite Forall_forall. intros k _ s1. apply load_tree_no_exit.
Qed.

Theorem system_exit_never_escapes :
  forall w allow force store submodules search root later s,
    fst (session w allow force store submodules search root later s) <> Some XSystemExit.
Proof.
  intros w a fo store sm search root later s. unfold session.
  destruct root as [t |]; [| apply reentries_no_exit].
  pose proof (load_tree_no_exit w a fo store search t sm s) as E.
  destruct (load_tree w a fo store sm search t s) as [res s1]. simpl in E.
  destruct res as [x |]; [exact E | apply reentries_no_exit].
Qed.

Theorem system_exit_never_escapes_history :
  forall w allow force store search catch steps s, fst (run_history w allow force store search catch steps s) <> Some XSystemExit.
Proof.
  intros w a fo store search catch steps. induction steps as [| h r IH]; intros s; simpl; [discriminate |].
  pose proof (system_exit_never_escapes w a fo store (hs_submodules h) search (hs_root h) (hs_later h) s) as E.
  destruct (session w a fo store (hs_submodules h) search (hs_root h) (hs_later h) s) as [res s1]. simpl in E.
  destruct res as [x |]; [| apply IH].
  destruct (caught_by catch x); [apply IH | exact E].
Qed.

(* ... nor any public entry point *)
Theorem system_exit_never_escapes_entry :
  forall allow force store phs s, fst (run_phases allow force store phs s) <> Some XSystemExit.
Proof.
  intros a fo store phs. induction phs as [| ph r IH]; intros s; simpl; [discriminate |].
  pose proof (system_exit_never_escapes (ph_world ph) (entry_allow (ph_entry ph) a) (entry_force (ph_entry ph) fo) (entry_store (ph_entry ph) store)
                (entry_submodules (ph_entry ph) (ph_submodules ph)) (phase_search ph s) (ph_root ph) (ph_later ph) s) as E.
  destruct (session (ph_world ph) (entry_allow (ph_entry ph) a) (entry_force (ph_entry ph) fo) (entry_store (ph_entry ph) store)
              (entry_submodules (ph_entry ph) (ph_submodules ph)) (phase_search ph s) (ph_root ph) (ph_later ph) s) as [res s1]. simpl in E.
  destruct res as [x |]; [| apply IH].
  destruct (caught_by (entry_catches (ph_entry ph)) x); [apply IH | exact E].
Qed.

(* non-vacuity: SystemExit at import and SystemExit in the walk both come out as LoadingError at top level *)
Example exit_at_top_is_loading_error :
  let top := mkMod ["p"] ["sp"; "p"] "__init__" ".py" None in
  let w := mkWorld [("p", FPkg top [] None)] [(["p"], mkBeh (Some ["sp"]) true [] (Some XSystemExit))] [] [] in
  fst (session w true true true true [["sp"]] (Some (RNode "p" [])) [] (init_state [["orig"]])) = Some XLoadingError.
Proof. vm_compute. reflexivity. Qed.

Example exit_in_walk_is_loading_error :
  let top := mkMod ["p"] ["sp"; "p"] "__init__" ".py" None in
  let w := mkWorld [("p", FPkg top [] None)] [(["p"], mkBeh (Some ["sp"]) true [] None)] [] [(["p"], XSystemExit)] in
  fst (session w true true true true [["sp"]] (Some (RNode "p" [])) [] (init_state [["orig"]])) = Some XLoadingError.
Proof. vm_compute. reflexivity. Qed.

(* non-vacuity of the nesting: alias resolution re-enters load for `q`; `q` has stubs, so its own _load_package expands
   wildcards and re-enters load for the private sibling `_q` (two levels below the session); a compiled submodule of
   `_q` is imported because inspection is allowed, mutates the temporary sys.path and dies of KeyboardInterrupt --
   swallowed by dynamic_import, skipped as LoadingError; everything is restored *)
Example nested_reentry_exercised :
  let top := mkMod ["p"] ["sp"; "p"] "__init__" ".py" None in
  let qtop := mkMod ["q"] ["sp"; "q"] "__init__" ".py" None in
  let qstub := mkMod ["q"] ["sp"; "q"] "__init__" ".pyi" None in
  let sib := mkMod ["_q"] ["sp"; "_q"] "__init__" ".py" None in
  let sibc := mkMod ["_q"; "c"] ["sp"; "_q"] "c" ".pyc" None in
  let w := mkWorld [("p", FPkg top [] None); ("q", FPkg qtop [] (Some (qstub, []))); ("_q", FPkg sib [sibc] None)]
                   [(["_q"], mkBeh (Some ["sp"]) true [EClear] None); (["_q"; "c"], mkBeh None true [EIns0 ["x"]] (Some XKeyboardInterrupt))] [] [] in
  let '(r, s') := session w true false true true [["sp"]] (Some (RNode "p" [])) [RNode "q" [RNode "_q" []]] (init_state [["orig"]]) in
  r = None /\ cur s' = 0 /\ heap s' 0 = [["orig"]] /\ mods s' = [["_q"]] /\
  map (fun e => match e with EvVisit n sfx => (n, sfx) | _ => ([], "") end) (filter (fun e => match e with EvVisit _ _ => true | _ => false end) (rev (log s')))
    = [(["p"], ".py"); (["q"], ".py"); (["_q"], ".py"); (["q"], ".pyi")].
Proof. vm_compute. repeat split. Qed.

(* non-vacuity of the entry points: `griffe dump a b` goes on after ModuleNotFoundError for `a` (static, not found) *)
Example dump_continues_after_missing_package :
  let top := mkMod ["b"] ["sp"; "b"] "__init__" ".py" None in
  let w := mkWorld [("b", FPkg top [] None)] [] [] [] in
  let ph req := mkPhase EDump w [["sp"]] [] true (Some (RNode req [])) [] in
  let '(r, s') := run_phases false false true [ph "a"; ph "b"] (init_state [["orig"]]) in
  r = None /\ map (fun e => match e with EvDone q x => (q, x) | _ => ("", None) end) (filter (fun e => match e with EvDone _ _ => true | _ => false end) (rev (log s')))
              = [("a", Some XModuleNotFound); ("b", None)].
Proof. vm_compute. repeat split. Qed.
