(* C09 -- the encoder model's output lies in the shape grammar; the grammar without the known gaps is included in the
   published schema (checked by computation on the regenerated schema); hence every full dump of a loadable tree without
   a known gap validates.  Refutations for the five known gaps. *)
From Coq Require Import List ZArith String Ascii Bool Arith Lia.
From Verif Require Import Lib.Sexp Model.C09_json Gen.C09_schema Model.C09_enc Proofs.C09_schema.
Import ListNotations.
Open Scope string_scope.
Open Scope list_scope.
Open Scope nat_scope.

(* ---------- membership without heights ---------- *)

Section Intro.
  Variable G : grammar.
  Definition M (sh : shape) (j : json) : Prop := exists h, mem G h sh j = true.

  Lemma M_common : forall A (f : A -> shape) (v : A -> json) l,
    Forall (fun x => M (f x) (v x)) l -> exists h, Forall (fun x => mem G h (f x) (v x) = true) l.
  Proof.
    induction 1 as [|x l [h1 H1] _ [h2 H2]]; [exists 0; constructor|].
    exists (Nat.max h1 h2). constructor.
    - eapply mem_mono; [|exact H1]. lia.
    - eapply Forall_impl; [|exact H2]. intros a Ha. eapply mem_mono; [|exact Ha]. lia.
  Qed.

  Lemma M_null : M ShNull JNull. Proof. now exists 1. Qed.
  Lemma M_int : forall z, M ShInt (JInt z). Proof. now exists 1. Qed.
  Lemma M_str : forall s, M ShStr (JStr s). Proof. now exists 1. Qed.
  Lemma M_any : forall j, M ShAny j. Proof. intros j. exists 1. now destruct j. Qed.
  Lemma M_lit : forall s, M (ShLit s) (JStr s). Proof. intros s. exists 1. simpl. apply String.eqb_refl. Qed.

  Lemma M_arr : forall e l, Forall (M e) l -> M (ShArr e) (JArr l).
  Proof.
    intros e l H. destruct (M_common json (fun _ => e) (fun x => x) l H) as [h Hh].
    exists (S h). simpl. apply forallb_forall. rewrite Forall_forall in Hh. auto.
  Qed.

  Lemma M_map : forall v kvs, Forall (fun kv => M v (snd kv)) kvs -> M (ShMap v) (JObj kvs).
  Proof.
    intros v kvs H. destruct (M_common (string * json) (fun _ => v) (fun kv => snd kv) kvs H) as [h Hh].
    exists (S h). simpl. apply forallb_forall. rewrite Forall_forall in Hh. auto.
  Qed.

  Definition entry_ok (fs : list (string * (bool * shape))) (kv : string * json) : Prop :=
    exists m fsh, lookup (fst kv) fs = Some (m, fsh) /\ M fsh (snd kv).

  Lemma M_obj : forall fs kvs, Forall (entry_ok fs) kvs ->
    forallb (fun f => negb (fst (snd f)) || key_in (fst f) kvs) fs = true -> M (ShObj fs) (JObj kvs).
  Proof.
    intros fs kvs H Hm.
    assert (X : exists h, Forall (fun kv => match lookup (fst kv) fs with Some (_, fsh) => mem G h fsh (snd kv) | None => false end = true) kvs).
    { clear Hm. induction H as [|kv l [m [fsh [L [h1 H1]]]] _ [h2 H2]]; [exists 0; constructor|].
      exists (Nat.max h1 h2). constructor.
      - rewrite L. eapply mem_mono; [|exact H1]. lia.
      - eapply Forall_impl; [|exact H2]. intros a Ha. cbv beta in *.
        destruct (lookup (fst a) fs) as [[m' fsh']|]; [|discriminate]. eapply mem_mono; [|exact Ha]. lia. }
    destruct X as [h Hh]. exists (S h). simpl. apply andb_true_iff. split; [|assumption].
    apply forallb_forall. rewrite Forall_forall in Hh. auto.
  Qed.

  Lemma M_union : forall l a j, In a l -> M a j -> M (ShUnion l) j.
  Proof.
    intros l a j Hin [h H]. exists (S h).
    assert (E : existsb (fun a => mem G h a j) l = true) by (apply existsb_exists; eauto).
    destruct j; exact E.
  Qed.

  Lemma M_ref : forall nt sh j, lookup nt G = Some sh -> M sh j -> M (ShRef nt) j.
  Proof.
    intros nt sh j L [h H]. exists (S h).
    assert (E : match lookup nt G with Some sh' => mem G h sh' j | None => false end = true) by now rewrite L.
    destruct j; exact E.
  Qed.

  Lemma entry_optfield : forall fs k o, match o with Some v => entry_ok fs (k, v) | None => True end ->
    Forall (entry_ok fs) (optfield k o).
  Proof. intros fs k [v|] H; simpl; constructor; auto. Qed.
End Intro.

Ltac entry := eexists; eexists; split; [reflexivity|].

(* ---------- leaves of the grammar ---------- *)

Section Leaves.
  Variable G : grammar.

  Lemma M_annotation : forall a, M G sh_annotation (enc_aval a).
  Proof.
    intros [|s|f]; simpl.
    - eapply M_union; [left; reflexivity|apply M_null].
    - eapply M_union; [right; left; reflexivity|apply M_str].
    - eapply M_union; [right; right; left; reflexivity|].
      apply M_map. apply Forall_forall. intros kv _. apply M_any.
  Qed.

  Lemma M_optint : forall o, M G sh_opt_int (enc_optz o).
  Proof.
    intros [z|]; simpl.
    - eapply M_union; [left; reflexivity|apply M_int].
    - eapply M_union; [right; left; reflexivity|apply M_null].
  Qed.

  Lemma M_lits : forall s l, In s l -> M G (sh_lits l) (JStr s).
  Proof. intros s l H. eapply M_union; [apply in_map; exact H|apply M_lit]. Qed.

  Lemma M_deco : forall d, deco_ok d = true -> M G sh_decorator (enc_deco d).
  Proof.
    intros [v [z|] e] H; [|discriminate]. unfold enc_deco, sh_decorator. simpl.
    apply M_obj; [|reflexivity]. repeat constructor.
    - entry. apply M_annotation.
    - entry. apply M_int.
    - entry. apply M_optint.
  Qed.

  Definition section_nogap (s : section) : Prop :=
    str_in (sec_kind s) gap_section_kinds = false /\ (forall f, sec_value s <> SVElem f).

  Lemma M_section : forall g s, section_ok s = true -> (g = false -> section_nogap s) -> M G (sh_section g) (enc_section s).
  Proof.
    intros g [k v t] Hok Hg. unfold section_ok in Hok. cbn [sec_kind] in Hok. apply str_in_In in Hok.
    unfold enc_section, sh_section. cbn [sec_kind sec_value sec_title].
    apply M_obj.
    - constructor; [|constructor].
      + entry. apply M_lits. unfold section_kinds. destruct g; [assumption|].
        apply filter_In. split; [assumption|]. destruct (Hg eq_refl) as [H _]. cbn [sec_kind] in H. now rewrite H.
      + entry. destruct v as [s|l|f]; simpl.
        * eapply M_union; [left; reflexivity|apply M_str].
        * eapply M_union; [right; left; reflexivity|]. apply M_arr. apply Forall_forall. intros x _. apply M_any.
        * destruct g; [|destruct (Hg eq_refl) as [_ H]; exfalso; eapply H; reflexivity].
          eapply M_union; [right; right; left; reflexivity|]. apply M_map. apply Forall_forall. intros x _. apply M_any.
      + apply entry_optfield. destruct (truthy_title t) as [j|] eqn:T; [|exact I].
        destruct t as [[|c r]|]; simpl in T; try discriminate; inversion T; subst; entry; apply M_str.
    - destruct t as [[|c r]|]; reflexivity.
  Qed.

  Definition doc_nogap (d : docstring) : Prop :=
    ds_lineno d <> None /\ Forall section_nogap (ds_parsed d).

  Lemma M_docstring : forall g d, doc_ok d = true -> (g = false -> doc_nogap d) -> M G (sh_docstring g) (enc_docstring d).
  Proof.
    intros g [v l e secs] Hok Hg. unfold doc_ok in Hok. simpl in *.
    unfold enc_docstring, sh_docstring. simpl.
    apply M_obj; [|reflexivity]. repeat constructor.
    - entry. apply M_str.
    - entry. destruct g; [apply M_optint|]. destruct (Hg eq_refl) as [H _]. simpl in H.
      destruct l as [z|]; [apply M_int|congruence].
    - entry. apply M_optint.
    - entry. apply M_arr. apply Forall_map. apply Forall_forall. intros s Hin.
      apply M_section.
      + rewrite forallb_forall in Hok. auto.
      + intros ->. destruct (Hg eq_refl) as [_ H]. simpl in H. rewrite Forall_forall in H. auto.
  Qed.

  Lemma M_param : forall p, param_ok p = true -> M G sh_parameter (enc_param p).
  Proof.
    intros [n a k d doc] H. unfold param_ok in H. cbn [p_kind p_doc] in H. apply andb_true_iff in H. destruct H as [Hk Hd].
    destruct k as [k|]; [|discriminate]. apply str_in_In in Hk.
    unfold enc_param, sh_parameter. cbn [p_name p_annotation p_kind p_default p_doc enc_optstr].
    apply M_obj.
    - repeat (apply Forall_cons).
      + entry. apply M_str.
      + entry. apply M_annotation.
      + entry. now apply M_lits.
      + entry. apply M_annotation.
      + apply entry_optfield. destruct doc as [doc|]; simpl; [|exact I].
        entry. apply M_docstring; [assumption|discriminate].
    - destruct doc; reflexivity.
  Qed.

  Lemma M_list : forall A sh (enc : A -> json) (ok : A -> bool) l,
    (forall x, ok x = true -> M G sh (enc x)) -> forallb ok l = true -> M G (ShArr sh) (JArr (map enc l)).
  Proof.
    intros A sh enc ok l H Hok. apply M_arr. apply Forall_map. apply Forall_forall. intros x Hin.
    apply H. rewrite forallb_forall in Hok. auto.
  Qed.
End Leaves.

(* ---------- induction principle for the nested tree type ---------- *)

Section ObjInd.
  Variable P : obj -> Prop.
  Hypothesis Ha : forall name target path lineno endlineno, P (OAlias name target path lineno endlineno).
  Hypothesis Ho : forall spec name path fp relf relpf lineno endlineno doc labels members,
    Forall (fun nm => P (snd nm)) members -> P (OObj spec name path fp relf relpf lineno endlineno doc labels members).

  Fixpoint obj_ind' (t : obj) : P t :=
    match t with
    | OAlias name target path lineno endlineno => Ha name target path lineno endlineno
    | OObj spec name path fp relf relpf lineno endlineno doc labels members =>
        Ho spec name path fp relf relpf lineno endlineno doc labels members
           ((fix go (l : list (string * obj)) : Forall (fun nm => P (snd nm)) l :=
               match l with
               | [] => Forall_nil _
               | x :: r => Forall_cons x (obj_ind' (snd x)) (go r)
               end) members)
    end.
End ObjInd.

(* ---------- the encoder's output is in the grammar ---------- *)

Lemma G_enc_root : forall g, lookup root_nt (G_enc g) =
  Some (ShUnion [sh_alias g; sh_object g "module"; sh_object g "class"; sh_object g "function"; sh_object g "attribute"]).
Proof. reflexivity. Qed.

Lemma local_gap_false : forall t, local_gap t = false ->
  gapF1 t = false /\ gapF2 t = false /\ gapF3 t = false /\ gapF4 t = false /\ gapF5 t = false.
Proof.
  unfold local_gap. intros t H.
  repeat (apply orb_false_iff in H; let K := fresh "K" in destruct H as [H K]). auto.
Qed.

Lemma doc_nogap_of_flags : forall d,
  match ds_lineno d with None => true | Some _ => false end = false ->
  existsb (fun s => str_in (sec_kind s) gap_section_kinds) (ds_parsed d) = false ->
  existsb (fun s => match sec_value s with SVElem _ => true | _ => false end) (ds_parsed d) = false ->
  doc_nogap d.
Proof.
  intros d H3 H4 H5. split.
  - destruct (ds_lineno d); [discriminate|discriminate].
  - apply Forall_forall. intros s Hin. split.
    + apply not_true_is_false. intros F.
      assert (E : existsb (fun s => str_in (sec_kind s) gap_section_kinds) (ds_parsed d) = true) by (apply existsb_exists; eauto).
      congruence.
    + intros f Ef.
      assert (E : existsb (fun s => match sec_value s with SVElem _ => true | _ => false end) (ds_parsed d) = true).
      { apply existsb_exists. exists s. split; [assumption|]. now rewrite Ef. }
      congruence.
Qed.

Theorem enc_in_grammar : forall g t, loadable t = true -> (g = false -> known_gap t = false) ->
  generated_by (G_enc g) root_nt (enc_full t).
Proof.
  intros g t. unfold generated_by. change (loadable t = true -> (g = false -> known_gap t = false) -> M (G_enc g) (ShRef root_nt) (enc_full t)).
  induction t as [name target path lineno endlineno|spec name path fp relf relpf lineno endlineno doc labels members IH] using obj_ind';
    intros Hl Hg.
  - (* alias *)
    eapply M_ref; [apply G_enc_root|]. eapply M_union; [left; reflexivity|].
    unfold sh_alias. cbn [enc_full].
    assert (Hlin : g = false -> exists z, truthy_z lineno = Some (JInt z)).
    { intros E. specialize (Hg E). simpl in Hg. apply local_gap_false in Hg. destruct Hg as [_ [H2 _]].
      unfold gapF2 in H2. destruct lineno as [[|p|p]|]; simpl in *; try discriminate; eauto. }
    apply M_obj.
    + repeat (apply Forall_app; split); [repeat constructor| |].
      * entry. apply M_lit.
      * entry. apply M_str.
      * entry. apply M_str.
      * entry. apply M_str.
      * apply entry_optfield. destruct lineno as [[|p|p]|]; simpl; try exact I; entry; apply M_int.
      * apply entry_optfield. destruct endlineno as [[|p|p]|]; simpl; try exact I; entry; apply M_int.
    + destruct g.
      * destruct lineno as [[|p|p]|], endlineno as [[|q|q]|]; reflexivity.
      * destruct (Hlin eq_refl) as [z Hz].
        destruct lineno as [[|p|p]|]; simpl in Hz; try discriminate; destruct endlineno as [[|q|q]|]; reflexivity.
  - (* object *)
    cbn [loadable] in Hl. repeat (apply andb_true_iff in Hl; let K := fresh "K" in destruct Hl as [Hl K]).
    rename Hl into Hspec, K1 into Hfp, K0 into Hdoc, K into Hmem.
    assert (Hloc : g = false -> local_gap (OObj spec name path fp relf relpf lineno endlineno doc labels members) = false
                               /\ forallb (fun nm => negb (known_gap (snd nm))) members = true).
    { intros E. specialize (Hg E). cbn [known_gap] in Hg. apply orb_false_iff in Hg. destruct Hg as [A B]. split; [assumption|].
      apply forallb_forall. intros nm Hin. apply negb_true_iff. apply not_true_is_false. intros F.
      assert (X : existsb (fun nm => known_gap (snd nm)) members = true) by (apply existsb_exists; eauto). congruence. }
    eapply M_ref; [apply G_enc_root|].
    apply M_union with (a := sh_object g (kind_name spec)); [destruct spec; simpl; tauto|].
    unfold sh_object. cbn [enc_full].
    apply M_obj.
    + repeat (apply Forall_app; split).
      * (* fixed head *)
        repeat (apply Forall_cons); try apply Forall_nil.
        -- entry. apply M_lit.
        -- entry. apply M_str.
        -- entry. apply M_str.
        -- entry. destruct fp as [s|l|]; [| |discriminate]; simpl.
           ++ destruct g; [eapply M_union; [left; reflexivity|]|]; apply M_str.
           ++ destruct g.
              ** eapply M_union; [right; left; reflexivity|]. apply M_arr. apply Forall_map. apply Forall_forall. intros x _. apply M_str.
              ** destruct (Hloc eq_refl) as [A _]. apply local_gap_false in A. destruct A as [A _]. discriminate.
        -- entry. apply M_str.
        -- entry. apply M_str.
      * apply entry_optfield. destruct lineno; simpl; [entry; apply M_int|exact I].
      * apply entry_optfield. destruct endlineno; simpl; [entry; apply M_int|exact I].
      * apply entry_optfield. destruct doc as [d|]; simpl; [|exact I]. entry.
        apply M_docstring; [assumption|]. intros E. destruct (Hloc E) as [A _]. apply local_gap_false in A.
        destruct A as [_ [_ [A3 [A4 A5]]]]. unfold gapF3, gapF4, gapF5 in *. simpl in *.
        now apply doc_nogap_of_flags.
      * (* labels, members *)
        repeat (apply Forall_cons); try apply Forall_nil.
        -- entry. apply M_arr. apply Forall_map. apply Forall_forall. intros x _. apply M_str.
        -- entry. apply M_map. apply Forall_map. simpl. rewrite Forall_forall in IH |- *. intros nm Hin.
           apply IH; [assumption| |].
           ++ rewrite forallb_forall in Hmem. auto.
           ++ intros E. destruct (Hloc E) as [_ B]. rewrite forallb_forall in B. specialize (B _ Hin).
              now apply negb_true_iff in B.
      * (* kind-specific part *)
        destruct spec as [|bases decos|decos params returns|value annotation]; simpl in Hspec |- *.
        -- constructor.
        -- repeat (apply Forall_cons); try apply Forall_nil.
           ++ entry. apply M_arr. apply Forall_map. apply Forall_forall. intros x _. apply M_annotation.
           ++ entry. eapply M_list; [apply M_deco|assumption].
        -- apply andb_true_iff in Hspec. destruct Hspec as [Hd Hp].
           repeat (apply Forall_cons); try apply Forall_nil.
           ++ entry. eapply M_list; [apply M_deco|assumption].
           ++ entry. eapply M_list; [apply M_param|assumption].
           ++ entry. apply M_annotation.
        -- apply Forall_app; split; apply entry_optfield.
           ++ destruct value; simpl; try exact I; entry; apply (M_annotation _ (AStr s)) || apply (M_annotation _ (AExpr fields)).
           ++ destruct annotation; simpl; try exact I; entry; apply (M_annotation _ (AStr s)) || apply (M_annotation _ (AExpr fields)).
    + destruct spec as [|bases decos|decos params returns|value annotation], lineno, endlineno, doc;
        try reflexivity; destruct value, annotation; reflexivity.
Qed.

(* ---------- inclusion of the gap-free grammar in the regenerated schema, and the main theorem ---------- *)

Lemma grammar_in_schema_modulo_known : grammar_in_schema false = true.
Proof. vm_compute. reflexivity. Qed.

(* with the gaps left in, the checker does not accept (not a theorem about documents, see the refutations below) *)
Lemma grammar_in_schema_full_rejected : grammar_in_schema true = false.
Proof. vm_compute. reflexivity. Qed.

(* the kind literals used by the grammar are exactly enumerations.Kind *)
Lemma object_kinds_tie : enc_object_kinds = ["module"; "class"; "function"; "attribute"; "alias"].
Proof. reflexivity. Qed.

Theorem grammar_docs_validate : forall j, generated_by (G_enc false) root_nt j -> exists fuel, validates_doc fuel j = Some true.
Proof.
  intros j H. pose proof grammar_in_schema_modulo_known as T. unfold grammar_in_schema in T.
  destruct (lookup root_nt (G_enc false)) as [sh|] eqn:L; [|discriminate].
  exact (incl_sound (G_enc false) schema_root schema_defs root_nt sh incl_fuel L T j H).
Qed.

Theorem full_dump_validates_modulo_known : forall t, loadable t = true -> known_gap t = false ->
  exists fuel, validates_doc fuel (enc_full t) = Some true.
Proof.
  intros t Hl Hg. apply grammar_docs_validate. apply enc_in_grammar; [assumption|]. intros _. assumption.
Qed.

(* a verdict reached with some fuel is the verdict for every fuel that reaches one *)
Lemma verdict_unique : forall k j b, validates_doc k j = Some b -> forall fuel, validates_doc fuel j <> Some (negb b).
Proof.
  intros k j b H fuel F. unfold validates_doc in *.
  pose proof (validates_mono schema_root schema_defs k (Nat.max k fuel) schema_root j b (Nat.le_max_l _ _) H) as A.
  pose proof (validates_mono schema_root schema_defs fuel (Nat.max k fuel) schema_root j (negb b) (Nat.le_max_r _ _) F) as B.
  rewrite A in B. destruct b; discriminate.
Qed.

(* ---------- the five known gaps refute the unrestricted statement ---------- *)

Definition mod_with (fp : fpath) (doc : option docstring) (members : list (string * obj)) : obj :=
  OObj KModule "m" "m" fp "m.py" "m.py" None None doc [] members.

Definition witness_F1 : obj := mod_with (FPList ["/p/m"]) None [].
Definition witness_F2 : obj := mod_with (FPOne "/p/m.py") None [("a", OAlias "a" "os.a" "m.a" None None)].
Definition witness_F3 : obj := mod_with (FPOne "/p/m.py") (Some (mkDoc "d" None None [mkSection "text" (SVText "d") None])) [].
Definition witness_F4 : obj := mod_with (FPOne "/p/m.py") (Some (mkDoc "d" (Some 1%Z) (Some 1%Z) [mkSection "functions" (SVItems []) None])) [].
Definition witness_F5 : obj :=
  mod_with (FPOne "/p/m.py")
           (Some (mkDoc "d" (Some 1%Z) (Some 1%Z)
                        [mkSection "admonition" (SVElem [("annotation", JStr "note"); ("description", JStr "x")]) (Some "Note")])) [].

Definition refutes (t : obj) (flags : list bool) : Prop :=
  loadable t = true /\ local_gaps t = flags /\ validates_doc 64 (enc_full t) = Some false
  /\ forall fuel, validates_doc fuel (enc_full t) <> Some true.

Ltac refute := split; [vm_compute; reflexivity|split; [vm_compute; reflexivity|split; [vm_compute; reflexivity|]]];
               apply (verdict_unique 64 _ false); vm_compute; reflexivity.

Lemma refuted_F1 : refutes witness_F1 [true; false; false; false; false]. Proof. refute. Qed.
Lemma refuted_F3 : refutes witness_F3 [false; false; true; false; false]. Proof. refute. Qed.
Lemma refuted_F4 : refutes witness_F4 [false; false; false; true; false]. Proof. refute. Qed.
Lemma refuted_F5 : refutes witness_F5 [false; false; false; false; true]. Proof. refute. Qed.

(* F2 sits on a member: the module itself has no local gap, its alias member has *)
Lemma refuted_F2 : loadable witness_F2 = true
  /\ map (fun nm => local_gaps (snd nm)) (node_members witness_F2) = [[false; true; false; false; false]]
  /\ validates_doc 64 (enc_full witness_F2) = Some false
  /\ forall fuel, validates_doc fuel (enc_full witness_F2) <> Some true.
Proof. refute. Qed.

Theorem full_dump_validates_refuted : exists t, loadable t = true /\ forall fuel, validates_doc fuel (enc_full t) <> Some true.
Proof. exists witness_F1. destruct refuted_F1 as [A [_ [_ B]]]. auto. Qed.

(* ---------- non-vacuity: a tree with every kind of node and no gap ---------- *)

Definition sample_doc : docstring :=
  mkDoc "Summary." (Some 2%Z) (Some 4%Z)
        [mkSection "text" (SVText "Summary.") None;
         mkSection "parameters" (SVItems [JObj [("name", JStr "a"); ("annotation", JNull); ("description", JStr "A.")]]) (Some "Parameters:")].

Definition sample_tree : obj :=
  OObj KModule "pkg" "pkg" (FPOne "/p/pkg/__init__.py") "pkg/__init__.py" "pkg/__init__.py" None None (Some sample_doc) []
    [("os", OAlias "os" "os" "pkg.os" (Some 1%Z) (Some 1%Z));
     ("C", OObj (KClass [AStr "B"; AExpr [("cls", JStr "ExprName"); ("name", JStr "B")]] [mkDeco (AStr "deco") (Some 3%Z) (Some 3%Z)])
              "C" "pkg.C" (FPOne "/p/pkg/__init__.py") "pkg/__init__.py" "pkg/__init__.py" (Some 3%Z) (Some 9%Z) None ["dataclass"]
              [("f", OObj (KFunction [] [mkParam "self" ANone (Some "positional or keyword") ANone None;
                                         mkParam "x" (AStr "int") (Some "keyword-only") (AStr "1") (Some sample_doc)] ANone)
                          "f" "pkg.C.f" (FPOne "/p/pkg/__init__.py") "pkg/__init__.py" "pkg/__init__.py" (Some 5%Z) (Some 6%Z) (Some sample_doc) [] []);
               ("a", OObj (KAttribute (AStr "1") ANone)
                          "a" "pkg.C.a" (FPOne "/p/pkg/__init__.py") "pkg/__init__.py" "pkg/__init__.py" (Some 7%Z) (Some 7%Z) None ["class-attribute"] [])])].

Example sample_tree_in_domain : loadable sample_tree = true /\ known_gap sample_tree = false.
Proof. vm_compute. auto. Qed.

Example sample_tree_validates : validates_doc 64 (enc_full sample_tree) = Some true.
Proof. vm_compute. reflexivity. Qed.

Example sample_tree_member : mem (G_enc false) 40 (ShRef root_nt) (enc_full sample_tree) = true.
Proof. vm_compute. reflexivity. Qed.
