(* C09 -- the encoder model's output lies in the shape grammar; the grammar without the known gaps is included in the
   published schema (checked by computation on the regenerated schema); hence every full dump of a loadable tree without
   a known gap validates.  Refutations for the five known gaps. *)
From Coq Require Import List ZArith String Ascii Bool Arith Lia.
From Verif Require Import Lib.Sexp Model.C09_json Gen.C09_schema Model.C09_enc Proofs.C09_schema.
Import ListNotations.
Open Scope string_scope.
Open Scope list_scope.
Open Scope nat_scope.

(* ---------- membership without heights ---------- *)

Section Intro.
  Variable G : grammar.
  Definition M (sh : shape) (j : json) : Prop := exists h, mem G h sh j = true.

  Lemma M_common : forall A (f : A -> shape) (v : A -> json) l,
    Forall (fun x => M (f x) (v x)) l -> exists h, Forall (fun x => mem G h (f x) (v x) = true) l.
  Proof.
    induction 1 as [|x l [h1 H1] _ [h2 H2]]; [exists 0; constructor|].
    exists (Nat.max h1 h2). constructor.
    - eapply mem_mono; [|exact H1]. lia.
    - eapply Forall_impl; [|exact H2]. intros a Ha. eapply mem_mono; [|exact Ha]. lia.
  Qed.

  Lemma M_null : M ShNull JNull. Proof. now exists 1. Qed.
  Lemma M_int : forall z, M ShInt (JInt z). Proof. now exists 1. Qed.
  Lemma M_str : forall s, M ShStr (JStr s). Proof. now exists 1. Qed.
  Lemma M_any : forall j, M ShAny j. Proof. intros j. exists 1. now destruct j. Qed.
  Lemma M_lit : forall s, M (ShLit s) (JStr s). Proof. intros s. exists 1. simpl. apply String.eqb_refl. Qed.

  Lemma M_arr : forall e l, Forall (M e) l -> M (ShArr e) (JArr l).
  Proof.
    intros e l H. destruct (M_common json (fun _ => e) (fun x => x) l H) as [h Hh].
    exists (S h). simpl. apply forallb_forall. rewrite Forall_forall in Hh. auto.
  Qed.

  Lemma M_map : forall v kvs, Forall (fun kv => M v (snd kv)) kvs -> M (ShMap v) (JObj kvs).
  Proof.
    intros v kvs H. destruct (M_common (string * json) (fun _ => v) (fun kv => snd kv) kvs H) as [h Hh].
    exists (S h). simpl. apply forallb_forall. rewrite Forall_forall in Hh. auto.
  Qed.

  Definition entry_ok (fs : list (string * (bool * shape))) (kv : string * json) : Prop :=
    exists m fsh, lookup (fst kv) fs = Some (m, fsh) /\ M fsh (snd kv).

  Lemma M_obj : forall fs kvs, Forall (entry_ok fs) kvs ->
    forallb (fun f => negb (fst (snd f)) || key_in (fst f) kvs) fs = true -> M (ShObj fs) (JObj kvs).
  Proof.
    intros fs kvs H Hm.
    assert (X : exists h, Forall (fun kv => match lookup (fst kv) fs with Some (_, fsh) => mem G h fsh (snd kv) | None => false end = true) kvs).
    { clear Hm. induction H as [|kv l [m [fsh [L [h1 H1]]]] _ [h2 H2]]; [exists 0; constructor|].
      exists (Nat.max h1 h2). constructor.
      - rewrite L. eapply mem_mono; [|exact H1]. lia.
      - eapply Forall_impl; [|exact H2]. intros a Ha. cbv beta in *.
        destruct (lookup (fst a) fs) as [[m' fsh']|]; [|discriminate]. eapply mem_mono; [|exact Ha]. lia. }
    destruct X as [h Hh]. exists (S h). simpl. apply andb_true_iff. split; [|assumption].
    apply forallb_forall. rewrite Forall_forall in Hh. auto.
  Qed.

  Lemma M_union : forall l a j, In a l -> M a j -> M (ShUnion l) j.
  Proof.
    intros l a j Hin [h H]. exists (S h).
    assert (E : existsb (fun a => mem G h a j) l = true) by (apply existsb_exists; eauto).
    destruct j; exact E.
  Qed.

  Lemma M_ref : forall nt sh j, lookup nt G = Some sh -> M sh j -> M (ShRef nt) j.
  Proof.
    intros nt sh j L [h H]. exists (S h).
    assert (E : match lookup nt G with Some sh' => mem G h sh' j | None => false end = true) by now rewrite L.
    destruct j; exact E.
  Qed.

  Lemma entry_optfield : forall fs k o, match o with Some v => entry_ok fs (k, v) | None => True end ->
    Forall (entry_ok fs) (optfield k o).
  Proof. intros fs k [v|] H; simpl; constructor; auto. Qed.
End Intro.

Ltac entry := eexists; eexists; split; [reflexivity|].

(* ---------- leaves of the grammar ---------- *)

Section Leaves.
  Variable G : grammar.

  Lemma M_annotation : forall a, M G sh_annotation (enc_aval a).
  Proof.
    intros [|s|f]; simpl.
    - eapply M_union; [left; reflexivity|apply M_null].
    - eapply M_union; [right; left; reflexivity|apply M_str].
    - eapply M_union; [right; right; left; reflexivity|].
      apply M_map. apply Forall_forall. intros kv _. apply M_any.
  Qed.

  Lemma M_optint : forall o, M G sh_opt_int (enc_optz o).
  Proof.
    intros [z|]; simpl.
    - eapply M_union; [left; reflexivity|apply M_int].
    - eapply M_union; [right; left; reflexivity|apply M_null].
  Qed.

  Lemma M_lits : forall s l, In s l -> M G (sh_lits l) (JStr s).
  Proof. intros s l H. eapply M_union; [apply in_map; exact H|apply M_lit]. Qed.

  Lemma M_deco : forall d, deco_ok d = true -> M G sh_decorator (enc_deco d).
  Proof.
    intros [v [z|] e] H; [|discriminate]. unfold enc_deco, sh_decorator. simpl.
    apply M_obj; [|reflexivity]. repeat constructor.
    - entry. apply M_annotation.
    - entry. apply M_int.
    - entry. apply M_optint.
  Qed.

  Lemma M_section : forall s, section_ok s = true -> M G sh_section (enc_section s).
  Proof.
    intros [k v t] Hok. unfold section_ok in Hok. cbn [sec_kind] in Hok. apply str_in_In in Hok.
    unfold enc_section, sh_section. cbn [sec_kind sec_value sec_title].
    apply M_obj.
    - constructor; [|constructor].
      + entry. now apply M_lits.
      + entry. destruct v as [s|l|f]; simpl.
        * eapply M_union; [left; reflexivity|apply M_str].
        * eapply M_union; [right; left; reflexivity|]. apply M_arr. apply Forall_forall. intros x _. apply M_any.
        * eapply M_union; [right; right; left; reflexivity|]. apply M_map. apply Forall_forall. intros x _. apply M_any.
      + apply entry_optfield. destruct (truthy_title t) as [j|] eqn:T; [|exact I].
        destruct t as [[|c r]|]; simpl in T; try discriminate; inversion T; subst; entry; apply M_str.
    - destruct t as [[|c r]|]; reflexivity.
  Qed.

  Lemma M_docstring : forall d, doc_ok d = true -> M G sh_docstring (enc_docstring d).
  Proof.
    intros [v l e secs] Hok. unfold doc_ok in Hok. simpl in *.
    unfold enc_docstring, sh_docstring. simpl.
    apply M_obj; [|reflexivity]. repeat constructor.
    - entry. apply M_str.
    - entry. apply M_optint.
    - entry. apply M_optint.
    - entry. apply M_arr. apply Forall_map. apply Forall_forall. intros s Hin.
      apply M_section. rewrite forallb_forall in Hok. auto.
  Qed.

  Lemma M_param : forall p, param_ok p = true -> M G sh_parameter (enc_param p).
  Proof.
    intros [n a k d doc] H. unfold param_ok in H. cbn [p_kind p_doc] in H. apply andb_true_iff in H. destruct H as [Hk Hd].
    destruct k as [k|]; [|discriminate]. apply str_in_In in Hk.
    unfold enc_param, sh_parameter. cbn [p_name p_annotation p_kind p_default p_doc enc_optstr].
    apply M_obj.
    - repeat (apply Forall_cons).
      + entry. apply M_str.
      + entry. apply M_annotation.
      + entry. now apply M_lits.
      + entry. apply M_annotation.
      + apply entry_optfield. destruct doc as [doc|]; simpl; [|exact I].
        entry. now apply M_docstring.
    - destruct doc; reflexivity.
  Qed.

  Lemma M_list : forall A sh (enc : A -> json) (ok : A -> bool) l,
    (forall x, ok x = true -> M G sh (enc x)) -> forallb ok l = true -> M G (ShArr sh) (JArr (map enc l)).
  Proof.
    intros A sh enc ok l H Hok. apply M_arr. apply Forall_map. apply Forall_forall. intros x Hin.
    apply H. rewrite forallb_forall in Hok. auto.
  Qed.
End Leaves.

(* ---------- induction principle for the nested tree type ---------- *)

Section ObjInd.
  Variable P : obj -> Prop.
  Hypothesis Ha : forall name target path lineno endlineno, P (OAlias name target path lineno endlineno).
  Hypothesis Ho : forall spec name path fp relf relpf lineno endlineno doc labels members,
    Forall (fun nm => P (snd nm)) members -> P (OObj spec name path fp relf relpf lineno endlineno doc labels members).

  Fixpoint obj_ind' (t : obj) : P t :=
    match t with
    | OAlias name target path lineno endlineno => Ha name target path lineno endlineno
    | OObj spec name path fp relf relpf lineno endlineno doc labels members =>
        Ho spec name path fp relf relpf lineno endlineno doc labels members
           ((fix go (l : list (string * obj)) : Forall (fun nm => P (snd nm)) l :=
               match l with
               | [] => Forall_nil _
               | x :: r => Forall_cons x (obj_ind' (snd x)) (go r)
               end) members)
    end.
End ObjInd.

(* ---------- the encoder's output is in the grammar ---------- *)

Lemma G_enc_root : lookup root_nt G_enc =
  Some (ShUnion [sh_alias; sh_object "module"; sh_object "class"; sh_object "function"; sh_object "attribute"]).
Proof. reflexivity. Qed.

Theorem enc_in_grammar : forall t, loadable t = true -> generated_by G_enc root_nt (enc_full t).
Proof.
  intros t. unfold generated_by. change (loadable t = true -> M G_enc (ShRef root_nt) (enc_full t)).
  induction t as [name target path lineno endlineno|spec name path fp relf relpf lineno endlineno doc labels members IH] using obj_ind';
    intros Hl.
  - (* alias *)
    eapply M_ref; [apply G_enc_root|]. eapply M_union; [left; reflexivity|].
    unfold sh_alias. cbn [enc_full].
    apply M_obj.
    + repeat (apply Forall_app; split); [repeat constructor| |].
      * entry. apply M_lit.
      * entry. apply M_str.
      * entry. apply M_str.
      * entry. apply M_str.
      * apply entry_optfield. destruct lineno as [[|p|p]|]; simpl; try exact I; entry; apply M_int.
      * apply entry_optfield. destruct endlineno as [[|p|p]|]; simpl; try exact I; entry; apply M_int.
    + destruct lineno as [[|p|p]|], endlineno as [[|q|q]|]; reflexivity.
  - (* object *)
    cbn [loadable] in Hl. repeat (apply andb_true_iff in Hl; let K := fresh "K" in destruct Hl as [Hl K]).
    rename Hl into Hspec, K1 into Hfp, K0 into Hdoc, K into Hmem.
    eapply M_ref; [apply G_enc_root|].
    apply M_union with (a := sh_object (kind_name spec)); [destruct spec; simpl; tauto|].
    unfold sh_object. cbn [enc_full].
    apply M_obj.
    + repeat (apply Forall_app; split).
      * (* fixed head *)
        repeat (apply Forall_cons); try apply Forall_nil.
        -- entry. apply M_lit.
        -- entry. apply M_str.
        -- entry. apply M_str.
        -- entry. destruct fp as [s|l|]; [| |discriminate]; simpl.
           ++ eapply M_union; [left; reflexivity|]. apply M_str.
           ++ eapply M_union; [right; left; reflexivity|]. apply M_arr. apply Forall_map. apply Forall_forall. intros x _. apply M_str.
        -- entry. apply M_str.
        -- entry. apply M_str.
      * apply entry_optfield. destruct lineno; simpl; [entry; apply M_int|exact I].
      * apply entry_optfield. destruct endlineno; simpl; [entry; apply M_int|exact I].
      * apply entry_optfield. destruct doc as [d|]; simpl; [|exact I]. entry. now apply M_docstring.
      * (* labels, members *)
        repeat (apply Forall_cons); try apply Forall_nil.
        -- entry. apply M_arr. apply Forall_map. apply Forall_forall. intros x _. apply M_str.
        -- entry. apply M_map. apply Forall_map. simpl. rewrite Forall_forall in IH |- *. intros nm Hin.
           apply IH; [assumption|]. rewrite forallb_forall in Hmem. auto.
      * (* kind-specific part *)
        destruct spec as [|bases decos|decos params returns|value annotation]; simpl in Hspec |- *.
        -- constructor.
        -- repeat (apply Forall_cons); try apply Forall_nil.
           ++ entry. apply M_arr. apply Forall_map. apply Forall_forall. intros x _. apply M_annotation.
           ++ entry. eapply M_list; [apply M_deco|assumption].
        -- apply andb_true_iff in Hspec. destruct Hspec as [Hd Hp].
           repeat (apply Forall_cons); try apply Forall_nil.
           ++ entry. eapply M_list; [apply M_deco|assumption].
           ++ entry. eapply M_list; [apply M_param|assumption].
           ++ entry. apply M_annotation.
        -- apply Forall_app; split; apply entry_optfield.
           ++ destruct value; simpl; try exact I; entry; apply (M_annotation _ (AStr s)) || apply (M_annotation _ (AExpr fields)).
           ++ destruct annotation; simpl; try exact I; entry; apply (M_annotation _ (AStr s)) || apply (M_annotation _ (AExpr fields)).
    + destruct spec as [|bases decos|decos params returns|value annotation], lineno, endlineno, doc;
        try reflexivity; destruct value, annotation; reflexivity.
Qed.

(* ---------- inclusion of the grammar in the regenerated schema, and the main theorem ---------- *)

Lemma grammar_in_schema_holds : grammar_in_schema = true.
Proof. vm_compute. reflexivity. Qed.

(* the kind literals used by the grammar are exactly enumerations.Kind *)
Lemma object_kinds_tie : enc_object_kinds = ["module"; "class"; "function"; "attribute"; "alias"].
Proof. reflexivity. Qed.

Theorem grammar_docs_validate : forall j, generated_by G_enc root_nt j -> exists fuel, validates_doc fuel j = Some true.
Proof.
  intros j H. pose proof grammar_in_schema_holds as T. unfold grammar_in_schema in T.
  destruct (lookup root_nt G_enc) as [sh|] eqn:L; [|discriminate].
  exact (incl_sound G_enc schema_root schema_defs root_nt sh incl_fuel L T j H).
Qed.

Theorem full_dump_validates : forall t, loadable t = true -> exists fuel, validates_doc fuel (enc_full t) = Some true.
Proof. intros t Hl. apply grammar_docs_validate. now apply enc_in_grammar. Qed.

(* a verdict reached with some fuel is the verdict for every fuel that reaches one *)
Lemma verdict_unique : forall k j b, validates_doc k j = Some b -> forall fuel, validates_doc fuel j <> Some (negb b).
Proof.
  intros k j b H fuel F. unfold validates_doc in *.
  pose proof (validates_mono schema_root schema_defs k (Nat.max k fuel) schema_root j b (Nat.le_max_l _ _) H) as A.
  pose proof (validates_mono schema_root schema_defs fuel (Nat.max k fuel) schema_root j (negb b) (Nat.le_max_r _ _) F) as B.
  rewrite A in B. destruct b; discriminate.
Qed.

(* ---------- the hypothesis `loadable` is needed: trees only the API can build do not validate ---------- *)

Definition mod_with (fp : fpath) (doc : option docstring) (members : list (string * obj)) : obj :=
  OObj KModule "m" "m" fp "m.py" "m.py" None None doc [] members.

(* a class whose decorator has no line number (never produced by a load) *)
Definition unloadable_tree : obj :=
  mod_with (FPOne "/p/m.py") None
    [("f", OObj (KClass [] [mkDeco (AStr "d") None None]) "f" "m.f" (FPOne "/p/m.py") "m.py" "m.py" (Some 1%Z) (Some 1%Z) None [] [])].

Lemma loadable_needed : loadable unloadable_tree = false /\ forall fuel, validates_doc fuel (enc_full unloadable_tree) <> Some true.
Proof. split; [vm_compute; reflexivity|]. apply (verdict_unique 64 _ false). vm_compute. reflexivity. Qed.

(* ---------- the witnesses of the repaired findings C09-F1..F5 now validate ---------- *)

Definition witness_F1 : obj := mod_with (FPList ["/p/m"]) None [].
Definition witness_F2 : obj := mod_with (FPOne "/p/m.py") None [("a", OAlias "a" "os.a" "m.a" None None)].
Definition witness_F3 : obj := mod_with (FPOne "/p/m.py") (Some (mkDoc "d" None None [mkSection "text" (SVText "d") None])) [].
Definition witness_F4 : obj := mod_with (FPOne "/p/m.py") (Some (mkDoc "d" (Some 1%Z) (Some 1%Z) [mkSection "functions" (SVItems []) None])) [].
Definition witness_F5 : obj :=
  mod_with (FPOne "/p/m.py")
           (Some (mkDoc "d" (Some 1%Z) (Some 1%Z)
                        [mkSection "admonition" (SVElem [("annotation", JStr "note"); ("description", JStr "x")]) (Some "Note")])) [].

Lemma former_gap_witnesses_validate :
  forallb (fun t => loadable t && match validates_doc 64 (enc_full t) with Some true => true | _ => false end)
          [witness_F1; witness_F2; witness_F3; witness_F4; witness_F5] = true.
Proof. vm_compute. reflexivity. Qed.

(* ---------- non-vacuity: a tree with every kind of node ---------- *)

Definition sample_doc : docstring :=
  mkDoc "Summary." (Some 2%Z) (Some 4%Z)
        [mkSection "text" (SVText "Summary.") None;
         mkSection "parameters" (SVItems [JObj [("name", JStr "a"); ("annotation", JNull); ("description", JStr "A.")]]) (Some "Parameters:");
         mkSection "modules" (SVItems []) None;
         mkSection "deprecated" (SVElem [("annotation", JStr "1.0"); ("description", JStr "old")]) None].

Definition sample_tree : obj :=
  OObj KModule "pkg" "pkg" (FPList ["/p/pkg"]) "pkg" "pkg" None None (Some sample_doc) []
    [("os", OAlias "os" "os" "pkg.os" None None);
     ("C", OObj (KClass [AStr "B"; AExpr [("cls", JStr "ExprName"); ("name", JStr "B")]] [mkDeco (AStr "deco") (Some 3%Z) (Some 3%Z)])
              "C" "pkg.C" (FPOne "/p/pkg/__init__.py") "pkg/__init__.py" "pkg/__init__.py" (Some 3%Z) (Some 9%Z) None ["dataclass"]
              [("f", OObj (KFunction [] [mkParam "self" ANone (Some "positional or keyword") ANone None;
                                         mkParam "x" (AStr "int") (Some "keyword-only") (AStr "1") (Some sample_doc)] ANone)
                          "f" "pkg.C.f" (FPOne "/p/pkg/__init__.py") "pkg/__init__.py" "pkg/__init__.py" (Some 5%Z) (Some 6%Z)
                          (Some (mkDoc "d" None None [])) [] []);
               ("a", OObj (KAttribute (AStr "1") ANone)
                          "a" "pkg.C.a" (FPOne "/p/pkg/__init__.py") "pkg/__init__.py" "pkg/__init__.py" (Some 7%Z) (Some 7%Z) None ["class-attribute"] [])])].

Example sample_tree_in_domain : loadable sample_tree = true.
Proof. vm_compute. reflexivity. Qed.

Example sample_tree_validates : validates_doc 64 (enc_full sample_tree) = Some true.
Proof. vm_compute. reflexivity. Qed.

Example sample_tree_member : mem G_enc 40 (ShRef root_nt) (enc_full sample_tree) = true.
Proof. vm_compute. reflexivity. Qed.
