(* C09 -- the encoder model's output lies in the shape grammar (object skeleton, expressions per class, docstring
   section items per kind); the grammar is included in the published schema (checked by computation on the regenerated
   schema); hence every full dump of a loadable tree validates. *)
From Coq Require Import List ZArith String Ascii Bool Arith Lia.
From Verif Require Import Lib.Sexp Model.C09_json Gen.C09_schema Gen.C09_exprs Model.C09_expr Model.C09_enc Proofs.C09_schema Proofs.C09_mem Proofs.C09_expr.
Import ListNotations.
Open Scope string_scope.
Open Scope list_scope.
Open Scope nat_scope.

Lemma entry_optfield : forall G fs k o, match o with Some v => entry_ok G fs (k, v) | None => True end ->
  Forall (entry_ok G fs) (optfield k o).
Proof. intros G fs k [v|] H; simpl; constructor; auto. Qed.

(* ---------- leaves of the grammar ---------- *)

Section Leaves.
  Variable G : grammar.
  Hypothesis HG : lookup expr_nt G = Some sh_expression.

  Lemma M_annotation : forall a, aval_ok a = true -> M G sh_annotation (enc_aval a).
  Proof.
    intros [|s|cls vals|j|] Hok; simpl; try discriminate.
    - eapply M_union; [left; reflexivity|apply M_null].
    - eapply M_union; [right; left; reflexivity|apply M_str].
    - eapply M_union; [right; right; left; reflexivity|]. now apply expr_in_grammar.
  Qed.

  Lemma M_optint : forall o, M G sh_opt_int (enc_optz o).
  Proof.
    intros [z|]; simpl.
    - eapply M_union; [left; reflexivity|apply M_int].
    - eapply M_union; [right; left; reflexivity|apply M_null].
  Qed.

  Lemma M_lits : forall s l, In s l -> M G (sh_lits l) (JStr s).
  Proof. intros s l H. eapply M_union; [apply in_map; exact H|apply M_lit]. Qed.

  Lemma M_deco : forall d, deco_ok d = true -> M G sh_decorator (enc_deco d).
  Proof.
    intros [v [z|] e] H; [|discriminate]. unfold deco_ok in H. simpl in H. unfold enc_deco, sh_decorator. simpl.
    apply M_obj; [|reflexivity]. repeat constructor.
    - entry. now apply M_annotation.
    - entry. apply M_int.
    - entry. apply M_optint.
  Qed.

  Lemma M_plain : forall a d, aval_ok a = true -> M G sh_plain (JObj (enc_element a d)).
  Proof.
    intros a d H. unfold sh_plain, enc_element. apply M_obj; [|reflexivity]. repeat constructor.
    - entry. now apply M_annotation.
    - entry. apply M_str.
  Qed.

  Lemma M_item : forall k i, item_matches k i = true ->
    match k with
    | SKPlain => M G sh_plain (enc_item i)
    | SKNamed => M G sh_named (enc_item i)
    | SKExamples => M G (ShArr ShStr) (enc_item i)
    | _ => True
    end.
  Proof.
    intros k i H. destruct k, i; simpl in H; try discriminate; try exact I.
    - now apply M_plain.
    - apply andb_true_iff in H. destruct H as [Ha Hv].
      cbn [enc_item]. unfold sh_named, enc_element. apply M_obj.
      + repeat (apply Forall_cons).
        * entry. apply M_str.
        * entry. now apply M_annotation.
        * entry. apply M_str.
        * apply entry_optfield. destruct value as [|sv|cv vv|jv|]; simpl; try discriminate; [exact I| |]; entry.
          -- eapply M_union; [left; reflexivity|apply M_str].
          -- eapply M_union; [right; left; reflexivity|]. now apply expr_in_grammar.
      + destruct value; reflexivity.
    - cbn [enc_item]. apply M_arr. repeat constructor; apply M_str.
  Qed.

  Lemma M_secvalue : forall k v, secvalue_matches k v = true -> M G (sh_secvalue k) (enc_secvalue v).
  Proof.
    intros k v H. destruct k, v; simpl in H; try discriminate; cbn [sh_secvalue enc_secvalue].
    - apply M_str.
    - apply M_arr. apply Forall_map. apply Forall_forall. intros x Hin. rewrite forallb_forall in H. exact (M_item SKPlain x (H x Hin)).
    - apply M_arr. apply Forall_map. apply Forall_forall. intros x Hin. rewrite forallb_forall in H. exact (M_item SKNamed x (H x Hin)).
    - apply M_arr. apply Forall_map. apply Forall_forall. intros x Hin. rewrite forallb_forall in H. exact (M_item SKExamples x (H x Hin)).
    - now apply M_plain.
  Qed.

  Lemma M_section : forall s, section_ok s = true -> M G sh_section (enc_section s).
  Proof.
    intros [kind v t] Hok. unfold section_ok in Hok. cbn [sec_kind sec_value] in Hok.
    destruct (lookup kind section_table) as [k|] eqn:L; [|discriminate].
    unfold sh_section. apply M_union with (a := sh_section_row (kind, k)); [apply in_map; eapply lookup_In; eauto|].
    unfold enc_section, sh_section_row. cbn [sec_kind sec_value sec_title fst snd].
    apply M_obj.
    - constructor; [|constructor].
      + entry. apply M_lit.
      + entry. now apply M_secvalue.
      + apply entry_optfield. destruct (truthy_title t) as [j|] eqn:T; [|exact I].
        destruct t as [[|c r]|]; simpl in T; try discriminate; inversion T; subst; entry; apply M_str.
    - destruct t as [[|c r]|]; reflexivity.
  Qed.

  Lemma M_docstring : forall d, doc_ok d = true -> M G sh_docstring (enc_docstring d).
  Proof.
    intros [v l e secs] Hok. unfold doc_ok in Hok. simpl in *.
    unfold enc_docstring, sh_docstring. simpl.
    apply M_obj; [|reflexivity]. repeat constructor.
    - entry. apply M_str.
    - entry. apply M_optint.
    - entry. apply M_optint.
    - entry. apply M_arr. apply Forall_map. apply Forall_forall. intros s Hin.
      apply M_section. rewrite forallb_forall in Hok. auto.
  Qed.

  Lemma M_param : forall p, param_ok p = true -> M G sh_parameter (enc_param p).
  Proof.
    intros [n a k d doc] H. unfold param_ok in H. cbn [p_kind p_doc p_annotation p_default] in H.
    apply andb_true_iff in H. destruct H as [H Hdf]. apply andb_true_iff in H. destruct H as [H Han].
    apply andb_true_iff in H. destruct H as [Hk Hd].
    destruct k as [k|]; [|discriminate]. apply str_in_In in Hk.
    unfold enc_param, sh_parameter. cbn [p_name p_annotation p_kind p_default p_doc enc_optstr].
    apply M_obj.
    - repeat (apply Forall_cons).
      + entry. apply M_str.
      + entry. now apply M_annotation.
      + entry. now apply M_lits.
      + entry. now apply M_annotation.
      + apply entry_optfield. destruct doc as [doc|]; simpl; [|exact I].
        entry. now apply M_docstring.
    - destruct doc; reflexivity.
  Qed.

  Lemma M_list : forall A sh (enc : A -> json) (ok : A -> bool) l,
    (forall x, ok x = true -> M G sh (enc x)) -> forallb ok l = true -> M G (ShArr sh) (JArr (map enc l)).
  Proof.
    intros A sh enc ok l H Hok. apply M_arr. apply Forall_map. apply Forall_forall. intros x Hin.
    apply H. rewrite forallb_forall in Hok. auto.
  Qed.
End Leaves.

(* ---------- induction principle for the nested tree type ---------- *)

Section ObjInd.
  Variable P : obj -> Prop.
  Hypothesis Ha : forall name target path lineno endlineno, P (OAlias name target path lineno endlineno).
  Hypothesis Ho : forall spec name path fp relf relpf lineno endlineno doc labels members,
    Forall (fun nm => P (snd nm)) members -> P (OObj spec name path fp relf relpf lineno endlineno doc labels members).

  Fixpoint obj_ind' (t : obj) : P t :=
    match t with
    | OAlias name target path lineno endlineno => Ha name target path lineno endlineno
    | OObj spec name path fp relf relpf lineno endlineno doc labels members =>
        Ho spec name path fp relf relpf lineno endlineno doc labels members
           ((fix go (l : list (string * obj)) : Forall (fun nm => P (snd nm)) l :=
               match l with
               | [] => Forall_nil _
               | x :: r => Forall_cons x (obj_ind' (snd x)) (go r)
               end) members)
    end.
End ObjInd.

(* ---------- the encoder's output is in the grammar ---------- *)

Lemma G_enc_root : lookup root_nt G_enc =
  Some (ShUnion [sh_alias; sh_object "module"; sh_object "class"; sh_object "function"; sh_object "attribute"]).
Proof. reflexivity. Qed.

Lemma G_enc_expr : lookup expr_nt G_enc = Some sh_expression.
Proof. reflexivity. Qed.

Theorem enc_in_grammar : forall t, loadable t = true -> generated_by G_enc root_nt (enc_full t).
Proof.
  intros t. unfold generated_by. change (loadable t = true -> M G_enc (ShRef root_nt) (enc_full t)).
  induction t as [name target path lineno endlineno|spec name path fp relf relpf lineno endlineno doc labels members IH] using obj_ind';
    intros Hl.
  - (* alias *)
    eapply M_ref; [apply G_enc_root|]. eapply M_union; [left; reflexivity|].
    unfold sh_alias. cbn [enc_full].
    apply M_obj.
    + repeat (apply Forall_app; split); [repeat constructor| |].
      * entry. apply M_lit.
      * entry. apply M_str.
      * entry. apply M_str.
      * entry. apply M_str.
      * apply entry_optfield. destruct lineno as [[|p|p]|]; simpl; try exact I; entry; apply M_int.
      * apply entry_optfield. destruct endlineno as [[|p|p]|]; simpl; try exact I; entry; apply M_int.
    + destruct lineno as [[|p|p]|], endlineno as [[|q|q]|]; reflexivity.
  - (* object *)
    cbn [loadable] in Hl. repeat (apply andb_true_iff in Hl; let K := fresh "K" in destruct Hl as [Hl K]).
    rename Hl into Hspec, K1 into Hfp, K0 into Hdoc, K into Hmem.
    eapply M_ref; [apply G_enc_root|].
    apply M_union with (a := sh_object (kind_name spec)); [destruct spec; simpl; tauto|].
    unfold sh_object. cbn [enc_full].
    apply M_obj.
    + repeat (apply Forall_app; split).
      * (* fixed head *)
        repeat (apply Forall_cons); try apply Forall_nil.
        -- entry. apply M_lit.
        -- entry. apply M_str.
        -- entry. apply M_str.
        -- entry. destruct fp as [s|l|]; [| |discriminate]; simpl.
           ++ eapply M_union; [left; reflexivity|]. apply M_str.
           ++ eapply M_union; [right; left; reflexivity|]. apply M_arr. apply Forall_map. apply Forall_forall. intros x _. apply M_str.
        -- entry. apply M_str.
        -- entry. apply M_str.
      * apply entry_optfield. destruct lineno; simpl; [entry; apply M_int|exact I].
      * apply entry_optfield. destruct endlineno; simpl; [entry; apply M_int|exact I].
      * apply entry_optfield. destruct doc as [d|]; simpl; [|exact I]. entry. now apply (M_docstring _ G_enc_expr).
      * (* labels, members *)
        repeat (apply Forall_cons); try apply Forall_nil.
        -- entry. apply M_arr. apply Forall_map. apply Forall_forall. intros x _. apply M_str.
        -- entry. apply M_map. apply Forall_map. simpl. rewrite Forall_forall in IH |- *. intros nm Hin.
           apply IH; [assumption|]. rewrite forallb_forall in Hmem. auto.
      * (* kind-specific part *)
        destruct spec as [|bases decos|decos params returns|value annotation]; simpl in Hspec |- *.
        -- constructor.
        -- apply andb_true_iff in Hspec. destruct Hspec as [Hb Hd].
           repeat (apply Forall_cons); try apply Forall_nil.
           ++ entry. eapply M_list; [apply (M_annotation _ G_enc_expr)|assumption].
           ++ entry. eapply M_list; [apply (M_deco _ G_enc_expr)|assumption].
        -- apply andb_true_iff in Hspec. destruct Hspec as [Hspec Hr]. apply andb_true_iff in Hspec. destruct Hspec as [Hd Hp].
           repeat (apply Forall_cons); try apply Forall_nil.
           ++ entry. eapply M_list; [apply (M_deco _ G_enc_expr)|assumption].
           ++ entry. eapply M_list; [apply (M_param _ G_enc_expr)|assumption].
           ++ entry. now apply (M_annotation _ G_enc_expr).
        -- apply andb_true_iff in Hspec. destruct Hspec as [Hv Ha].
           apply Forall_app; split; apply entry_optfield.
           ++ destruct value as [|sv|cv vv|jv|]; simpl; try discriminate; try exact I; entry;
                [exact (M_annotation _ G_enc_expr (AStr sv) Hv)|exact (M_annotation _ G_enc_expr (AExpr cv vv) Hv)].
           ++ destruct annotation as [|sv|cv vv|jv|]; simpl; try discriminate; try exact I; entry;
                [exact (M_annotation _ G_enc_expr (AStr sv) Ha)|exact (M_annotation _ G_enc_expr (AExpr cv vv) Ha)].
    + destruct spec as [|bases decos|decos params returns|value annotation], lineno, endlineno, doc;
        try reflexivity; destruct value, annotation; reflexivity.
Qed.

(* a loadable tree holds no object json cannot serialise *)
Lemma aval_ok_not_object : forall a, aval_ok a = true -> is_object a = false.
Proof. now intros [| | | |]. Qed.

Lemma spec_ok_no_object : forall k, spec_ok k = true -> spec_has_object k = false.
Proof.
  intros [|bases decos|decos params returns|value annotation] H; simpl in *; try reflexivity.
  - apply andb_true_iff in H. destruct H as [H Hr]. apply andb_true_iff in H. destruct H as [_ Hp].
    rewrite (aval_ok_not_object _ Hr), orb_false_r.
    induction params as [|p r IH]; [reflexivity|]. simpl in *. apply andb_true_iff in Hp. destruct Hp as [Hp1 Hp2].
    rewrite (IH Hp2), orb_false_r. unfold param_ok in Hp1. apply andb_true_iff in Hp1. destruct Hp1 as [Hp1 Hdf].
    apply andb_true_iff in Hp1. destruct Hp1 as [_ Ha]. now rewrite (aval_ok_not_object _ Ha), (aval_ok_not_object _ Hdf).
  - apply andb_true_iff in H. destruct H as [_ Ha]. now apply aval_ok_not_object.
Qed.

Lemma loadable_no_object : forall t, loadable t = true -> has_object t = false.
Proof.
  induction t as [name target path lineno endlineno|spec name path fp relf relpf lineno endlineno doc labels members IH] using obj_ind';
    intros Hl; [reflexivity|].
  cbn [loadable] in Hl. apply andb_true_iff in Hl. destruct Hl as [Hl Hm]. apply andb_true_iff in Hl. destruct Hl as [Hl _].
  apply andb_true_iff in Hl. destruct Hl as [Hs _].
  cbn [has_object]. rewrite (spec_ok_no_object _ Hs). simpl.
  induction members as [|[n m] r IHr]; [reflexivity|]. simpl in *. apply andb_true_iff in Hm. destruct Hm as [Hm1 Hm2].
  inversion IH as [|x l IH1 IH2]; subst. simpl in IH1. rewrite (IH1 Hm1). simpl. now apply IHr.
Qed.

(* ---------- inclusion of the grammar in the regenerated schema, and the main theorem ---------- *)

Lemma grammar_in_schema_holds : grammar_in_schema = true.
Proof. vm_compute. reflexivity. Qed.

(* the kind literals used by the grammar are exactly enumerations.Kind *)
Lemma object_kinds_tie : enc_object_kinds = ["module"; "class"; "function"; "attribute"; "alias"].
Proof. reflexivity. Qed.

Theorem grammar_docs_validate : forall j, generated_by G_enc root_nt j -> exists fuel, validates_doc fuel j = Some true.
Proof.
  intros j H. pose proof grammar_in_schema_holds as T. unfold grammar_in_schema in T.
  destruct (lookup root_nt G_enc) as [sh|] eqn:L; [|discriminate].
  exact (incl_sound G_enc schema_root schema_defs root_nt sh incl_fuel L T j H).
Qed.

Theorem full_dump_validates : forall t, loadable t = true -> exists fuel, validates_doc fuel (enc_full t) = Some true.
Proof. intros t Hl. apply grammar_docs_validate. now apply enc_in_grammar. Qed.

(* a verdict reached with some fuel is the verdict for every fuel that reaches one *)
Lemma verdict_unique : forall k j b, validates_doc k j = Some b -> forall fuel, validates_doc fuel j <> Some (negb b).
Proof.
  intros k j b H fuel F. unfold validates_doc in *.
  pose proof (validates_mono schema_root schema_defs k (Nat.max k fuel) schema_root j b (Nat.le_max_l _ _) H) as A.
  pose proof (validates_mono schema_root schema_defs fuel (Nat.max k fuel) schema_root j (negb b) (Nat.le_max_r _ _) F) as B.
  rewrite A in B. destruct b; discriminate.
Qed.

(* ---------- the hypothesis `loadable` is needed: trees only the API can build do not validate ---------- *)

Definition mod_with (fp : fpath) (doc : option docstring) (members : list (string * obj)) : obj :=
  OObj KModule "m" "m" fp "m.py" "m.py" None None doc [] members.

(* a class whose decorator has no line number (never produced by a load) *)
Definition unloadable_tree : obj :=
  mod_with (FPOne "/p/m.py") None
    [("f", OObj (KClass [] [mkDeco (AStr "d") None None]) "f" "m.f" (FPOne "/p/m.py") "m.py" "m.py" (Some 1%Z) (Some 1%Z) None [] [])].

Lemma loadable_needed : loadable unloadable_tree = false /\ forall fuel, validates_doc fuel (enc_full unloadable_tree) <> Some true.
Proof. split; [vm_compute; reflexivity|]. apply (verdict_unique 64 _ false). vm_compute. reflexivity. Qed.

(* ---------- the witnesses of the repaired findings C09-F1..F5 now validate ---------- *)

Definition witness_F1 : obj := mod_with (FPList ["/p/m"]) None [].
Definition witness_F2 : obj := mod_with (FPOne "/p/m.py") None [("a", OAlias "a" "os.a" "m.a" None None)].
Definition witness_F3 : obj := mod_with (FPOne "/p/m.py") (Some (mkDoc "d" None None [mkSection "text" (SVText "d") None])) [].
Definition witness_F4 : obj := mod_with (FPOne "/p/m.py") (Some (mkDoc "d" (Some 1%Z) (Some 1%Z) [mkSection "functions" (SVItems []) None])) [].
Definition witness_F5 : obj :=
  mod_with (FPOne "/p/m.py")
           (Some (mkDoc "d" (Some 1%Z) (Some 1%Z)
                        [mkSection "admonition" (SVElem (AStr "note") "x") (Some "Note")])) [].

Lemma former_gap_witnesses_validate :
  forallb (fun t => loadable t && match validates_doc 64 (enc_full t) with Some true => true | _ => false end)
          [witness_F1; witness_F2; witness_F3; witness_F4; witness_F5] = true.
Proof. vm_compute. reflexivity. Qed.

(* ---------- non-vacuity: a tree with every kind of node ---------- *)

Definition sample_doc : docstring :=
  mkDoc "Summary." (Some 2%Z) (Some 4%Z)
        [mkSection "text" (SVText "Summary.") None;
         mkSection "parameters" (SVItems [INamed "a" ANone "A." ANone; INamed "b" (AExpr "ExprName" [FStr "int"]) "B." (AStr "1");
                                               INamed "c" ANone "C." (AExpr "ExprName" [FStr "a"])]) (Some "Parameters:");
         mkSection "raises" (SVItems [IPlain (AStr "ValueError") "bad."]) None;
         mkSection "examples" (SVItems [IExample "text" "Text."; IExample "examples" ">>> 1"]) None;
         mkSection "modules" (SVItems []) None;
         mkSection "deprecated" (SVElem (AStr "1.0") "old") None].

Definition sample_tree : obj :=
  OObj KModule "pkg" "pkg" (FPList ["/p/pkg"]) "pkg" "pkg" None None (Some sample_doc) []
    [("os", OAlias "os" "os" "pkg.os" None None);
     ("C", OObj (KClass [AStr "B"; AExpr "ExprName" [FStr "B"];
                       AExpr "ExprSubscript" [FExpr "ExprName" [FStr "Dict"];
                                              FExpr "ExprTuple" [FList [FExpr "ExprName" [FStr "str"]; FStr "1"]; FBool true]]]
                      [mkDeco (AExpr "ExprCall" [FList [FStr "1"; FExpr "ExprKeyword" [FNone; FStr "k"; FStr "2"]]; FExpr "ExprName" [FStr "deco"]]) (Some 3%Z) (Some 3%Z)])
              "C" "pkg.C" (FPOne "/p/pkg/__init__.py") "pkg/__init__.py" "pkg/__init__.py" (Some 3%Z) (Some 9%Z) None ["dataclass"]
              [("f", OObj (KFunction [] [mkParam "self" ANone (Some "positional or keyword") ANone None;
                                         mkParam "x" (AStr "int") (Some "keyword-only") (AStr "1") (Some sample_doc)] ANone)
                          "f" "pkg.C.f" (FPOne "/p/pkg/__init__.py") "pkg/__init__.py" "pkg/__init__.py" (Some 5%Z) (Some 6%Z)
                          (Some (mkDoc "d" None None [])) [] []);
               ("a", OObj (KAttribute (AStr "1") ANone)
                          "a" "pkg.C.a" (FPOne "/p/pkg/__init__.py") "pkg/__init__.py" "pkg/__init__.py" (Some 7%Z) (Some 7%Z) None ["class-attribute"] [])])].

Example sample_tree_in_domain : loadable sample_tree = true.
Proof. vm_compute. reflexivity. Qed.

Example sample_tree_validates : validates_doc 64 (enc_full sample_tree) = Some true.
Proof. vm_compute. reflexivity. Qed.

Example sample_tree_member : mem G_enc 40 (ShRef root_nt) (enc_full sample_tree) = true.
Proof. vm_compute. reflexivity. Qed.

