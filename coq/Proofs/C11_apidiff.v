(* C11 proofs: find_breaking_changes over whole packages (model: Model/C11_apidiff.v, the code after the repairs of
   C11-F1 cyclic targets skipped, C11-F2 seen_paths keyed on (old, new) pairs, C11-F3 empty __all__ honoured).
   Part A  every logged pair satisfies any relation closed under the traversal's steps (public member, alias target)
   Part B  silence: self comparison, compatibility extensions (added members, added optional keyword-only parameters,
           arbitrary changes outside the publicly reachable part)
   Part C  soundness: every report stems from a publicly reachable pair; a removed object is a public member of one
   Part D  completeness: every pair the traversal must visit is examined, its local incompatibilities are reported
   Part E  no exception (unresolvable and cyclic targets are skipped) and termination with fuel = |old| * |new| + 1
   Part F  exit code; is_public is its documented ladder *)
From Coq Require Import List Arith Bool ZArith String Ascii Lia.
From Verif Require Import Lib.Sexp Model.C10_kinds Gen.C10_tables Model.C10_diff Proofs.C10_diff Model.C11_apidiff.
Import ListNotations.
Open Scope string_scope. Open Scope list_scope. Open Scope nat_scope.

(* ------------------------------------------------------------------------------------------------------------ *)
(* small facts *)
Lemma lookup_in n ms v : lookup n ms = Some v -> In (n, v) ms.
Proof.
  induction ms as [|[k w] r IH]; simpl; [discriminate|].
  destruct (String.eqb k n) eqn:E.
  - intros H. inversion H; subst. apply String.eqb_eq in E. subst. left. reflexivity.
  - intros H. right. apply IH. exact H.
Qed.
Lemma in_lookup_some n v ms : In (n, v) ms -> exists w, lookup n ms = Some w.
Proof.
  induction ms as [|[k w] r IH]; simpl; [intros []|].
  intros [H|H].
  - inversion H; subst. rewrite String.eqb_refl. eauto.
  - destruct (String.eqb k n); eauto.
Qed.
Lemma nodup_keys_lookup ms : nodup_keys ms = true -> forall n v, In (n, v) ms -> lookup n ms = Some v.
Proof.
  induction ms as [|[k w] r IH]; simpl; [intros _ n v []|].
  intros H n v [E|E]; apply andb_true_iff in H; destruct H as [H1 H2].
  - inversion E; subst. rewrite String.eqb_refl. reflexivity.
  - destruct (String.eqb k n) eqn:K.
    + apply String.eqb_eq in K. subst. exfalso.
      apply negb_true_iff in H1.
      assert (existsb (fun kv => String.eqb (fst kv) n) r = true).
      { apply existsb_exists. exists (n, v). split; [exact E|]. simpl. apply String.eqb_refl. }
      congruence.
    + apply IH; assumption.
Qed.
Lemma get_in g i n : get g i = Some n -> In n g.
Proof. unfold get. apply nth_error_In. Qed.
Lemma natlist_eqb_refl l : natlist_eqb l l = true.
Proof. induction l; simpl; [reflexivity|]. rewrite Nat.eqb_refl. exact IHl. Qed.
Lemma okind_eqb_refl k : okind_eqb k k = true.
Proof. destruct k; reflexivity. Qed.
Lemma flat_map_nil {A B} (f : A -> list B) l : (forall x, In x l -> f x = []) -> flat_map f l = [].
Proof.
  induction l as [|a r IH]; simpl; [reflexivity|].
  intros H. rewrite (H a (or_introl eq_refl)). simpl. apply IH. intros x Hx. apply H. right. exact Hx.
Qed.

Definition ev_pair (e : ev) : nat * nat := match e with EHead i j | EMembers i j => (i, j) end.

(* ------------------------------------------------------------------------------------------------------------ *)
(* Part A: relations closed under the steps of the traversal *)
Section Closed.
Variables go gn : store.
Variable R : nat -> nat -> Prop.

Definition closed_member : Prop :=
  forall i j oi nj n m mo m', R i j -> get go i = Some oi -> get gn j = Some nj ->
    In (n, m) (all_members oi) -> get go m = Some mo -> is_public oi mo = true ->
    lookup n (all_members nj) = Some m' -> R m m'.
Definition closed_target : Prop :=
  forall i j oi nj i' j', R i j -> get go i = Some oi -> get gn j = Some nj ->
    is_alias oi || is_alias nj = true -> tgt_of oi i = TRes i' -> tgt_of nj j = TRes j' -> R i' j'.
Definition closed : Prop := closed_member /\ closed_target.

Definition ev_ok (e : ev) : Prop := R (fst (ev_pair e)) (snd (ev_pair e)).
Definition good (rec : list (nat * nat) -> nat -> nat -> res) : Prop :=
  forall seen i j s l, R i j -> rec seen i j = Ok s l -> Forall ev_ok l.

Lemma mloop_good rec : closed -> good rec ->
  forall i j oi nj, R i j -> get go i = Some oi -> get gn j = Some nj ->
  forall ms seen s l, (forall x, In x ms -> In x (all_members oi)) ->
    mloop go rec oi (all_members nj) ms seen = Ok s l -> Forall ev_ok l.
Proof.
  intros [CM _] G i j oi nj Rij Hi Hj.
  induction ms as [|[n m] r IH]; intros seen s l Hin; simpl.
  - intros H. inversion H; subst. constructor.
  - destruct (get go m) as [mo|] eqn:Hm; [|discriminate].
    assert (Hr : forall x, In x r -> In x (all_members oi)) by (intros x Hx; apply Hin; right; exact Hx).
    destruct (negb (is_public oi mo)) eqn:Hp; [apply IH; exact Hr|].
    destruct (lookup n (all_members nj)) as [m'|] eqn:Hl; [|apply IH; exact Hr].
    destruct (rec seen m m') as [s1 l1| |] eqn:Hrec; try discriminate.
    destruct (mloop go rec oi (all_members nj) r s1) as [s2 l2| |] eqn:Hloop; try discriminate.
    intros H. inversion H; subst. apply Forall_app. split.
    + apply (G seen m m' s1 l1); [|exact Hrec].
      apply negb_false_iff in Hp.
      apply (CM i j oi nj n m mo m'); try assumption. apply Hin. left. reflexivity.
    + apply (IH s1 s l2); assumption.
Qed.

Lemma step_good rec : closed -> good rec -> good (step go gn rec).
Proof.
  intros C G seen i j s l Rij. unfold step.
  destruct (pmem i j seen); [intros H; inversion H; subst; constructor|].
  destruct (get go i) as [oi|] eqn:Hi; [|discriminate].
  destruct (get gn j) as [nj|] eqn:Hj; [|discriminate].
  assert (Hhead : ev_ok (EHead i j)) by exact Rij.
  assert (Single : forall s0, Ok s0 [EHead i j] = Ok s l -> Forall ev_ok l).
  { intros s0 H. inversion H; subst. constructor; [exact Hhead|constructor]. }
  destruct (is_alias oi || is_alias nj) eqn:Ha.
  - destruct (tgt_of oi i) as [i'| |] eqn:Ti; [|apply Single|apply Single].
    destruct (tgt_of nj j) as [j'| |] eqn:Tj; [|apply Single|apply Single].
    destruct (rec ((i, j) :: seen) i' j') as [s1 l1| |] eqn:Hrec; try discriminate.
    intros H. inversion H; subst. constructor; [exact Hhead|].
    apply (G ((i, j) :: seen) i' j' s l1); [|exact Hrec].
    destruct C as [_ CT]. apply (CT i j oi nj i' j'); assumption.
  - destruct (negb (okind_eqb (kind_of oi) (kind_of nj))); [apply Single|].
    destruct (is_container oi); [|apply Single].
    destruct (mloop go rec oi (all_members nj) (all_members oi) ((i, j) :: seen)) as [s1 l1| |] eqn:Hl; try discriminate.
    intros H. inversion H; subst. constructor; [exact Hhead|]. constructor; [exact Rij|].
    apply (mloop_good rec C G i j oi nj Rij Hi Hj (all_members oi) ((i, j) :: seen) s l1); [auto|exact Hl].
Qed.

Lemma tby_good : closed -> forall fuel, good (tby go gn fuel).
Proof.
  intros C. induction fuel as [|f IH]; simpl.
  - intros seen i j s l _ H. discriminate.
  - apply step_good; assumption.
Qed.

Theorem fbc_log_closed : closed -> forall fuel ri rj s l, R ri rj -> fbc go gn fuel ri rj = Ok s l -> Forall ev_ok l.
Proof.
  intros C fuel ri rj s l Rr. unfold fbc.
  destruct (get go ri) as [ro|] eqn:Hi; [|discriminate].
  destruct (get gn rj) as [rn|] eqn:Hj; [|discriminate].
  destruct (mloop go (tby go gn fuel) ro (all_members rn) (all_members ro) []) as [s1 l1| |] eqn:Hl; try discriminate.
  intros H. inversion H; subst. constructor; [exact Rr|].
  apply (mloop_good _ C (tby_good C fuel) ri rj ro rn Rr Hi Hj (all_members ro) [] s l1); [auto|exact Hl].
Qed.
End Closed.

(* ------------------------------------------------------------------------------------------------------------ *)
(* Part B: silence *)
Theorem silent_general go gn (R : nat -> nat -> Prop) :
  closed go gn R ->
  (forall i j, R i j -> local go gn (EHead i j) = [] /\ local go gn (EMembers i j) = []) ->
  forall fuel ri rj s l, R ri rj -> fbc go gn fuel ri rj = Ok s l -> breakages go gn l = [].
Proof.
  intros C Hloc fuel ri rj s l Rr H.
  pose proof (fbc_log_closed go gn R C fuel ri rj s l Rr H) as F.
  unfold breakages. apply flat_map_nil. intros e He.
  rewrite Forall_forall in F. specialize (F e He). unfold ev_ok in F.
  destruct e as [i j|i j]; simpl in F; apply (Hloc i j F).
Qed.

Lemma wf_node g i n : wf_store g = true -> get g i = Some n ->
  ids_ok g n = true /\ nodup_keys (all_members n) = true /\ sig_ok n = true.
Proof.
  intros W H. unfold wf_store in W. rewrite forallb_forall in W.
  specialize (W n (get_in g i n H)). apply andb_true_iff in W. destruct W as [W S].
  apply andb_true_iff in W. destruct W as [I K]. auto.
Qed.

(* C10's parameter rules of the code under test (fdiff_m = table rules ++ regenerated old-side members of incompatible_kind):
   the old-side members only fire on a parameter whose kind changed *)
Lemma collide_nil ck old new : (forall op, In op old -> find (pname op) new = Some op) -> collide ck old new = [].
Proof.
  intros H. unfold collide. apply flat_map_nil. intros op Hin. unfold collide_one. rewrite (H op Hin), kind_eqb_refl. reflexivity.
Qed.
Lemma fdiff_m_self s : nodup_names s = true -> fdiff_m s s = [].
Proof.
  intros N. unfold fdiff_m, fdiff_g. rewrite (identical_silent s N). simpl. apply collide_nil.
  destruct (nodup_find_index s N) as [F _]. exact F.
Qed.

Lemma local_head_self n j : sig_ok n = true -> local_head n n j = [].
Proof.
  intros S. unfold local_head.
  destruct (is_alias n || is_alias n); [reflexivity|].
  rewrite okind_eqb_refl. simpl.
  destruct (nbody n) as [ex im ms|im bs inh ms|sg ret|v|t] eqn:B; try reflexivity.
  - rewrite natlist_eqb_refl. reflexivity.
  - unfold sig_ok in S. rewrite B in S. rewrite (fdiff_m_self sg S). simpl.
    destruct ret; reflexivity.
  - rewrite odef_eqb_refl. reflexivity.
Qed.

Theorem self_silent g : wf_store g = true ->
  forall fuel r s l, fbc g g fuel r r = Ok s l -> breakages g g l = [].
Proof.
  intros W fuel r s l H.
  apply (silent_general g g (fun i j => i = j)) with (fuel := fuel) (ri := r) (rj := r) (s := s); [| |reflexivity|exact H].
  - split.
    + intros i j oi nj n m mo m' E Hi Hj Hin Hm Hp Hl. subst j. rewrite Hi in Hj. inversion Hj; subst nj.
      destruct (wf_node g i oi W Hi) as [_ [K _]].
      rewrite (nodup_keys_lookup _ K n m Hin) in Hl. inversion Hl. reflexivity.
    + intros i j oi nj i' j' E Hi Hj _ Ti Tj. subst j. rewrite Hi in Hj. inversion Hj; subst nj.
      rewrite Ti in Tj. inversion Tj. reflexivity.
  - intros i j E. subst j. simpl.
    destruct (get g i) as [n|] eqn:Hi; [|split; reflexivity].
    destruct (wf_node g i n W Hi) as [_ [K S]]. split.
    + apply local_head_self. exact S.
    + unfold local_members. apply flat_map_nil. intros [k m] Hin. unfold removed_member. simpl.
      destruct (get g m) as [mo|]; [|reflexivity].
      destruct (is_public n mo); [|reflexivity].
      rewrite (nodup_keys_lookup _ K k m Hin). reflexivity.
Qed.

(* Compatibility extension: on a set U of old objects that contains the root and is closed under public members and
   alias targets, the new store (same indices on U) may only add: extra members anywhere, parameters that leave C10's
   fdiff empty (e.g. optional keyword-only ones, lemma fdiff_add_optional_kwonly), a return annotation, bases without
   shortening the list.  Objects outside U (not publicly reachable) may change arbitrarily. *)
Definition ext_node (oi nj : node) : Prop :=
  match nbody oi, nbody nj with
  | BAlias to, BAlias tn => forall a b, to = TRes a -> tn = TRes b -> a = b
  | BAlias _, _ | _, BAlias _ => False
  | BModule _ _ _, BModule _ _ _ => True
  | BClass _ ob _ _, BClass _ nb _ _ => natlist_eqb nb ob = true \/ List.length ob <= List.length nb
  | BFunction os oret, BFunction ns nret => fdiff_m os ns = [] /\ returns_compatible oret nret = true
  | BAttribute ov, BAttribute nv => ov = nv
  | _, _ => False
  end.
Definition ext_members (go : store) (oi nj : node) : Prop :=
  forall n m mo, In (n, m) (all_members oi) -> get go m = Some mo -> is_public oi mo = true ->
    lookup n (all_members nj) = Some m.

Lemma ext_node_local_head oi nj j : ext_node oi nj -> local_head oi nj j = [].
Proof.
  unfold ext_node, local_head, is_alias, kind_of.
  destruct (nbody oi) as [ex im ms|im bs inh ms|sg ret|v|t]; destruct (nbody nj) as [ex' im' ms'|im' bs' inh' ms'|sg' ret'|v'|t'];
    simpl; intros H; try contradiction; try reflexivity.
  - destruct H as [H|H].
    + rewrite H. reflexivity.
    + destruct (Nat.ltb (List.length bs') (List.length bs)) eqn:E.
      * apply Nat.ltb_lt in E. lia.
      * rewrite andb_false_r. reflexivity.
  - destruct H as [H1 H2]. rewrite H1, H2. reflexivity.
  - subst. rewrite odef_eqb_refl. reflexivity.
Qed.

Theorem extension_silent go gn (U : nat -> Prop) :
  (forall i oi nj, U i -> get go i = Some oi -> get gn i = Some nj -> ext_node oi nj /\ ext_members go oi nj) ->
  (forall i oi n m mo, U i -> get go i = Some oi -> In (n, m) (all_members oi) -> get go m = Some mo ->
     is_public oi mo = true -> U m) ->
  (forall i oi t, U i -> get go i = Some oi -> nbody oi = BAlias (TRes t) -> U t) ->
  forall fuel r s l, U r -> fbc go gn fuel r r = Ok s l -> breakages go gn l = [].
Proof.
  intros Hext Hmem Htgt fuel r s l Ur H.
  apply (silent_general go gn (fun i j => i = j /\ U i)) with (fuel := fuel) (ri := r) (rj := r) (s := s); [| |auto|exact H].
  - split.
    + intros i j oi nj n m mo m' [E Ui] Hi Hj Hin Hm Hp Hl. subst j.
      destruct (Hext i oi nj Ui Hi Hj) as [_ EM].
      rewrite (EM n m mo Hin Hm Hp) in Hl. inversion Hl; subst m'. split; [reflexivity|].
      apply (Hmem i oi n m mo); assumption.
    + intros i j oi nj i' j' [E Ui] Hi Hj Ha Ti Tj. subst j.
      destruct (Hext i oi nj Ui Hi Hj) as [EN _].
      unfold ext_node in EN. unfold tgt_of in Ti, Tj. unfold is_alias in Ha.
      destruct (nbody oi) as [ex im ms|im bs inh ms|sg ret|v|t] eqn:Bo;
        destruct (nbody nj) as [ex' im' ms'|im' bs' inh' ms'|sg' ret'|v'|t'] eqn:Bn; simpl in Ha; try discriminate; try contradiction.
      specialize (EN i' j' Ti Tj). subst j' t.
      split; [reflexivity|]. apply (Htgt i oi i'); assumption.
  - intros i j [E Ui]. subst j. simpl.
    destruct (get go i) as [oi|] eqn:Hi; [|split; reflexivity].
    destruct (get gn i) as [nj|] eqn:Hj; [|split; reflexivity].
    destruct (Hext i oi nj Ui Hi Hj) as [EN EM]. split.
    + apply ext_node_local_head. exact EN.
    + unfold local_members. apply flat_map_nil. intros [k m] Hin. unfold removed_member. simpl.
      destruct (get go m) as [mo|] eqn:Hm; [|reflexivity].
      destruct (is_public oi mo) eqn:Hp; [|reflexivity].
      rewrite (EM k m mo Hin Hm Hp). reflexivity.
Qed.

(* a well-formed node extends itself: extension_silent subsumes "arbitrary changes outside U" *)
Lemma ext_refl go oi : nodup_keys (all_members oi) = true -> sig_ok oi = true -> ext_node oi oi /\ ext_members go oi oi.
Proof.
  intros K S. split.
  - unfold ext_node. destruct (nbody oi) as [ex im ms|im bs inh ms|sg ret|v|t] eqn:B.
    + exact I.
    + left. apply natlist_eqb_refl.
    + unfold sig_ok in S. rewrite B in S. split; [apply fdiff_m_self; exact S|destruct ret; reflexivity].
    + reflexivity.
    + intros a b E1 E2. congruence.
  - intros n m mo Hin _ _. apply nodup_keys_lookup; assumption.
Qed.

Theorem private_changes_silent go gn (U : nat -> Prop) :
  wf_store go = true ->
  (forall i, U i -> get gn i = get go i) ->
  (forall i oi n m mo, U i -> get go i = Some oi -> In (n, m) (all_members oi) -> get go m = Some mo ->
     is_public oi mo = true -> U m) ->
  (forall i oi t, U i -> get go i = Some oi -> nbody oi = BAlias (TRes t) -> U t) ->
  forall fuel r s l, U r -> fbc go gn fuel r r = Ok s l -> breakages go gn l = [].
Proof.
  intros W Hag Hmem Htgt. apply extension_silent; [|exact Hmem|exact Htgt].
  intros i oi nj Ui Hi Hj. rewrite (Hag i Ui), Hi in Hj. inversion Hj; subst nj.
  destruct (wf_node go i oi W Hi) as [_ [K S]]. apply ext_refl; assumption.
Qed.

(* ------------------------------------------------------------------------------------------------------------ *)
(* Part C: soundness -- reports only stem from pairs reachable through public members and alias targets *)
Section Sound.
Variables go gn : store.
Variables ri rj : nat.

Inductive PubReach : nat -> nat -> Prop :=
| PR_root : PubReach ri rj
| PR_member i j oi nj n m mo m' : PubReach i j -> get go i = Some oi -> get gn j = Some nj ->
    In (n, m) (all_members oi) -> get go m = Some mo -> is_public oi mo = true ->
    lookup n (all_members nj) = Some m' -> PubReach m m'
| PR_target i j oi nj i' j' : PubReach i j -> get go i = Some oi -> get gn j = Some nj ->
    is_alias oi || is_alias nj = true -> tgt_of oi i = TRes i' -> tgt_of nj j = TRes j' -> PubReach i' j'.

Lemma PubReach_closed : closed go gn PubReach.
Proof.
  split.
  - intros i j oi nj n m mo m' H. apply PR_member. exact H.
  - intros i j oi nj i' j' H. apply PR_target. exact H.
Qed.

Theorem reports_from_public_pairs fuel s l b :
  fbc go gn fuel ri rj = Ok s l -> In b (breakages go gn l) ->
  exists e, In e l /\ In b (local go gn e) /\ PubReach (fst (ev_pair e)) (snd (ev_pair e)).
Proof.
  intros H Hb. unfold breakages in Hb. apply in_flat_map in Hb. destruct Hb as [e [He Hb]].
  exists e. split; [exact He|]. split; [exact Hb|].
  pose proof (fbc_log_closed go gn PubReach PubReach_closed fuel ri rj s l PR_root H) as F.
  rewrite Forall_forall in F. exact (F e He).
Qed.
End Sound.

(* the object a breakage is reported against: the old member for a removal, the new counterpart otherwise *)
Definition is_removal (b : breakage) := match b with BRemoved _ => true | _ => false end.
Definition brk_obj (b : breakage) : nat :=
  match b with BRemoved o => o | BKind n | BBase n | BValue n | BParam n _ | BReturn n => n end.

Lemma local_head_obj oi nj j b : In b (local_head oi nj j) -> is_removal b = false /\ brk_obj b = j.
Proof.
  unfold local_head.
  destruct (is_alias oi || is_alias nj); [intros []|].
  destruct (negb (okind_eqb (kind_of oi) (kind_of nj))).
  - intros [H|[]]. subst. auto.
  - destruct (nbody oi) as [ex im ms|im bs inh ms|sg ret|v|t]; destruct (nbody nj) as [ex' im' ms'|im' bs' inh' ms'|sg' ret'|v'|t'];
      try (intros []).
    + destruct (negb (natlist_eqb bs' bs) && Nat.ltb (List.length bs') (List.length bs)); [|intros []].
      intros [H|[]]. subst. auto.
    + intros H. apply in_app_or in H. destruct H as [H|H].
      * apply in_map_iff in H. destruct H as [p [E _]]. subst. auto.
      * destruct (returns_compatible ret ret'); [destruct H|]. destruct H as [H|[]]. subst. auto.
    + destruct (odef_eqb v v'); [intros []|]. intros [H|[]]. subst. auto.
Qed.

Lemma local_members_inv go oi nj b : In b (local_members go oi nj) ->
  exists n m mo, b = BRemoved m /\ In (n, m) (all_members oi) /\ get go m = Some mo /\ is_public oi mo = true /\
                 lookup n (all_members nj) = None.
Proof.
  unfold local_members. intros H. apply in_flat_map in H. destruct H as [[n m] [Hin H]].
  unfold removed_member in H. simpl in H.
  destruct (get go m) as [mo|] eqn:Hm; [|destruct H].
  destruct (is_public oi mo) eqn:Hp; [|destruct H].
  destruct (lookup n (all_members nj)) eqn:Hl; [destruct H|].
  destruct H as [H|[]]. exists n, m, mo. auto.
Qed.

(* every reported object other than a removal is the new counterpart of a publicly reachable old object; every
   removed object is a public member (by is_public) of a publicly reachable old object *)
Theorem private_never_reported go gn fuel ri rj s l b :
  fbc go gn fuel ri rj = Ok s l -> In b (breakages go gn l) ->
  (is_removal b = false /\ exists i, PubReach go gn ri rj i (brk_obj b)) \/
  (is_removal b = true /\ exists i j oi n mo, PubReach go gn ri rj i j /\ get go i = Some oi /\
      In (n, brk_obj b) (all_members oi) /\ get go (brk_obj b) = Some mo /\ is_public oi mo = true).
Proof.
  intros H Hb. destruct (reports_from_public_pairs go gn ri rj fuel s l b H Hb) as [e [He [Hl P]]].
  destruct e as [i j|i j]; simpl in Hl, P.
  - destruct (get go i) as [oi|]; [|destruct Hl]. destruct (get gn j) as [nj|]; [|destruct Hl].
    destruct (local_head_obj oi nj j b Hl) as [R O]. left. split; [exact R|]. exists i. rewrite O. exact P.
  - destruct (get go i) as [oi|] eqn:Hi; [|destruct Hl]. destruct (get gn j) as [nj|]; [|destruct Hl].
    destruct (local_members_inv go oi nj b Hl) as [n [m [mo [E [Hin [Hm [Hp _]]]]]]]. subst b. right.
    split; [reflexivity|]. exists i, j, oi, n, mo. simpl. auto.
Qed.

(* ------------------------------------------------------------------------------------------------------------ *)
(* Part D: completeness -- every pair the traversal must visit is examined (seen_paths holds (old, new) pairs) *)
Fixpoint heads (l : list ev) : list (nat * nat) :=
  match l with [] => [] | EHead i j :: r => (i, j) :: heads r | EMembers _ _ :: r => heads r end.
Lemma heads_app a b : heads (a ++ b) = heads a ++ heads b.
Proof. induction a as [|[i j|i j] r IH]; simpl; [reflexivity| |]; rewrite IH; reflexivity. Qed.
Lemma in_heads l i j : In (i, j) (heads l) <-> In (EHead i j) l.
Proof.
  induction l as [|[a b|a b] r IH]; simpl.
  - tauto.
  - split.
    + intros [E|H]; [inversion E; subst; left; reflexivity|right; apply IH; exact H].
    + intros [E|H]; [inversion E; subst; left; reflexivity|right; apply IH; exact H].
  - split.
    + intros H. right. apply IH. exact H.
    + intros [E|H]; [discriminate|apply IH; exact H].
Qed.
Lemma pmem_in i j l : pmem i j l = true -> In (i, j) l.
Proof.
  unfold pmem. intros H. apply existsb_exists in H. destruct H as [[a b] [Hy E]]. simpl in E.
  apply andb_true_iff in E. destruct E as [E1 E2]. apply Nat.eqb_eq in E1. apply Nat.eqb_eq in E2. subst. exact Hy.
Qed.
Lemma in_pmem i j l : In (i, j) l -> pmem i j l = true.
Proof. intros H. unfold pmem. apply existsb_exists. exists (i, j). split; [exact H|]. simpl. rewrite !Nat.eqb_refl. reflexivity. Qed.

Section Closure.
Variables go gn : store.

Definition lc_target (s : list (nat * nat)) (l : list ev) : Prop :=
  forall i j oi nj i' j', In (EHead i j) l -> get go i = Some oi -> get gn j = Some nj ->
    is_alias oi || is_alias nj = true -> tgt_of oi i = TRes i' -> tgt_of nj j = TRes j' -> In (i', j') s.
Definition lc_members (l : list ev) : Prop :=
  forall i j oi nj, In (EHead i j) l -> get go i = Some oi -> get gn j = Some nj ->
    is_alias oi || is_alias nj = false -> okind_eqb (kind_of oi) (kind_of nj) = true -> is_container oi = true ->
    In (EMembers i j) l.
Definition lc_scan (s : list (nat * nat)) (l : list ev) : Prop :=
  forall i j oi nj n m mo m', In (EMembers i j) l -> get go i = Some oi -> get gn j = Some nj ->
    In (n, m) (all_members oi) -> get go m = Some mo -> is_public oi mo = true ->
    lookup n (all_members nj) = Some m' -> In (m, m') s.
Definition log_closed (s : list (nat * nat)) (l : list ev) : Prop := lc_target s l /\ lc_members l /\ lc_scan s l.
Definition seen_spec (seen s : list (nat * nat)) (l : list ev) : Prop := forall x, In x s <-> In x seen \/ In x (heads l).
Definition good2 (rec : list (nat * nat) -> nat -> nat -> res) : Prop :=
  forall seen i j s l, rec seen i j = Ok s l -> seen_spec seen s l /\ In (i, j) s /\ log_closed s l.

Lemma log_closed_mono s s' l : (forall x, In x s -> In x s') -> log_closed s l -> log_closed s' l.
Proof.
  intros M [T [Mm S]]. split; [|split].
  - intros i j oi nj i' j' H1 H2 H3 H4 H5 H6. apply M. apply (T i j oi nj i' j'); assumption.
  - exact Mm.
  - intros i j oi nj n m mo m' H1 H2 H3 H4 H5 H6 H7. apply M. apply (S i j oi nj n m mo m'); assumption.
Qed.
Lemma log_closed_app s a b : log_closed s a -> log_closed s b -> log_closed s (a ++ b).
Proof.
  intros [Ta [Ma Sa]] [Tb [Mb Sb]]. split; [|split].
  - intros i j oi nj i' j' H. apply in_app_or in H. destruct H as [H|H]; [apply (Ta i j oi nj i' j' H)|apply (Tb i j oi nj i' j' H)].
  - intros i j oi nj H H2 H3 H4 H5 H6. apply in_or_app. apply in_app_or in H.
    destruct H as [H|H]; [left; apply (Ma i j oi nj); assumption|right; apply (Mb i j oi nj); assumption].
  - intros i j oi nj n m mo m' H. apply in_app_or in H. destruct H as [H|H]; [apply (Sa i j oi nj n m mo m' H)|apply (Sb i j oi nj n m mo m' H)].
Qed.
Lemma log_closed_nil s : log_closed s [].
Proof.
  split; [|split].
  - intros i j oi nj i' j' [].
  - intros i j oi nj [].
  - intros i j oi nj n m mo m' [].
Qed.

Lemma mloop_good2 rec oi nms : good2 rec ->
  forall ms seen s l, mloop go rec oi nms ms seen = Ok s l ->
    seen_spec seen s l /\ log_closed s l /\
    (forall n m mo m', In (n, m) ms -> get go m = Some mo -> is_public oi mo = true -> lookup n nms = Some m' -> In (m, m') s).
Proof.
  intros G. induction ms as [|[n m] r IH]; intros seen s l; simpl.
  - intros H. inversion H; subst. split; [|split].
    + intros x. simpl. tauto.
    + apply log_closed_nil.
    + intros n m mo m' [].
  - destruct (get go m) as [mo|] eqn:Hm; [|discriminate].
    destruct (negb (is_public oi mo)) eqn:Hp.
    { intros H. destruct (IH seen s l H) as [A [B C]]. split; [exact A|split; [exact B|]].
      intros n0 m0 mo0 m0' [E|Hin] H1 H2 H3.
      - inversion E; subst. rewrite Hm in H1. inversion H1; subst. apply negb_true_iff in Hp. congruence.
      - apply (C n0 m0 mo0 m0'); assumption. }
    destruct (lookup n nms) as [m'|] eqn:Hl.
    2:{ intros H. destruct (IH seen s l H) as [A [B C]]. split; [exact A|split; [exact B|]].
      intros n0 m0 mo0 m0' [E|Hin] H1 H2 H3.
      - inversion E; subst. congruence.
      - apply (C n0 m0 mo0 m0'); assumption. }
    destruct (rec seen m m') as [s1 l1| |] eqn:Hrec; try discriminate.
    destruct (mloop go rec oi nms r s1) as [s2 l2| |] eqn:Hloop; try discriminate.
    intros H. inversion H; subst.
    destruct (G seen m m' s1 l1 Hrec) as [A1 [I1 C1]].
    destruct (IH s1 s l2 Hloop) as [A2 [C2 S2]].
    assert (M : forall x, In x s1 -> In x s) by (intros x Hx; apply A2; left; exact Hx).
    split; [|split].
    + intros x. rewrite heads_app. rewrite in_app_iff. rewrite (A2 x). rewrite (A1 x). tauto.
    + apply log_closed_app; [apply (log_closed_mono s1 s l1 M C1)|exact C2].
    + intros n0 m0 mo0 m0' [E|Hin] H1 H2 H3.
      * inversion E; subst. rewrite Hl in H3. inversion H3; subst. apply M. exact I1.
      * apply (S2 n0 m0 mo0 m0'); assumption.
Qed.

Lemma head_only_closed s i j oi nj :
  get go i = Some oi -> get gn j = Some nj ->
  (is_alias oi || is_alias nj = true -> forall i' j', tgt_of oi i = TRes i' -> tgt_of nj j = TRes j' -> In (i', j') s) ->
  (is_alias oi || is_alias nj = false -> okind_eqb (kind_of oi) (kind_of nj) = true -> is_container oi = true -> False) ->
  log_closed s [EHead i j].
Proof.
  intros Hi Hj HT HM. split; [|split].
  - intros i0 j0 oi0 nj0 i' j' [E|[]] H2 H3 H4 H5 H6. inversion E; subst.
    rewrite Hi in H2. rewrite Hj in H3. inversion H2; inversion H3; subst. apply (HT H4 i' j'); assumption.
  - intros i0 j0 oi0 nj0 [E|[]] H2 H3 H4 H5 H6. inversion E; subst.
    rewrite Hi in H2. rewrite Hj in H3. inversion H2; inversion H3; subst. exfalso. apply HM; assumption.
  - intros i0 j0 oi0 nj0 n m mo m' [E|[]]. discriminate.
Qed.

Lemma step_good2 rec : good2 rec -> good2 (step go gn rec).
Proof.
  intros G seen i j s l. unfold step.
  destruct (pmem i j seen) eqn:Hseen.
  { intros H. inversion H; subst. split; [|split].
    - intros x. simpl. tauto.
    - apply pmem_in. exact Hseen.
    - apply log_closed_nil. }
  destruct (get go i) as [oi|] eqn:Hi; [|discriminate].
  destruct (get gn j) as [nj|] eqn:Hj; [|discriminate].
  assert (Single : log_closed ((i, j) :: seen) [EHead i j] -> Ok ((i, j) :: seen) [EHead i j] = Ok s l ->
            seen_spec seen s l /\ In (i, j) s /\ log_closed s l).
  { intros C H. inversion H; subst. split; [|split; [left; reflexivity|exact C]].
    intros x. simpl. tauto. }
  destruct (is_alias oi || is_alias nj) eqn:Ha.
  - destruct (tgt_of oi i) as [i'| |] eqn:Ti.
    + destruct (tgt_of nj j) as [j'| |] eqn:Tj.
      * destruct (rec ((i, j) :: seen) i' j') as [s1 l1| |] eqn:Hrec; try discriminate.
        intros H. inversion H; subst.
        destruct (G ((i, j) :: seen) i' j' s l1 Hrec) as [A [I C]].
        split; [|split].
        -- intros x. simpl. rewrite (A x). simpl. tauto.
        -- apply A. left. left. reflexivity.
        -- change (EHead i j :: l1) with ([EHead i j] ++ l1). apply log_closed_app; [|exact C].
           apply (head_only_closed s i j oi nj Hi Hj).
           ++ intros _ i2 j2 E1 E2. rewrite Ti in E1. rewrite Tj in E2. inversion E1; inversion E2; subst. exact I.
           ++ intros E. congruence.
      * apply Single. apply (head_only_closed _ i j oi nj Hi Hj); [intros _ i2 j2 _ E; congruence|intros E; congruence].
      * apply Single. apply (head_only_closed _ i j oi nj Hi Hj); [intros _ i2 j2 _ E; congruence|intros E; congruence].
    + apply Single. apply (head_only_closed _ i j oi nj Hi Hj); [intros _ i2 j2 E; congruence|intros E; congruence].
    + apply Single. apply (head_only_closed _ i j oi nj Hi Hj); [intros _ i2 j2 E; congruence|intros E; congruence].
  - destruct (negb (okind_eqb (kind_of oi) (kind_of nj))) eqn:Hk.
    + apply Single. apply (head_only_closed _ i j oi nj Hi Hj); [intros E; congruence|].
      intros _ E. apply negb_true_iff in Hk. congruence.
    + destruct (is_container oi) eqn:Hc.
      * destruct (mloop go rec oi (all_members nj) (all_members oi) ((i, j) :: seen)) as [s1 l1| |] eqn:Hl; try discriminate.
        intros H. inversion H; subst.
        destruct (mloop_good2 rec oi (all_members nj) G (all_members oi) ((i, j) :: seen) s l1 Hl) as [A [C S]].
        split; [|split].
        -- intros x. simpl. rewrite (A x). simpl. tauto.
        -- apply A. left. left. reflexivity.
        -- change (EHead i j :: EMembers i j :: l1) with ([EHead i j; EMembers i j] ++ l1). apply log_closed_app; [|exact C].
           split; [|split].
           ++ intros i0 j0 oi0 nj0 i' j' [E|[E|[]]] H2 H3 H4 H5 H6; [|discriminate]. inversion E; subst.
              rewrite Hi in H2. rewrite Hj in H3. inversion H2; inversion H3; subst. congruence.
           ++ intros i0 j0 oi0 nj0 [E|[E|[]]] H2 H3 H4 H5 H6; [|discriminate]. inversion E; subst. right. left. reflexivity.
           ++ intros i0 j0 oi0 nj0 n m mo m' [E|[E|[]]] H2 H3 H4 H5 H6 H7; [discriminate|]. inversion E; subst.
              rewrite Hi in H2. rewrite Hj in H3. inversion H2; inversion H3; subst. apply (S n m mo m'); assumption.
      * apply Single. apply (head_only_closed _ i j oi nj Hi Hj); [intros E; congruence|]. intros _ _ E. congruence.
Qed.

Lemma tby_good2 : forall fuel, good2 (tby go gn fuel).
Proof.
  induction fuel as [|f IH]; simpl.
  - intros seen i j s l H. discriminate.
  - apply step_good2. exact IH.
Qed.

Theorem fbc_closed fuel ri rj s l : fbc go gn fuel ri rj = Ok s l ->
  seen_spec [] s l /\ log_closed s l /\ In (EMembers ri rj) l.
Proof.
  unfold fbc.
  destruct (get go ri) as [ro|] eqn:Hi; [|discriminate].
  destruct (get gn rj) as [rn|] eqn:Hj; [|discriminate].
  destruct (mloop go (tby go gn fuel) ro (all_members rn) (all_members ro) []) as [s1 l1| |] eqn:Hl; try discriminate.
  intros H. inversion H; subst.
  destruct (mloop_good2 _ ro (all_members rn) (tby_good2 fuel) (all_members ro) [] s l1 Hl) as [A [C S]].
  split; [|split].
  - intros x. simpl. apply A.
  - change (EMembers ri rj :: l1) with ([EMembers ri rj] ++ l1). apply log_closed_app; [|exact C].
    split; [|split].
    + intros i0 j0 oi0 nj0 i' j' [E|[]]. discriminate.
    + intros i0 j0 oi0 nj0 [E|[]]. discriminate.
    + intros i0 j0 oi0 nj0 n m mo m' [E|[]] H2 H3 H4 H5 H6 H7. inversion E; subst.
      rewrite Hi in H2. rewrite Hj in H3. inversion H2; inversion H3; subst. apply (S n m mo m'); assumption.
  - left. reflexivity.
Qed.
End Closure.

Section Complete.
Variables go gn : store.
Variables ri rj : nat.

(* the pairs the comparison must examine: public members of the root, public members of a visited container whose
   counterpart is a container of the same kind, resolvable targets of a visited pair with an alias on either side *)
Inductive Visit : nat -> nat -> Prop :=
| V_root_member oi nj n m mo m' : get go ri = Some oi -> get gn rj = Some nj ->
    In (n, m) (all_members oi) -> get go m = Some mo -> is_public oi mo = true ->
    lookup n (all_members nj) = Some m' -> Visit m m'
| V_member i j oi nj n m mo m' : Visit i j -> get go i = Some oi -> get gn j = Some nj ->
    is_alias oi || is_alias nj = false -> okind_eqb (kind_of oi) (kind_of nj) = true -> is_container oi = true ->
    In (n, m) (all_members oi) -> get go m = Some mo -> is_public oi mo = true ->
    lookup n (all_members nj) = Some m' -> Visit m m'
| V_target i j oi nj i' j' : Visit i j -> get go i = Some oi -> get gn j = Some nj ->
    is_alias oi || is_alias nj = true -> tgt_of oi i = TRes i' -> tgt_of nj j = TRes j' -> Visit i' j'.

Lemma visit_pubreach i j : Visit i j -> PubReach go gn ri rj i j.
Proof.
  induction 1 as [oi nj n m mo m' Hi Hj Hin Hm Hp Hl
                 |i j oi nj n m mo m' Hr IH Hi Hj Ha Hk Hcont Hin Hm Hp Hl
                 |i j oi nj i' j' Hr IH Hi Hj Ha Ti Tj].
  - apply (PR_member go gn ri rj ri rj oi nj n m mo m'); try assumption. apply PR_root.
  - apply (PR_member go gn ri rj i j oi nj n m mo m'); assumption.
  - apply (PR_target go gn ri rj i j oi nj i' j'); assumption.
Qed.

Variables (fuel : nat) (s : list (nat * nat)) (l : list ev).
Hypothesis Hrun : fbc go gn fuel ri rj = Ok s l.

Lemma seen_logged i j : In (i, j) s -> In (EHead i j) l.
Proof.
  intros H. destruct (fbc_closed go gn fuel ri rj s l Hrun) as [A _].
  apply A in H. destruct H as [[]|H]. apply in_heads. exact H.
Qed.

Theorem visit_logged i j : Visit i j -> In (EHead i j) l.
Proof.
  destruct (fbc_closed go gn fuel ri rj s l Hrun) as [A [[T [M S]] Rt]].
  induction 1 as [oi nj n m mo m' Hi Hj Hin Hm Hp Hl
                 |i j oi nj n m mo m' Hr IH Hi Hj Ha Hk Hcont Hin Hm Hp Hl
                 |i j oi nj i' j' Hr IH Hi Hj Ha Ti Tj].
  - apply seen_logged. apply (S ri rj oi nj n m mo m'); assumption.
  - apply seen_logged. apply (S i j oi nj n m mo m'); try assumption. apply (M i j oi nj); assumption.
  - apply seen_logged. apply (T i j oi nj i' j'); assumption.
Qed.

(* whatever is locally incompatible at a visited pair is reported *)
Theorem head_complete i j b : Visit i j -> In b (local go gn (EHead i j)) -> In b (breakages go gn l).
Proof.
  intros Hv Hb. unfold breakages. apply in_flat_map. exists (EHead i j). split; [apply visit_logged; exact Hv|exact Hb].
Qed.

Definition Scanned (c j : nat) : Prop :=
  (c = ri /\ j = rj) \/
  (Visit c j /\
   exists oi nj, get go c = Some oi /\ get gn j = Some nj /\ is_alias oi || is_alias nj = false /\
                 okind_eqb (kind_of oi) (kind_of nj) = true /\ is_container oi = true).

Theorem members_complete c j b : Scanned c j -> In b (local go gn (EMembers c j)) -> In b (breakages go gn l).
Proof.
  intros Hs Hb. unfold breakages. apply in_flat_map. exists (EMembers c j). split; [|exact Hb].
  destruct (fbc_closed go gn fuel ri rj s l Hrun) as [A [[T [M S]] Rt]].
  destruct Hs as [[E1 E2]|[Hv [oi [nj [Hi [Hj [Ha [Hk Hcont]]]]]]]].
  - subst. exact Rt.
  - apply (M c j oi nj); try assumption. apply visit_logged. exact Hv.
Qed.

Theorem public_removal_reported c j oi nj n m mo :
  Scanned c j -> get go c = Some oi -> get gn j = Some nj ->
  In (n, m) (all_members oi) -> get go m = Some mo -> is_public oi mo = true -> lookup n (all_members nj) = None ->
  In (BRemoved m) (breakages go gn l).
Proof.
  intros Hs Hi Hj Hin Hm Hp Hl. apply (members_complete c j); [exact Hs|].
  simpl. rewrite Hi, Hj. unfold local_members. apply in_flat_map. exists (n, m). split; [exact Hin|].
  unfold removed_member. simpl. rewrite Hm, Hp, Hl. left. reflexivity.
Qed.

Theorem rekinding_reported c j oi nj :
  Visit c j -> get go c = Some oi -> get gn j = Some nj ->
  is_alias oi = false -> is_alias nj = false -> kind_of oi <> kind_of nj ->
  In (BKind j) (breakages go gn l).
Proof.
  intros Hv Hi Hj A1 A2 Hk. apply (head_complete c j); [exact Hv|].
  simpl. rewrite Hi, Hj. unfold local_head. rewrite A1, A2. simpl.
  destruct (okind_eqb (kind_of oi) (kind_of nj)) eqn:E.
  - exfalso. apply Hk. destruct (kind_of oi), (kind_of nj); simpl in E; try discriminate; reflexivity.
  - simpl. left. reflexivity.
Qed.

Theorem base_removed_reported c j oi nj im ob inh ms im' nb inh' ms' :
  Visit c j -> get go c = Some oi -> get gn j = Some nj ->
  nbody oi = BClass im ob inh ms -> nbody nj = BClass im' nb inh' ms' ->
  List.length nb < List.length ob ->
  In (BBase j) (breakages go gn l).
Proof.
  intros Hv Hi Hj Bo Bn Hlen. apply (head_complete c j); [exact Hv|].
  simpl. rewrite Hi, Hj. unfold local_head, is_alias, kind_of. rewrite Bo, Bn. simpl.
  assert (E : natlist_eqb nb ob = false).
  { destruct (natlist_eqb nb ob) eqn:E; [|reflexivity]. exfalso.
    assert (L : forall a b, natlist_eqb a b = true -> List.length a = List.length b).
    { induction a as [|x a IH]; destruct b as [|y b]; simpl; intros H; try discriminate; [reflexivity|].
      apply andb_true_iff in H. destruct H as [_ H]. rewrite (IH b H). reflexivity. }
    apply L in E. lia. }
  rewrite E. simpl. apply Nat.ltb_lt in Hlen. rewrite Hlen. left. reflexivity.
Qed.

Theorem value_changed_reported c j oi nj ov nv :
  Visit c j -> get go c = Some oi -> get gn j = Some nj ->
  nbody oi = BAttribute ov -> nbody nj = BAttribute nv -> ov <> nv ->
  In (BValue j) (breakages go gn l).
Proof.
  intros Hv Hi Hj Bo Bn Hne. apply (head_complete c j); [exact Hv|].
  simpl. rewrite Hi, Hj. unfold local_head, is_alias, kind_of. rewrite Bo, Bn. simpl.
  destruct (odef_eqb ov nv) eqn:E; [apply odef_eqb_eq in E; contradiction|]. left. reflexivity.
Qed.

Theorem parameter_breakage_reported c j oi nj os oret ns nret p :
  Visit c j -> get go c = Some oi -> get gn j = Some nj ->
  nbody oi = BFunction os oret -> nbody nj = BFunction ns nret -> In p (fdiff_m os ns) ->
  In (BParam j p) (breakages go gn l).
Proof.
  intros Hv Hi Hj Bo Bn Hp. apply (head_complete c j); [exact Hv|].
  simpl. rewrite Hi, Hj. unfold local_head, is_alias, kind_of. rewrite Bo, Bn. simpl.
  apply in_or_app. left. apply in_map. exact Hp.
Qed.
End Complete.

(* the former witness of finding C11-F2 (repaired: seen_paths holds pairs).  old: pkg exports f, g (both re-exports of
   pkg.a.f), submodule a defines f and K;  new: g re-exports pkg.a.K.  The re-kinding is now reported. *)
Definition f2_mod_a := mkNode "a" None (BModule None [] [("f", 4); ("K", 5)]).
Definition f2_old : store :=
  [ mkNode "pkg" None (BModule (Some ["f"; "g"]) ["f"; "g"] [("f", 1); ("g", 2); ("a", 3)]);
    mkNode "f" None (BAlias (TRes 4)); mkNode "g" None (BAlias (TRes 4)); f2_mod_a;
    mkNode "f" None (BFunction [] None); mkNode "K" None (BClass [] [] [] []) ].
Definition f2_new : store :=
  [ mkNode "pkg" None (BModule (Some ["f"; "g"]) ["f"; "g"] [("f", 1); ("g", 2); ("a", 3)]);
    mkNode "f" None (BAlias (TRes 4)); mkNode "g" None (BAlias (TRes 5)); f2_mod_a;
    mkNode "f" None (BFunction [] None); mkNode "K" None (BClass [] [] [] []) ].
Example retargeted_reexport_reported : exists s l,
  fbc f2_old f2_new (default_fuel f2_old f2_new) 0 0 = Ok s l /\ breakages f2_old f2_new l = [BKind 5].
Proof. eexists. eexists. split; vm_compute; reflexivity. Qed.

(* the former witness of finding C11-F1 (repaired): a publicly reachable cyclic re-export is skipped *)
Definition f1_store : store :=
  [ mkNode "pkg" None (BModule (Some ["x"]) ["x"] [("x", 1)]); mkNode "x" None (BAlias TCyc) ].
Example cyclic_reexport_skipped : exists s l,
  fbc f1_store f1_store (default_fuel f1_store f1_store) 0 0 = Ok s l /\ breakages f1_store f1_store l = [] /\
  check_exit f1_store f1_store (Ok s l) = 0.
Proof. eexists. eexists. split; [vm_compute; reflexivity|]. split; reflexivity. Qed.

(* ------------------------------------------------------------------------------------------------------------ *)
(* Part F: exit code; is_public against its documented ladder *)
Theorem exit_code_iff go gn r :
  check_exit go gn r = 0 <-> exists s l, r = Ok s l /\ breakages go gn l = [].
Proof.
  unfold check_exit. split.
  - destruct r as [s l| |]; try discriminate.
    destruct (breakages go gn l) eqn:E; [|discriminate]. intros _. exists s, l. split; [reflexivity|exact E].
  - intros [s [l [E B]]]. subst r. rewrite B. reflexivity.
Qed.

Theorem is_public_matches_doc p m : is_public p m = is_public_doc p m.
Proof.
  (* is_public is the ladder regenerated from mixins.py (Gen/C11_ladder.v) applied to the facts of (p, m): this proof is
     what fails when the code's ladder stops being the documented one *)
  unfold is_public, is_public_gen, is_imported_gen, facts_of, is_public_doc, listed_in_all, defines_all, is_private, is_module. simpl.
  destruct (npublic m); [reflexivity|].
  destruct (negb (is_alias m) && match nbody m with BModule _ _ _ => true | _ => false end && negb (starts_with "_" (nname m))); [reflexivity|].
  destruct (nbody p) as [ex im ms|im bs inh ms|sg ret|v|t]; simpl; try reflexivity.
  destruct ex as [es|]; [|reflexivity]. destruct (smem (nname m) es); reflexivity.
Qed.
(* the former witness of finding C11-F3 (repaired): under an empty __all__ an unlisted function is private *)
Example empty_all_is_honoured :
  is_public (mkNode "pkg" None (BModule (Some []) [] [("f", 1)])) (mkNode "f" None (BFunction [] None)) = false.
Proof. reflexivity. Qed.

(* the name predicates on the usual suspects (non-vacuity / regression examples) *)
Example names_ok :
  map is_private ["f"; "_f"; "__f"; "__f__"; "__"; "_"] = [false; true; true; false; false; true] /\
  map is_special ["f"; "_f"; "__f"; "__f__"; "__"; "_"] = [false; false; false; true; true; false].
Proof. split; reflexivity. Qed.

(* ------------------------------------------------------------------------------------------------------------ *)
(* Part B': the catalogue edit "add optional keyword-only parameters" leaves C10's fdiff_m (the code under test) empty *)
Lemma per_old_same new i p :
  find (pname p) new = Some p -> (is_pos (pkind p) = true -> index_of (pname p) new = i) -> per_old new i p = [].
Proof.
  intros Hf Hi. unfold per_old. rewrite Hf, kind_eqb_refl, odef_eqb_refl.
  destruct (is_pos (pkind p)) eqn:E.
  - rewrite (Hi eq_refl), Nat.eqb_refl. destruct (required p); simpl; rewrite ?andb_false_r; reflexivity.
  - destruct (required p); simpl; rewrite ?andb_false_r; reflexivity.
Qed.
Lemma olds_same new : forall r k,
  (forall oi op, nth_error r oi = Some op ->
     find (pname op) new = Some op /\ (is_pos (pkind op) = true -> index_of (pname op) new = k + oi)) ->
  olds new k r = [].
Proof.
  induction r as [|p r IH]; intros k H; simpl; [reflexivity|].
  destruct (H 0 p eq_refl) as [Hf Hi]. rewrite per_old_same; [|exact Hf|intros E; rewrite (Hi E); lia].
  simpl. apply IH. intros oi op Hn. destruct (H (S oi) op Hn) as [Hf' Hi']. split; [exact Hf'|].
  intros E. rewrite (Hi' E). lia.
Qed.
Theorem fdiff_nil_general old new :
  (forall oi op, nth_error old oi = Some op ->
     find (pname op) new = Some op /\ (is_pos (pkind op) = true -> index_of (pname op) new = oi)) ->
  (forall np, In np new -> find (pname np) old = None -> required np = false) ->
  fdiff old new = [].
Proof.
  intros Ho Hn. unfold fdiff. rewrite (olds_same new old 0 Ho). simpl.
  unfold added. apply flat_map_nil. intros np Hin.
  destruct (find (pname np) old) eqn:E; [reflexivity|]. rewrite (Hn np Hin E). reflexivity.
Qed.

Theorem fdiff_m_nil_general old new :
  (forall oi op, nth_error old oi = Some op ->
     find (pname op) new = Some op /\ (is_pos (pkind op) = true -> index_of (pname op) new = oi)) ->
  (forall np, In np new -> find (pname np) old = None -> required np = false) ->
  fdiff_m old new = [].
Proof.
  intros Ho Hn. unfold fdiff_m, fdiff_g. rewrite (fdiff_nil_general old new Ho Hn). simpl. apply collide_nil.
  intros op Hin. apply In_nth_error in Hin. destruct Hin as [oi Hoi]. exact (proj1 (Ho oi op Hoi)).
Qed.

Lemma find_app n a b : find n (a ++ b) = match find n a with Some p => Some p | None => find n b end.
Proof. induction a as [|q a IH]; simpl; [reflexivity|]. destruct (Nat.eqb (pname q) n); [reflexivity|exact IH]. Qed.
Lemma index_of_app_found n a b p : find n a = Some p -> index_of n (a ++ b) = index_of n a.
Proof.
  induction a as [|q a IH]; simpl; [discriminate|].
  destruct (Nat.eqb (pname q) n); [reflexivity|]. intros H. rewrite (IH H). reflexivity.
Qed.

Theorem fdiff_add_optional_kwonly s1 extra s2 :
  nodup_names (s1 ++ s2) = true ->
  (forall p, In p s2 -> is_pos (pkind p) = false) ->
  (forall p, In p extra -> pkind p = KO /\ required p = false /\ find (pname p) (s1 ++ s2) = None) ->
  fdiff_m (s1 ++ s2) (s1 ++ extra ++ s2) = [].
Proof.
  intros Nd Hs2 Hex. destruct (nodup_find_index (s1 ++ s2) Nd) as [F I].
  assert (Fresh : forall n, (exists q, In q (s1 ++ s2) /\ pname q = n) -> find n extra = None).
  { intros n [q [Hq En]]. destruct (find n extra) as [e|] eqn:E; [|reflexivity]. exfalso.
    destruct (find_some_in n extra e E) as [He Ee]. destruct (Hex e He) as [_ [_ Hnone]].
    apply (find_none_notin (pname e) (s1 ++ s2) Hnone q Hq). congruence. }
  apply fdiff_m_nil_general.
  - intros oi op Hn. assert (Hin : In op (s1 ++ s2)) by (eapply nth_error_In; eauto).
    pose proof (F op Hin) as Fo. pose proof (I oi op Hn) as Io.
    rewrite find_app in Fo. rewrite find_app.
    destruct (find (pname op) s1) as [q|] eqn:E1.
    + inversion Fo; subst q. split; [reflexivity|]. intros _.
      rewrite (index_of_app_found _ s1 (extra ++ s2) op E1). rewrite (index_of_app_found _ s1 s2 op E1) in Io. exact Io.
    + rewrite find_app. rewrite (Fresh (pname op)); [|exists op; split; [exact Hin|reflexivity]].
      split; [exact Fo|]. intros Pos. exfalso.
      destruct (find_some_in _ _ _ Fo) as [H2 _]. rewrite (Hs2 op H2) in Pos. discriminate.
  - intros np Hin Hnone. apply in_app_or in Hin. destruct Hin as [Hin|Hin].
    + exfalso. destruct (in_find_some np (s1 ++ s2)) as [q Hq]; [apply in_or_app; left; exact Hin|]. congruence.
    + apply in_app_or in Hin. destruct Hin as [Hin|Hin].
      * destruct (Hex np Hin) as [_ [R _]]. exact R.
      * exfalso. destruct (in_find_some np (s1 ++ s2)) as [q Hq]; [apply in_or_app; right; exact Hin|]. congruence.
Qed.

(* non-vacuity: def f(a, *, k): ... ; **kw  ->  def f(a, *, k, n=1, **kw) satisfies the hypotheses *)
Example add_kwonly_example :
  fdiff_m ([mk 0 PK None; mk 1 KO None] ++ [mk 2 VK (Some 0)]) ([mk 0 PK None; mk 1 KO None] ++ [mk 3 KO (Some 1)] ++ [mk 2 VK (Some 0)]) = [].
Proof.
  apply fdiff_add_optional_kwonly.
  - reflexivity.
  - intros p [E|[]]. subst. reflexivity.
  - intros p [E|[]]. subst. repeat split; reflexivity.
Qed.

(* ------------------------------------------------------------------------------------------------------------ *)
(* Part E: no exception and termination -- unresolvable and cyclic targets are skipped, and fuel = |old| * |new| + 1 is never
   exhausted on well-formed stores (the seen_paths guard is the measure: every nested call marks a fresh (old, new) pair) *)
Lemma filter_len_le {A} (p q : A -> bool) l : (forall x, p x = true -> q x = true) ->
  List.length (filter p l) <= List.length (filter q l).
Proof.
  intros H. induction l as [|a r IH]; simpl; [lia|].
  destruct (p a) eqn:P.
  - rewrite (H a P). simpl. lia.
  - destruct (q a); simpl; lia.
Qed.
Lemma filter_len_lt {A} (p q : A -> bool) l a : (forall x, p x = true -> q x = true) ->
  In a l -> q a = true -> p a = false -> List.length (filter p l) < List.length (filter q l).
Proof.
  intros H. induction l as [|b r IH]; simpl; [intros []|].
  intros [E|Hin] Q P.
  - subst b. rewrite P, Q. simpl. pose proof (filter_len_le p q r H). lia.
  - specialize (IH Hin Q P). destruct (p b) eqn:Pb.
    + rewrite (H b Pb). simpl. lia.
    + destruct (q b); simpl; lia.
Qed.

Section Fuel.
Variables go gn : store.
Definition all_pairs : list (nat * nat) := list_prod (seq 0 (List.length go)) (seq 0 (List.length gn)).
Definition unseen (seen : list (nat * nat)) : nat :=
  List.length (filter (fun x => negb (pmem (fst x) (snd x) seen)) all_pairs).

Lemma unseen_mono seen s : (forall x, In x seen -> In x s) -> unseen s <= unseen seen.
Proof.
  intros H. unfold unseen. apply filter_len_le. intros [a b] Hx. simpl in *.
  apply negb_true_iff in Hx. apply negb_true_iff.
  destruct (pmem a b seen) eqn:E; [|reflexivity]. apply pmem_in in E. apply H in E. apply in_pmem in E. congruence.
Qed.
Lemma unseen_cons i j seen : i < List.length go -> j < List.length gn -> pmem i j seen = false ->
  unseen ((i, j) :: seen) < unseen seen.
Proof.
  intros Hi Hj Hn. unfold unseen. apply (filter_len_lt _ _ _ (i, j)).
  - intros [a b] Hx. simpl in *. apply negb_true_iff in Hx. apply negb_true_iff. unfold pmem in *. simpl in Hx.
    apply orb_false_iff in Hx. destruct Hx as [_ Hx]. exact Hx.
  - unfold all_pairs. apply in_prod; apply in_seq; lia.
  - simpl. rewrite Hn. reflexivity.
  - simpl. unfold pmem. simpl. rewrite !Nat.eqb_refl. reflexivity.
Qed.
Lemma unseen_nil : unseen [] <= List.length go * List.length gn.
Proof.
  assert (L : forall (p : nat * nat -> bool) l, List.length (filter p l) <= List.length l).
  { intros p l. induction l as [|a r IHl]; simpl; [lia|]. destruct (p a); simpl; lia. }
  unfold unseen. pose proof (L (fun x => negb (pmem (fst x) (snd x) [])) all_pairs) as Hl.
  unfold all_pairs in Hl at 2. rewrite prod_length, !seq_length in Hl. exact Hl.
Qed.

Lemma get_some g i : i < List.length g -> exists n, get g i = Some n.
Proof. intros H. unfold get. destruct (nth_error g i) eqn:E; [eauto|]. apply nth_error_None in E. lia. Qed.
Lemma ids_ok_member g n k m : ids_ok g n = true -> In (k, m) (all_members n) -> m < List.length g.
Proof.
  intros H Hin. unfold ids_ok in H. apply andb_true_iff in H. destruct H as [H _]. rewrite forallb_forall in H.
  specialize (H (k, m) Hin). simpl in H. apply Nat.ltb_lt. exact H.
Qed.
Lemma ids_ok_target g n i t : ids_ok g n = true -> i < List.length g -> tgt_of n i = TRes t -> t < List.length g.
Proof.
  intros H Hi. unfold ids_ok in H. apply andb_true_iff in H. destruct H as [_ H]. unfold tgt_of.
  destruct (nbody n) as [| | | |t0]; try (intros E; inversion E; subst; exact Hi).
  intros E. subst t0. apply Nat.ltb_lt. exact H.
Qed.

Hypothesis Wo : wf_store go = true.
Hypothesis Wn : wf_store gn = true.

Definition total_rec (f : nat) (rec : list (nat * nat) -> nat -> nat -> res) : Prop :=
  forall seen i j, i < List.length go -> j < List.length gn -> unseen seen < f -> exists s l, rec seen i j = Ok s l.

Lemma mloop_total f rec oi nj : total_rec f rec -> good2 go gn rec -> ids_ok gn nj = true ->
  forall ms seen, (forall k m, In (k, m) ms -> m < List.length go) -> unseen seen < f ->
  exists s l, mloop go rec oi (all_members nj) ms seen = Ok s l.
Proof.
  intros T G In_. induction ms as [|[k m] r IH]; intros seen Hms Hu; simpl; [eauto|].
  assert (Hr : forall k0 m0, In (k0, m0) r -> m0 < List.length go) by (intros k0 m0 H; apply (Hms k0 m0); right; exact H).
  destruct (get_some go m (Hms k m (or_introl eq_refl))) as [mo Hm]. rewrite Hm.
  destruct (negb (is_public oi mo)); [apply IH; assumption|].
  destruct (lookup k (all_members nj)) as [m'|] eqn:Hl; [|apply IH; assumption].
  assert (Hm' : m' < List.length gn) by (apply (ids_ok_member gn nj k m' In_); apply lookup_in; exact Hl).
  destruct (T seen m m' (Hms k m (or_introl eq_refl)) Hm' Hu) as [s1 [l1 Hrec]]. rewrite Hrec.
  destruct (G seen m m' s1 l1 Hrec) as [A _].
  assert (Hu1 : unseen s1 < f).
  { pose proof (unseen_mono seen s1 (fun x Hx => proj2 (A x) (or_introl Hx))). lia. }
  destruct (IH s1 Hr Hu1) as [s2 [l2 Hloop]]. rewrite Hloop. eauto.
Qed.

Lemma tby_total : forall f, total_rec f (tby go gn f).
Proof.
  induction f as [|f IH]; intros seen i j Hi Hj Hu; [lia|].
  simpl. unfold step.
  destruct (pmem i j seen) eqn:Hseen; [eauto|].
  destruct (get_some go i Hi) as [oi Hoi]. destruct (get_some gn j Hj) as [nj Hnj]. rewrite Hoi, Hnj.
  destruct (wf_node go i oi Wo Hoi) as [Io _]. destruct (wf_node gn j nj Wn Hnj) as [In_ _].
  pose proof (unseen_cons i j seen Hi Hj Hseen) as Hlt.
  assert (Hu1 : unseen ((i, j) :: seen) < f) by lia.
  destruct (is_alias oi || is_alias nj).
  - destruct (tgt_of oi i) as [i'| |] eqn:Ti; [|eauto|eauto].
    destruct (tgt_of nj j) as [j'| |] eqn:Tj; [|eauto|eauto].
    destruct (IH ((i, j) :: seen) i' j' (ids_ok_target go oi i i' Io Hi Ti) (ids_ok_target gn nj j j' In_ Hj Tj) Hu1) as [s1 [l1 H]].
    rewrite H. eauto.
  - destruct (negb (okind_eqb (kind_of oi) (kind_of nj))); [eauto|].
    destruct (is_container oi); [|eauto].
    destruct (mloop_total f (tby go gn f) oi nj IH (tby_good2 go gn f) In_ (all_members oi) ((i, j) :: seen)) as [s1 [l1 H]].
    + intros k m Hin. apply (ids_ok_member go oi k m Io Hin).
    + exact Hu1.
    + rewrite H. eauto.
Qed.

(* on well-formed stores -- whatever the alias targets: resolved, unresolvable or cyclic -- the comparison completes *)
Theorem fbc_total fuel ri rj : ri < List.length go -> rj < List.length gn -> List.length go * List.length gn < fuel ->
  exists s l, fbc go gn fuel ri rj = Ok s l.
Proof.
  intros Hi Hj Hf. unfold fbc.
  destruct (get_some go ri Hi) as [ro Hro]. destruct (get_some gn rj Hj) as [rn Hrn]. rewrite Hro, Hrn.
  destruct (wf_node go ri ro Wo Hro) as [Io _]. destruct (wf_node gn rj rn Wn Hrn) as [In_ _].
  destruct (mloop_total fuel (tby go gn fuel) ro rn (tby_total fuel) (tby_good2 go gn fuel) In_ (all_members ro) []) as [s1 [l1 H]].
  - intros k m Hin. apply (ids_ok_member go ro k m Io Hin).
  - pose proof unseen_nil. lia.
  - rewrite H. eauto.
Qed.
End Fuel.

(* ------------------------------------------------------------------------------------------------------------ *)
(* non-vacuity: the hypotheses of the main theorems are satisfiable on concrete packages *)
Definition ex_old : store :=
  [ mkNode "pkg" None (BModule None [] [("f", 1); ("K", 2); ("_p", 4)]);
    mkNode "f" None (BFunction [mk 0 PK None] None);
    mkNode "K" None (BClass [] [] [] [("m", 3)]);
    mkNode "m" None (BFunction [] None);
    mkNode "_p" None (BAttribute (Some 1)) ].
(* compatible edits: new public function g, new method K.n, optional keyword-only parameter on f, private _p changed *)
Definition ex_new_ext : store :=
  [ mkNode "pkg" None (BModule None [] [("f", 1); ("K", 2); ("_p", 4); ("g", 5)]);
    mkNode "f" None (BFunction [mk 0 PK None; mk 1 KO (Some 1)] None);
    mkNode "K" None (BClass [] [] [] [("m", 3); ("n", 5)]);
    mkNode "m" None (BFunction [] None);
    mkNode "_p" None (BAttribute (Some 2));
    mkNode "g" None (BFunction [] None) ].
(* incompatible edits: f removed, K.m removed *)
Definition ex_new_rm : store :=
  [ mkNode "pkg" None (BModule None [] [("K", 1); ("_p", 2)]);
    mkNode "K" None (BClass [] [] [] []);
    mkNode "_p" None (BAttribute (Some 1)) ].

Example extension_example : forall fuel s l,
  fbc ex_old ex_new_ext fuel 0 0 = Ok s l -> breakages ex_old ex_new_ext l = [].
Proof.
  intros fuel s l. apply (extension_silent ex_old ex_new_ext (fun i => In i [0; 1; 2; 3])).
  - intros i oi nj Ui Hi Hj. simpl in Ui.
    destruct Ui as [E|[E|[E|[E|[]]]]]; subst i; simpl in Hi, Hj; inversion Hi; inversion Hj; subst oi nj; (split; [|
      intros n m mo Hin Hm Hp; simpl in Hin;
      repeat (destruct Hin as [Hin|Hin]; [inversion Hin; subst n m; simpl in Hm; inversion Hm; subst mo; try reflexivity; try discriminate|]);
      destruct Hin]).
    + exact I.
    + unfold ext_node; simpl. split; [|reflexivity]. change [mk 0 PK None] with ([mk 0 PK None] ++ []).
      change [mk 0 PK None; mk 1 KO (Some 1)] with ([mk 0 PK None] ++ [mk 1 KO (Some 1)] ++ []).
      apply fdiff_add_optional_kwonly; [reflexivity|intros p []|].
      intros p [E|[]]. subst. repeat split; reflexivity.
    + unfold ext_node; simpl. left. reflexivity.
    + unfold ext_node; simpl. split; reflexivity.
  - intros i oi n m mo Ui Hi Hin Hm Hp. simpl in Ui.
    destruct Ui as [E|[E|[E|[E|[]]]]]; subst i; simpl in Hi; inversion Hi; subst oi; simpl in Hin;
      repeat (destruct Hin as [Hin|Hin]; [inversion Hin; subst n m; simpl in Hm; inversion Hm; subst mo; simpl; try tauto; try discriminate|]);
      try destruct Hin.
  - intros i oi t Ui Hi Hb. simpl in Ui.
    destruct Ui as [E|[E|[E|[E|[]]]]]; subst i; simpl in Hi; inversion Hi; subst oi; discriminate.
  - simpl. tauto.
Qed.

Example removal_example : exists s l,
  fbc ex_old ex_new_rm (default_fuel ex_old ex_new_rm) 0 0 = Ok s l /\
  In (BRemoved 1) (breakages ex_old ex_new_rm l) /\ In (BRemoved 3) (breakages ex_old ex_new_rm l).
Proof.
  eexists. eexists. split; [vm_compute; reflexivity|]. split.
  - eapply (public_removal_reported ex_old ex_new_rm 0 0 (default_fuel ex_old ex_new_rm)) with (c := 0) (j := 0) (n := "f"); try reflexivity.
    + left. split; reflexivity.
    + simpl. left. reflexivity.
  - eapply (public_removal_reported ex_old ex_new_rm 0 0 (default_fuel ex_old ex_new_rm)) with (c := 2) (j := 1) (n := "m"); try reflexivity.
    + right. split.
      * eapply (V_root_member ex_old ex_new_rm 0 0) with (n := "K"); try reflexivity. simpl. right. left. reflexivity.
      * eexists. eexists. repeat split; reflexivity.
    + simpl. left. reflexivity.
Qed.
