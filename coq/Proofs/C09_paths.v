(* C09 -- path derivation: when the full dump raises, and that whatever it produces validates. *)
From Coq Require Import List ZArith String Ascii Bool Arith Lia.
From Verif Require Import Lib.Sexp Model.C09_json Gen.C09_schema Model.C09_enc Proofs.C09_schema Proofs.C09_enc Model.C09_paths.
Import ListNotations.
Open Scope string_scope.
Open Scope list_scope.
Open Scope nat_scope.

(* ---------- relative_to / parent ---------- *)

Lemma strip_prefix_spec : forall d p r, strip_prefix d p = Some r <-> p = d ++ r.
Proof.
  induction d as [|b d IH]; intros p r; simpl.
  - split; intros H; [inversion H; reflexivity|subst; reflexivity].
  - destruct p as [|c p]; [split; discriminate|].
    destruct (String.eqb b c) eqn:E.
    + apply String.eqb_eq in E. subst c. rewrite IH. split; intros H; [subst; reflexivity|inversion H; reflexivity].
    + split; [discriminate|]. intros H. inversion H. subst. rewrite String.eqb_refl in E. discriminate.
Qed.

Lemma strip_app : forall d r, strip_prefix d (d ++ r) = Some r.
Proof. intros. apply strip_prefix_spec. reflexivity. Qed.

Lemma is_below_spec : forall d p, is_below d p = true <-> exists r, p = d ++ r.
Proof.
  intros d p. unfold is_below, relative_to. destruct (strip_prefix d p) as [r|] eqn:E.
  - apply strip_prefix_spec in E. split; eauto.
  - split; [discriminate|]. intros [r H]. subst. rewrite strip_app in E. discriminate.
Qed.

Lemma is_below_refl : forall p, is_below p p = true.
Proof. intros p. apply is_below_spec. exists []. now rewrite app_nil_r. Qed.

Lemma parent_prefix : forall p, exists r, p = parent p ++ r.
Proof.
  intros p. unfold parent. destruct p as [|a p]; [exists []; reflexivity|].
  exists [last (a :: p) ""]. apply app_removelast_last. discriminate.
Qed.

Lemma is_below_parent : forall d p, is_below d p = true -> is_below (parent d) p = true.
Proof.
  intros d p H. apply is_below_spec in H. destruct H as [r ->]. destruct (parent_prefix d) as [x Hx].
  apply is_below_spec. exists (x ++ r). rewrite app_assoc. now rewrite <- Hx.
Qed.

Lemma is_below_self_parent : forall p, is_below (parent p) p = true.
Proof. intros p. apply is_below_parent. apply is_below_refl. Qed.

Lemma is_below_relative : forall d p, is_below d p = true -> exists r, relative_to p d = Some r.
Proof. intros d p H. unfold is_below in H. destruct (relative_to p d) as [r|]; [eauto|discriminate]. Qed.

Lemma first_some_exists : forall A B (f : A -> option B) l x y, In x l -> f x = Some y -> exists z, first_some f l = Some z.
Proof.
  induction l as [|a l IH]; intros x y Hin Hx; [destruct Hin|]. simpl.
  destruct (f a) as [b|] eqn:E; [eauto|]. destruct Hin as [->|Hin]; [congruence|eauto].
Qed.

Lemma first_some_none : forall A B (f : A -> option B) l, (forall x, In x l -> f x = None) -> first_some f l = None.
Proof.
  induction l as [|a l IH]; intros H; [reflexivity|]. simpl. rewrite (H a (or_introl eq_refl)). apply IH. intros x Hx. apply H. now right.
Qed.

(* ---------- relative_package_filepath never raises on what lies below a directory of the package ---------- *)

Theorem relpf_total : forall pkg f, under_pkg (pkg_dirs pkg) f = true -> exists r, rel_package_filepath_opt pkg f = Some r.
Proof.
  intros pkg f H. destruct f as [p|sl], pkg as [pk|pl]; simpl in *.
  - rewrite orb_false_r in H. apply is_below_parent in H. now apply is_below_relative.
  - apply existsb_exists in H. destruct H as [d [Hd Hb]]. apply is_below_parent in Hb. apply is_below_relative in Hb.
    destruct Hb as [r Hr]. eapply first_some_exists; eauto.
  - apply existsb_exists in H. destruct H as [s [Hs Hb]]. rewrite orb_false_r in Hb. apply is_below_parent in Hb.
    apply is_below_relative in Hb. destruct Hb as [r Hr]. eapply first_some_exists; eauto.
  - apply existsb_exists in H. destruct H as [s [Hs Hb]]. apply existsb_exists in Hb. destruct Hb as [d [Hd Hb]].
    apply is_below_parent in Hb. apply is_below_relative in Hb. destruct Hb as [r Hr].
    assert (X : exists z, first_some (fun s0 => relative_to s0 (parent d)) sl = Some z) by (eapply first_some_exists; eauto).
    destruct X as [z Hz]. eapply first_some_exists; eauto.
Qed.

(* the package itself lies below its own directories *)
Lemma top_under_itself : forall f, match f with MList [] => false | _ => true end = true -> under_pkg (pkg_dirs f) f = true.
Proof.
  intros [p|[|d l]] H; simpl in *; try discriminate.
  - rewrite is_below_self_parent. reflexivity.
  - rewrite is_below_refl. reflexivity.
Qed.

(* how the loader places what it finds *)
Lemma place_file_under : forall dirs i rel, i < List.length dirs -> under_pkg dirs (place_file dirs i rel) = true.
Proof.
  intros dirs i rel H. simpl. apply existsb_exists. exists (nth i dirs []). split; [now apply nth_In|].
  apply is_below_spec. eauto.
Qed.

Lemma place_dirs_under : forall dirs i idx rel, i < List.length dirs -> under_pkg dirs (place_dirs dirs (i :: idx) rel) = true.
Proof.
  intros dirs i idx rel H. simpl. apply orb_true_iff. left. apply existsb_exists. exists (nth i dirs []).
  split; [now apply nth_In|]. apply is_below_spec. eauto.
Qed.

(* a module found in ANY portion of a namespace package (not just the first) has a relative package file path *)
Corollary relpf_any_portion : forall portions i rel, i < List.length portions ->
  exists s, rel_package_filepath (MList portions) (place_file portions i rel) = Done s.
Proof.
  intros portions i rel H. unfold rel_package_filepath.
  destruct (relpf_total (MList portions) (place_file portions i rel) (place_file_under portions i rel H)) as [r ->]. eauto.
Qed.

Corollary relpf_nested_namespace : forall portions i idx rel, i < List.length portions ->
  exists s, rel_package_filepath (MList portions) (place_dirs portions (i :: idx) rel) = Done s.
Proof.
  intros portions i idx rel H. unfold rel_package_filepath.
  destruct (relpf_total (MList portions) _ (place_dirs_under portions i idx rel H)) as [r ->]. eauto.
Qed.

(* ---------- induction principle for pobj ---------- *)

Section PObjInd.
  Variable P : pobj -> Prop.
  Hypothesis Ha : forall name target path lineno endlineno, P (PAlias name target path lineno endlineno).
  Hypothesis Ho : forall spec name path fp lineno endlineno doc labels members,
    Forall (fun nm => P (snd nm)) members -> P (PObj spec name path fp lineno endlineno doc labels members).

  Fixpoint pobj_ind' (t : pobj) : P t :=
    match t with
    | PAlias name target path lineno endlineno => Ha name target path lineno endlineno
    | PObj spec name path fp lineno endlineno doc labels members =>
        Ho spec name path fp lineno endlineno doc labels members
           ((fix go (l : list (string * pobj)) : Forall (fun nm => P (snd nm)) l :=
               match l with
               | [] => Forall_nil _
               | x :: r => Forall_cons x (pobj_ind' (snd x)) (go r)
               end) members)
    end.
End PObjInd.

(* ---------- derive, one step ---------- *)

Fixpoint dmembers (cwd : path) (pkg f : mfp) (l : list (string * pobj)) : res (list (string * obj)) :=
  match l with
  | [] => Done []
  | (n, m) :: r =>
      match derive cwd pkg (Some f) m with
      | Raised e => Raised e
      | Done m' => match dmembers cwd pkg f r with Raised e => Raised e | Done r' => Done ((n, m') :: r') end
      end
  end.

Lemma derive_eq : forall cwd pkg cur spec name path fp lineno endlineno doc labels members,
  derive cwd pkg cur (PObj spec name path fp lineno endlineno doc labels members) =
  match effective cur fp with
  | None => Raised ErrBuiltin
  | Some f =>
      match rel_filepath cwd f with
      | Raised e => Raised e
      | Done relf =>
          match rel_package_filepath pkg f with
          | Raised e => Raised e
          | Done relpf =>
              match dmembers cwd pkg f members with
              | Raised e => Raised e
              | Done ms => Done (OObj spec name path (render_fp f) relf relpf lineno endlineno doc labels ms)
              end
          end
      end
  end.
Proof.
  intros. cbn [derive]. destruct (effective cur fp) as [f|]; [|reflexivity].
  destruct (rel_filepath cwd f); [|reflexivity]. destruct (rel_package_filepath pkg f); [|reflexivity].
  assert (E : forall l, (fix go (l : list (string * pobj)) : res (list (string * obj)) :=
                           match l with
                           | [] => Done []
                           | (n, m) :: r =>
                               match derive cwd pkg (Some f) m with
                               | Raised e => Raised e
                               | Done m' => match go r with Raised e => Raised e | Done r' => Done ((n, m') :: r') end
                               end
                           end) l = dmembers cwd pkg f l).
  { induction l as [|[n m] r IH]; [reflexivity|]. simpl. destruct (derive cwd pkg (Some f) m); [|reflexivity]. now rewrite IH. }
  now rewrite E.
Qed.

(* ---------- what is derived is loadable, hence validates ---------- *)

Lemma render_fp_not_none : forall f, match render_fp f with FPNone => false | _ => true end = true.
Proof. now intros [p|l]. Qed.

Theorem derive_loadable : forall cwd pkg t cur o, derive cwd pkg cur t = Done o -> ploadable t = true -> loadable o = true.
Proof.
  intros cwd pkg t.
  induction t as [name target path lineno endlineno|spec name path fp lineno endlineno doc labels members IH] using pobj_ind';
    intros cur o H Hl.
  - simpl in H. inversion H. reflexivity.
  - rewrite derive_eq in H. destruct (effective cur fp) as [f|]; [|discriminate].
    destruct (rel_filepath cwd f) as [relf|]; [|discriminate]. destruct (rel_package_filepath pkg f) as [relpf|]; [|discriminate].
    destruct (dmembers cwd pkg f members) as [ms|] eqn:D; [|discriminate]. inversion H; subst o. clear H.
    cbn [ploadable] in Hl. apply andb_true_iff in Hl. destruct Hl as [Hl Hm]. apply andb_true_iff in Hl. destruct Hl as [Hs Hd].
    cbn [loadable]. rewrite Hs, Hd, render_fp_not_none. simpl.
    clear Hs Hd. revert ms D. induction members as [|[n m] r IHr]; intros ms D.
    + simpl in D. inversion D. reflexivity.
    + simpl in D. destruct (derive cwd pkg (Some f) m) as [m'|] eqn:Dm; [|discriminate].
      destruct (dmembers cwd pkg f r) as [r'|] eqn:Dr; [|discriminate]. inversion D; subst ms.
      simpl in Hm. apply andb_true_iff in Hm. destruct Hm as [Hm1 Hm2].
      inversion IH as [|x l IH1 IH2]; subst. simpl in IH1.
      simpl. rewrite (IH1 _ _ Dm Hm1). simpl. now apply IHr.
Qed.

Theorem dump_validates : forall cwd t j, dump cwd t = Done j -> ploadable t = true -> exists fuel, validates_doc fuel j = Some true.
Proof.
  intros cwd t j H Hl. unfold dump in H. destruct (derive_top cwd t) as [o|] eqn:D; [|discriminate].
  destruct (has_object o); [discriminate|]. inversion H; subst j.
  apply full_dump_validates.
  destruct t as [name target path lineno endlineno|spec name path fp lineno endlineno doc labels members].
  - simpl in D. inversion D. reflexivity.
  - destruct fp as [f| |]; cbn [derive_top] in D; try discriminate. exact (derive_loadable _ _ _ _ _ D Hl).
Qed.

(* derivation touches paths only: the objects json cannot serialise are where they were *)
Lemma derive_has_object : forall cwd pkg t cur o, derive cwd pkg cur t = Done o -> has_object o = phas_object t.
Proof.
  intros cwd pkg t.
  induction t as [name target path lineno endlineno|spec name path fp lineno endlineno doc labels members IH] using pobj_ind';
    intros cur o H.
  - simpl in H. inversion H. reflexivity.
  - rewrite derive_eq in H. destruct (effective cur fp) as [f|]; [|discriminate].
    destruct (rel_filepath cwd f) as [relf|]; [|discriminate]. destruct (rel_package_filepath pkg f) as [relpf|]; [|discriminate].
    destruct (dmembers cwd pkg f members) as [ms|] eqn:D; [|discriminate]. inversion H; subst o. clear H.
    cbn [has_object phas_object]. f_equal.
    revert ms D. induction members as [|[n m] r IHr]; intros ms D.
    + simpl in D. inversion D. reflexivity.
    + simpl in D. destruct (derive cwd pkg (Some f) m) as [m'|] eqn:Dm; [|discriminate].
      destruct (dmembers cwd pkg f r) as [r'|] eqn:Dr; [|discriminate]. inversion D; subst ms.
      inversion IH as [|x l IH1 IH2]; subst. simpl in IH1.
      simpl. rewrite (IH1 _ _ Dm). f_equal. now apply IHr.
Qed.

Lemma ploadable_no_object : forall t, ploadable t = true -> phas_object t = false.
Proof.
  induction t as [name target path lineno endlineno|spec name path fp lineno endlineno doc labels members IH] using pobj_ind';
    intros Hl; [reflexivity|].
  cbn [ploadable] in Hl. apply andb_true_iff in Hl. destruct Hl as [Hl Hm]. apply andb_true_iff in Hl. destruct Hl as [Hs _].
  cbn [phas_object]. rewrite (spec_ok_no_object _ Hs). simpl.
  induction members as [|[n m] r IHr]; [reflexivity|]. simpl in *. apply andb_true_iff in Hm. destruct Hm as [Hm1 Hm2].
  inversion IH as [|x l IH1 IH2]; subst. simpl in IH1. rewrite (IH1 Hm1). simpl. now apply IHr.
Qed.

(* ---------- exactly when the dump raises ---------- *)

Definition cur_ok (dirs : list path) (cur : option mfp) (t : pobj) : Prop :=
  match cur with
  | Some c => under_pkg dirs c = true
  | None => match t with PObj _ _ _ PInherit _ _ _ _ _ => False | _ => True end
  end.

Lemma under_pkg_nonempty : forall dirs l, under_pkg dirs (MList l) = true -> l <> [].
Proof. intros dirs [|d l] H; [discriminate|discriminate]. Qed.

(* relative_filepath never raises for a module that has a file or at least one directory (since fix bb0db70) *)
Lemma rel_filepath_total : forall cwd f, f <> MList [] -> exists s, rel_filepath cwd f = Done s.
Proof.
  intros cwd [p|l] H; simpl.
  - destruct (relative_to p cwd); eauto.
  - destruct (first_some (fun p => relative_to p cwd) l); [eauto|]. destruct l; [now contradiction H|eauto].
Qed.

(* no builtin module, every module file below a directory of the package: the three path fields of every object exist *)
Theorem derive_total : forall cwd pkg t cur,
  placed (pkg_dirs pkg) t = true -> no_builtin t = true -> cur_ok (pkg_dirs pkg) cur t ->
  exists o, derive cwd pkg cur t = Done o.
Proof.
  intros cwd pkg t.
  induction t as [name target path lineno endlineno|spec name path fp lineno endlineno doc labels members IH] using pobj_ind';
    intros cur Hp Hb Hc.
  - simpl. eauto.
  - rewrite derive_eq. cbn [placed] in Hp. cbn [no_builtin] in Hb.
    apply andb_true_iff in Hp. destruct Hp as [Hp Hpm]. apply andb_true_iff in Hb. destruct Hb as [Hb Hbm].
    assert (X : exists f, effective cur fp = Some f /\ under_pkg (pkg_dirs pkg) f = true).
    { destruct fp as [f| |]; simpl in *; [eauto|discriminate|]. destruct cur as [c|]; [eauto|contradiction]. }
    destruct X as [f [-> Hu]].
    assert (Hne : f <> MList []) by (intros ->; discriminate).
    destruct (rel_filepath_total cwd f Hne) as [relf ->].
    unfold rel_package_filepath. destruct (relpf_total pkg f Hu) as [r ->].
    clear Hp Hb Hc.
    assert (Y : exists ms, dmembers cwd pkg f members = Done ms).
    { induction members as [|[n m] r' IHr]; [simpl; eauto|].
      inversion IH as [|x l IH1 IH2]; subst. simpl in IH1.
      simpl in Hpm, Hbm. apply andb_true_iff in Hpm. destruct Hpm as [Hpm1 Hpm2].
      apply andb_true_iff in Hbm. destruct Hbm as [Hbm1 Hbm2].
      destruct (IH1 (Some f) Hpm1 Hbm1 Hu) as [m' Hm']. destruct (IHr IH2 Hpm2 Hbm2) as [ms Hms].
      simpl. rewrite Hm', Hms. eauto. }
    destruct Y as [ms ->]. eauto.
Qed.

Lemma placed_top_spec : forall spec name path f lineno endlineno doc labels members,
  placed_top (PObj spec name path (POwn f) lineno endlineno doc labels members) = true ->
  placed (pkg_dirs f) (PObj spec name path (POwn f) lineno endlineno doc labels members) = true.
Proof.
  intros. cbn [placed_top] in H. apply andb_true_iff in H. destruct H as [Hm Hne].
  cbn [placed]. rewrite Hm. now rewrite (top_under_itself f Hne).
Qed.

Lemma derive_top_total : forall cwd t, placed_top t = true -> no_builtin t = true -> exists o, derive_top cwd t = Done o.
Proof.
  intros cwd t Hp Hb.
  destruct t as [name target path lineno endlineno|spec name path fp lineno endlineno doc labels members]; [simpl; eauto|].
  destruct fp as [f| |]; try discriminate.
  exact (derive_total cwd f _ None (placed_top_spec _ _ _ _ _ _ _ _ _ Hp) Hb I).
Qed.

(* The dump of a package whose module files lie below the package's directories (what the loader finds by iterating them)
   and that holds no builtin module, from ANY working directory: raises TypeError iff it holds an object json has no rule
   for (only trees assembled through the API do), otherwise produces a document. *)
Theorem dump_exact_full : forall cwd t,
  placed_top t = true -> no_builtin t = true ->
  if phas_object t then dump cwd t = Raised ErrNotSerializable else exists j, dump cwd t = Done j.
Proof.
  intros cwd t Hp Hb. unfold dump. destruct (derive_top_total cwd t Hp Hb) as [o Ho]. rewrite Ho.
  assert (E : has_object o = phas_object t).
  { destruct t as [name target path lineno endlineno|spec name path fp lineno endlineno doc labels members];
      [simpl in Ho; inversion Ho; reflexivity|].
    destruct fp as [f| |]; try discriminate. exact (derive_has_object _ _ _ _ _ Ho). }
  rewrite E. destruct (phas_object t); eauto.
Qed.

Theorem dump_total_modulo_known : forall cwd t,
  ploadable t = true -> no_builtin t = true -> f7_gap t = false ->
  exists j, dump cwd t = Done j /\ exists fuel, validates_doc fuel j = Some true.
Proof.
  intros cwd t Hl Hb H7. unfold f7_gap in H7. apply negb_false_iff in H7.
  pose proof (dump_exact_full cwd t H7 Hb) as X. rewrite (ploadable_no_object t Hl) in X. destruct X as [j Hj].
  exists j. split; [assumption|]. eapply dump_validates; eauto.
Qed.

(* ---------- former finding C09-F6 (fixed by bb0db70): its witness now dumps from anywhere ---------- *)

(* namespace package /w/ns (one portion) with a module, dumped from /elsewhere *)
Definition f6_witness : pobj :=
  PObj KModule "ns" "ns" (POwn (MList [["w"; "ns"]])) None None None []
    [("m", PObj KModule "m" "ns.m" (POwn (MOne ["w"; "ns"; "m.py"])) None None None [] [])].

Lemma f6_witness_dumps : ploadable f6_witness = true /\ no_builtin f6_witness = true /\ f7_gap f6_witness = false
  /\ match dump ["elsewhere"] f6_witness with Done j => validates_doc 64 j = Some true | Raised _ => False end
  /\ match dump ["w"] f6_witness with Done j => validates_doc 64 j = Some true | Raised _ => False end.
Proof. repeat split; vm_compute; reflexivity. Qed.

(* ---------- refutation: the situation in which a package loaded from disk has no full dump ---------- *)

(* C09-F7: regular package /a/pkg merged with the stubs-only package /b/pkg-stubs, which has a module of its own *)
Definition f7_witness : pobj :=
  PObj KModule "pkg" "pkg" (POwn (MOne ["a"; "pkg"; "__init__.py"])) None None None []
    [("only", PObj KModule "only" "pkg.only" (POwn (MOne ["b"; "pkg-stubs"; "only.pyi"])) None None None [] [])].

Lemma f7_refutes : ploadable f7_witness = true /\ no_builtin f7_witness = true
  /\ f7_gap f7_witness = true /\ forall cwd, dump cwd f7_witness = Raised ErrRelPackageFilepath.
Proof.
  repeat split; try (vm_compute; reflexivity). intros cwd. unfold dump, f7_witness. cbn [derive_top]. rewrite derive_eq.
  cbn [effective].
  assert (R : forall p, exists s, rel_filepath cwd (MOne p) = Done s) by (intros p; simpl; destruct (relative_to p cwd); eauto).
  destruct (R ["a"; "pkg"; "__init__.py"]) as [s1 ->].
  replace (rel_package_filepath (MOne ["a"; "pkg"; "__init__.py"]) (MOne ["a"; "pkg"; "__init__.py"])) with (@Done string "pkg/__init__.py") by reflexivity.
  cbn [dmembers]. rewrite derive_eq. cbn [effective]. destruct (R ["b"; "pkg-stubs"; "only.pyi"]) as [s2 ->].
  reflexivity.
Qed.

(* non-vacuity: a namespace package over three portions, modules in each, a nested namespace subpackage over two of
   them, a class with a method in a regular subpackage of the second portion; dumped from a directory above the first
   portion only, above the second only, and from an unrelated one *)
Definition three_portions : list path := [["w"; "first"; "ns"]; ["w"; "second"; "ns"]; ["w"; "third"; "ns"]].
Definition ns_sample : pobj :=
  PObj KModule "ns" "ns" (POwn (MList three_portions)) None None None []
    [("alpha", PObj KModule "alpha" "ns.alpha" (POwn (place_file three_portions 0 ["alpha.py"])) None None None [] []);
     ("beta", PObj KModule "beta" "ns.beta" (POwn (place_file three_portions 1 ["beta"; "__init__.py"])) None None None []
        [("Thing", PObj (KClass [] []) "Thing" "ns.beta.Thing" PInherit (Some 1%Z) (Some 3%Z) None []
            [("m", PObj (KFunction [] [] ANone) "m" "ns.beta.Thing.m" PInherit (Some 2%Z) (Some 3%Z) None [] [])])]);
     ("gamma", PObj KModule "gamma" "ns.gamma" (POwn (place_file three_portions 2 ["gamma.py"])) None None None [] []);
     ("deep", PObj KModule "deep" "ns.deep" (POwn (place_dirs three_portions [0; 2] ["deep"])) None None None []
        [("z", PObj KModule "z" "ns.deep.z" (POwn (place_file three_portions 2 ["deep"; "z.py"])) None None None [] [])])].

Example ns_sample_in_domain : ploadable ns_sample = true /\ no_builtin ns_sample = true /\ f7_gap ns_sample = false.
Proof. repeat split; vm_compute; reflexivity. Qed.

Example ns_sample_dumps :
  forallb (fun cwd => match dump cwd ns_sample with Done j => match validates_doc 64 j with Some true => true | _ => false end | Raised _ => false end)
          [["w"; "first"]; ["w"; "second"]; ["elsewhere"]; []] = true.
Proof. vm_compute. reflexivity. Qed.

(* Trees only the API can build (the inspector let such defaults through until fix 5db8f3a): a parameter default that is not a
   string is dumped as it is and the document does not validate; one json has no rule for makes json.dumps raise TypeError. *)
Definition api_module (params : list parameter) : pobj :=
  PObj KModule "m" "m" (POwn (MOne ["w"; "m.py"])) None None None []
    [("f", PObj (KFunction [] params ANone) "f" "m.f" PInherit None None None [] [])].

Definition raw_default_tree : pobj := api_module [mkParam "x" ANone (Some "positional or keyword") (ARaw (JInt 3)) None].
Definition object_default_tree : pobj := api_module [mkParam "x" ANone (Some "positional or keyword") AObject None].

Lemma raw_default_refutes : ploadable raw_default_tree = false /\ no_builtin raw_default_tree = true /\ f7_gap raw_default_tree = false
  /\ exists j, dump ["w"] raw_default_tree = Done j /\ forall fuel, validates_doc fuel j <> Some true.
Proof.
  repeat split; try (vm_compute; reflexivity). eexists. split; [vm_compute; reflexivity|].
  apply (verdict_unique 64 _ false). vm_compute. reflexivity.
Qed.

Lemma object_default_refutes : ploadable object_default_tree = false /\ no_builtin object_default_tree = true
  /\ f7_gap object_default_tree = false /\ dump ["w"] object_default_tree = Raised ErrNotSerializable.
Proof. repeat split; vm_compute; reflexivity. Qed.
