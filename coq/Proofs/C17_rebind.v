(* C17 proofs, rebinding: when the statements CPython does not execute are exactly the assignments the visitor skips,
   the kind of binding the visitor keeps is the one that survives at runtime, for every statement list. *)
From Coq Require Import List ZArith String Ascii Bool Arith.
From Verif Require Import Lib.Sexp Model.C17_rebind.
Import ListNotations.

Lemma rebind_agree_from st l :
  branches_in_step st l = true -> fold_left visit_step l st = fold_left run_step l st.
Proof.
  revert st; induction l as [|s r IH]; intros st H; [reflexivity|].
  simpl in H. apply andb_prop in H. destruct H as [Ht Hr]. apply Bool.eqb_prop in Ht.
  cbn [fold_left].
  assert (E : run_step st s = visit_step st s).
  { unfold run_step, visit_step, skipped in *. rewrite Ht.
    destruct (b_kind s); simpl; try reflexivity. destruct (is_some st && b_branch s); reflexivity. }
  rewrite E. apply IH. exact Hr.
Qed.

Theorem rebind_agree l : gap_rebind l = false -> visit_all l = run_all l.
Proof.
  unfold gap_rebind. intros H. apply negb_false_iff in H. apply rebind_agree_from. exact H.
Qed.

(* try: from m import f / except ImportError: f = None;  def g / if <false>: g = None *)
Example rebind_nonvacuous :
  gap_rebind [mkB BImport false true; mkB BAssign true false] = false /\
  visit_all [mkB BImport false true; mkB BAssign true false] = Some BImport /\
  gap_rebind [mkB BDef false true; mkB BAssign true false; mkB BAssign false true] = false /\
  visit_all [mkB BDef false true; mkB BAssign true false; mkB BAssign false true] = Some BAssign.
Proof. repeat split; reflexivity. Qed.

(* F12: if TYPE_CHECKING: from m import T / else: T = None -- the visitor keeps the import, CPython the assignment *)
Theorem rebind_refuted_type_checking :
  let l := [mkB BImport true false; mkB BAssign true true] in
  gap_rebind l = true /\ visit_all l = Some BImport /\ run_all l = Some BAssign.
Proof. repeat split; reflexivity. Qed.

(* ================================================================================================ *)
(* conditions                                                                                        *)

(* a statement the visitor reads as type-checking-only is never executed *)
Lemma guarded_not_taken p : place_guarded p = true -> place_taken p = false.
Proof. destruct p as [|c|c|]; try discriminate; destruct c; try discriminate; reflexivity. Qed.

Lemma visit_c_kind st s : option_map fst (visit_step_c st s) = visit_step (option_map fst st) (lower s).
Proof.
  unfold visit_step_c, visit_step, lower. simpl. destruct (c_kind s); try reflexivity.
  destruct st as [[k g]|]; simpl; [|reflexivity]. destruct (place_branch (c_place s)); reflexivity.
Qed.

Lemma visit_all_c_kind_from l : forall st,
  option_map fst (fold_left visit_step_c l st) = fold_left visit_step (map lower l) (option_map fst st).
Proof.
  induction l as [|s r IH]; intros st; [reflexivity|]. simpl. rewrite IH, visit_c_kind. reflexivity.
Qed.

(* the member kept is a runtime one as long as the visitor skips exactly what CPython skips *)
Lemma kept_is_runtime_from l : forall st,
  branches_in_step (option_map fst st) (map lower l) = true ->
  (forall k g, st = Some (k, g) -> g = true) ->
  forall k g, fold_left visit_step_c l st = Some (k, g) -> g = true.
Proof.
  induction l as [|s r IH]; intros st Hb Hst k g H; [exact (Hst k g H)|].
  simpl in Hb. apply andb_prop in Hb. destruct Hb as [Ht Hr]. apply Bool.eqb_prop in Ht.
  simpl in H. apply (IH (visit_step_c st s)) with (k := k); auto.
  - rewrite visit_c_kind. exact Hr.
  - intros k' g' E. unfold visit_step_c in E.
    assert (Hfresh : Some (c_kind s, negb (place_guarded (c_place s))) = Some (k', g') -> skipped (option_map fst st) (lower s) = false -> g' = true).
    { intros E' Hs. inversion E'; subst. simpl in Ht. rewrite Hs in Ht. simpl in Ht.
      destruct (place_guarded (c_place s)) eqn:G; [|reflexivity].
      rewrite (guarded_not_taken _ G) in Ht. discriminate. }
    unfold skipped, lower in *. simpl in *.
    destruct (c_kind s); try (apply Hfresh; [exact E|reflexivity]).
    assert (Hi : is_some (option_map fst st) = is_some st) by (destruct st as [[? ?]|]; reflexivity).
    rewrite Hi in *.
    destruct (is_some st && place_branch (c_place s)) eqn:Es.
    + exact (Hst k' g' E).
    + apply Hfresh; [exact E|reflexivity].
Qed.

(* every list of imports / definitions / assignments of one name, each directly in the body, in an `if` / `else` on
   TYPE_CHECKING, its negation or a version test, or in an `except` handler: unless the decidable predicate gap_cond
   holds, the visitor keeps a runtime member of the kind that survives when the body is executed *)
Theorem rebind_cond_agree l :
  gap_cond l = false ->
  option_map fst (visit_all_c l) = run_all (map lower l) /\
  (forall k g, visit_all_c l = Some (k, g) -> g = true).
Proof.
  intros H. split.
  - unfold visit_all_c. rewrite (visit_all_c_kind_from l None). apply rebind_agree. exact H.
  - unfold gap_cond, gap_rebind in H. apply negb_false_iff in H.
    apply (kept_is_runtime_from l None H). intros k g E. discriminate.
Qed.

Example rebind_cond_nonvacuous :
  gap_cond [mkC BImport (PThen CTrueTest); mkC BAssign (PElse CTrueTest)] = false /\
  visit_all_c [mkC BImport (PThen CTrueTest); mkC BAssign (PElse CTrueTest)] = Some (BImport, true) /\
  gap_cond [mkC BImport PTop; mkC BAssign PExcept; mkC BAssign (PThen CFalseTest)] = false.
Proof. repeat split; reflexivity. Qed.

(* F12 in both spellings: the visitor keeps the type-checking-only import, CPython the assignment *)
Theorem rebind_cond_refuted :
  gap_cond [mkC BImport (PThen CTypeChecking); mkC BAssign (PElse CTypeChecking)] = true /\
  visit_all_c [mkC BImport (PThen CTypeChecking); mkC BAssign (PElse CTypeChecking)] = Some (BImport, false) /\
  run_all (map lower [mkC BImport (PThen CTypeChecking); mkC BAssign (PElse CTypeChecking)]) = Some BAssign /\
  gap_cond [mkC BAssign (PThen CNotTypeChecking); mkC BImport (PElse CNotTypeChecking)] = true /\
  visit_all_c [mkC BAssign (PThen CNotTypeChecking); mkC BImport (PElse CNotTypeChecking)] = Some (BImport, false).
Proof. repeat split; reflexivity. Qed.
