(* C17 proofs, rebinding: when the statements CPython does not execute are exactly the assignments the visitor skips,
   the kind of binding the visitor keeps is the one that survives at runtime, for every statement list. *)
From Coq Require Import List ZArith String Ascii Bool Arith.
From Verif Require Import Lib.Sexp Model.C17_rebind.
Import ListNotations.

Lemma rebind_agree_from st l :
  branches_in_step st l = true -> fold_left visit_step l st = fold_left run_step l st.
Proof.
  revert st; induction l as [|s r IH]; intros st H; [reflexivity|].
  simpl in H. apply andb_prop in H. destruct H as [Ht Hr]. apply Bool.eqb_prop in Ht.
  cbn [fold_left].
  assert (E : run_step st s = visit_step st s).
  { unfold run_step, visit_step, skipped in *. rewrite Ht.
    destruct (b_kind s); simpl; try reflexivity. destruct (is_some st && b_branch s); reflexivity. }
  rewrite E. apply IH. exact Hr.
Qed.

Theorem rebind_agree l : gap_rebind l = false -> visit_all l = run_all l.
Proof.
  unfold gap_rebind. intros H. apply negb_false_iff in H. apply rebind_agree_from. exact H.
Qed.

(* try: from m import f / except ImportError: f = None;  def g / if <false>: g = None *)
Example rebind_nonvacuous :
  gap_rebind [mkB BImport false true; mkB BAssign true false] = false /\
  visit_all [mkB BImport false true; mkB BAssign true false] = Some BImport /\
  gap_rebind [mkB BDef false true; mkB BAssign true false; mkB BAssign false true] = false /\
  visit_all [mkB BDef false true; mkB BAssign true false; mkB BAssign false true] = Some BAssign.
Proof. repeat split; reflexivity. Qed.

(* F12: if TYPE_CHECKING: from m import T / else: T = None -- the visitor keeps the import, CPython the assignment *)
Theorem rebind_refuted_type_checking :
  let l := [mkB BImport true false; mkB BAssign true true] in
  gap_rebind l = true /\ visit_all l = Some BImport /\ run_all l = Some BAssign.
Proof. repeat split; reflexivity. Qed.
