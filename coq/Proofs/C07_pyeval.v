(* C07, part 4: the assignment-following LOOP of Class.resolved_bases against Python's NESTED evaluation [pyfin]
   (an assigned name denotes its value wherever it stands; the value was computed on its own).
   Whatever the loop finds is what the nested evaluation finds -- for every heap, every base, with assignments. *)
From Coq Require Import List ZArith String Bool Arith Lia.
From Verif Require Import Lib.Sexp Model.C07_mro Model.C07_bases Proofs.C07_mro Proofs.C07_bases.
Import ListNotations.
Open Scope string_scope.
Open Scope list_scope.
Open Scope nat_scope.

(* with at least m units of fuel, and whatever aliases are being resolved around it, the nested evaluation of q gives R *)
Definition adeq (h : heap) (q : path) (m : nat) (R : rres) : Prop :=
  forall m' s', m <= m' -> pyfin m' h s' q = R.

Lemma adeq_object h q k : find_obj h q = Some k -> (forall t, k <> KAlias t) -> not_attr k ->
  adeq h q 1 (Found q k).
Proof.
  intros Hq Ha Hk m' s' Hm. destruct m' as [|m']; [lia|]. simpl. rewrite Hq.
  destruct k; try reflexivity.
  - exfalso. eapply Hk. reflexivity.
  - exfalso. eapply Ha. reflexivity.
Qed.

Section Stage.
Variable h : heap.
Hypothesis Hleaf : attr_leaf h.

(* one walk: F is Griffe's finalisation, G the nested evaluation with more fuel *)
Lemma walk_stage (F G : path -> rres) (g0 : nat) :
  (forall p q k, F p = Found q k -> find_obj h q = Some k /\ (forall t, k <> KAlias t)) ->
  (forall p, find_obj h p = None -> F p = RKey) ->
  (forall p q k m R, F p = Found q k -> adeq h q m R -> 1 <= m -> m <= g0 -> G p = R) ->
  forall parts cur q k m R, walk F cur parts = Found q k -> adeq h q m R -> 1 <= m -> m <= g0 ->
  walk G cur parts = R.
Proof.
  intros Hobj Hmiss HFG. induction parts as [|n rest IH]; intros cur q k m R; simpl.
  - intros HF Had Hm1 Hm. eapply HFG; eauto.
  - destruct cur as [|c0 cur'].
    + apply IH.
    + destruct (F (c0 :: cur')) as [cur2 k2| | |] eqn:E; try discriminate.
      intros Hw Had Hm1 Hm.
      destruct (Hobj _ _ _ E) as [Ho Ha].
      assert (Hk2 : not_attr k2).
      { intros e ->. specialize (Hleaf _ _ n Ho).
        rewrite (walk_dead F (cur2 ++ [n]) rest) in Hw; [discriminate|apply app_cons_not_nil|apply Hmiss; exact Hleaf]. }
      rewrite (HFG _ _ _ 1 (Found cur2 k2) E (adeq_object h cur2 k2 Ho Ha Hk2)) by lia.
      eapply IH; eauto.
Qed.

(* one finalisation: the nested evaluation reaches the object Griffe's final_target reaches, with f more units of fuel *)
Lemma stage : forall f s p q k, fin f false h s p = Found q k ->
  forall m R, adeq h q m R -> 1 <= m -> forall g, f + m <= g -> pyfin g h s p = R.
Proof.
  induction f as [|f IH]; intros s p q k H m R Had Hm1 g Hg; [discriminate|].
  simpl in H. destruct g as [|g]; [lia|].
  destruct (find_obj h p) as [k0|] eqn:Ek; try discriminate.
  destruct k0.
  - inversion H; subst. apply Had. lia.
  - inversion H; subst. apply Had. lia.
  - inversion H; subst. apply Had. lia.
  - inversion H; subst. apply Had. lia.
  - simpl. rewrite Ek. destruct (memp p s); try discriminate.
    eapply (walk_stage (fin f false h (p :: s)) (pyfin g h (p :: s)) (g - f)); eauto.
    + intros p' q' k' H'. apply fin_found in H'. tauto.
    + intros p' Hp'. destruct f; [|apply fin_missing; exact Hp'].
      (* f = 0 cannot have produced a result *) exfalso. revert H.
      apply (walk_found_inv (fin 0 false h (p :: s)) (fun _ _ => False)). simpl. discriminate.
    + intros p' q' k' m0 R0 H' Had' Hm1' Hm0. eapply IH; eauto. lia.
    + lia.
Qed.

Definition F0 : nat := S (List.length h).
(* fuel for a chain of n assignments *)
Definition M (n : nat) : nat := n * (S F0) + 1.

Lemma follow_plain n fl p k q kq : not_attr k -> follow_attr true n h fl p k = Found q kq -> q = p /\ kq = k.
Proof.
  intros Hk H. destruct k; destruct n; simpl in H;
    try (inversion H; split; reflexivity); exfalso; eapply Hk; reflexivity.
Qed.

Lemma plain_case n fl p k q kq : find_obj h p = Some k -> (forall t, k <> KAlias t) -> not_attr k ->
  follow_attr true n h fl p k = Found q kq -> adeq h p (M n) (Found q kq) /\ not_attr kq.
Proof.
  intros Hp Ha Hk H. destruct (follow_plain n fl p k q kq Hk H) as [-> ->]. split; auto.
  intros m' s' Hm'. apply (adeq_object h p k Hp Ha Hk). unfold M in Hm'. lia.
Qed.

Lemma follow_sound : forall n fl p k q kq, find_obj h p = Some k -> (forall t, k <> KAlias t) ->
  follow_attr true n h fl p k = Found q kq -> adeq h p (M n) (Found q kq) /\ not_attr kq.
Proof.
  induction n as [|n IH]; intros fl p k q kq Hp Ha H.
  - destruct k.
    + eapply plain_case; eauto. intros e; discriminate.
    + eapply plain_case; eauto. intros e; discriminate.
    + eapply plain_case; eauto. intros e; discriminate.
    + simpl in H. rewrite andb_false_r in H. discriminate.
    + exfalso. eapply Ha. reflexivity.
  - destruct k.
    + eapply plain_case; eauto. intros e; discriminate.
    + eapply plain_case; eauto. intros e; discriminate.
    + eapply plain_case; eauto. intros e; discriminate.
    + (* an assigned name: one turn of the loop *)
      simpl in H. rewrite andb_false_r in H.
      destruct (lookup_path false h (canon h (removelast p) v)) as [q1 k1| | |] eqn:El; try discriminate.
      destruct (memp q1 fl); try discriminate.
      destruct (lookup_path_found _ _ _ _ _ El) as [Hq1 Ha1].
      destruct (IH _ _ _ _ _ Hq1 Ha1 H) as [Had Hk]. split; auto.
      intros m' s' Hm'. destruct m' as [|m']; [unfold M in Hm'; lia|]. simpl. rewrite Hp.
      unfold lookup_path in El.
      eapply (walk_stage (fin F0 false h []) (pyfin m' h []) (m' - F0)); eauto.
      * intros p' q' k' H'. apply fin_found in H'. tauto.
      * intros p' Hp'. apply fin_missing. exact Hp'.
      * intros p' q' k' m0 R0 H' Had' Hm1' Hm0. eapply stage; eauto. lia.
      * unfold M. lia.
      * unfold M in *. rewrite Nat.mul_succ_l in Hm'. lia.
    + exfalso. eapply Ha. reflexivity.
Qed.
End Stage.

(* ---------------------------------------------------------------- the theorems *)

Theorem gresolve_sound_py h scope e q k : attr_leaf h ->
  gresolve_s true h scope e = Found q k -> pyresolve h scope e = Found q k /\ not_attr k.
Proof.
  intros Hleaf. unfold gresolve_s.
  destruct (resolve_base false h scope e) as [p0 k0| | |] eqn:Er; try discriminate.
  intros H. destruct (resolve_base_found _ _ _ _ _ _ Er) as [Hp0 Ha0].
  destruct (follow_sound h Hleaf _ _ _ _ _ _ Hp0 Ha0 H) as [Had Hk]. split; auto.
  unfold pyresolve, py_lookup. unfold resolve_base, lookup_path in Er.
  eapply (walk_stage h Hleaf (fin (F0 h) false h []) (pyfin (py_fuel h) h []) (py_fuel h - F0 h)); eauto.
  - intros p' q' k' H'. apply fin_found in H'. tauto.
  - intros p' Hp'. apply fin_missing. exact Hp'.
  - intros p' q' k' m0 R0 H' Had' Hm1' Hm0. eapply stage; eauto. lia.
  - unfold M. lia.
  - unfold M, py_fuel, F0. nia.
Qed.

(* Whatever Class.resolved_bases finds for a base -- through import aliases, re-exports AND assignments -- is what the
   expression denotes under Python's nested evaluation. *)
Theorem resolved_base_sound_py h scope e q k : attr_leaf h ->
  gresolve h scope e = Found q k -> not_attr k -> pyresolve h scope e = Found q k.
Proof.
  intros Hleaf H Hk.
  assert (Ht : gresolve_s true h scope e = Found q k).
  { rewrite gresolve_agree; auto. intros q' v. rewrite H. intros E. inversion E; subst. eapply Hk. reflexivity. }
  apply (gresolve_sound_py h scope e q k Hleaf Ht).
Qed.

Lemma gbase_is_pybase h scope e q i : attr_leaf h -> gresolve h scope e = Found q (KCls i) -> pybase h scope e = Some i.
Proof.
  intros Hleaf H. unfold pybase. rewrite (resolved_base_sound_py h scope e q (KCls i) Hleaf H); auto.
  intros e0. discriminate.
Qed.

Theorem gbases_subseq_py h scope es bs : attr_leaf h -> map_opt (pybase h scope) es = Some bs ->
  Subseq (gbases h scope es) bs.
Proof.
  intros Hleaf. revert bs. induction es as [|e es IH]; intros bs; simpl.
  - intros H. inversion H. constructor.
  - destruct (pybase h scope e) as [i|] eqn:Ep; try discriminate.
    destruct (map_opt (pybase h scope) es) as [bs'|] eqn:Em; try discriminate.
    intros H. inversion H; subst. rewrite gbases_cons.
    destruct (gresolve h scope e) as [p k| | |] eqn:Er; simpl; try (constructor; apply IH; reflexivity).
    destruct k; simpl; try (constructor; apply IH; reflexivity).
    rewrite (gbase_is_pybase h scope e p i0 Hleaf Er) in Ep. inversion Ep; subst.
    constructor. apply IH. reflexivity.
Qed.

Theorem gbases_complete_py h scope es : attr_leaf h -> forallb (kept h scope) es = true ->
  map_opt (pybase h scope) es = Some (gbases h scope es).
Proof.
  intros Hleaf. induction es as [|e es IH]; simpl; auto.
  intros H. apply andb_true_iff in H. destruct H as [He Hes].
  rewrite gbases_cons. unfold kept in He.
  destruct (gresolve h scope e) as [p k| | |] eqn:Er; try discriminate.
  destruct k; try discriminate.
  rewrite (gbase_is_pybase h scope e p i Hleaf Er). rewrite (IH Hes). reflexivity.
Qed.

(* non-vacuity: a chain of two assignments; the nested evaluation also follows a name in the MIDDLE of a chain and a
   subscripted value (where the loop does not: C07-F2 narrowed); a cyclic assignment has no denotation *)
Example pyeval_examples :
  pyresolve assign_heap ["m"] (BName "B2") = Found ["m"; "K1"] (KCls 0) /\
  gresolve assign_heap ["m"] (BName "B2") = Found ["m"; "K1"] (KCls 0) /\
  pyresolve mid_heap ["m"] (BAttr (BName "ns") "Inner") = Found ["m"; "H"; "Inner"] (KCls 0) /\
  gresolve mid_heap ["m"] (BAttr (BName "ns") "Inner") = RKey /\
  pyresolve sub_heap ["m"] (BName "IntG") = Found ["m"; "G"] (KCls 0) /\
  pyresolve assign_heap ["m"] (BName "L1") = RFuel.
Proof. repeat split; vm_compute; reflexivity. Qed.
