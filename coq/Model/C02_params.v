(* C02 model: agents/nodes/parameters.py:get_parameters over the constants regenerated from the source
   (Gen/C02_tables.v: kind per source list, variadic default texts, block order), and CPython's reading of the same
   ast.arguments.  Executable definitions only.  (handle_function: Model/C02_scope.v; the container: Model/C02_container.v) *)
From Coq Require Import List ZArith String Bool Arith.
From Verif Require Export Model.C02_kinds.
From Verif Require Import Lib.Sexp Gen.C02_tables.
Import ListNotations.
Open Scope string_scope.
Open Scope list_scope.

(* annotation / default expressions are opaque atoms (their text is C03's business) *)
Record arg := mkArg { aname : string; aann : option Z }.

Record arguments := mkArgs {
  posonly : list arg; args : list arg; vararg : option arg;
  kwonly : list arg; kw_defaults : list (option Z); kwarg : option arg;
  defaults : list Z }.

Inductive dflt := DNone | DExpr (e : Z) | DStr (s : string).
Record param := mkParam { pname : string; pann : option Z; pkind : kind; pdef : dflt }.

(* itertools.zip_longest(xs, ys, fillvalue=None) *)
Fixpoint zip_longest {A B} (xs : list A) (ys : list B) : list (option A * option B) :=
  match xs with
  | [] => map (fun y => (None, Some y)) ys
  | x :: xs' => match ys with
                | [] => (Some x, None) :: zip_longest xs' []
                | y :: ys' => (Some x, Some y) :: zip_longest xs' ys'
                end
  end.

(* reversed of the tuple made from zip_longest(reversed(ps), reversed(ds), fillvalue=None) *)
Definition griffe_align {A B} (ps : list A) (ds : list B) := rev (zip_longest (rev ps) (rev ds)).

(* for (arg, kind), default in ...: unpacking None raises TypeError *)
Fixpoint positional_params (l : list (option (arg * kind) * option Z)) : result (list param) :=
  match l with
  | [] => Ok []
  | (None, _) :: _ => Err "TypeError"
  | (Some (a, k), d) :: r =>
      match positional_params r with
      | Ok ps => Ok (mkParam (aname a) (aann a) k (match d with Some e => DExpr e | None => DNone end) :: ps)
      | Err e => Err e
      end
  end.

(* for kwarg, default in ...: kwarg.arg on None raises AttributeError.
   An entry of kw_defaults that is None (no default) and a missing entry (fill value) look the same. *)
Fixpoint kwonly_params (k : kind) (l : list (option arg * option (option Z))) : result (list param) :=
  match l with
  | [] => Ok []
  | (None, _) :: _ => Err "AttributeError"
  | (Some a, d) :: r =>
      match kwonly_params k r with
      | Ok ps => Ok (mkParam (aname a) (aann a) k (match d with Some (Some e) => DExpr e | _ => DNone end) :: ps)
      | Err e => Err e
      end
  end.

Definition opt_param (o : option arg) (k : kind) (d : string) : list param :=
  match o with Some a => [mkParam (aname a) (aann a) k (DStr d)] | None => [] end.

(* one block of get_parameters; the alignment tuples are built eagerly, the unpacking errors surface in the loops *)
Definition emit (a : arguments) (g : group) : result (list param) :=
  match g with
  | GPositional =>
      positional_params (griffe_align (map (fun x => (x, posonly_kind)) (posonly a) ++ map (fun x => (x, args_kind)) (args a))
                                      (defaults a))
  | GVararg => Ok (opt_param (vararg a) vararg_kind vararg_default)
  | GKwonly => kwonly_params kwonly_kind (griffe_align (kwonly a) (kw_defaults a))
  | GKwarg => Ok (opt_param (kwarg a) kwarg_kind kwarg_default)
  end.

(* the blocks append to `parameters` in statement order; the first raising block decides the exception *)
Fixpoint emit_all (a : arguments) (gs : list group) : result (list param) :=
  match gs with
  | [] => Ok []
  | g :: r => match emit a g with
              | Err e => Err e
              | Ok ps => match emit_all a r with Err e => Err e | Ok qs => Ok (ps ++ qs) end
              end
  end.

Definition get_parameters (a : arguments) : result (list param) := emit_all a emission_order.

(* ---- authority: how CPython reads the same ast.arguments (funcobject / inspect.signature):
   defaults belong to the LAST |defaults| parameters of posonlyargs ++ args; kw_defaults[i] belongs to kwonlyargs[i]. *)
Definition cpython_positional (a : arguments) : list param :=
  let tagged := map (fun x => (x, PO)) (posonly a) ++ map (fun x => (x, PK)) (args a) in
  let n := List.length tagged - List.length (defaults a) in
  map (fun xk => mkParam (aname (fst xk)) (aann (fst xk)) (snd xk) DNone) (firstn n tagged) ++
  map (fun xkd => mkParam (aname (fst (fst xkd))) (aann (fst (fst xkd))) (snd (fst xkd)) (DExpr (snd xkd)))
      (combine (skipn n tagged) (defaults a)).

Definition cpython_kwonly (a : arguments) : list param :=
  map (fun xd => mkParam (aname (fst xd)) (aann (fst xd)) KO
                   (match snd xd with Some e => DExpr e | None => DNone end))
      (combine (kwonly a) (kw_defaults a)).

Definition cpython_signature (a : arguments) : list param :=
  cpython_positional a ++ opt_param (vararg a) VP "()" ++ cpython_kwonly a ++ opt_param (kwarg a) VK "{}".

Definition wf (a : arguments) : bool :=
  Nat.leb (List.length (defaults a)) (List.length (posonly a) + List.length (args a)) &&
  Nat.eqb (List.length (kw_defaults a)) (List.length (kwonly a)).

Definition required (p : param) : bool := match pdef p with DNone => true | _ => false end.

(* ---- s-expression interface ---- *)
Definition dec_arg (s : sexp) : option arg :=
  match s with
  | SList [SStr n; a] => do a' <- as_opt as_int a; Some (mkArg n a')
  | _ => None
  end.

Definition dec_arguments (s : sexp) : option arguments :=
  match s with
  | SList [po; ar; va; ko; kd; kw; df] =>
      do po' <- as_list_of dec_arg po; do ar' <- as_list_of dec_arg ar;
      do va' <- as_opt dec_arg va; do ko' <- as_list_of dec_arg ko;
      do kd' <- as_list_of (as_opt as_int) kd; do kw' <- as_opt dec_arg kw;
      do df' <- as_list_of as_int df;
      Some (mkArgs po' ar' va' ko' kd' kw' df')
  | _ => None
  end.

Definition enc_kind (k : kind) : sexp := SStr (match k with PO => "PO" | PK => "PK" | VP => "VP" | KO => "KO" | VK => "VK" end).
Definition enc_dflt (d : dflt) : sexp :=
  match d with DNone => SList [] | DExpr e => SList [SInt 0; SInt e] | DStr s => SList [SInt 1; SStr s] end.
Definition enc_param (p : param) : sexp :=
  SList [SStr (pname p); of_opt SInt (pann p); enc_kind (pkind p); enc_dflt (pdef p); of_bool (required p)].
Definition enc_result (r : result (list param)) : sexp :=
  match r with Ok ps => SList [SStr "ok"; SList (map enc_param ps)] | Err e => SList [SStr "err"; SStr e] end.

Definition run_params (s : sexp) : sexp :=
  match s with
  | SList [SStr "params"; a] => match dec_arguments a with Some a' => enc_result (get_parameters a') | None => bad_input end
  | SList [SStr "spec"; a] => match dec_arguments a with
                              | Some a' => SList [SStr "ok"; SList (map enc_param (cpython_signature a')); of_bool (wf a')]
                              | None => bad_input end
  | _ => bad_input
  end.
