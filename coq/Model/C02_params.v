(* C02 model: agents/nodes/parameters.py:get_parameters and the overload / setter / deleter
   bookkeeping of agents/visitor.py:handle_function.  Executable definitions only. *)
From Coq Require Import List ZArith String Bool Arith.
From Verif Require Import Lib.Sexp.
Import ListNotations.
Open Scope string_scope.
Open Scope list_scope.

Inductive kind := PO | PK | VP | KO | VK.

(* annotation / default expressions are opaque atoms (their text is C03's business) *)
Record arg := mkArg { aname : string; aann : option Z }.

Record arguments := mkArgs {
  posonly : list arg; args : list arg; vararg : option arg;
  kwonly : list arg; kw_defaults : list (option Z); kwarg : option arg;
  defaults : list Z }.

Inductive dflt := DNone | DExpr (e : Z) | DStr (s : string).
Record param := mkParam { pname : string; pann : option Z; pkind : kind; pdef : dflt }.

Inductive result (A : Type) := Ok (a : A) | Err (e : string).
Arguments Ok {A} a. Arguments Err {A} e.

(* itertools.zip_longest(xs, ys, fillvalue=None) *)
Fixpoint zip_longest {A B} (xs : list A) (ys : list B) : list (option A * option B) :=
  match xs with
  | [] => map (fun y => (None, Some y)) ys
  | x :: xs' => match ys with
                | [] => (Some x, None) :: zip_longest xs' []
                | y :: ys' => (Some x, Some y) :: zip_longest xs' ys'
                end
  end.

(* reversed of the tuple made from zip_longest(reversed(ps), reversed(ds), fillvalue=None) *)
Definition griffe_align {A B} (ps : list A) (ds : list B) := rev (zip_longest (rev ps) (rev ds)).

(* for (arg, kind), default in ...: unpacking None raises TypeError *)
Fixpoint positional_params (l : list (option (arg * kind) * option Z)) : result (list param) :=
  match l with
  | [] => Ok []
  | (None, _) :: _ => Err "TypeError"
  | (Some (a, k), d) :: r =>
      match positional_params r with
      | Ok ps => Ok (mkParam (aname a) (aann a) k (match d with Some e => DExpr e | None => DNone end) :: ps)
      | Err e => Err e
      end
  end.

(* for kwarg, default in ...: kwarg.arg on None raises AttributeError.
   An entry of kw_defaults that is None (no default) and a missing entry (fill value) look the same. *)
Fixpoint kwonly_params (l : list (option arg * option (option Z))) : result (list param) :=
  match l with
  | [] => Ok []
  | (None, _) :: _ => Err "AttributeError"
  | (Some a, d) :: r =>
      match kwonly_params r with
      | Ok ps => Ok (mkParam (aname a) (aann a) KO (match d with Some (Some e) => DExpr e | _ => DNone end) :: ps)
      | Err e => Err e
      end
  end.

Definition opt_param (o : option arg) (k : kind) (d : string) : list param :=
  match o with Some a => [mkParam (aname a) (aann a) k (DStr d)] | None => [] end.

Definition get_parameters (a : arguments) : result (list param) :=
  let tagged := map (fun x => (x, PO)) (posonly a) ++ map (fun x => (x, PK)) (args a) in
  match positional_params (griffe_align tagged (defaults a)) with
  | Err e => Err e
  | Ok pos =>
    match kwonly_params (griffe_align (kwonly a) (kw_defaults a)) with
    | Err e => Err e
    | Ok kws => Ok (pos ++ opt_param (vararg a) VP "()" ++ kws ++ opt_param (kwarg a) VK "{}")
    end
  end.

(* ---- authority: how CPython reads the same ast.arguments (funcobject / inspect.signature):
   defaults belong to the LAST |defaults| parameters of posonlyargs ++ args; kw_defaults[i] belongs to kwonlyargs[i]. *)
Definition cpython_positional (a : arguments) : list param :=
  let tagged := map (fun x => (x, PO)) (posonly a) ++ map (fun x => (x, PK)) (args a) in
  let n := List.length tagged - List.length (defaults a) in
  map (fun xk => mkParam (aname (fst xk)) (aann (fst xk)) (snd xk) DNone) (firstn n tagged) ++
  map (fun xkd => mkParam (aname (fst (fst xkd))) (aann (fst (fst xkd))) (snd (fst xkd)) (DExpr (snd xkd)))
      (combine (skipn n tagged) (defaults a)).

Definition cpython_kwonly (a : arguments) : list param :=
  map (fun xd => mkParam (aname (fst xd)) (aann (fst xd)) KO
                   (match snd xd with Some e => DExpr e | None => DNone end))
      (combine (kwonly a) (kw_defaults a)).

Definition cpython_signature (a : arguments) : list param :=
  cpython_positional a ++ opt_param (vararg a) VP "()" ++ cpython_kwonly a ++ opt_param (kwarg a) VK "{}".

Definition wf (a : arguments) : bool :=
  Nat.leb (List.length (defaults a)) (List.length (posonly a) + List.length (args a)) &&
  Nat.eqb (List.length (kw_defaults a)) (List.length (kwonly a)).

Definition required (p : param) : bool := match pdef p with DNone => true | _ => false end.

(* ---- handle_function bookkeeping in one scope (module or class body) ---- *)
Inductive deco := DOverload | DProperty | DSetter (base : string) | DDeleter (base : string) | DOther.
Record fdef := mkF { fid : Z; fname : string; fdecos : list deco }.

Inductive member :=
| MFunc (id : Z) (overloads : list Z)
| MProp (id : Z) (setter deleter : option Z)
| MOther (id : Z).                                   (* a pre-existing non-function member *)

Record scope := mkScope { members : list (string * member); buffer : list (string * list Z) }.

Fixpoint lookup {A} (n : string) (l : list (string * A)) : option A :=
  match l with [] => None | (k, v) :: r => if String.eqb k n then Some v else lookup n r end.
Fixpoint remove_key {A} (n : string) (l : list (string * A)) : list (string * A) :=
  match l with [] => [] | (k, v) :: r => if String.eqb k n then remove_key n r else (k, v) :: remove_key n r end.
(* dict assignment: keeps the position of an existing key, appends a new one *)
Fixpoint assign {A} (n : string) (v : A) (l : list (string * A)) : list (string * A) :=
  match l with
  | [] => [(n, v)]
  | (k, w) :: r => if String.eqb k n then (k, v) :: r else (k, w) :: assign n v r
  end.

Definition is_overload (d : deco) := match d with DOverload => true | _ => false end.
Definition is_property (d : deco) := match d with DProperty => true | _ => false end.

Definition member_is_property (s : scope) (n : string) : bool :=
  match lookup n (members s) with Some (MProp _ _ _) => true | _ => false end.

(* get_base_property: first decorator `<base>.setter|deleter` with base = this function's own name,
   where the member currently bound to that name is a property.  true = setter. *)
Fixpoint base_property (s : scope) (n : string) (ds : list deco) : option bool :=
  match ds with
  | [] => None
  | DSetter b :: r => if String.eqb b n && member_is_property s n then Some true else base_property s n r
  | DDeleter b :: r => if String.eqb b n && member_is_property s n then Some false else base_property s n r
  | _ :: r => base_property s n r
  end.

Definition handle_function (s : scope) (f : fdef) : scope :=
  if existsb is_property (fdecos f) then
    mkScope (assign (fname f) (MProp (fid f) None None) (members s)) (buffer s)
  else if existsb is_overload (fdecos f) then
    let old := match lookup (fname f) (buffer s) with Some l => l | None => [] end in
    mkScope (members s) (assign (fname f) (old ++ [fid f]) (buffer s))
  else match base_property s (fname f) (fdecos f) with
  | Some true =>
      match lookup (fname f) (members s) with
      | Some (MProp id _ d) => mkScope (assign (fname f) (MProp id (Some (fid f)) d) (members s)) (buffer s)
      | _ => s
      end
  | Some false =>
      match lookup (fname f) (members s) with
      | Some (MProp id st _) => mkScope (assign (fname f) (MProp id st (Some (fid f))) (members s)) (buffer s)
      | _ => s
      end
  | None =>
      match lookup (fname f) (buffer s) with
      | Some (x :: l) => mkScope (assign (fname f) (MFunc (fid f) (x :: l)) (members s)) (remove_key (fname f) (buffer s))
      | _ => mkScope (assign (fname f) (MFunc (fid f) []) (members s)) (buffer s)
      end
  end.

Definition visit_functions (fs : list fdef) (s : scope) : scope := fold_left handle_function fs s.

(* ---- s-expression interface ---- *)
Definition dec_arg (s : sexp) : option arg :=
  match s with
  | SList [SStr n; a] => do a' <- as_opt as_int a; Some (mkArg n a')
  | _ => None
  end.

Definition dec_arguments (s : sexp) : option arguments :=
  match s with
  | SList [po; ar; va; ko; kd; kw; df] =>
      do po' <- as_list_of dec_arg po; do ar' <- as_list_of dec_arg ar;
      do va' <- as_opt dec_arg va; do ko' <- as_list_of dec_arg ko;
      do kd' <- as_list_of (as_opt as_int) kd; do kw' <- as_opt dec_arg kw;
      do df' <- as_list_of as_int df;
      Some (mkArgs po' ar' va' ko' kd' kw' df')
  | _ => None
  end.

Definition enc_kind (k : kind) : sexp := SStr (match k with PO => "PO" | PK => "PK" | VP => "VP" | KO => "KO" | VK => "VK" end).
Definition enc_dflt (d : dflt) : sexp :=
  match d with DNone => SList [] | DExpr e => SList [SInt 0; SInt e] | DStr s => SList [SInt 1; SStr s] end.
Definition enc_param (p : param) : sexp :=
  SList [SStr (pname p); of_opt SInt (pann p); enc_kind (pkind p); enc_dflt (pdef p); of_bool (required p)].
Definition enc_result (r : result (list param)) : sexp :=
  match r with Ok ps => SList [SStr "ok"; SList (map enc_param ps)] | Err e => SList [SStr "err"; SStr e] end.

Definition dec_deco (s : sexp) : option deco :=
  match s with
  | SList [SStr "overload"] => Some DOverload
  | SList [SStr "property"] => Some DProperty
  | SList [SStr "setter"; SStr b] => Some (DSetter b)
  | SList [SStr "deleter"; SStr b] => Some (DDeleter b)
  | SList [SStr "other"] => Some DOther
  | _ => None
  end.
Definition dec_fdef (s : sexp) : option fdef :=
  match s with
  | SList [SInt i; SStr n; ds] => do ds' <- as_list_of dec_deco ds; Some (mkF i n ds')
  | _ => None
  end.
Definition enc_member (nm : string * member) : sexp :=
  match snd nm with
  | MFunc id ov => SList [SStr (fst nm); SStr "function"; SInt id; SList (map SInt ov)]
  | MProp id st dl => SList [SStr (fst nm); SStr "property"; SInt id; of_opt SInt st; of_opt SInt dl]
  | MOther id => SList [SStr (fst nm); SStr "other"; SInt id]
  end.
Definition enc_scope (s : scope) : sexp :=
  SList [SList (map enc_member (members s));
         SList (map (fun kv => SList [SStr (fst kv); SList (map SInt (snd kv))]) (buffer s))].

Definition run_C02 (s : sexp) : sexp :=
  match s with
  | SList [SStr "params"; a] => match dec_arguments a with Some a' => enc_result (get_parameters a') | None => bad_input end
  | SList [SStr "spec"; a] => match dec_arguments a with
                              | Some a' => SList [SStr "ok"; SList (map enc_param (cpython_signature a')); of_bool (wf a')]
                              | None => bad_input end
  | SList [SStr "fseq"; fs] => match as_list_of dec_fdef fs with
                               | Some fs' => enc_scope (visit_functions fs' (mkScope [] []))
                               | None => bad_input end
  | _ => bad_input
  end.
