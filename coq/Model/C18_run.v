(* C18: the function the framework extracts.  Dispatch on a leading tag:
     (table classes)                          per class: both __init__ members, both labels, the gap flags, both presented constructors
     (session classes paths events)           per class object: members["__init__"] and the label after the extension object has
                                              served the events in turn (state machine of Model/C18_session.v) *)
From Coq Require Import List Arith Bool ZArith String.
From Verif Require Import Lib.Sexp Model.C18_dataclass Model.C18_session.
Import ListNotations.
Open Scope string_scope.
Open Scope list_scope. Open Scope nat_scope.

Definition enc_presented (o : option (nat * init_member)) : sexp :=
  SList [of_opt of_nat (option_map fst o); SList (map enc_param (presented_params o))].

Fixpoint enc_classes2 (t : table) (oe : option env) (i : nat) (l : list cls) : list sexp :=
  match l with
  | [] => []
  | c :: r =>
      SList [enc_member (g_init_member t c);
             match oe with Some e => enc_member (py_init_member e i c) | None => SList [SStr "rejected"] end;
             of_bool (g_label t c); of_bool (py_is_dataclass t c);
             SList (map of_bool (match oe with Some e => gaps t e i c | None => [] end));
             enc_presented (g_presented t i c);
             match oe with Some e => enc_presented (py_presented t e i c) | None => SList [SStr "rejected"] end;
             (* gap flags of every class that can provide the presented constructor (the class and its MRO): any *)
             of_bool (match oe with
                      | Some e => existsb (fun j => match nth_error t j with
                                                    | Some b => decorated b && match c_hw b with None => known_gap t e j b | Some _ => false end
                                                    | None => false end) (i :: c_mro c)
                      | None => false end)]
      :: enc_classes2 t oe (S i) r
  end.

Fixpoint enc_objects (t : table) (st : sstate) (i : nat) (l : list cls) : list sexp :=
  match l with
  | [] => []
  | c :: r => SList [enc_member (s_member st i c); of_bool (s_labelled st i c)] :: enc_objects t st (S i) r
  end.

Definition run_C18 (s : sexp) : sexp :=
  match s with
  | SList [SStr "table"; cs] =>
      match as_list_of dec_cls cs with
      | Some t => let oe := py_eval_table t in
                  SList [of_bool (match oe with Some _ => true | None => false end); of_bool (linear t);
                         SList (enc_classes2 t oe 0 t)]
      | None => bad_input end
  | SList [SStr "session"; cs; ps; evs; dc; kp] =>
      match as_list_of dec_cls cs, as_list_of as_nat ps, as_list_of (as_list_of as_nat) evs, as_bool dc, as_bool kp with
      | Some t, Some paths, Some events, Some dc', Some kp' =>
          SList (enc_objects t (session_gen dc' kp' t paths events) 0 t)
      | _, _, _, _, _ => bad_input end
  | _ => bad_input
  end.
