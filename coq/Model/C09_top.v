(* C09 -- the function the framework extracts: path-deriving commands (Model/C09_paths.v), the loaders' construction sites
   (Model/C09_load.v), the docstring dispatch (Model/C09_parse.v), then the commands of Model/C09_enc.v. *)
From Coq Require Import List String.
From Verif Require Import Lib.Sexp Model.C09_json Gen.C09_schema Model.C09_enc Model.C09_paths Model.C09_load Model.C09_parse.
Import ListNotations.

Definition run_C09_top (s : sexp) : sexp :=
  match run_paths s with
  | Some r => r
  | None => match run_load s with
            | Some r => r
            | None => match run_parse s with
                      | Some r => r
                      | None => run_C09 s
                      end
            end
  end.
