(* C17 model, the trusted base made explicit: a small universe of Python objects, the semantics of attribute access on a
   class / module (descriptor protocol), of inspect.is* / callable / isinstance on them, and of the statements that
   bind a name -- each stated ONCE here.  The 14 primitive observations that Model/C17_agents.v tabulates per
   definition form (runtime_prims) are derived from these (Proofs/C17_pyobj.v proves the two coincide), and the forms
   are extended with names bound by assignment to a non-plain value, annotation-only names and `import` statements
   that bind an ancestor module.
   Executable definitions only. *)
From Coq Require Import List ZArith String Ascii Bool Arith.
From Verif Require Import Lib.Sexp Model.C17_base Gen.C17_tables Model.C17_agents.
Import ListNotations.
Open Scope string_scope.
Open Scope list_scope.
Open Scope nat_scope.

(* ------------------------------------------------------------------------------------------------ *)
(* 1. objects                                                                                        *)

Inductive pyobj :=
| OFunction (async : bool)        (* types.FunctionType: def, async def, lambda *)
| OClass                          (* type and its instances' classes *)
| OModule
| OStaticmethod (f : pyobj)       (* staticmethod(f), as stored in a namespace *)
| OClassmethod (f : pyobj)        (* classmethod(f), as stored in a namespace *)
| OBoundMethod (f : pyobj)        (* types.MethodType *)
| OProperty                       (* property(...) *)
| OCachedProperty (f : pyobj)     (* functools.cached_property(f) *)
| OBuiltin                        (* builtin_function_or_method: len, [].append *)
| OMethodDescriptor               (* method_descriptor / wrapper_descriptor: str.join, object.__init__ *)
| OGetSetDescriptor               (* getset_descriptor: int.real, type.__dict__ *)
| OPartial (f : pyobj)            (* functools.partial(f, ...) *)
| OCallableInstance               (* an instance of a class that defines __call__ *)
| OValue.                         (* everything else: numbers, strings, tuples, None, TypeVar instances, ... *)

(* getattr(parent, name) where the namespace of parent stores [stored]: type.__getattribute__ calls __get__(None, cls)
   of what it finds; a module returns the stored object *)
Definition class_getattr (stored : pyobj) : pyobj :=
  match stored with
  | OStaticmethod f => f                 (* staticmethod.__get__: the wrapped callable *)
  | OClassmethod f => OBoundMethod f     (* classmethod.__get__: bound to the class *)
  | o => o                               (* function.__get__(None, cls), property.__get__(None, cls),
                                            cached_property.__get__(None, cls), slot descriptors: the object itself;
                                            builtins, partial objects (3.12), plain values: no __get__ *)
  end.

Definition py_getattr (parent_is_class : bool) (stored : pyobj) : pyobj :=
  if parent_is_class then class_getattr stored else stored.

(* ObjectNode.__init__: inspect.unwrap (none of these objects has __wrapped__), then cached_property -> its func *)
Definition node_obj (o : pyobj) : pyobj * bool :=
  match o with OCachedProperty f => (f, true) | _ => (o, false) end.

(* ---- inspect / builtins, on one object *)
Definition py_ismodule (o : pyobj) : bool := match o with OModule => true | _ => false end.
Definition py_isclass (o : pyobj) : bool := match o with OClass => true | _ => false end.
Definition py_isfunction (o : pyobj) : bool := match o with OFunction _ => true | _ => false end.    (* isinstance(o, types.FunctionType) *)
Definition py_ismethod (o : pyobj) : bool := match o with OBoundMethod _ => true | _ => false end.
Definition py_isbuiltin (o : pyobj) : bool := match o with OBuiltin => true | _ => false end.
Definition py_isgetset (o : pyobj) : bool := match o with OGetSetDescriptor => true | _ => false end.
Definition py_isproperty (o : pyobj) : bool := match o with OProperty => true | _ => false end.

(* inspect._has_code_flag: methods are replaced by their __func__, partials by the function they wrap (repeatedly) *)
Fixpoint py_iscoroutinefunction (o : pyobj) : bool :=
  match o with
  | OFunction a => a
  | OBoundMethod f => py_iscoroutinefunction f
  | OPartial f => py_iscoroutinefunction f
  | _ => false
  end.

(* type(o) defines __get__ / __set__ *)
Definition has_get (o : pyobj) : bool :=
  match o with
  | OFunction _ | OStaticmethod _ | OClassmethod _ | OProperty | OCachedProperty _ | OMethodDescriptor | OGetSetDescriptor => true
  | _ => false
  end.
Definition has_set (o : pyobj) : bool := match o with OProperty | OGetSetDescriptor => true | _ => false end.

(* inspect.ismethoddescriptor *)
Definition py_ismethoddescriptor (o : pyobj) : bool :=
  if py_isclass o || py_ismethod o || py_isfunction o then false else has_get o && negb (has_set o).

(* callable(o): type(o) defines __call__ *)
Definition py_callable (o : pyobj) : bool :=
  match o with
  | OFunction _ | OClass | OBoundMethod _ | OBuiltin | OMethodDescriptor | OPartial _ | OCallableInstance | OStaticmethod _ => true
  | _ => false
  end.

(* ------------------------------------------------------------------------------------------------ *)
(* 2. the primitive observations of a child node                                                     *)

Definition observe (parent_is_class : bool) (stored : pyobj) : features :=
  let '(o, cached) := node_obj (py_getattr parent_is_class stored) in
  fun p =>
    match p with
    | PIsModule => py_ismodule o
    | PIsClass => py_isclass o
    | PParentIsClass => parent_is_class
    | PDictStatic => match stored with OStaticmethod _ => true | _ => false end      (* parent.__dict__.get(name) *)
    | PDictClassm => match stored with OClassmethod _ => true | _ => false end
    | PCached => cached
    | PIsFuncType => py_isfunction o
    | PIsBuiltin => py_isbuiltin o
    | PIsCoroutine => py_iscoroutinefunction o
    | PIsMethodDescriptor => py_ismethoddescriptor o
    | PIsFunction => py_isfunction o
    | PCallable => py_callable o
    | PIsGetSet => py_isgetset o
    | PIsProperty => py_isproperty o
    end.

(* ------------------------------------------------------------------------------------------------ *)
(* 3. what the statements store                                                                      *)

Definition thing_obj (t : thing) : pyobj :=
  match t with
  | TFunc => OFunction false | TAsyncFunc => OFunction true | TClass => OClass | TModule => OModule | TValue => OValue
  end.

(* the namespace entry after executing the definition form (decorators applied innermost first) *)
Definition stored_of (d : defform) : pyobj :=
  match d with
  | DFunc _ a => OFunction a
  | DStaticM a => OStaticmethod (OFunction a)
  | DClassM a => OClassmethod (OFunction a)
  | DProp => OProperty
  | DCachedProp => OCachedProperty (OFunction false)
  | DClass _ => OClass
  | DValue _ => OValue
  | DImported _ t => thing_obj t
  end.

Definition form_scope (d : defform) : scope :=
  match d with
  | DFunc sc _ | DClass sc | DValue sc | DImported sc _ => sc
  | DStaticM _ | DClassM _ | DProp | DCachedProp => SCls
  end.

Definition derived_features (d : defform) : features := observe (in_class (form_scope d)) (stored_of d).

(* ------------------------------------------------------------------------------------------------ *)
(* 4. more forms: assignment of any value, annotated names                                           *)

Inductive xform :=
| XAssigned (sc : scope) (v : pyobj)                 (* NAME = <expression whose value is v> *)
| XAnnotated (sc : scope) (classvar has_value : bool). (* NAME: ann [= value] *)

(* Visitor.handle_attribute *)
Definition visit_attribute (in_cls classvar has_value : bool) : member :=
  MObj GAttribute
    (if in_cls then
       (if classvar then ["class-attribute"]
        else if has_value then ["class-attribute"; "instance-attribute"] else ["instance-attribute"])
     else ["module-attribute"]).

Definition visitor_xmember (x : xform) : member :=
  match x with
  | XAssigned sc _ => visit_attribute (in_class sc) false true
  | XAnnotated sc cv hv => visit_attribute (in_class sc) cv hv
  end.

(* is the name bound when the body has run? *)
Definition x_bound (x : xform) : bool := match x with XAssigned _ _ => true | XAnnotated _ _ hv => hv end.

Definition x_scope (x : xform) : scope := match x with XAssigned sc _ | XAnnotated sc _ _ => sc end.
Definition x_value (x : xform) : pyobj := match x with XAssigned _ v => v | XAnnotated _ _ _ => OValue end.
Definition x_features (x : xform) : features := observe (in_class (x_scope x)) (x_value x).

(* the Inspector on the same name: nothing without a binding (inspect.getmembers does not list it) *)
Definition inspector_xmember (x : xform) (e : alias_env) (cur : list string) (name : string) (hf : bool) : member :=
  if x_bound x then inspect_child (x_features x) e cur name hf else MNothing.

(* gap predicates (decidable) *)
Definition plain_value (pic : bool) (v : pyobj) : bool := okind_eqb (inspector_okind (observe pic v)) KAttribute.
Definition gap_assigned (x : xform) : bool :=                     (* F9 *)
  match x with XAssigned sc v => negb (plain_value (in_class sc) v) | _ => false end.
Definition static_only_allowed (m : member) : bool :=             (* "instance attributes": instance-attribute and not class-attribute *)
  match m with MObj GAttribute ls => mem_str "instance-attribute" ls && negb (mem_str "class-attribute" ls) | _ => false end.
Definition gap_unbound (x : xform) : bool :=                      (* F10 *)
  negb (x_bound x) && negb (static_only_allowed (visitor_xmember x)).

(* ------------------------------------------------------------------------------------------------ *)
(* 5. `import a.b.c [as x]` seen by the Inspector                                                    *)

(* the module object the statement binds: the top-level package, or the named module with `as` *)
Definition import_bound (name : list string) (asname : option string) : list string :=
  match asname with Some _ => name | None => [hd "" name] end.

(* M: the module whose body (or whose class body) holds the statement.  ObjectNode._ids holds the ids of the node's
   object and of its real ancestors: for a node inside module M these are M and the classes around the statement
   (the parents of an inspected submodule are placeholders).  A module object is in that set iff it is M. *)
Definition binds_ancestor (M : list string) (name : list string) (asname : option string) : bool :=
  path_eqb (import_bound name asname) M.

Definition inspect_import (sc : scope) (M cur : list string) (name : list string) (asname : option string)
                          (builtins : list string) (hf : bool) : string * member :=
  let T := import_bound name asname in
  let bound := fst (visit_import name asname) in
  (bound,
   if binds_ancestor M name asname then MNothing        (* _pick_member: id(member) in self._ids *)
   else inspect_child (runtime_features (DImported sc TModule)) (mkAE true (Some T) (Some M) [] builtins) cur bound hf).

(* ------------------------------------------------------------------------------------------------ *)
(* 6. s-expression interface                                                                        *)

Fixpoint dec_pyobj_fuel (fuel : nat) (s : sexp) : option pyobj :=
  match fuel with
  | 0 => None
  | S k =>
      match s with
      | SList [SStr "function"; a] => do a' <- as_bool a; Some (OFunction a')
      | SList [SStr "class"] => Some OClass
      | SList [SStr "module"] => Some OModule
      | SList [SStr "staticmethod"; f] => do f' <- dec_pyobj_fuel k f; Some (OStaticmethod f')
      | SList [SStr "classmethod"; f] => do f' <- dec_pyobj_fuel k f; Some (OClassmethod f')
      | SList [SStr "boundmethod"; f] => do f' <- dec_pyobj_fuel k f; Some (OBoundMethod f')
      | SList [SStr "property"] => Some OProperty
      | SList [SStr "cached_property"; f] => do f' <- dec_pyobj_fuel k f; Some (OCachedProperty f')
      | SList [SStr "builtin"] => Some OBuiltin
      | SList [SStr "method_descriptor"] => Some OMethodDescriptor
      | SList [SStr "getset_descriptor"] => Some OGetSetDescriptor
      | SList [SStr "partial"; f] => do f' <- dec_pyobj_fuel k f; Some (OPartial f')
      | SList [SStr "callable_instance"] => Some OCallableInstance
      | SList [SStr "value"] => Some OValue
      | _ => None
      end
  end.
Definition dec_pyobj (s : sexp) : option pyobj := dec_pyobj_fuel 8 s.

Definition enc_features (f : features) : sexp := SList (map (fun p => SStr (prim_name p)) (filter f all_prims)).

Definition dec_xform (s : sexp) : option xform :=
  match s with
  | SList [SStr "assigned"; sc; v] => do sc' <- dec_scope sc; do v' <- dec_pyobj v; Some (XAssigned sc' v')
  | SList [SStr "annotated"; sc; cv; hv] =>
      do sc' <- dec_scope sc; do cv' <- as_bool cv; do hv' <- as_bool hv; Some (XAnnotated sc' cv' hv')
  | _ => None
  end.

(* ["obs", parent_is_class, stored] -> the primitive observations
   ["stored", defform] -> derived observations of the form (must equal the tabulated ones)
   ["xform", x, env, cur, name, has_file] -> [bound; visitor member; inspector member; F9; F10]
   ["importstmt", scope, M, cur, name, asname, builtins, has_file] -> [bound name; visitor member; inspector member; F6] *)
Definition run_pyobj (s : sexp) : option sexp :=
  match s with
  | SList [SStr "obs"; pic; o] =>
      match as_bool pic, dec_pyobj o with
      | Some pic', Some o' => Some (enc_features (observe pic' o'))
      | _, _ => Some bad_input
      end
  | SList [SStr "stored"; d] =>
      match dec_defform d with
      | Some d' => Some (SList [enc_features (derived_features d'); enc_features (runtime_features d')])
      | None => Some bad_input
      end
  | SList [SStr "xform"; x; e; cur; SStr name; hf] =>
      match dec_xform x, dec_alias_env e, dec_path cur, as_bool hf with
      | Some x', Some e', Some cur', Some hf' =>
          Some (SList [of_bool (x_bound x'); enc_member (visitor_xmember x'); enc_member (inspector_xmember x' e' cur' name hf');
                       of_bool (gap_assigned x'); of_bool (gap_unbound x'); enc_features (x_features x')])
      | _, _, _, _ => Some bad_input
      end
  | SList [SStr "importstmt"; sc; m; cur; n; a; bi; hf] =>
      match dec_scope sc, dec_path m, dec_path cur, dec_path n, as_opt as_str a, dec_path bi, as_bool hf with
      | Some sc', Some m', Some cur', Some n', Some a', Some bi', Some hf' =>
          let r := inspect_import sc' m' cur' n' a' bi' hf' in
          Some (SList [SStr (fst r); enc_member (snd (visit_import n' a')); enc_member (snd r); of_bool (binds_ancestor m' n' a')])
      | _, _, _, _, _, _, _ => Some bad_input
      end
  | _ => None
  end.
