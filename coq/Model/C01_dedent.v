(* C01: Object.source = textwrap.dedent of the sliced lines, for indentation made of blanks AND tabs.
   textwrap.dedent: a line made only of blanks / tabs becomes empty; the margin is the longest common leading
   whitespace STRING of the other lines (compared character by character: a tab and blanks have nothing in common);
   the margin is cut off every line.  Executable definitions only. *)
From Coq Require Import List String Ascii Bool Arith.
From Verif Require Import Model.C01_layout.
Import ListNotations.
Open Scope string_scope.
Open Scope list_scope.

Definition is_ws (c : ascii) : bool := Ascii.eqb c " "%char || Ascii.eqb c "009"%char.
Fixpoint all_ws (s : string) : bool := match s with EmptyString => true | String c r => is_ws c && all_ws r end.
(* leading whitespace of a line *)
Fixpoint lead (s : string) : string :=
  match s with String c r => if is_ws c then String c (lead r) else EmptyString | EmptyString => EmptyString end.
(* longest common prefix *)
Fixpoint cprefix (a b : string) : string :=
  match a, b with
  | String x a', String y b' => if Ascii.eqb x y then String x (cprefix a' b') else EmptyString
  | _, _ => EmptyString
  end.
Fixpoint margin_of (ls : lines) : option string :=
  match ls with
  | [] => None
  | l :: r =>
      if all_ws l then margin_of r
      else match margin_of r with Some m => Some (cprefix (lead l) m) | None => Some (lead l) end
  end.
Definition margin_ws (ls : lines) : string := match margin_of ls with Some m => m | None => EmptyString end.
Definition dedent_ws (ls : lines) : lines :=
  map (fun l => if all_ws l then EmptyString else drop (String.length (margin_ws ls)) l) ls.

(* Object.lines / Object.source of an object whose reported span is a..b *)
Definition object_lines (whole : lines) (a b : nat) : lines := slice whole a b.
Definition object_source (whole : lines) (a b : nat) : lines := dedent_ws (slice whole a b).
