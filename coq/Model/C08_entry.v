(* C08 model: the two documented ways of loading a dump.
   (1) Cls.from_json(text)  (mixins.py SerializationMixin.from_json): json.loads(text, object_hook=json_decoder)
       followed by isinstance(obj, Cls);
   (2) json.loads(text, object_hook=json_decoder) used directly -- the only way to load the dictionary of packages that
       `griffe dump` writes.
   Both are the hooked reader of Model/C08_hook.v; nothing else (no second pass over the tree) takes part.
   Executable definitions only. *)
From Coq Require Import List ZArith String Ascii Bool Arith.
From Verif Require Import Lib.Sexp Gen.C08_tables Model.C08_json Model.C08_text Model.C08_hook.
Import ListNotations.
Open Scope string_scope.
Open Scope list_scope.
Open Scope nat_scope.

Definition kind_of_tree (t : tree) : string :=
  match t with TObj _ _ _ _ _ _ x => kind_of x | TAlias _ _ _ _ => kind_alias end.

(* isinstance(obj, cls) for cls one of Module / Class / Function / Attribute / Alias (by kind), or Object (any object) *)
Inductive wanted := WKind (k : string) | WObject.
Definition is_object (t : tree) : bool := match t with TObj _ _ _ _ _ _ _ => true | TAlias _ _ _ _ => false end.
Definition is_instance (w : wanted) (v : pv) : bool :=
  match v with
  | PTree t => match w with WKind k => String.eqb (kind_of_tree t) k | WObject => is_object t end
  | _ => false
  end.

(* Cls.from_json(text): the hooked reading, then the class test (TypeError otherwise) *)
Definition from_json_text (w : wanted) (s : string) : tres :=
  match loads_hook s with
  | TOk v => if is_instance w v then TOk v else TErr EType
  | r => r
  end.

(* the document `griffe dump` writes for several packages: {name: as_dict(package), ...} *)
Definition packages_doc (ps : list (string * tree)) : json :=
  JObj (map (fun km => match km with (k, m) => (k, enc_min m) end) ps).
