(* C17 model, wildcard imports.
   Static : Visitor.visit_importfrom records `from S import *` as one alias member named "S/*"; the loader's
            expand_wildcards replaces it by one alias per member of S that is_wildcard_exposed (mixins.py), keeping an
            already present member unless the import statement comes later in the file (loader.py).
   Runtime: CPython binds every name of S.__all__, or every name of S's namespace that does not start with an
            underscore; bindings made by later statements replace earlier ones.
   Executable definitions only. *)
From Coq Require Import List ZArith String Ascii Bool Arith.
From Verif Require Import Lib.Sexp Model.C17_base Gen.C17_tables Model.C17_agents.
Import ListNotations.
Open Scope string_scope.
Open Scope list_scope.
Open Scope nat_scope.

(* ------------------------------------------------------------------------------------------------ *)
(* 1. which names a wildcard import brings                                                           *)

(* a member of the source module as the loaded tree holds it *)
Record smem := mkSM {
  sm_name : string;
  sm_runtime : bool;              (* not under `if TYPE_CHECKING:` *)
  sm_alias : bool;                (* is_alias *)
  sm_module : bool;               (* is_module *)
  sm_imported : bool }.           (* is_imported: the name is in the parent's imports *)

(* a submodule attached by the loader that the module itself does not import *)
Definition sm_lone_submodule (m : smem) : bool := negb (sm_alias m) && sm_module m && negb (sm_imported m).

Definition private_name (n : string) : bool := match n with String c _ => Ascii.eqb c "_"%char | EmptyString => false end.

(* ObjectAliasMixin.is_wildcard_exposed, for a member of a module: the boolean function is Gen/C17_tables.v's *)
Definition wildcard_exposed (all : option (list string)) (m : smem) : bool :=
  wildcard_exposed_tbl (sm_runtime m)
    (match all with Some _ => true | None => false end)
    (match all with Some l => mem_str (sm_name m) l | None => false end)
    (private_name (sm_name m)) (sm_alias m) (sm_module m) (sm_imported m).

(* GriffeLoader._expand_wildcard: the exposed members, in member order *)
Definition griffe_star (all : option (list string)) (ms : list smem) : list string :=
  map sm_name (filter (wildcard_exposed all) ms).

(* CPython, import_all_from: the names of __all__ (AttributeError when one is not bound), or the public names of the
   namespace; `ns` = the names bound when the body of S has run *)
Definition cpython_star (all : option (list string)) (ns : list string) : option (list string) :=
  match all with
  | Some l => if forallb (fun n => mem_str n ns) l then Some l else None
  | None => Some (filter (fun n => negb (private_name n)) ns)
  end.

(* ------------------------------------------------------------------------------------------------ *)
(* 2. which statement a name of the importing module ends up bound by                                *)

Inductive event :=
| EBind (n : string)               (* def / class / assignment / import of one name *)
| EStar (names : list string).     (* from S import * : the names it brings *)

Definition binds (n : string) (e : event) : bool :=
  match e with EBind m => String.eqb m n | EStar l => mem_str n l end.
Definition is_bind (n : string) (e : event) : bool := match e with EBind m => String.eqb m n | _ => false end.
Definition is_star (n : string) (e : event) : bool := match e with EStar l => mem_str n l | _ => false end.

(* CPython: the statements of the body run in order (position = line); the last one that binds n wins *)
Fixpoint cpy_binder (n : string) (i : nat) (body : list event) (acc : option nat) : option nat :=
  match body with
  | [] => acc
  | e :: r => cpy_binder n (S i) r (if binds n e then Some i else acc)
  end.

(* the Visitor: members[n] = the last definition (dict assignment); the wildcard statements stay aside *)
Fixpoint visit_binder (n : string) (i : nat) (body : list event) (acc : option nat) : option nat :=
  match body with
  | [] => acc
  | e :: r => visit_binder n (S i) r (if is_bind n e then Some i else acc)
  end.

(* expand_wildcards: the wildcards in member order; a present member is overwritten only by a later line *)
Fixpoint expand_binder (n : string) (j : nat) (body : list event) (acc : option nat) : option nat :=
  match body with
  | [] => acc
  | e :: r =>
      expand_binder n (S j) r
        (if is_star n e then match acc with None => Some j | Some old => if old <? j then Some j else acc end else acc)
  end.

Definition griffe_binder (n : string) (body : list event) : option nat :=
  expand_binder n 0 body (visit_binder n 0 body None).

(* ------------------------------------------------------------------------------------------------ *)
(* 3. s-expression interface                                                                        *)

Definition dec_smem (s : sexp) : option smem :=
  match s with
  | SList [SStr n; r; a; m; i] => do r' <- as_bool r; do a' <- as_bool a; do m' <- as_bool m; do i' <- as_bool i; Some (mkSM n r' a' m' i')
  | _ => None
  end.
Definition dec_event (s : sexp) : option event :=
  match s with
  | SList [SStr "bind"; SStr n] => Some (EBind n)
  | SList [SStr "star"; l] => do l' <- dec_path l; Some (EStar l')
  | _ => None
  end.

(* ["star", all, members, namespace] -> [griffe names; cpython names]
   ["binder", name, body] -> [griffe binder; cpython binder] *)
Definition run_star (s : sexp) : option sexp :=
  match s with
  | SList [SStr "star"; a; ms; ns] =>
      match as_opt dec_path a, as_list_of dec_smem ms, dec_path ns with
      | Some a', Some ms', Some ns' =>
          Some (SList [enc_path (griffe_star a' ms'); of_opt enc_path (cpython_star a' ns')])
      | _, _, _ => Some bad_input
      end
  | SList [SStr "binder"; SStr n; b] =>
      match as_list_of dec_event b with
      | Some b' => Some (SList [of_opt of_nat (griffe_binder n b'); of_opt of_nat (cpy_binder n 0 b' None)])
      | None => Some bad_input
      end
  | _ => None
  end.
