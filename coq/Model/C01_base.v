(* C01 base definitions shared by the generated tables (Gen/C01_tables.v) and the C01 model.
   Executable definitions only.

   Visibility ladders (mixins.py: is_private, is_special, is_class_private, is_imported, is_exported,
   is_wildcard_exposed, is_public) are translated from the source on every run into functions
   [vin -> tb] over the abstract inputs below; [None] means "the Python expression raises"
   (attribute access on a missing parent, [in] on an undefined __all__). *)
From Coq Require Import List Bool String.
Import ListNotations.

(* three-valued booleans with Python's short-circuit evaluation *)
Definition tb := option bool.
Definition t_and (a b : tb) : tb := match a with Some true => b | Some false => Some false | None => None end.
Definition t_or (a b : tb) : tb := match a with Some false => b | Some true => Some true | None => None end.
Definition t_not (a : tb) : tb := match a with Some x => Some (negb x) | None => None end.
Definition t_if (c t e : tb) : tb := match c with Some true => t | Some false => e | None => None end.
Definition t_at (b : bool) : tb := Some b.

(* the inputs the predicates look at *)
Record vin := mkVin {
  v_public : option bool;        (* the [public] attribute: None = unset *)
  v_alias : bool;                (* self.is_alias *)
  v_module : bool;               (* self.is_module *)
  v_us : bool;                   (* name.startswith("_") *)
  v_dus : bool;                  (* name.startswith("__") *)
  v_due : bool;                  (* name.endswith("__") *)
  v_parent : bool;               (* self.parent is not None *)
  v_pmod : bool;                 (* self.parent.is_module *)
  v_pcls : bool;                 (* self.parent.is_class *)
  v_exports : option (bool * bool);  (* parent.exports: None = undefined, Some (nonempty, name listed) *)
  v_imported : bool;             (* name in parent.imports *)
  v_runtime : bool               (* self.runtime *)
}.

(* attribute of the parent: raises AttributeError when there is no parent *)
Definition p_at (i : vin) (b : bool) : tb := if v_parent i then Some b else None.
Definition exp_truthy (i : vin) : tb :=
  if v_parent i then Some (match v_exports i with Some (ne, _) => ne | None => false end) else None.
Definition exp_defined (i : vin) : tb :=
  if v_parent i then Some (match v_exports i with Some _ => true | None => false end) else None.
(* [name in parent.exports]: TypeError when exports is None *)
Definition exp_listed (i : vin) : tb :=
  if v_parent i then match v_exports i with Some (_, l) => Some l | None => None end else None.
Definition pub_set (i : vin) : tb := Some (match v_public i with Some _ => true | None => false end).
Definition pub_val (i : vin) : tb := Some (match v_public i with Some b => b | None => false end).

(* the inputs that can arise: "__x" starts with "_"; a listed name means a non-empty list; no parent, no parent data *)
Definition vin_consistent (i : vin) : bool :=
  implb (v_dus i) (v_us i) &&
  match v_exports i with Some (ne, l) => implb l ne | None => true end &&
  implb (negb (v_parent i)) (negb (v_pmod i) && negb (v_pcls i) && negb (v_imported i)
                               && match v_exports i with None => true | _ => false end) &&
  negb (v_pmod i && v_pcls i).

(* what a visit_<kind> method of the Visitor is (Gen/C01_dispatch.v lists the methods that exist) *)
Inductive handler :=
| HModule | HClass
| HFunction (labels : list string)     (* handle_function(node, labels): the labels a definition starts with *)
| HAttribute | HAnnAttribute | HAugAssign | HImport | HImportFrom | HIf
| HExpr.                               (* expression statements: <all_receiver>.<all_methods>(x) extends the exports *)
(* how assignments.py builds the name of a target node *)
Inductive name_builder := NBName | NBAttribute.

Definition str_mem (s : string) (l : list string) : bool := existsb (String.eqb s) l.
Fixpoint assoc_labels (k : string) (l : list (string * list string)) : option (list string) :=
  match l with [] => None | (k', v) :: r => if String.eqb k k' then Some v else assoc_labels k r end.
