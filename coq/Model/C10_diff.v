(* C10 model: diff.py:_function_incompatibilities (parameter rules) and CPython's call binder.
   Kind sets and the `swallowed` / `incompatible_kind` expressions come from Gen/C10_tables.v, which is
   regenerated from /repo/src/_griffe/diff.py on every run.  Executable definitions only. *)
From Coq Require Import List Arith Bool ZArith String.
From Verif Require Import Lib.Sexp Model.C10_kinds Gen.C10_tables.
Import ListNotations.
Open Scope list_scope. Open Scope nat_scope.

(* default: None = no default; Some d = the default's source text (an atom). The visitor stores "()" / "{}" for
   variadic parameters: modelled as Some 0. *)
Record param := mk { pname : nat; pkind : kind; pdef : option nat }.
Definition sig := list param.

Definition is_pos k := kind_in k POSITIONAL.
Definition is_var k := kind_in k VARIADIC.
Definition required p := match pdef p with None => true | _ => false end.
Fixpoint find (n : nat) (s : sig) : option param :=
  match s with [] => None | p :: r => if Nat.eqb (pname p) n then Some p else find n r end.
Fixpoint index_of (n : nat) (s : sig) : nat :=
  match s with [] => 0 | p :: r => if Nat.eqb (pname p) n then 0 else S (index_of n r) end.
Definition has_kind k (s : sig) := existsb (fun p => kind_eqb (pkind p) k) s.
Definition odef_eqb (a b : option nat) :=
  match a,b with None,None => true | Some x, Some y => Nat.eqb x y | _,_ => false end.

Inductive brk := Removed (n:nat) | ChReq (n:nat) | Moved (n:nat) | ChKind (n:nat) | ChDef (n:nat) | AddedReq (n:nat).

Definition per_old (new : sig) (oi : nat) (op : param) : list brk :=
  let hva := has_kind VP new in let hvk := has_kind VK new in
  match find (pname op) new with
  | None => if swallowed (pkind op) hva hvk then [] else [Removed (pname op)]
  | Some np =>
    (if required np && negb (required op) then [ChReq (pname op)] else []) ++
    (if is_pos (pkind op) && is_pos (pkind np) && negb (Nat.eqb (index_of (pname op) new) oi)
     then [Moved (pname op)] else []) ++
    (if negb (kind_eqb (pkind op) (pkind np)) && incompatible_kind (pkind op) (pkind np) hva hvk
     then [ChKind (pname op)] else []) ++
    (if negb (required op) && negb (required np) && negb (is_var (pkind op)) && negb (is_var (pkind np))
        && negb (odef_eqb (pdef op) (pdef np)) then [ChDef (pname op)] else [])
  end.
Fixpoint olds (new : sig) (i : nat) (old : sig) : list brk :=
  match old with [] => [] | p :: r => per_old new i p ++ olds new (S i) r end.
Definition added (old new : sig) : list brk :=
  flat_map (fun np => match find (pname np) old with
                      | None => if required np then [AddedReq (pname np)] else []
                      | _ => [] end) new.
Definition fdiff (old new : sig) : list brk := olds new 0 old ++ added old new.

(* ---- authority: CPython's binder for a call with n positional arguments and keyword names K ---- *)
Definition pos_kind k := match k with PO | PK => true | _ => false end.
Definition npos (s : sig) := List.length (filter (fun p => pos_kind (pkind p)) s).
Definition mem n K := existsb (Nat.eqb n) K.
Definition kw_ok (s : sig) (n : nat) (k : nat) : bool :=
  match find k s with
  | Some q => match pkind q with
              | PK => negb (Nat.ltb (index_of k s) n)    (* else: multiple values for the argument *)
              | KO => true
              | _ => has_kind VK s end                   (* positional-only / variadic names fall into the var-keyword *)
  | None => has_kind VK s end.
Definition param_ok (s : sig) (n : nat) (K : list nat) (q : param) : bool :=
  match pkind q with
  | PO => Nat.ltb (index_of (pname q) s) n || negb (required q)
  | PK => Nat.ltb (index_of (pname q) s) n || mem (pname q) K || negb (required q)
  | KO => mem (pname q) K || negb (required q)
  | _ => true end.
(* a keyword name given twice (through dictionary unpacking) is rejected against every signature *)
Fixpoint nodupb (K : list nat) : bool :=
  match K with [] => true | k :: r => negb (mem k r) && nodupb r end.
Definition binds (s : sig) (n : nat) (K : list nat) : bool :=
  nodupb K && (Nat.leb n (npos s) || has_kind VP s) && forallb (kw_ok s n) K && forallb (param_ok s n K) s.

(* ---- well-formed signatures (what `def` accepts) ---- *)
Definition krank k := match k with PO=>0|PK=>1|VP=>2|KO=>3|VK=>4 end.
Fixpoint sorted_kinds (s : sig) : bool :=
  match s with p :: ((q :: _) as r) => Nat.leb (krank (pkind p)) (krank (pkind q)) && sorted_kinds r | _ => true end.
Fixpoint nodup_names (s : sig) : bool :=
  match s with [] => true | p :: r => negb (existsb (fun q => Nat.eqb (pname q) (pname p)) r) && nodup_names r end.
Fixpoint pos_defaults_ok (seen_def : bool) (s : sig) : bool :=
  match s with [] => true | p :: r =>
    if pos_kind (pkind p) then (if required p then negb seen_def && pos_defaults_ok seen_def r else pos_defaults_ok true r)
    else pos_defaults_ok seen_def r end.
Definition count_kind k (s : sig) := List.length (filter (fun p => kind_eqb (pkind p) k) s).
Definition var_kind k := match k with VP | VK => true | _ => false end.
Definition wf (s : sig) : bool :=
  sorted_kinds s && nodup_names s && pos_defaults_ok false s &&
  Nat.leb (count_kind VP s) 1 && Nat.leb (count_kind VK s) 1 &&
  forallb (fun p => if var_kind (pkind p) then odef_eqb (pdef p) (Some 0) else negb (odef_eqb (pdef p) (Some 0))) s.

(* ---- known gaps (findings C10-F2, C10-F4, C10-F5): decidable predicates on the pair ---- *)
Definition accepts_more_than (s : sig) (i : nat) := Nat.ltb i (npos s) || has_kind VP s.
(* F2: a new optional positional-or-keyword parameter q, absent from old, at new index i, while old has a
   var-keyword and accepts more than i positionals: f(x0..xi, q=..) bound before, now "multiple values". *)
Definition F2 (old new : sig) := has_kind VK old && existsb (fun np => kind_eqb (pkind np) PK && negb (required np) &&
  match find (pname np) old with None => accepts_more_than old (index_of (pname np) new) | _ => false end) new.
(* F4: old has a var-keyword and a positional-only parameter becomes positional-or-keyword. *)
Definition F4 (old new : sig) := has_kind VK old && existsb (fun op => kind_eqb (pkind op) PO &&
  match find (pname op) new with Some np => kind_eqb (pkind np) PK | None => false end) old.
(* F5: a keyword-only parameter becomes positional-or-keyword at new index i while old accepts more than i positionals. *)
Definition F5 (old new : sig) := existsb (fun op => kind_eqb (pkind op) KO &&
  match find (pname op) new with
  | Some np => kind_eqb (pkind np) PK && accepts_more_than old (index_of (pname op) new)
  | None => false end) old.
(* F6: a var-keyword parameter becomes positional-or-keyword at new index i while new keeps a var-keyword (otherwise the
   kind change is reported) and old accepts more than i positionals: its name passed as keyword used to fall into the
   var-keyword, now collides with a positional. *)
Definition F6 (old new : sig) := has_kind VK new && existsb (fun op => kind_eqb (pkind op) VK &&
  match find (pname op) new with
  | Some np => kind_eqb (pkind np) PK && accepts_more_than old (index_of (pname op) new)
  | None => false end) old.
(* F7: a var-positional parameter becomes positional-or-keyword at new index i while new keeps a var-positional
   (otherwise the kind change is reported), old has a var-keyword (so the name was accepted as keyword) and old accepts
   more than i positionals. *)
Definition F7 (old new : sig) := has_kind VP new && has_kind VK old && existsb (fun op => kind_eqb (pkind op) VP &&
  match find (pname op) new with
  | Some np => kind_eqb (pkind np) PK && accepts_more_than old (index_of (pname op) new)
  | None => false end) old.
Definition known_gap o n := F2 o n || F4 o n || F5 o n || F6 o n || F7 o n.

Definition is_nil {A} (l : list A) := match l with [] => true | _ => false end.
Definition statement (old new : sig) (n : nat) (K : list nat) : bool :=
  implb (binds old n K && negb (binds new n K)) (negb (is_nil (fdiff old new)) || known_gap old new).

(* ---- s-expression interface ---- *)
Definition dec_kind (s : sexp) : option kind :=
  match s with SStr "PO" => Some PO | SStr "PK" => Some PK | SStr "VP" => Some VP | SStr "KO" => Some KO | SStr "VK" => Some VK | _ => None end%string.
Definition dec_param (s : sexp) : option param :=
  match s with
  | SList [n; k; d] => do n' <- as_nat n; do k' <- dec_kind k; do d' <- as_opt as_nat d; Some (mk n' k' d')
  | _ => None end.
Definition dec_sig := as_list_of dec_param.
Definition enc_brk (b : brk) : sexp :=
  match b with
  | Removed n => SList [SStr "removed"; of_nat n] | ChReq n => SList [SStr "required"; of_nat n]
  | Moved n => SList [SStr "moved"; of_nat n] | ChKind n => SList [SStr "kind"; of_nat n]
  | ChDef n => SList [SStr "default"; of_nat n] | AddedReq n => SList [SStr "added"; of_nat n] end%string.

Definition calls (maxn : nat) (Ks : list (list nat)) : list (nat * list nat) :=
  flat_map (fun n => map (fun K => (n, K)) Ks) (seq 0 (S maxn)).

(* all (old,new) index pairs of [sigs] on which [statement] fails for some call shape *)
Definition sweep (sigs : list sig) (cs : list (nat * list nat)) : list (nat * nat) :=
  let idx := combine (seq 0 (List.length sigs)) sigs in
  flat_map (fun io => flat_map (fun jn =>
    if forallb (fun c => statement (snd io) (snd jn) (fst c) (snd c)) cs then [] else [(fst io, fst jn)]) idx) idx.

Definition run_C10 (s : sexp) : sexp :=
  match s with
  | SList [SStr "fdiff"; o; n] =>
      match dec_sig o, dec_sig n with
      | Some o', Some n' => SList [SList (map enc_brk (fdiff o' n')); of_bool (known_gap o' n');
                                   SList [of_bool (F2 o' n'); of_bool (F4 o' n'); of_bool (F5 o' n'); of_bool (F6 o' n'); of_bool (F7 o' n')];
                                   of_bool (wf o' && wf n')]
      | _, _ => bad_input end
  | SList [SStr "binds"; sg; cs] =>
      match dec_sig sg, as_list_of (fun c => match c with SList [n; K] => do n' <- as_nat n; do K' <- as_list_of as_nat K; Some (n', K') | _ => None end) cs with
      | Some sg', Some cs' => SList (map (fun c => of_bool (binds sg' (fst c) (snd c))) cs')
      | _, _ => bad_input end
  | SList [SStr "sweep"; sigs; SInt maxn; Ks] =>
      match as_list_of dec_sig sigs, as_list_of (as_list_of as_nat) Ks with
      | Some sigs', Some Ks' =>
          SList (map (fun ij => SList [of_nat (fst ij); of_nat (snd ij)]) (sweep sigs' (calls (Z.to_nat maxn) Ks')))
      | _, _ => bad_input end
  | _ => bad_input
  end%string.
