(* C12: exception classes around the look-ups on docstring.parent and the compilation of annotations.
   The table of sites is regenerated from /repo (Gen/C12_guards.v).  Executable definitions only. *)
From Coq Require Import List String Bool.
Import ListNotations.

Inductive exc :=
| EAttributeError | EKeyError | EIndexError | EValueError | ETypeError | EAliasResolutionError | ECyclicAliasError
| EBuiltinModuleError | ESyntaxError | ERecursionError | EMemoryError | ELookupError | ERuntimeError | EException
| EUnicodeEncodeError.

Definition exc_eqb (a b : exc) : bool :=
  match a, b with
  | EAttributeError, EAttributeError | EKeyError, EKeyError | EIndexError, EIndexError | EValueError, EValueError
  | ETypeError, ETypeError | EAliasResolutionError, EAliasResolutionError | ECyclicAliasError, ECyclicAliasError
  | EBuiltinModuleError, EBuiltinModuleError | ESyntaxError, ESyntaxError | ERecursionError, ERecursionError
  | EMemoryError, EMemoryError | ELookupError, ELookupError | ERuntimeError, ERuntimeError | EException, EException
  | EUnicodeEncodeError, EUnicodeEncodeError => true
  | _, _ => false
  end.

(* direct base class (Python's and Griffe's hierarchies), None for Exception *)
Definition base (e : exc) : option exc :=
  match e with
  | EException => None
  | EKeyError | EIndexError => Some ELookupError
  | ERecursionError => Some ERuntimeError
  | EUnicodeEncodeError => Some EValueError
  | _ => Some EException
  end.

(* e is c or a subclass of c (the hierarchy is three levels deep) *)
Definition subclass (e c : exc) : bool :=
  exc_eqb e c
  || match base e with
     | None => false
     | Some b => exc_eqb b c || match base b with
                                | None => false
                                | Some b2 => exc_eqb b2 c || match base b2 with Some b3 => exc_eqb b3 c | None => false end
                                end
     end.

Definition covered (caught : list exc) (e : exc) : bool := existsb (subclass e) caught.
Definition site_ok (s : string * list exc * list exc) : bool :=
  let '(_, raised, caught) := s in forallb (covered caught) raised.
