(* C17 model: the dynamic agent (agents/nodes/runtime.py ObjectNode.kind / alias_target_path, agents/inspector.py
   generic_inspect / handle_function / handle_attribute / _convert_parameter / _get_docstring), the static agent's
   treatment of the same definition forms (agents/visitor.py handle_function / visit_classdef / handle_attribute /
   visit_import / visit_importfrom, agents/nodes/imports.py relative_to_absolute), and the authority:
   what CPython's introspection reports for each definition form, importlib's relative-name resolution,
   inspect.signature, inspect.cleandoc.
   The kind ladder, handler table, decorator tables and _kind_map come from Gen/C17_tables.v (regenerated each run).
   Executable definitions only. *)
From Coq Require Import List ZArith String Ascii Bool Arith.
From Verif Require Import Lib.Sexp Model.C02_kinds Model.C02_params Model.C17_base Gen.C17_tables.
Import ListNotations.
Open Scope string_scope.
Open Scope list_scope.
Open Scope nat_scope.

(* ------------------------------------------------------------------------------------------------ *)
(* 1. Inspector: kind ladder and handler dispatch                                                     *)

Definition inspector_okind (f : features) : okind := run_ladder f kind_ladder kind_default.

Inductive gkind := GModule | GClass | GFunction | GAttribute.

(* what an agent leaves in `current.members[name]` for one child / one statement *)
Inductive member :=
| MAlias (target : list string)
| MNothing                              (* no member created by the agent itself (submodule found by the loader) *)
| MObj (k : gkind) (labels : list string)
| MErr (e : string).

Definition mem_str (s : string) (l : list string) : bool := existsb (String.eqb s) l.

(* both agents: `if "property" in labels: Attribute(...) else Function(...)` *)
Definition function_or_property (labels : list string) : member :=
  if mem_str "property" labels then MObj GAttribute labels else MObj GFunction labels.

(* Inspector.handle_attribute: label from the kind of self.current *)
Definition inspector_attribute (parent_is_class : bool) : member :=
  MObj GAttribute [if parent_is_class then "class" else "module"].

(* Inspector.handle_function: `if node.is_coroutine: labels.add("async")` (labels is a set) *)
Definition with_async (f : features) (ls : list string) : list string :=
  if f PIsCoroutine && negb (mem_str "async" ls) then ls ++ ["async"] else ls.

Definition inspect_member (f : features) : member :=
  match lookup_handler (inspector_okind f) handlers with
  | Some HModule => MObj GModule []
  | Some HClass => MObj GClass []
  | Some (HFunc ls) => function_or_property (with_async f ls)
  | Some HAttr => inspector_attribute (f PParentIsClass)
  | None => MErr "no-handler"
  end.

(* ------------------------------------------------------------------------------------------------ *)
(* 2. ObjectNode.alias_target_path and Inspector.generic_inspect                                     *)

Fixpoint lstrip_us (s : string) : string :=
  match s with
  | String c r => if Ascii.eqb c "_"%char then lstrip_us r else s
  | EmptyString => s
  end.

Fixpoint path_eqb (a b : list string) : bool :=
  match a, b with
  | [], [] => true
  | x :: a', y :: b' => String.eqb x y && path_eqb a' b'
  | _, _ => false
  end.

(* runtime._same_components on dotted paths given as component lists *)
Definition same_components (a b : list string) : bool := path_eqb (map lstrip_us a) (map lstrip_us b).

Fixpoint join_dot (p : list string) : string :=
  match p with
  | [] => ""
  | [x] => x
  | x :: r => x ++ "." ++ join_dot r
  end.

(* str.lstrip("_") of the dotted string = strip the first component *)
Definition lstrip_path (p : list string) : list string :=
  match p with [] => [] | c :: r => lstrip_us c :: r end.

Definition cyclic (p c : list string) : bool :=
  existsb (fun pc => String.eqb (fst pc) (join_dot p) && String.eqb (snd pc) (join_dot c)) cyclic_relationships.

Record alias_env := mkAE {
  ae_has_parent : bool;
  ae_child_mod : option (list string);     (* self.module_path (None: falsy) *)
  ae_parent_mod : option (list string);    (* self.parent.module_path *)
  ae_qualname : list string;               (* getattr(obj, "__qualname__", fallback) *)
  ae_builtins : list string }.             (* sys.builtin_module_names *)

Definition alias_target_path (f : features) (e : alias_env) : option (list string) :=
  if negb (ae_has_parent e) then None else
  if okind_eqb (inspector_okind f) KAttribute then None else
  match ae_child_mod e with
  | None => None
  | Some c =>
    match ae_parent_mod e with
    | None => None
    | Some p =>
      if cyclic p c then None else
      (* objects declared in the parent's module (up to leading underscores) are not aliased; a module object always is *)
      if negb (f PIsModule) && same_components p c then None else
      (* objects of built-in modules are moved to the public module name; a module object keeps its own name *)
      let c' := if negb (f PIsModule) && mem_str (join_dot (lstrip_path c)) (map lstrip_us (ae_builtins e)) then lstrip_path c else c in
      if f PIsModule then Some c' else Some (c' ++ ae_qualname e)
    end
  end.

(* one iteration of Inspector.generic_inspect *)
Definition inspect_child (f : features) (e : alias_env) (cur : list string) (name : string) (has_file : bool) : member :=
  match alias_target_path f e with
  | Some t =>
      if f PIsModule && path_eqb t (cur ++ [name])
      then (if has_file then MNothing else MObj GModule [])
      else MAlias t
  | None => inspect_member f
  end.

(* ObjectNode._pick_member: which entries of inspect.getmembers(obj) become children.  _ids holds the ids of the node's
   object and of all its ancestors' objects; the placeholder nodes ObjectNode(None, name=part) that Inspector.get_module
   builds as the ancestors of a submodule contribute nothing. *)
Record pick_env := mkPick {
  pk_name : string;
  pk_is_type : bool;            (* member is type *)
  pk_is_object : bool;          (* member is object *)
  pk_is_ancestor : bool;        (* member is the node's own object or the object of a real (non-placeholder) ancestor *)
  pk_is_none : bool;            (* member is None *)
  pk_placeholders : nat;        (* number of ObjectNode(None) placeholder ancestors *)
  pk_in_vars : bool }.          (* name in vars(obj) *)

Definition in_ids (e : pick_env) : bool := pk_is_ancestor e.

Definition pick_member (e : pick_env) : bool :=
  negb (mem_str (pk_name e) exclude_specials) && negb (pk_is_type e) && negb (pk_is_object e) && negb (in_ids e) && pk_in_vars e.

(* ------------------------------------------------------------------------------------------------ *)
(* 3. Visitor                                                                                        *)

Fixpoint lookup_labels (p : string) (l : list (string * list string)) : option (list string) :=
  match l with [] => None | (k, v) :: r => if String.eqb k p then Some v else lookup_labels p r end.

(* Visitor.decorators_to_labels on the decorators' callable paths *)
Definition decorator_labels (paths : list string) : list string :=
  flat_map (fun p => match lookup_labels p builtin_decorators with
                     | Some l => l
                     | None => match lookup_labels p stdlib_decorators with Some l => l | None => [] end
                     end) paths.

(* Visitor.handle_function for a plain (non-overload, non-setter) definition *)
Definition visit_function (async : bool) (decos : list string) : member :=
  function_or_property ((if async then ["async"] else []) ++ decorator_labels decos).

Definition visit_class (decos : list string) : member := MObj GClass (decorator_labels decos).

(* Visitor.handle_attribute for `NAME = <value>` *)
Definition visit_assign (in_class : bool) : member :=
  MObj GAttribute (if in_class then ["class-attribute"; "instance-attribute"] else ["module-attribute"]).

Record import_from := mkImp { i_level : nat; i_module : list string; i_name : string; i_as : option string }.
Record modinfo := mkMod { m_path : list string; m_init : bool }.

Definition bound_name (i : import_from) : string := match i_as i with Some a => a | None => i_name i end.

Definition is_package (m : modinfo) : bool := m_init m && (List.length (m_path m) =? 1).
Definition is_subpackage (m : modinfo) : bool := m_init m && (1 <? List.length (m_path m)).

(* while level > 0 and current_module.parent is not None: current_module = current_module.parent *)
Fixpoint climb (level : nat) (p : list string) : list string :=
  match level with
  | 0 => p
  | S l => if 1 <? List.length p then climb l (removelast p) else p
  end.

(* agents/nodes/imports.py *)
Definition relative_to_absolute (m : modinfo) (i : import_from) : list string :=
  let level := if ((0 <? i_level i) && is_package m) || is_subpackage m then i_level i - 1 else i_level i in
  let base := if 0 <? i_level i then climb level (m_path m) else [] in
  base ++ i_module i ++ [i_name i].

Definition is_nil {A} (l : list A) : bool := match l with [] => true | _ => false end.
Definition is_none {A} (o : option A) : bool := match o with None => true | _ => false end.

(* Visitor.visit_importfrom for one imported name; cur = self.current.path *)
Definition visit_importfrom (cur : list string) (m : modinfo) (i : import_from) : member :=
  if is_nil (i_module i) && (i_level i =? 1) && is_none (i_as i) && m_init m then MNothing
  else let ap := relative_to_absolute m i in
       if path_eqb ap (cur ++ [bound_name i]) then MNothing else MAlias ap.

(* Visitor.visit_import for one `import a.b.c [as x]` : (member name, member) *)
Definition visit_import (name : list string) (asname : option string) : string * member :=
  match asname with
  | Some a => (a, MAlias name)
  | None => (hd "" name, MAlias [hd "" name])
  end.

(* ---- authority: importlib._bootstrap._resolve_name / __package__ *)
Definition cpy_package (m : modinfo) : list string := if m_init m then m_path m else removelast (m_path m).

Definition cpy_resolve_base (m : modinfo) (level : nat) : option (list string) :=
  let pkg := cpy_package m in
  if List.length pkg <? level then None                     (* ImportError: beyond top-level package / no parent package *)
  else Some (firstn (List.length pkg - (level - 1)) pkg).

(* the module a `from ... import` statement reads from *)
Definition cpy_from_module (m : modinfo) (i : import_from) : option (list string) :=
  if i_level i =? 0 then Some (i_module i)
  else match cpy_resolve_base m (i_level i) with Some b => Some (b ++ i_module i) | None => None end.

(* ---- chains of re-exports: hop k imports a name from the module of hop k+1; the last hop imports from the
   defining module D the top-level name q.  `static_final` follows the aliases the visitor creates, the way
   Alias.final_target does in a tree that holds exactly these members. *)
Record hop := mkHop { h_mod : modinfo; h_imp : import_from }.
Definition hop_member (h : hop) : list string := m_path (h_mod h) ++ [bound_name (h_imp h)].

Fixpoint static_final (c : list hop) (defsite : list string) : option (list string) :=
  match c with
  | [] => Some defsite
  | h :: r =>
      let t := relative_to_absolute (h_mod h) (h_imp h) in
      let next := match r with [] => defsite | h' :: _ => hop_member h' end in
      if path_eqb t next then static_final r defsite else None
  end.

(* CPython: every statement of the chain executes and reads the binding made by the next one *)
Fixpoint cpy_chain_ok (c : list hop) (D : list string) (q : string) : bool :=
  match c with
  | [] => true
  | h :: r =>
      match cpy_from_module (h_mod h) (h_imp h) with
      | None => false
      | Some R =>
          match r with
          | [] => path_eqb R D && String.eqb (i_name (h_imp h)) q
          | h' :: _ => path_eqb R (m_path (h_mod h')) && String.eqb (i_name (h_imp h)) (bound_name (h_imp h'))
          end && cpy_chain_ok r D q
      end
  end.

(* ------------------------------------------------------------------------------------------------ *)
(* 4. Definition forms and what CPython reports for them                                             *)

Inductive scope := SMod | SCls.
Inductive thing := TFunc | TAsyncFunc | TClass | TModule | TValue.

Inductive defform :=
| DFunc (sc : scope) (async : bool)     (* def / async def at module level, or instance method *)
| DStaticM (async : bool)               (* @staticmethod in a class *)
| DClassM (async : bool)                (* @classmethod in a class *)
| DProp                                 (* @property *)
| DCachedProp                           (* @functools.cached_property *)
| DClass (sc : scope)                   (* class / nested class *)
| DValue (sc : scope)                   (* NAME = <plain value> *)
| DImported (sc : scope) (t : thing).   (* name bound by an import statement in a module / class body *)

Definition all_scopes := [SMod; SCls].
Definition all_bools := [false; true].
Definition all_things := [TFunc; TAsyncFunc; TClass; TModule; TValue].
Definition all_defforms : list defform :=
  flat_map (fun sc => map (DFunc sc) all_bools) all_scopes ++ map DStaticM all_bools ++ map DClassM all_bools ++
  [DProp; DCachedProp] ++ map DClass all_scopes ++ map DValue all_scopes ++
  flat_map (fun sc => map (DImported sc) all_things) all_scopes.

Definition in_class (sc : scope) : bool := match sc with SCls => true | SMod => false end.

Definition set_of (l : list prim) : features := fun p => existsb (prim_eqb p) l.

Definition function_prims (async : bool) : list prim :=
  [PIsFuncType; PIsFunction; PCallable] ++ (if async then [PIsCoroutine] else []).

(* CPython: the object getattr(parent, name) yields for each form, seen through the primitive observations *)
Definition runtime_prims (d : defform) : list prim :=
  match d with
  | DFunc sc async => function_prims async ++ (if in_class sc then [PParentIsClass] else [])
  | DStaticM async => function_prims async ++ [PParentIsClass; PDictStatic]        (* class access unwraps to the function *)
  | DClassM async => [PCallable; PParentIsClass; PDictClassm] ++ (if async then [PIsCoroutine] else [])  (* bound method *)
  | DProp => [PIsProperty; PParentIsClass]
  | DCachedProp => function_prims false ++ [PCached; PParentIsClass]                (* unwrapped to .func *)
  | DClass sc => [PIsClass; PCallable] ++ (if in_class sc then [PParentIsClass] else [])
  | DValue sc => if in_class sc then [PParentIsClass] else []
  | DImported sc t =>
      (match t with
       | TFunc => function_prims false
       | TAsyncFunc => function_prims true
       | TClass => [PIsClass; PCallable]
       | TModule => [PIsModule]
       | TValue => []
       end) ++ (if in_class sc then [PParentIsClass] else [])
  end.

Definition runtime_features (d : defform) : features := set_of (runtime_prims d).

Definition is_import (d : defform) : bool := match d with DImported _ _ => true | _ => false end.

(* the visitor on the source text of the same form (imports: see visit_importfrom / visit_import) *)
Definition visitor_member (d : defform) : member :=
  match d with
  | DFunc _ async => visit_function async []
  | DStaticM async => visit_function async ["staticmethod"]
  | DClassM async => visit_function async ["classmethod"]
  | DProp => visit_function false ["property"]
  | DCachedProp => visit_function false ["functools.cached_property"]
  | DClass _ => visit_class []
  | DValue sc => visit_assign (in_class sc)
  | DImported _ _ => MErr "import"
  end.

(* labels both agents use with the same meaning; everything else is agent-specific vocabulary *)
Definition shared_labels : list string := ["async"; "staticmethod"; "classmethod"; "property"; "cached"].

Inductive skel :=
| SAlias (t : list string) | SNothing | SObj (k : gkind) (shared : list bool) | SErr.

Definition skeleton (m : member) : skel :=
  match m with
  | MAlias t => SAlias t
  | MNothing => SNothing
  | MObj k ls => SObj k (map (fun s => mem_str s ls) shared_labels)
  | MErr _ => SErr
  end.

Definition gkind_eqb (a b : gkind) : bool :=
  match a, b with GModule, GModule | GClass, GClass | GFunction, GFunction | GAttribute, GAttribute => true | _, _ => false end.

Fixpoint bools_eqb (a b : list bool) : bool :=
  match a, b with
  | [], [] => true
  | x :: a', y :: b' => Bool.eqb x y && bools_eqb a' b'
  | _, _ => false
  end.

Definition skel_eqb (a b : skel) : bool :=
  match a, b with
  | SAlias t, SAlias u => path_eqb t u
  | SNothing, SNothing => true
  | SObj k l, SObj k' l' => gkind_eqb k k' && bools_eqb l l'
  | _, _ => false
  end.

Definition member_gkind (m : member) : option gkind := match m with MObj k _ => Some k | _ => None end.

(* ------------------------------------------------------------------------------------------------ *)
(* 5. Parameters                                                                                    *)

(* inspect.Parameter as seen by _convert_parameter: name, annotation atom, kind, default (None = Parameter.empty) *)
Record iparam := mkIP { ip_name : string; ip_ann : option Z; ip_kind : kind; ip_default : option Z }.

(* inspect.signature of a Python function whose ast.arguments is [a]: C02's cpython_signature, except that CPython gives
   variadic parameters no default (C02 stores Griffe's "()" / "{}" convention there) *)
Definition to_iparam (p : param) : iparam :=
  mkIP (pname p) (pann p) (pkind p) (match pdef p with DExpr e => Some e | _ => None end).
Definition inspect_signature (a : arguments) : list iparam := map to_iparam (cpython_signature a).

(* griffe Parameter as compared by the property: name, kind, annotation, default text, required *)
Record gparam := mkGP { gp_name : string; gp_ann : option Z; gp_kind : kind; gp_default : dflt }.
Definition gp_required (p : gparam) : bool := match gp_default p with DNone => true | _ => false end.

(* inspector._convert_parameter *)
Definition convert_parameter (p : iparam) : gparam :=
  mkGP (ip_name p) (ip_ann p) (kind_map (ip_kind p))
       (match ip_kind p with
        | VP => DStr "()"
        | VK => DStr "{}"
        | _ => match ip_default p with None => DNone | Some e => DExpr e end
        end).

(* Inspector.handle_function on a function, and on a classmethod through its __func__ *)
Definition inspector_parameters (a : arguments) : list gparam := map convert_parameter (inspect_signature a).

Definition of_param (p : param) : gparam := mkGP (pname p) (pann p) (pkind p) (pdef p).
(* Visitor.handle_function: get_parameters (C02) *)
Definition visitor_parameters (a : arguments) : result (list gparam) :=
  match get_parameters a with Ok ps => Ok (map of_param ps) | Err e => Err e end.

Definition is_variadic (k : kind) : bool := match k with VP | VK => true | _ => false end.
(* CPython's binder: a parameter must be supplied iff it has no default and is not variadic *)
Definition cpython_required (p : iparam) : bool := is_none (ip_default p) && negb (is_variadic (ip_kind p)).

(* ------------------------------------------------------------------------------------------------ *)
(* 6. Docstrings: inspect.cleandoc on lines abstracted to (indent, content atom | blank)             *)

Record line := mkLine { l_ind : nat; l_txt : option Z }.     (* None: only spaces *)
Definition blank (l : line) : bool := is_none (l_txt l).
Definition empty_line (l : line) : bool := blank l && (l_ind l =? 0).

Fixpoint min_indent (ls : list line) : option nat :=
  match ls with
  | [] => None
  | l :: r => if blank l then min_indent r
              else match min_indent r with Some m => Some (Nat.min (l_ind l) m) | None => Some (l_ind l) end
  end.

Definition shift (m : nat) (l : line) : line := mkLine (l_ind l - m) (l_txt l).

Fixpoint drop_while {A} (f : A -> bool) (l : list A) : list A :=
  match l with [] => [] | x :: r => if f x then drop_while f r else l end.
Definition drop_trailing {A} (f : A -> bool) (l : list A) : list A := rev (drop_while f (rev l)).

(* a text as its '\n'-separated lines; the empty text is [] *)
Definition cleandoc (ls : list line) : list line :=
  match ls with
  | [] => []
  | l0 :: r =>
      let r' := match min_indent r with Some m => map (shift m) r | None => r end in
      drop_while empty_line (drop_trailing empty_line (mkLine 0 (l_txt l0) :: r'))
  end.

(* str.rstrip() when content atoms carry no trailing whitespace: trailing blank lines disappear *)
Definition rstrip (ls : list line) : list line := drop_trailing blank ls.

(* Docstring.__init__: inspect.cleandoc(value.rstrip()) *)
Definition docstring_value (ls : list line) : list line := cleandoc (rstrip ls).
Definition static_doc (v : list line) : list line := docstring_value v.                 (* Visitor._get_docstring *)
Definition dynamic_doc (v : list line) : list line := docstring_value v.                (* Inspector._get_docstring *)
Definition cleaned_twice (v : list line) : list line := docstring_value (cleandoc v).   (* what a second cleaning would store *)
Definition first_line_blank (v : list line) : bool := match v with l0 :: _ :: _ => blank l0 | _ => false end.

(* ------------------------------------------------------------------------------------------------ *)
(* 7. s-expression interface                                                                        *)

Definition prim_name (p : prim) : string :=
  match p with
  | PIsModule => "ismodule" | PIsClass => "isclass" | PParentIsClass => "parent_is_class" | PDictStatic => "dict_static"
  | PDictClassm => "dict_classm" | PCached => "cached" | PIsFuncType => "isfunctype" | PIsBuiltin => "isbuiltin"
  | PIsCoroutine => "iscoroutine" | PIsMethodDescriptor => "ismethoddescriptor" | PIsFunction => "isfunction"
  | PCallable => "callable" | PIsGetSet => "isgetset" | PIsProperty => "isproperty"
  end.

Definition dec_prim (s : sexp) : option prim :=
  match s with
  | SStr n => find (fun p => String.eqb (prim_name p) n) all_prims
  | _ => None
  end.
Definition dec_features (s : sexp) : option features :=
  match as_list_of dec_prim s with Some l => Some (set_of l) | None => None end.

Definition enc_path (p : list string) : sexp := SList (map SStr p).
Definition dec_path (s : sexp) : option (list string) := as_list_of as_str s.

Definition enc_gkind (k : gkind) : sexp :=
  SStr (match k with GModule => "module" | GClass => "class" | GFunction => "function" | GAttribute => "attribute" end).
Definition enc_member (m : member) : sexp :=
  match m with
  | MAlias t => SList [SStr "alias"; enc_path t]
  | MNothing => SList [SStr "nothing"]
  | MObj k ls => SList [SStr "obj"; enc_gkind k; SList (map SStr ls)]
  | MErr e => SList [SStr "err"; SStr e]
  end.
Definition enc_skel (s : skel) : sexp :=
  match s with
  | SAlias t => SList [SStr "alias"; enc_path t]
  | SNothing => SList [SStr "nothing"]
  | SObj k l => SList [SStr "obj"; enc_gkind k; SList (map of_bool l)]
  | SErr => SList [SStr "err"]
  end.

Definition dec_alias_env (s : sexp) : option alias_env :=
  match s with
  | SList [hp; cm; pm; qn; bi] =>
      do hp' <- as_bool hp; do cm' <- as_opt dec_path cm; do pm' <- as_opt dec_path pm;
      do qn' <- dec_path qn; do bi' <- dec_path bi;
      Some (mkAE hp' cm' pm' qn' bi')
  | _ => None
  end.

Definition dec_scope (s : sexp) : option scope :=
  match s with SStr "mod" => Some SMod | SStr "cls" => Some SCls | _ => None end.
Definition dec_thing (s : sexp) : option thing :=
  match s with
  | SStr "func" => Some TFunc | SStr "asyncfunc" => Some TAsyncFunc | SStr "class" => Some TClass
  | SStr "module" => Some TModule | SStr "value" => Some TValue | _ => None
  end.
Definition dec_defform (s : sexp) : option defform :=
  match s with
  | SList [SStr "func"; sc; a] => do sc' <- dec_scope sc; do a' <- as_bool a; Some (DFunc sc' a')
  | SList [SStr "static"; a] => do a' <- as_bool a; Some (DStaticM a')
  | SList [SStr "classm"; a] => do a' <- as_bool a; Some (DClassM a')
  | SList [SStr "prop"] => Some DProp
  | SList [SStr "cachedprop"] => Some DCachedProp
  | SList [SStr "class"; sc] => do sc' <- dec_scope sc; Some (DClass sc')
  | SList [SStr "value"; sc] => do sc' <- dec_scope sc; Some (DValue sc')
  | SList [SStr "imported"; sc; t] => do sc' <- dec_scope sc; do t' <- dec_thing t; Some (DImported sc' t')
  | _ => None
  end.

Definition dec_import (s : sexp) : option import_from :=
  match s with
  | SList [lv; md; SStr n; a] =>
      do lv' <- as_nat lv; do md' <- dec_path md; do a' <- as_opt as_str a; Some (mkImp lv' md' n a')
  | _ => None
  end.
Definition dec_modinfo (s : sexp) : option modinfo :=
  match s with
  | SList [p; i] => do p' <- dec_path p; do i' <- as_bool i; Some (mkMod p' i')
  | _ => None
  end.
Definition dec_hop (s : sexp) : option hop :=
  match s with
  | SList [m; i] => do m' <- dec_modinfo m; do i' <- dec_import i; Some (mkHop m' i')
  | _ => None
  end.

Definition enc_gparam (p : gparam) : sexp :=
  SList [SStr (gp_name p); of_opt SInt (gp_ann p); enc_kind (gp_kind p); enc_dflt (gp_default p); of_bool (gp_required p)].
Definition enc_iparam (p : iparam) : sexp :=
  SList [SStr (ip_name p); of_opt SInt (ip_ann p); enc_kind (ip_kind p); of_opt SInt (ip_default p); of_bool (cpython_required p)].

Definition dec_line (s : sexp) : option line :=
  match s with
  | SList [i; t] => do i' <- as_nat i; do t' <- as_opt as_int t; Some (mkLine i' t')
  | _ => None
  end.
Definition enc_line (l : line) : sexp := SList [of_nat (l_ind l); of_opt SInt (l_txt l)].
Definition enc_lines (ls : list line) : sexp := SList (map enc_line ls).

Definition run_C17 (s : sexp) : sexp :=
  match s with
  | SList [SStr "kind"; f] =>
      match dec_features f with
      | Some f' => SList [SStr (okind_value (inspector_okind f')); enc_member (inspect_member f')]
      | None => bad_input end
  | SList [SStr "child"; f; e; cur; SStr name; hf] =>
      match dec_features f, dec_alias_env e, dec_path cur, as_bool hf with
      | Some f', Some e', Some cur', Some hf' =>
          SList [of_opt enc_path (alias_target_path f' e'); enc_member (inspect_child f' e' cur' name hf')]
      | _, _, _, _ => bad_input end
  | SList [SStr "form"; d] =>
      match dec_defform d with
      | Some d' =>
          SList [SList (map (fun p => SStr (prim_name p)) (filter (runtime_features d') all_prims));
                 enc_member (visitor_member d'); enc_member (inspect_member (runtime_features d'))]
      | None => bad_input end
  | SList [SStr "visfunc"; a; ds] =>
      match as_bool a, dec_path ds with
      | Some a', Some ds' => enc_member (visit_function a' ds')
      | _, _ => bad_input end
  | SList [SStr "rel"; cur; m; i] =>
      match dec_path cur, dec_modinfo m, dec_import i with
      | Some cur', Some m', Some i' =>
          SList [enc_path (relative_to_absolute m' i'); enc_member (visit_importfrom cur' m' i');
                 of_opt enc_path (match cpy_from_module m' i' with Some r => Some (r ++ [i_name i']) | None => None end)]
      | _, _, _ => bad_input end
  | SList [SStr "import"; n; a] =>
      match dec_path n, as_opt as_str a with
      | Some n', Some a' => let r := visit_import n' a' in SList [SStr (fst r); enc_member (snd r)]
      | _, _ => bad_input end
  | SList [SStr "chain"; c; d; SStr q] =>
      match as_list_of dec_hop c, dec_path d with
      | Some c', Some d' => SList [of_opt enc_path (static_final c' (d' ++ [q])); of_bool (cpy_chain_ok c' d' q)]
      | _, _ => bad_input end
  | SList [SStr "pick"; SStr n; t; o; a; z; k; v] =>
      match as_bool t, as_bool o, as_bool a, as_bool z, as_nat k, as_bool v with
      | Some t', Some o', Some a', Some z', Some k', Some v' =>
          let e := mkPick n t' o' a' z' k' v' in
          SList [of_bool (pick_member e)]
      | _, _, _, _, _, _ => bad_input end
  | SList [SStr "samecomp"; a; b] =>
      match dec_path a, dec_path b with
      | Some a', Some b' => of_bool (same_components a' b')
      | _, _ => bad_input end
  | SList [SStr "params"; a] =>
      match dec_arguments a with
      | Some a' =>
          SList [match visitor_parameters a' with
                 | Ok ps => SList [SStr "ok"; SList (map enc_gparam ps)]
                 | Err e => SList [SStr "err"; SStr e] end;
                 SList (map enc_gparam (inspector_parameters a'));
                 SList (map enc_iparam (inspect_signature a'))]
      | None => bad_input end
  | SList [SStr "doc"; v] =>
      match as_list_of dec_line v with
      | Some v' => SList [enc_lines (cleandoc v'); enc_lines (static_doc v'); enc_lines (dynamic_doc v'); of_bool (first_line_blank v')]
      | None => bad_input end
  | _ => bad_input
  end.
