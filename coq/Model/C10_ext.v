(* C10 model, part 3.
   (a) the members of `incompatible_kind` that look at the OLD signature (Gen/C10_rules.v: none in the unrepaired code,
       the "collision" rule in the repaired one): fdiff_g / fdiff_m = the parameter rules of the code under test;
   (b) justification of reports: for every reported breakage either a concrete witness call (bound by old, rejected by
       new) or a documented excuse;
   (c) signatures with expression defaults (Model/C10_defaults.v) and the s-expression interface run_C10.
   Executable definitions only. *)
From Coq Require Import List Arith Bool ZArith String.
From Verif Require Import Lib.Sexp Model.C10_kinds Gen.C10_tables Gen.C10_rules Model.C10_diff Model.C10_defaults.
Import ListNotations.
Open Scope list_scope. Open Scope nat_scope.

(* ---- (a) rules over the old signature ---- *)
(* documented form of the collision rule: the parameter becomes positional-or-keyword, its name could already be passed
   as keyword (keyword-only before, or swallowed by the old var-keyword), and old calls could fill its new position
   positionally (acc = new index < number of old positionals, or old has a var-positional) *)
Definition collision_doc (ok nk : kind) (ohvk acc : bool) : bool :=
  kind_eqb nk PK && (kind_eqb ok KO || ohvk) && acc.

Definition ck_type := kind -> kind -> bool -> bool -> bool -> bool -> bool -> bool.
Definition ck_rule (rule : bool) : ck_type :=
  fun ok nk hva hvk ohva ohvk reach => rule && collision_doc ok nk ohvk (reach || ohva).

Definition collide_one (ck : ck_type) (old new : sig) (op : param) : list brk :=
  match find (pname op) new with
  | None => []
  | Some np =>
      let hva := has_kind VP new in let hvk := has_kind VK new in
      if negb (kind_eqb (pkind op) (pkind np)) && negb (incompatible_kind (pkind op) (pkind np) hva hvk)
         && ck (pkind op) (pkind np) hva hvk (has_kind VP old) (has_kind VK old) (Nat.ltb (index_of (pname op) new) (npos old))
      then [ChKind (pname op)] else []
  end.
Definition collide (ck : ck_type) (old new : sig) : list brk := flat_map (collide_one ck old new) old.
(* as a multiset this is what the code yields (one kind breakage per parameter when any member of the any() holds) *)
Definition fdiff_g (ck : ck_type) (old new : sig) : list brk := fdiff old new ++ collide ck old new.
Definition fdiff_m := fdiff_g collision_kind.

Definition gaps_4567 o n := F4 o n || F5 o n || F6 o n || F7 o n.
Definition known_gap_g (rule : bool) o n := F2 o n || (negb rule && gaps_4567 o n).
Definition known_gap_m := known_gap_g COLLISION_RULE.

(* ---- (b) witness calls and excuses ---- *)
Definition nreqpo (s : sig) := List.length (filter (fun p => kind_eqb (pkind p) PO && required p) s).
Definition needs_kw (s : sig) (n : nat) (extra : list nat) (p : param) : bool :=
  required p && negb (mem (pname p) extra) &&
  match pkind p with PK => negb (Nat.ltb (index_of (pname p) s) n) | KO => true | _ => false end.
Definition reqkw (s : sig) (n : nat) (extra : list nat) : list nat := map pname (filter (needs_kw s n extra) s).
(* n positionals, the keywords [extra], plus every keyword old needs *)
Definition wcall (s : sig) (n : nat) (extra : list nat) : nat * list nat := (n, extra ++ reqkw s n extra).
Definition fresh (old new : sig) : nat := S (fold_right Nat.max 0 (map pname (old ++ new))).

Definition collides (old new : sig) (n : nat) : bool :=
  match find n old, find n new with
  | Some op, Some np => negb (kind_eqb (pkind op) (pkind np)) &&
                        collision_doc (pkind op) (pkind np) (has_kind VK old) (accepts_more_than old (index_of n new))
  | _, _ => false end.

Definition excuse (old new : sig) (b : brk) : bool :=
  match b with
  | ChDef _ | Moved _ => true                    (* non-call reasons: another default value / another position *)
  | ChKind n => negb (collides old new n)        (* non-call reason: the kind changed -- unless positional and keyword collide *)
  | AddedReq n | ChReq n =>
      (* the now-required parameter sits at a position every old call fills positionally *)
      match find n new with Some np => pos_kind (pkind np) && Nat.ltb (index_of n new) (nreqpo old) | None => true end
  | Removed n =>
      match find n old with
      | Some op => match pkind op with
                   | KO => false
                   | PK => has_kind VK new && Nat.leb (npos old) (npos new)   (* keyword swallowed, as many positional slots *)
                   | PO => Nat.leb (npos old) (npos new)                      (* another name in as many positional slots *)
                   | VP => has_kind VP new                                    (* the var-positional was renamed *)
                   | VK => has_kind VK new end                                (* the var-keyword was renamed *)
      | None => true end
  end.

Definition witness (old new : sig) (b : brk) : option (nat * list nat) :=
  let n0 := nreqpo old in
  match b with
  | AddedReq _ | ChReq _ => Some (wcall old n0 [])
  | Removed n =>
      match find n old with
      | Some op => match pkind op with
                   | KO => Some (wcall old n0 [n])
                   | PK => if has_kind VK new then Some (wcall old (npos old) []) else Some (wcall old n0 [n])
                   | PO => Some (wcall old (npos old) [])
                   | VP => Some (wcall old (npos old + npos new + 1) [])
                   | VK => Some (wcall old n0 [fresh old new]) end
      | None => None end
  | ChKind n => Some (wcall old (Nat.max n0 (S (index_of n new))) [n])
  | _ => None
  end.

(* ---- (c) expression defaults ---- *)
Definition xdiff (idf : xsig -> xsig -> dexp -> nat) (old new : xsig) : list brk :=
  fdiff_m (abs_sig (idf old new) old) (abs_sig (idf old new) new).

Definition statement_m (old new : sig) (n : nat) (K : list nat) : bool :=
  implb (binds old n K && negb (binds new n K)) (negb (is_nil (fdiff_m old new)) || known_gap_m old new).
Definition sweep_m (sigs : list sig) (cs : list (nat * list nat)) : list (nat * nat) :=
  let idx := combine (seq 0 (List.length sigs)) sigs in
  flat_map (fun io => flat_map (fun jn =>
    if forallb (fun c => statement_m (snd io) (snd jn) (fst c) (snd c)) cs then [] else [(fst io, fst jn)]) idx) idx.

Definition enc_call (c : nat * list nat) : sexp := SList [of_nat (fst c); SList (map of_nat (snd c))].
Definition enc_just (old new : sig) (b : brk) : sexp :=
  SList [enc_brk b; of_bool (excuse old new b); of_opt enc_call (witness old new b)].
Definition dec_calls (cs : sexp) : option (list (nat * list nat)) :=
  as_list_of (fun c => match c with SList [n; K] => do n' <- as_nat n; do K' <- as_list_of as_nat K; Some (n', K') | _ => None end) cs.
Definition enc_optz (o : option Z) : sexp := match o with Some z => SList [SInt z] | None => SList [] end.

(* fd: the parameter rules to run (fdiff_m, or the version over the regenerated path conditions: Model/C10_code.v) *)
Definition xdiff_with (fd : sig -> sig -> list brk) (idf : xsig -> xsig -> dexp -> nat) (old new : xsig) : list brk :=
  fd (abs_sig (idf old new) old) (abs_sig (idf old new) new).
Definition run_with (fd : sig -> sig -> list brk) (s : sexp) : sexp :=
  match s with
  | SList [SStr "xdiff"; o; n] =>
      match dec_xsig o, dec_xsig n with
      | Some xo, Some xn =>
          let o' := abs_sig (impl_ident xo xn) xo in let n' := abs_sig (impl_ident xo xn) xn in
          let d := fd o' n' in
          SList [SList (map enc_brk d);
                 SList (map enc_brk (xdiff_with fd ast_ident xo xn));
                 SList [of_bool (F2 o' n'); of_bool (negb COLLISION_RULE && F4 o' n'); of_bool (negb COLLISION_RULE && F5 o' n');
                        of_bool (negb COLLISION_RULE && F6 o' n'); of_bool (negb COLLISION_RULE && F7 o' n')];
                 SList (map of_nat (f8_names xo xn));
                 of_bool (wf o' && wf n');
                 SList (map (enc_just o' n') d);
                 of_bool (known_gap_m o' n');
                 SList (map enc_brk (xdiff_with fd text_ident xo xn))]
      | _, _ => bad_input end
  | SList [SStr "binds"; sg; cs] =>
      match dec_sig sg, dec_calls cs with
      | Some sg', Some cs' => SList (map (fun c => of_bool (binds sg' (fst c) (snd c))) cs')
      | _, _ => bad_input end
  | SList [SStr "sweep"; sigs; SInt maxn; Ks] =>
      match as_list_of dec_sig sigs, as_list_of (as_list_of as_nat) Ks with
      | Some sigs', Some Ks' =>
          SList (map (fun ij => SList [of_nat (fst ij); of_nat (snd ij)]) (sweep_m sigs' (calls (Z.to_nat maxn) Ks')))
      | _, _ => bad_input end
  | SList [SStr "dval"; e] =>
      match dec_dexp e with Some e' => enc_optz (dval e') | None => bad_input end
  | _ => bad_input
  end%string.
Definition run_C10 := run_with fdiff_m.
