(* C01 layout model: source TEXT as a list of physical lines, for block-form programs.
   A layout tree [lay] is a statement together with the physical lines it occupies: the blank / comment lines in front of
   it (its gap), decorator lines, header lines (possibly continued over several lines), the lines of a simple
   statement, the lines of a string statement split into parenthesis lines and the lines of the string constant.
   [render] writes the text, [number] assigns CPython's line numbers (lineno of a def = its `def` line, first decorator
   line kept separately, end_lineno = last line of the last statement of the body) and yields the statements of
   Model/C01_visitor.v.  [occ] lists every place where Griffe reports a span, with the text that span is meant to cut out.
   Executable definitions only.  (The harness cuts the generated source into such a tree using CPython's positions; the
   check compares [render] with the source text and [number]/[occ] with CPython's own line numbers on every run.)

   Block form: the body of every compound statement starts on a new line, one statement per line. *)
From Coq Require Import List ZArith String Ascii Bool Arith.
From Verif Require Import Lib.Sexp Model.C01_base Gen.C01_tables Model.C01_visitor.
Import ListNotations.
Open Scope string_scope.
Open Scope list_scope.
Open Scope nat_scope.

Definition lines := list string.

Inductive lay :=
| LLeaf (gap text : lines) (s : stmt)                 (* simple statement; its own line numbers in [s] are ignored *)
| LDocS (gap pre str post : lines)                    (* string statement: the constant occupies [str] *)
| LDef (gap : lines) (decos : list (deco * lines)) (header : lines) (name : string) (is_async : bool) (body : list lay)
| LCls (gap : lines) (decos : list (deco * lines)) (header : lines) (name : string) (body : list lay)
| LIf (gap header : lines) (tc : tcond) (body : list lay) (egap eheader : lines) (orelse : list lay)
| LBlock (children : list lay)                        (* for / while / with / try / match: a sequence of clauses *)
| LSub (gap header : lines) (handler : bool) (body : list lay).   (* one clause: header lines, then its block *)

Definition deco_lines (decos : list (deco * lines)) : lines := List.concat (map snd decos).

Fixpoint render (l : lay) {struct l} : lines :=
  let rl := fix rl (ls : list lay) {struct ls} : lines := match ls with [] => [] | x :: r => render x ++ rl r end in
  match l with
  | LLeaf gap text _ => gap ++ text
  | LDocS gap pre str post => gap ++ pre ++ str ++ post
  | LDef gap decos header _ _ body => gap ++ deco_lines decos ++ header ++ rl body
  | LCls gap decos header _ body => gap ++ deco_lines decos ++ header ++ rl body
  | LIf gap header _ body egap eheader orelse => gap ++ header ++ rl body ++ egap ++ eheader ++ rl orelse
  | LBlock ch => rl ch
  | LSub gap header _ body => gap ++ header ++ rl body
  end.
Fixpoint render_list (ls : list lay) : lines := match ls with [] => [] | x :: r => render x ++ render_list r end.
Definition height (l : lay) : nat := List.length (render l).
Definition height_list (ls : list lay) : nat := List.length (render_list ls).

(* the statement of a leaf, with its span; anything that is not a simple statement counts as "other" *)
Definition set_span (ln eln : nat) (s : stmt) : stmt :=
  match s with
  | SAssign _ _ ts items => SAssign ln eln ts items
  | SAnn _ _ t hv cv items => SAnn ln eln t hv cv items
  | SImport _ _ names => SImport ln eln names
  | SImportFrom _ _ names => SImportFrom ln eln names
  | SAugAll items => SAugAll items
  | _ => SOther
  end.

(* [start] = number of the first physical line of the item, its gap included *)
Fixpoint number (start : nat) (l : lay) {struct l} : stmt :=
  let nl := fix nl (start : nat) (ls : list lay) {struct ls} : list stmt :=
              match ls with [] => [] | x :: r => number start x :: nl (start + height x) r end in
  match l with
  | LLeaf gap text s => set_span (start + List.length gap) (start + List.length gap + List.length text - 1) s
  | LDocS gap pre str post =>
      SDoc (start + List.length gap + List.length pre) (start + List.length gap + List.length pre + List.length str - 1)
  | LDef gap decos header name a body =>
      let first := start + List.length gap in
      let ln := first + List.length (deco_lines decos) in
      SDef ln first (start + height l - 1) name a (map fst decos) (nl (ln + List.length header) body)
  | LCls gap decos header name body =>
      let first := start + List.length gap in
      let ln := first + List.length (deco_lines decos) in
      SCls ln first (start + height l - 1) name (map fst decos) (nl (ln + List.length header) body)
  | LIf gap header tc body egap eheader orelse =>
      let b0 := start + List.length gap + List.length header in
      SIf tc (nl b0 body) (nl (b0 + height_list body + List.length egap + List.length eheader) orelse)
  | LBlock ch => SBlock (nl start ch)
  | LSub gap header h body => SSub h (nl (start + List.length gap + List.length header) body)
  end.
Fixpoint number_list (start : nat) (ls : list lay) : list stmt :=
  match ls with [] => [] | x :: r => number start x :: number_list (start + height x) r end.

(* the lines a..b (1-based, inclusive) *)
Definition slice (ls : lines) (a b : nat) : lines := firstn (b + 1 - a) (skipn (a - 1) ls).

(* drop the first n characters of a line (used by Model/C01_dedent.v) *)
Fixpoint drop (n : nat) (s : string) : string :=
  match n, s with O, _ => s | S k, String _ r => drop k r | S _, EmptyString => EmptyString end.

(* ---------- where spans are reported, and what they are meant to cut out ---------- *)
Inductive otag :=
| OLeaf (s : stmt)              (* an assignment / import statement: the span of attributes and aliases *)
| ODoc                          (* a docstring: the span of the string constant *)
| OFun (name : string)          (* a function: from its first decorator line *)
| OProp (name : string)         (* a property-attribute: from its `def` line, decorators excluded *)
| OCls (name : string).         (* a class: from its first decorator line *)
Record occurrence := mkOcc { o_tag : otag; o_first : nat; o_last : nat; o_text : lines }.

(* the names a simple statement can bind (directly, or through self.<name> inside an __init__) *)
Definition target_names (t : target) : list string := match t with TName n => [n] | TSelf r => [r] | _ => [] end.
Definition impname_names (i : impname) : list string := match i with IName an _ | IStar an _ => [an] | ISkip => [] end.
Definition leaf_binds (s : stmt) : list string :=
  match s with
  | SAssign _ _ ts _ => flat_map target_names ts
  | SAnn _ _ t _ _ _ => target_names t
  | SImport _ _ names => map fst names
  | SImportFrom _ _ names => flat_map impname_names names
  | _ => []
  end.
(* the occurrence is a definition of name [n] yielding an object of kind [k] *)
Definition tag_names (t : otag) (n : string) (k : okind) : Prop :=
  match t with
  | OFun m => m = n /\ k = KFun
  | OProp m => m = n /\ k = KAttr
  | OCls m => m = n /\ k = KCls
  | OLeaf s => In n (leaf_binds s) /\ (k = KAttr \/ k = KAlias)
  | ODoc => False
  end.

Fixpoint occ (start : nat) (l : lay) {struct l} : list occurrence :=
  let ol := fix ol (start : nat) (ls : list lay) {struct ls} : list occurrence :=
              match ls with [] => [] | x :: r => occ start x ++ ol (start + height x) r end in
  match l with
  | LLeaf gap text s =>
      [mkOcc (OLeaf s) (start + List.length gap) (start + List.length gap + List.length text - 1) text]
  | LDocS gap pre str post =>
      [mkOcc ODoc (start + List.length gap + List.length pre) (start + List.length gap + List.length pre + List.length str - 1) str]
  | LDef gap decos header name a body =>
      let first := start + List.length gap in
      let ln := first + List.length (deco_lines decos) in
      let last := start + height l - 1 in
      mkOcc (OFun name) (def_first_line ln first (map fst decos)) last
            (deco_lines decos ++ header ++ render_list body)
      :: mkOcc (OProp name) ln last (header ++ render_list body)
      :: ol (ln + List.length header) body
  | LCls gap decos header name body =>
      let first := start + List.length gap in
      let ln := first + List.length (deco_lines decos) in
      let last := start + height l - 1 in
      mkOcc (OCls name) (def_first_line ln first (map fst decos)) last
            (deco_lines decos ++ header ++ render_list body)
      :: ol (ln + List.length header) body
  | LIf gap header tc body egap eheader orelse =>
      let b0 := start + List.length gap + List.length header in
      ol b0 body ++ ol (b0 + height_list body + List.length egap + List.length eheader) orelse
  | LBlock ch => ol start ch
  | LSub gap header h body => ol (start + List.length gap + List.length header) body
  end.
Fixpoint occ_list (start : nat) (ls : list lay) : list occurrence :=
  match ls with [] => [] | x :: r => occ start x ++ occ_list (start + height x) r end.

(* non-emptiness of what must be non-empty in a real program: a statement has at least one line, a compound statement a
   header line; then reported spans are never empty *)
Fixpoint well_formed (l : lay) {struct l} : bool :=
  let wl := fix wl (ls : list lay) {struct ls} : bool := match ls with [] => true | x :: r => well_formed x && wl r end in
  match l with
  | LLeaf _ text _ => negb (Nat.eqb (List.length text) 0)
  | LDocS _ _ str _ => negb (Nat.eqb (List.length str) 0)
  | LDef _ decos header _ _ body =>
      negb (Nat.eqb (List.length header) 0) && forallb (fun d => negb (Nat.eqb (List.length (snd d)) 0)) decos && wl body
  | LCls _ decos header _ body =>
      negb (Nat.eqb (List.length header) 0) && forallb (fun d => negb (Nat.eqb (List.length (snd d)) 0)) decos && wl body
  | LIf _ header _ body _ _ orelse => negb (Nat.eqb (List.length header) 0) && wl body && wl orelse
  | LBlock ch => wl ch
  | LSub _ header _ body => negb (Nat.eqb (List.length header) 0) && wl body
  end.

(* ---------- s-expression interface ---------- *)
Definition dec_lines (s : sexp) : option lines := as_list_of as_str s.
Definition dec_decoline (s : sexp) : option (deco * lines) :=
  match s with SList [d; ls] => do d' <- dec_deco d; do ls' <- dec_lines ls; Some (d', ls') | _ => None end.

Fixpoint dec_lay (fuel : nat) (s : sexp) {struct fuel} : option lay :=
  match fuel with
  | O => None
  | S fuel' =>
    let dl := fun b => as_list_of (dec_lay fuel') b in
    match s with
    | SList [SStr "leaf"; gap; text; st] =>
        do g <- dec_lines gap; do t <- dec_lines text; do s' <- dec_stmt 2 st; Some (LLeaf g t s')
    | SList [SStr "doc"; gap; pre; str; post] =>
        do g <- dec_lines gap; do p <- dec_lines pre; do s' <- dec_lines str; do q <- dec_lines post; Some (LDocS g p s' q)
    | SList [SStr "def"; gap; decos; header; SStr name; a; body] =>
        do g <- dec_lines gap; do ds <- as_list_of dec_decoline decos; do h <- dec_lines header; do a' <- as_bool a;
        do b <- dl body; Some (LDef g ds h name a' b)
    | SList [SStr "class"; gap; decos; header; SStr name; body] =>
        do g <- dec_lines gap; do ds <- as_list_of dec_decoline decos; do h <- dec_lines header;
        do b <- dl body; Some (LCls g ds h name b)
    | SList [SStr "if"; gap; header; tc; body; egap; eheader; orelse] =>
        do g <- dec_lines gap; do h <- dec_lines header; do tc' <- dec_tcond tc; do b <- dl body;
        do eg <- dec_lines egap; do eh <- dec_lines eheader; do o <- dl orelse; Some (LIf g h tc' b eg eh o)
    | SList [SStr "block"; ch] => do c <- dl ch; Some (LBlock c)
    | SList [SStr "sub"; gap; header; h; body] =>
        do g <- dec_lines gap; do hd <- dec_lines header; do h' <- as_bool h; do b <- dl body; Some (LSub g hd h' b)
    | _ => None
    end
  end.

Definition enc_otag (t : otag) : sexp :=
  match t with
  | OLeaf _ => SList [SStr "leaf"]
  | ODoc => SList [SStr "doc"]
  | OFun n => SList [SStr "function"; SStr n]
  | OProp n => SList [SStr "property"; SStr n]
  | OCls n => SList [SStr "class"; SStr n]
  end.
Definition enc_occ (ls : lines) (o : occurrence) : sexp :=
  SList [enc_otag (o_tag o); of_nat (o_first o); of_nat (o_last o);
         (* does slicing the rendered text by the span give the text the span is meant to cut out *)
         of_bool (if list_eq_dec string_dec (slice ls (o_first o) (o_last o)) (o_text o) then true else false)].
