(* C20 — Loading from Git leaves repository and filesystem untouched on every path.
   Executable definitions only (no proofs):
     - a model of the part of git that src/_griffe/git.py drives (worktree add -b / remove [--force] / prune,
       branch -D) over an abstract repository state,
     - the fault alphabet (a git call fails or raises, before or after taking effect, or is torn: interrupted between
       its two halves; the removal of the TemporaryDirectory raises at once / in the middle / on return),
     - tmp_worktree (TemporaryDirectory + try/finally; [guard] selects the proposed repair of finding F2: existence
       test of the temporary branch, then `worktree add` inside the try block), load_git, check as state transformers,
     - _normalize (ASCII), Breakage._location, the lines collection (with a file system, so that "does not depend on
       the removed checkout" can be stated),
     - s-expression codecs and run_C20.
   The model of git is modelled, not verified: it is tied to real git by the oracle correspondence. *)
From Coq Require Import List ZArith String Ascii Bool Arith.
From Verif Require Import Lib.Sexp Model.C20_import.
Import ListNotations.
Open Scope string_scope. Open Scope list_scope. Open Scope nat_scope.

(* ------------------------------------------------------------------ repository state *)

Definition commit := nat.
Definition path := nat.   (* identity of a directory: a griffe-worktree-* temp dir (and the checkout in it) or a foreign worktree dir *)

(* a linked-worktree registration ($GIT_DIR/worktrees/<id>) *)
Record reg := mkReg { rpath : path; rbranch : option string; rlocked : bool }.

Record repo := mkRepo {
  head_branch : option string;          (* Some b: HEAD -> refs/heads/b; None: detached *)
  head_commit : commit;
  main_status : nat;                    (* opaque token: index, working tree and stash of the main worktree *)
  branches : list (string * commit);
  names : list (string * commit);       (* tags and every other immutable resolvable name (HEAD, @, shas) *)
  regs : list reg;
  dirs : list (path * bool);            (* existing checkout directories: path |-> has modified or untracked files *)
  tmps : list path                      (* existing griffe-worktree-* temporary directories *)
}.

Definition set_branches (s : repo) v := mkRepo (head_branch s) (head_commit s) (main_status s) v (names s) (regs s) (dirs s) (tmps s).
Definition set_regs (s : repo) v := mkRepo (head_branch s) (head_commit s) (main_status s) (branches s) (names s) v (dirs s) (tmps s).
Definition set_dirs (s : repo) v := mkRepo (head_branch s) (head_commit s) (main_status s) (branches s) (names s) (regs s) v (tmps s).
Definition set_tmps (s : repo) v := mkRepo (head_branch s) (head_commit s) (main_status s) (branches s) (names s) (regs s) (dirs s) v.

Fixpoint slookup {A} (k : string) (l : list (string * A)) : option A :=
  match l with
  | [] => None
  | (k', v) :: r => if String.eqb k' k then Some v else slookup k r
  end.

Fixpoint nlookup {A} (k : nat) (l : list (nat * A)) : option A :=
  match l with
  | [] => None
  | (k', v) :: r => if Nat.eqb k' k then Some v else nlookup k r
  end.

Definition is_some {A} (o : option A) : bool := match o with Some _ => true | None => false end.

Definition has_branch (b : string) (s : repo) : bool := is_some (slookup b (branches s)).
Definition dir_exists (p : path) (s : repo) : bool := is_some (nlookup p (dirs s)).
Definition registered (p : path) (s : repo) : bool := existsb (fun r => Nat.eqb (rpath r) p) (regs s).
Definition find_reg (p : path) (s : repo) : option reg := find (fun r => Nat.eqb (rpath r) p) (regs s).
Definition on_branch (b : string) (o : option string) : bool :=
  match o with Some b' => String.eqb b' b | None => false end.
Definition checked_out (b : string) (s : repo) : bool :=
  on_branch b (head_branch s) || existsb (fun r => on_branch b (rbranch r)) (regs s).

(* a name that is both a tag and a branch is refused as ambiguous by `git worktree add` *)
Definition resolve (s : repo) (r : string) : option commit :=
  match slookup r (names s), slookup r (branches s) with
  | Some c, None => Some c
  | None, Some c => Some c
  | _, _ => None
  end.

Definition drop_reg (p : path) (l : list reg) := filter (fun r => negb (Nat.eqb (rpath r) p)) l.
Definition drop_dir (p : path) (l : list (path * bool)) := filter (fun x => negb (Nat.eqb (fst x) p)) l.
Definition drop_tmp (p : path) (l : list path) := filter (fun x => negb (Nat.eqb x p)) l.
Definition drop_branch (b : string) (l : list (string * commit)) := filter (fun x => negb (String.eqb (fst x) b)) l.
Definition add_tmp (p : path) (l : list path) := if existsb (Nat.eqb p) l then l else p :: l.

(* ------------------------------------------------------------------ git steps *)

(* A step of git answers (state after, accepted?). `worktree remove`, `branch -D` and `worktree lock` refuse without
   effect (option: None = refused, nothing changed; [lift]); `worktree add -b` does not: it runs `git branch b ref`
   first and only then looks at the path, so a refusal because of the path leaves the new branch behind
   (builtin/worktree.c:add). *)
Definition lift (step : repo -> option repo) (s : repo) : repo * bool :=
  match step s with Some s' => (s', true) | None => (s, false) end.

Definition with_branch (b : string) (c : commit) (s : repo) : repo := set_branches s ((b, c) :: branches s).

(* git worktree add -b b <tmp p>/<normref> ref   (creates leading directories).
   1. `git branch b ref`: refused without effect when ref does not resolve (unknown, ambiguous) or b exists;
   2. the path: refused -- with the branch of step 1 left behind -- when it is a registered worktree (present,
      missing or locked) or an existing non-empty directory / file;
   3. registration + checkout.
   Modelled for a path whose parent directory exists (tmp_worktree calls mkdtemp first): with a missing parent,
   git 2.39 does not recognise a missing registered worktree at that path and registers a second one. *)
Definition wt_add (b : string) (p : path) (r : string) (s : repo) : repo * bool :=
  match resolve s r with
  | None => (s, false)
  | Some c =>
      if has_branch b s then (s, false)
      else if registered p s || dir_exists p s then (with_branch b c s, false)
      else (mkRepo (head_branch s) (head_commit s) (main_status s) ((b, c) :: branches s) (names s)
                   (mkReg p (Some b) false :: regs s) ((p, false) :: dirs s) (add_tmp p (tmps s)), true)
  end.

(* `worktree add` interrupted between step 1 and step 3: the branch exists, nothing else *)
Definition wt_add_torn (b : string) (p : path) (r : string) (s : repo) : repo :=
  match resolve s r with
  | None => s
  | Some c => if has_branch b s then s else with_branch b c s
  end.

(* git worktree remove [--force] <path>: a missing directory is tolerated, a locked worktree is not *)
Definition wt_remove (force : bool) (p : path) (s : repo) : option repo :=
  match find_reg p s with
  | None => None
  | Some r =>
      if rlocked r then None
      else match nlookup p (dirs s) with
           | Some dirty => if dirty && negb force then None
                           else Some (set_dirs (set_regs s (drop_reg p (regs s))) (drop_dir p (dirs s)))
           | None => Some (set_regs s (drop_reg p (regs s)))
           end
  end.

(* `worktree remove` interrupted between its two halves (builtin/worktree.c:remove_worktree deletes the working
   directory first, the registration second): the directory is gone, the registration stays (and is prunable) *)
Definition wt_remove_torn (force : bool) (p : path) (s : repo) : repo :=
  if is_some (wt_remove force p s) then set_dirs s (drop_dir p (dirs s)) else s.

(* `git worktree remove <arg>` with an argument that is not a path but a NAME (builtin/worktree.c:find_worktree, first
   find_worktree_by_suffix): the name is matched against the last path component of EVERY worktree -- the main one and
   every registration, stale and locked ones included. Exactly one match and not the main worktree: that worktree is the
   one removed; the main worktree alone, no match, or several matches: refused ("is not a working tree" / "is a main
   working tree"). [naming] = (last component of the main worktree's directory, last component of each path id).
   tmp_worktree passes the absolute path of its checkout, which only that very worktree can match; this definition is
   in the git model to say what passing the name instead would do. Cut: single-component names only. *)
Definition naming := (string * list (path * string))%type.

Definition reg_named (nm : naming) (name : string) (r : reg) : bool :=
  match nlookup (rpath r) (snd nm) with Some n => String.eqb n name | None => false end.

Definition wt_remove_named (force : bool) (nm : naming) (name : string) (s : repo) : option repo :=
  match filter (reg_named nm name) (regs s) with
  | [r] => if String.eqb (fst nm) name then None else wt_remove force (rpath r) s
  | _ => None
  end.

(* git worktree prune: drops EVERY unlocked registration whose directory is gone — also the user's own.
   tmp_worktree no longer calls it (repaired finding F3); it stays in the git model for the oracle correspondence
   and for the statement that it never was needed (prune_is_noop_in_cleanup). *)
Definition prunable (s : repo) (r : reg) : bool := negb (rlocked r) && negb (dir_exists (rpath r) s).
Definition wt_prune (s : repo) : repo := set_regs s (filter (fun r => negb (prunable s r)) (regs s)).

(* git branch -D b: refused while b is checked out in the main or any registered worktree (stale ones included) *)
Definition branch_D (b : string) (s : repo) : option repo :=
  if has_branch b s && negb (checked_out b s) then Some (set_branches s (drop_branch b (branches s))) else None.

Definition wt_lock (p : path) (s : repo) : option repo :=
  match find_reg p s with
  | Some r => if rlocked r then None
              else Some (set_regs s (map (fun r => if Nat.eqb (rpath r) p then mkReg (rpath r) (rbranch r) true else r) (regs s)))
  | None => None
  end.

(* file system steps *)
Definition mkdtemp (p : path) (s : repo) : repo := set_tmps s (p :: tmps s).
Definition rmtree (p : path) (s : repo) : repo := set_tmps (set_dirs s (drop_dir p (dirs s))) (drop_tmp p (tmps s)).
Definition touch (p : path) (s : repo) : repo :=
  set_dirs s (map (fun x => if Nat.eqb (fst x) p then (fst x, true) else x) (dirs s)).

(* somebody else puts a non-empty directory where a checkout would go (used by the oracle correspondence only) *)
Definition occupy (p : path) (s : repo) : repo :=
  if dir_exists p s then s else set_tmps (set_dirs s ((p, false) :: dirs s)) (add_tmp p (tmps s)).

(* ------------------------------------------------------------------ faults *)

Definition exn := string.
(* what can go wrong with one `subprocess.run(["git", ...])` as seen from _griffe.git:
   non-zero exit / exception, before or after the command took effect, or [Torn]: the command was interrupted between
   its two halves (None: git died, non-zero exit; Some e: the exception e arrived in Python, which kills git) *)
Inductive fault := NoFault | FailBefore | FailAfter | RaiseBefore (e : exn) | RaiseAfter (e : exn) | Torn (oe : option exn).
Inductive signal := Rc0 | RcFail | Exn (e : exn).

(* what can go wrong when the TemporaryDirectory is removed on exit of the `with` block (shutil.rmtree):
   it raises at once (nothing removed), in the middle (the checkout is gone, the directory itself is not), or on return *)
Inductive rmfault := RmOk | RmRaiseBefore (e : exn) | RmTorn (e : exn) | RmRaiseAfter (e : exn).

(* one subprocess.run of git as seen from _griffe.git *)
Definition git_call (f : fault) (step : repo -> repo * bool) (torn : repo -> repo) (s : repo) : repo * signal :=
  match f with
  | NoFault => let (s', ok) := step s in (s', if ok then Rc0 else RcFail)
  | FailBefore => (s, RcFail)
  | FailAfter => (fst (step s), RcFail)
  | RaiseBefore e => (s, Exn e)
  | RaiseAfter e => (fst (step s), Exn e)
  | Torn None => (torn s, RcFail)
  | Torn (Some e) => (torn s, Exn e)
  end.

(* a git call that only reads *)
Definition ro_call (f : fault) (ok : bool) : signal :=
  match f with
  | NoFault => if ok then Rc0 else RcFail
  | FailBefore | FailAfter | Torn None => RcFail
  | RaiseBefore e | RaiseAfter e | Torn (Some e) => Exn e
  end.

Inductive result := Returned (v : nat) | Raised (e : exn).

Record faults := mkFaults {
  f_assert : fault;      (* git rev-parse --is-inside-work-tree *)
  f_mkdtemp : bool;      (* TemporaryDirectory() raises OSError *)
  f_list : fault;        (* git branch --list griffe-<ref>: only in the repaired variant [guard = true] *)
  f_add : fault;
  f_remove : fault;
  f_branchD : fault;
  f_rmtree : rmfault     (* removal of the TemporaryDirectory *)
}.

Definition no_faults := mkFaults NoFault false NoFault NoFault NoFault NoFault RmOk.

(* ------------------------------------------------------------------ _normalize (ASCII) *)

Definition is_word (c : ascii) : bool :=
  let n := nat_of_ascii c in
  ((48 <=? n) && (n <=? 57)) || ((65 <=? n) && (n <=? 90)) || ((97 <=? n) && (n <=? 122)) || (n =? 95).

Definition dash : ascii := "-"%char.

(* re.sub(r"[^\w]+", "-", v) then re.sub(r"[-\s]+", "-", v): every maximal run of non-word characters becomes one "-";
   started with prev_dash = true this also performs the .strip("-") on the left *)
Fixpoint norm_aux (prev_dash : bool) (s : string) : string :=
  match s with
  | EmptyString => EmptyString
  | String c r =>
      if is_word c then String c (norm_aux false r)
      else if prev_dash then norm_aux true r else String dash (norm_aux true r)
  end.

Fixpoint strip_last_dash (s : string) : string :=
  match s with
  | EmptyString => EmptyString
  | String c EmptyString => if Ascii.eqb c dash then EmptyString else s
  | String c r => String c (strip_last_dash r)
  end.

Definition normalize (s : string) : string := strip_last_dash (norm_aux true s).

(* `_normalize(ref) or "ref"`: the name of the checkout directory inside the temporary directory, never empty *)
Definition checkout_name (ref : string) : string :=
  if String.eqb (normalize ref) "" then "ref" else normalize ref.

Definition tmp_branch (ref : string) : string := "griffe-" ++ checkout_name ref.

(* ------------------------------------------------------------------ tmp_worktree, load_git *)

(* the try/finally block: each call has check=False, so only a raised exception stops the sequence *)
Definition cleanup (force : bool) (F : faults) (b : string) (p : path) (s : repo) : repo * option exn :=
  let (s1, g1) := git_call (f_remove F) (lift (wt_remove force p)) (wt_remove_torn force p) s in
  match g1 with
  | Exn e => (s1, Some e)
  | _ =>
    let (s3, g3) := git_call (f_branchD F) (lift (branch_D b)) (fun x => x) s1 in
    match g3 with
    | Exn e => (s3, Some e)
    | _ => (s3, None)
    end
  end.

(* leaving `with TemporaryDirectory(...)`: the directory is removed; an exception raised by the removal replaces
   whatever the block was ending with *)
Definition exit_td (F : faults) (p : path) (s : repo) (r : result) : repo * result :=
  match f_rmtree F with
  | RmOk => (rmtree p s, r)
  | RmRaiseBefore e => (s, Raised e)
  | RmTorn e => (set_dirs s (drop_dir p (dirs s)), Raised e)
  | RmRaiseAfter e => (rmtree p s, Raised e)
  end.

(* the `try: yield / finally: cleanup` block followed by the exit of `with TemporaryDirectory` *)
Definition finish (force : bool) (F : faults) (b : string) (p : path) (body : repo -> repo * result) (s2 : repo) : repo * result :=
  let (s3, r) := body s2 in
  let (s4, ce) := cleanup force F b p s3 in
  exit_td F p s4 (match ce with Some e => Raised e | None => r end).   (* an exception in finally replaces the body's *)

(* `worktree add` as the first statement of the try block (repaired variant) *)
Definition add_then (F : faults) (b : string) (p : path) (ref : string) (body : repo -> repo * result) (x : repo) : repo * result :=
  match git_call (f_add F) (wt_add b p ref) (wt_add_torn b p ref) x with
  | (s2, Exn e) => (s2, Raised e)
  | (s2, RcFail) => (s2, Raised "RuntimeError")
  | (s2, Rc0) => body s2
  end.

(* [force] is the --force flag of `worktree remove` (true in the code as it is now);
   [isrepo] is what `git rev-parse --is-inside-work-tree` answers for the directory;
   [guard] = false is the code as it is: `worktree add` sits before the try block.
   [guard] = true is the proposed repair of finding F2: `git branch --list griffe-<ref>` first (any answer but
   "no such branch" ends the call before anything was created), then `worktree add` INSIDE the try block, so that the
   finally block also runs when the add fails, is interrupted or is torn; thanks to the test, the `branch -D` of the
   finally block can only ever delete a branch that this very call created. *)
Definition tmp_worktree (guard force isrepo : bool) (F : faults) (p : path) (ref : string)
           (body : repo -> repo * result) (s : repo) : repo * result :=
  match git_call (f_assert F) (fun x => (x, isrepo)) (fun x => x) s with
  | (s0, Exn e) => (s0, Raised e)
  | (s0, RcFail) => (s0, Raised "OSError")
  | (s0, Rc0) =>
    if f_mkdtemp F then (s0, Raised "OSError")
    else
      let s1 := mkdtemp p s0 in
      let b := tmp_branch ref in
      if guard then
        match ro_call (f_list F) true with
        | Exn e => exit_td F p s1 (Raised e)
        | RcFail => exit_td F p s1 (Raised "RuntimeError")
        | Rc0 =>
          if has_branch b s1 then exit_td F p s1 (Raised "RuntimeError")
          else finish force F b p (add_then F b p ref body) s1
        end
      else
        match git_call (f_add F) (wt_add b p ref) (wt_add_torn b p ref) s1 with
        | (s2, Exn e) => exit_td F p s2 (Raised e)
        | (s2, RcFail) => exit_td F p s2 (Raised "RuntimeError")
        | (s2, Rc0) => finish force F b p body s2
        end
  end.

(* what the loader and the extension hooks can do to the checkout, stage by stage *)
Inductive event := EvStep | EvWrite | EvRaise (e : exn).

Fixpoint run_events (evs : list event) (p : path) (s : repo) : repo * option exn :=
  match evs with
  | [] => (s, None)
  | EvStep :: r => run_events r p s
  | EvWrite :: r => run_events r p (touch p s)
  | EvRaise e :: _ => (s, Some e)
  end.

(* what the package looks like at a commit *)
Inductive content := CAbsent | CSyntaxError | CPackage.

Definition content_at (tree : list (commit * content)) (c : commit) : content :=
  match nlookup c tree with Some x => x | None => CAbsent end.

Definition load_body (tree : list (commit * content)) (c : commit) (evs : list event) (p : path) (s : repo) : repo * result :=
  match content_at tree c with
  | CAbsent => (s, Raised "ImportError")
  | CSyntaxError => (s, Raised "LoadingError")
  | CPackage =>
      let (s', oe) := run_events evs p s in
      (s', match oe with Some e => Raised e | None => Returned c end)
  end.

(* the body of `with tmp_worktree(...)` in load_git: the commit loaded is the one the temporary branch points at *)
Definition git_body (ref : string) (tree : list (commit * content)) (evs : list event) (p : path) (s2 : repo) : repo * result :=
  match slookup (tmp_branch ref) (branches s2) with
  | Some c => load_body tree c evs p s2
  | None => (s2, Raised "unreachable")
  end.

Definition load_git (guard force isrepo : bool) (F : faults) (p : path) (ref : string) (tree : list (commit * content))
           (evs : list event) (s : repo) : repo * result :=
  tmp_worktree guard force isrepo F p ref (git_body ref tree evs p) s.

(* ------------------------------------------------------------------ check *)

Record check_args := mkCheck {
  c_against : option string;      (* --against; None: latest tag *)
  c_latest : option string;       (* what `git tag -l --sort=-creatordate` lists first *)
  c_base : option string;         (* --base-ref; None: load the working tree *)
  c_work : content;               (* the package in the main working tree *)
  c_work_version : nat;
  c_f_tag : fault; c_f_root : fault; c_ext_fails : bool;
  c_F1 : faults; c_F2 : faults; c_p1 : path; c_p2 : path;
  c_evs1 : list event; c_evs2 : list event
}.

Definition breaking_pair (breaking : list (nat * nat)) (o n : nat) : bool :=
  existsb (fun x => Nat.eqb (fst x) o && Nat.eqb (snd x) n) breaking.

(* `against or get_latest_tag(package)`: a reference, or the way check() ends when there is none *)
Definition against_of (a : check_args) : string + result :=
  match c_against a with
  | Some r => inl r
  | None => match ro_call (c_f_tag a) true with
            | Exn e => inr (Raised e)
            | RcFail => inr (Returned 2)
            | Rc0 => match c_latest a with Some r => inl r | None => inr (Returned 2) end
            end
  end.

(* the new side: load_git at --base-ref, or a plain load of the main working tree (which writes nothing) *)
Definition load_new (guard force isrepo : bool) (a : check_args) (tree : list (commit * content)) (s1 : repo) : repo * result :=
  match c_base a with
  | Some r => load_git guard force isrepo (c_F2 a) (c_p2 a) r tree (c_evs2 a) s1
  | None => match c_work a with
            | CAbsent => (s1, Raised "ImportError")
            | CSyntaxError => (s1, Raised "LoadingError")
            | CPackage => match run_events (c_evs2 a) (c_p2 a) s1 with
                          | (_, Some e) => (s1, Raised e)
                          | (_, None) => (s1, Returned (c_work_version a))
                          end
            end
  end.

Definition check (guard force isrepo : bool) (a : check_args) (tree : list (commit * content)) (breaking : list (nat * nat))
           (s : repo) : repo * result :=
  match against_of a with
  | inr r => (s, r)
  | inl against =>
    match ro_call (c_f_root a) isrepo with
    | Exn e => (s, Raised e)
    | RcFail => (s, Raised "CalledProcessError")
    | Rc0 =>
      if c_ext_fails a then (s, Returned 1)
      else
        match load_git guard force isrepo (c_F1 a) (c_p1 a) against tree (c_evs1 a) s with
        | (s1, Raised e) => (s1, Raised e)
        | (s1, Returned vo) =>
          match load_new guard force isrepo a tree s1 with
          | (s2, Raised e) => (s2, Raised e)
          | (s2, Returned vn) => (s2, Returned (if breaking_pair breaking vo vn then 1 else 0))
          end
        end
    end
  end.

(* ------------------------------------------------------------------ hypotheses of the theorems, as decidable predicates *)

Definition fresh (p : path) (s : repo) : bool :=
  negb (existsb (Nat.eqb p) (tmps s)) && negb (dir_exists p s) && negb (registered p s).

Definition wf (s : repo) : bool :=
  forallb (fun r => match rbranch r with Some b => has_branch b s | None => true end) (regs s)
  && match head_branch s with Some b => has_branch b s | None => true end.

Definition no_prunable (s : repo) : bool := forallb (fun r => negb (prunable s r)) (regs s).

Definition add_possible (s : repo) (ref : string) : bool :=
  is_some (resolve s ref) && negb (has_branch (tmp_branch ref) s).

Definition is_nofault (f : fault) : bool := match f with NoFault => true | _ => false end.

(* the cleanup steps do their job: remove and branch -D take effect, and nothing raises before branch -D has run *)
Definition cleanup_benign (F : faults) : bool :=
  match f_remove F with NoFault | FailAfter => true | _ => false end
  && match f_branchD F with NoFault | FailAfter | RaiseAfter _ => true | _ => false end.

Definition reaches_add (isrepo : bool) (F : faults) : bool := is_nofault (f_assert F) && isrepo && negb (f_mkdtemp F).

(* the removal of the TemporaryDirectory does its job *)
Definition rm_effective (F : faults) : bool := match f_rmtree F with RmOk | RmRaiseAfter _ => true | _ => false end.

(* excluded by hypothesis: the removal of the temporary directory itself fails *)
Definition excluded_rmtree_fault (isrepo : bool) (F : faults) : bool := reaches_add isrepo F && negb (rm_effective F).

(* KnownGap F2: `worktree add` leaves an effect but does not report success: it takes effect and exits non-zero (failing
   post-checkout hook), is interrupted on return, or is torn (interrupted after `git branch`, before the registration) *)
Definition gap_add_after (isrepo : bool) (s : repo) (ref : string) (F : faults) : bool :=
  reaches_add isrepo F && add_possible s ref
  && match f_add F with FailAfter | RaiseAfter _ | Torn _ => true | _ => false end.

Definition reaches_cleanup (isrepo : bool) (s : repo) (ref : string) (F : faults) : bool :=
  reaches_add isrepo F && add_possible s ref && is_nofault (f_add F).

(* excluded by hypothesis: a cleanup step itself fails or is interrupted *)
Definition excluded_cleanup_fault (isrepo : bool) (s : repo) (ref : string) (F : faults) : bool :=
  reaches_cleanup isrepo s ref F && negb (cleanup_benign F).

Definition benign (isrepo : bool) (s : repo) (ref : string) (F : faults) : bool :=
  negb (gap_add_after isrepo s ref F) && negb (excluded_cleanup_fault isrepo s ref F) && negb (excluded_rmtree_fault isrepo F).

(* ---- the repaired variant ([guard] = true): what the add call leaves behind decides what the cleanup has to do *)
Inductive leftover := LNothing | LBranch | LFull.

Definition add_leftover (f : fault) : leftover :=
  match f with
  | NoFault | FailAfter | RaiseAfter _ => LFull
  | Torn _ => LBranch
  | FailBefore | RaiseBefore _ => LNothing
  end.

(* `worktree remove` raises nothing (so that `branch -D` runs) *)
Definition remove_quiet (F : faults) : bool :=
  match f_remove F with RaiseBefore _ | RaiseAfter _ | Torn (Some _) => false | _ => true end.
Definition branchD_effective (F : faults) : bool :=
  match f_branchD F with NoFault | FailAfter | RaiseAfter _ => true | _ => false end.

Definition cleanup_ok (l : leftover) (F : faults) : bool :=
  match l with
  | LNothing => true
  | LBranch => remove_quiet F && branchD_effective F
  | LFull => cleanup_benign F
  end.

(* the try block of the repaired variant is entered *)
Definition reaches_try (isrepo : bool) (s : repo) (ref : string) (F : faults) : bool :=
  reaches_add isrepo F && is_nofault (f_list F) && negb (has_branch (tmp_branch ref) s).

(* no gap predicate: only faults of the cleanup calls themselves and of the directory removal are excluded *)
Definition benign_guarded (isrepo : bool) (s : repo) (ref : string) (F : faults) : bool :=
  negb (excluded_rmtree_fault isrepo F)
  && (negb (reaches_try isrepo s ref F) || negb (is_some (resolve s ref)) || cleanup_ok (add_leftover (f_add F)) F).

Definition effective_against (a : check_args) : option string :=
  match c_against a with Some r => Some r | None => c_latest a end.

Definition check_benign (isrepo : bool) (s : repo) (a : check_args) : bool :=
  match effective_against a with
  | None => true
  | Some ag => benign isrepo s ag (c_F1 a)
               && match c_base a with Some r => benign isrepo s r (c_F2 a) | None => true end
  end.

Definition check_benign_guarded (isrepo : bool) (s : repo) (a : check_args) : bool :=
  match effective_against a with
  | None => true
  | Some ag => benign_guarded isrepo s ag (c_F1 a)
               && match c_base a with Some r => benign_guarded isrepo s r (c_F2 a) | None => true end
  end.

(* histories of operations *)
Inductive op :=
  | OpLoad (isrepo : bool) (F : faults) (p : path) (ref : string) (evs : list event)
  | OpCheck (isrepo : bool) (a : check_args).

Definition run_op (tree : list (commit * content)) (breaking : list (nat * nat)) (s : repo) (o : op) : repo :=
  match o with
  | OpLoad isrepo F p ref evs => fst (load_git false true isrepo F p ref tree evs s)
  | OpCheck isrepo a => fst (check false true isrepo a tree breaking s)
  end.

Definition op_ok (s : repo) (o : op) : bool :=
  match o with
  | OpLoad isrepo F p ref evs => fresh p s && benign isrepo s ref F
  | OpCheck isrepo a => fresh (c_p1 a) s && fresh (c_p2 a) s && check_benign isrepo s a
  end.

(* ------------------------------------------------------------------ Breakage._location *)

Definition wt_prefix : string := "griffe-worktree-".

Fixpoint location_abs (parts : list string) : option (list string) :=
  match parts with
  | [] => None
  | x :: r => if String.prefix wt_prefix x then Some (tl r) else location_abs r
  end.

Definition location (is_absolute : bool) (parts : list string) : list string :=
  if is_absolute then match location_abs parts with Some l => l | None => parts end else parts.

(* where tmp_worktree puts the checkout: os.path.join(tmp_dir, normref), normref = checkout_name ref *)
Definition checkout_parts (root : list string) (tmpname dirname : string) : list string :=
  root ++ [tmpname; dirname].

(* ------------------------------------------------------------------ lines collection *)

Definition file := (list string * list string)%type.        (* path parts, lines *)

(* what the collection holds for a path: the lines themselves, or (NOT in the code as it is) a promise to read the
   file when somebody asks *)
Inductive entry := Stored (ls : list string) | Deferred.
Definition lines_collection := list (list string * entry).

(* the files that exist at the moment an object is asked for its lines *)
Definition filesystem := list file.

Fixpoint parts_eqb (a b : list string) : bool :=
  match a, b with
  | [], [] => true
  | x :: a', y :: b' => String.eqb x y && parts_eqb a' b'
  | _, _ => false
  end.

Fixpoint lc_get {A} (lc : list (list string * A)) (k : list string) : option A :=
  match lc with
  | [] => None
  | (k', v) :: r => if parts_eqb k' k then Some v else lc_get r k
  end.

Definition lc_set (lc : lines_collection) (k : list string) (v : list string) : lines_collection :=
  (k, Stored v) :: lc.

(* both loader paths store each file they load under its absolute path, eagerly:
   loader._visit_module (static analysis) and loader._inspect_module (dynamic analysis) *)
Fixpoint visit_files (checkout : list string) (files : list file) (lc : lines_collection) : lines_collection :=
  match files with
  | [] => lc
  | (rel, ls) :: r => visit_files checkout r (lc_set lc (checkout ++ rel) ls)
  end.

Definition all_stored (lc : lines_collection) : bool :=
  forallb (fun kv => match snd kv with Stored _ => true | Deferred => false end) lc.

(* Object.lines for a module: the collection; a missing key gives no lines *)
Definition obj_lines (fs : filesystem) (lc : lines_collection) (filepath : list string) : list string :=
  match lc_get lc filepath with
  | Some (Stored l) => l
  | Some Deferred => match lc_get fs filepath with Some l => l | None => [] end
  | None => []
  end.

(* Object.lines / Object.source of a function, class or attribute: lines[lineno-1 : endlineno] *)
Definition obj_source (fs : filesystem) (lc : lines_collection) (filepath : list string) (lineno endlineno : nat) : list string :=
  firstn (endlineno - (lineno - 1)) (skipn (lineno - 1) (obj_lines fs lc filepath)).

(* ------------------------------------------------------------------ codecs *)

Definition dec_pair_sn (x : sexp) : option (string * nat) :=
  match x with SList [a; b] => do a' <- as_str a; do b' <- as_nat b; Some (a', b') | _ => None end.
Definition dec_pair_nb (x : sexp) : option (nat * bool) :=
  match x with SList [a; b] => do a' <- as_nat a; do b' <- as_bool b; Some (a', b') | _ => None end.
Definition dec_pair_nn (x : sexp) : option (nat * nat) :=
  match x with SList [a; b] => do a' <- as_nat a; do b' <- as_nat b; Some (a', b') | _ => None end.
Definition dec_reg (x : sexp) : option reg :=
  match x with
  | SList [a; b; c] => do a' <- as_nat a; do b' <- as_opt as_str b; do c' <- as_bool c; Some (mkReg a' b' c')
  | _ => None
  end.

Definition dec_repo (x : sexp) : option repo :=
  match x with
  | SList [hb; hc; st; br; nm; rg; ds; tm] =>
      do hb' <- as_opt as_str hb; do hc' <- as_nat hc; do st' <- as_nat st;
      do br' <- as_list_of dec_pair_sn br; do nm' <- as_list_of dec_pair_sn nm;
      do rg' <- as_list_of dec_reg rg; do ds' <- as_list_of dec_pair_nb ds; do tm' <- as_list_of as_nat tm;
      Some (mkRepo hb' hc' st' br' nm' rg' ds' tm')
  | _ => None
  end.

Definition enc_pair_sn (x : string * nat) : sexp := SList [SStr (fst x); of_nat (snd x)].
Definition enc_reg (r : reg) : sexp := SList [of_nat (rpath r); of_opt SStr (rbranch r); of_bool (rlocked r)].
Definition enc_repo (s : repo) : sexp :=
  SList [of_opt SStr (head_branch s); of_nat (head_commit s); of_nat (main_status s);
         SList (map enc_pair_sn (branches s)); SList (map enc_pair_sn (names s)); SList (map enc_reg (regs s));
         SList (map (fun x => SList [of_nat (fst x); of_bool (snd x)]) (dirs s)); SList (map of_nat (tmps s))].

Definition dec_fault (x : sexp) : option fault :=
  match x with
  | SList [SStr "ok"] => Some NoFault
  | SList [SStr "fail-before"] => Some FailBefore
  | SList [SStr "fail-after"] => Some FailAfter
  | SList [SStr "raise-before"; SStr e] => Some (RaiseBefore e)
  | SList [SStr "raise-after"; SStr e] => Some (RaiseAfter e)
  | SList [SStr "torn"] => Some (Torn None)
  | SList [SStr "torn"; SStr e] => Some (Torn (Some e))
  | _ => None
  end.

Definition dec_rmfault (x : sexp) : option rmfault :=
  match x with
  | SList [SStr "ok"] => Some RmOk
  | SList [SStr "raise-before"; SStr e] => Some (RmRaiseBefore e)
  | SList [SStr "torn"; SStr e] => Some (RmTorn e)
  | SList [SStr "raise-after"; SStr e] => Some (RmRaiseAfter e)
  | _ => None
  end.

Definition dec_faults (x : sexp) : option faults :=
  match x with
  | SList [a; m; l; d; r; b; t] =>
      do a' <- dec_fault a; do m' <- as_bool m; do l' <- dec_fault l; do d' <- dec_fault d; do r' <- dec_fault r;
      do b' <- dec_fault b; do t' <- dec_rmfault t; Some (mkFaults a' m' l' d' r' b' t')
  | _ => None
  end.

Definition dec_event (x : sexp) : option event :=
  match x with
  | SList [SStr "step"] => Some EvStep
  | SList [SStr "write"] => Some EvWrite
  | SList [SStr "raise"; SStr e] => Some (EvRaise e)
  | _ => None
  end.

Definition dec_content (x : sexp) : option content :=
  match x with
  | SStr "absent" => Some CAbsent
  | SStr "syntax-error" => Some CSyntaxError
  | SStr "package" => Some CPackage
  | _ => None
  end.

Definition dec_tree (x : sexp) : option (list (commit * content)) :=
  as_list_of (fun y => match y with SList [a; b] => do a' <- as_nat a; do b' <- dec_content b; Some (a', b') | _ => None end) x.

Definition enc_result (r : result) : sexp :=
  match r with Returned v => SList [SStr "returned"; of_nat v] | Raised e => SList [SStr "raised"; SStr e] end.

Definition classify (isrepo : bool) (s : repo) (ref : string) (F : faults) : string :=
  if gap_add_after isrepo s ref F then "gap-add-after"
  else if excluded_cleanup_fault isrepo s ref F then "excluded-cleanup-fault"
  else if excluded_rmtree_fault isrepo F then "excluded-rmtree-fault"
  else "benign".

Definition classify_guarded (isrepo : bool) (s : repo) (ref : string) (F : faults) : string :=
  if benign_guarded isrepo s ref F then "benign"
  else if excluded_rmtree_fault isrepo F then "excluded-rmtree-fault"
  else "excluded-cleanup-fault".

Inductive gstep :=
  | GMkdtemp (p : path) | GAdd (b : string) (p : path) (r : string) | GRemove (force : bool) (p : path)
  | GPrune | GBranchD (b : string) | GRmtree (p : path) | GTouch (p : path) | GLock (p : path)
  | GOccupy (p : path) | GAddTorn (b : string) (p : path) (r : string) | GRemoveTorn (force : bool) (p : path)
  | GRemoveNamed (force : bool) (name : string).

Definition dec_gstep (x : sexp) : option gstep :=
  match x with
  | SList [SStr "mkdtemp"; p] => do p' <- as_nat p; Some (GMkdtemp p')
  | SList [SStr "add"; SStr b; p; SStr r] => do p' <- as_nat p; Some (GAdd b p' r)
  | SList [SStr "remove"; f; p] => do f' <- as_bool f; do p' <- as_nat p; Some (GRemove f' p')
  | SList [SStr "prune"] => Some GPrune
  | SList [SStr "branch-D"; SStr b] => Some (GBranchD b)
  | SList [SStr "rmtree"; p] => do p' <- as_nat p; Some (GRmtree p')
  | SList [SStr "touch"; p] => do p' <- as_nat p; Some (GTouch p')
  | SList [SStr "lock"; p] => do p' <- as_nat p; Some (GLock p')
  | SList [SStr "occupy"; p] => do p' <- as_nat p; Some (GOccupy p')
  | SList [SStr "add-torn"; SStr b; p; SStr r] => do p' <- as_nat p; Some (GAddTorn b p' r)
  | SList [SStr "remove-torn"; f; p] => do f' <- as_bool f; do p' <- as_nat p; Some (GRemoveTorn f' p')
  | SList [SStr "remove-named"; f; SStr n] => do f' <- as_bool f; Some (GRemoveNamed f' n)
  | _ => None
  end.

(* returns (state, git accepted?) *)
Definition run_gstep (nm : naming) (g : gstep) (s : repo) : repo * bool :=
  match g with
  | GRemoveNamed f n => lift (wt_remove_named f nm n) s
  | GMkdtemp p => (mkdtemp p s, true)
  | GAdd b p r => wt_add b p r s
  | GRemove f p => lift (wt_remove f p) s
  | GPrune => (wt_prune s, true)
  | GBranchD b => lift (branch_D b) s
  | GRmtree p => (rmtree p s, true)
  | GTouch p => (touch p s, true)
  | GLock p => lift (wt_lock p) s
  | GOccupy p => (occupy p s, true)
  | GAddTorn b p r => (wt_add_torn b p r s, false)
  | GRemoveTorn f p => (wt_remove_torn f p s, false)
  end.

Fixpoint run_gsteps (nm : naming) (gs : list gstep) (s : repo) : list sexp :=
  match gs with
  | [] => []
  | g :: r => let (s', ok) := run_gstep nm g s in SList [of_bool ok; enc_repo s'] :: run_gsteps nm r s'
  end.

Definition dec_pair_ns (x : sexp) : option (nat * string) :=
  match x with SList [a; b] => do a' <- as_nat a; do b' <- as_str b; Some (a', b') | _ => None end.

Definition dec_check (x : sexp) : option check_args :=
  match x with
  | SList [ag; lt; bs; wk; wv; ft; fr; ex; F1; F2; p1; p2; e1; e2] =>
      do ag' <- as_opt as_str ag; do lt' <- as_opt as_str lt; do bs' <- as_opt as_str bs;
      do wk' <- dec_content wk; do wv' <- as_nat wv; do ft' <- dec_fault ft; do fr' <- dec_fault fr;
      do ex' <- as_bool ex; do F1' <- dec_faults F1; do F2' <- dec_faults F2; do p1' <- as_nat p1; do p2' <- as_nat p2;
      do e1' <- as_list_of dec_event e1; do e2' <- as_list_of dec_event e2;
      Some (mkCheck ag' lt' bs' wk' wv' ft' fr' ex' F1' F2' p1' p2' e1' e2')
  | _ => None
  end.

Definition dec_file (x : sexp) : option file :=
  match x with SList [k; v] => do k' <- as_list_of as_str k; do v' <- as_list_of as_str v; Some (k', v') | _ => None end.

Definition or_bad (o : option sexp) : sexp := match o with Some x => x | None => bad_input end.

Definition run_C20 (x : sexp) : sexp :=
  match x with
  | SList [SStr "load_git"; guard; force; isrepo; st; F; p; SStr ref; tree; evs] =>
      or_bad (do guard' <- as_bool guard; do force' <- as_bool force; do isrepo' <- as_bool isrepo; do s <- dec_repo st;
              do F' <- dec_faults F; do p' <- as_nat p; do tree' <- dec_tree tree; do evs' <- as_list_of dec_event evs;
              let (s', r) := load_git guard' force' isrepo' F' p' ref tree' evs' s in
              Some (SList [enc_repo s'; enc_result r;
                           SStr (if guard' then classify_guarded isrepo' s ref F' else classify isrepo' s ref F');
                           of_bool (wf s); of_bool (fresh p' s)]))
  | SList [SStr "check"; guard; force; isrepo; st; args; tree; breaking] =>
      or_bad (do guard' <- as_bool guard; do force' <- as_bool force; do isrepo' <- as_bool isrepo; do s <- dec_repo st;
              do a <- dec_check args; do tree' <- dec_tree tree; do br <- as_list_of dec_pair_nn breaking;
              let (s', r) := check guard' force' isrepo' a tree' br s in
              Some (SList [enc_repo s'; enc_result r]))
  | SList [SStr "steps"; st; gs] =>
      or_bad (do s <- dec_repo st; do gs' <- as_list_of dec_gstep gs; Some (SList (run_gsteps ("", []) gs' s)))
  | SList [SStr "steps-named"; SStr main; names; st; gs] =>
      or_bad (do nms <- as_list_of dec_pair_ns names; do s <- dec_repo st; do gs' <- as_list_of dec_gstep gs;
              Some (SList (run_gsteps (main, nms) gs' s)))
  | SList (SStr "import-load" :: _) => run_import x
  | SList [SStr "normalize"; SStr r] => SStr (normalize r)
  | SList [SStr "checkout-name"; SStr r] => SStr (checkout_name r)
  | SList [SStr "location"; is_abs; parts] =>
      or_bad (do a <- as_bool is_abs; do ps <- as_list_of as_str parts; Some (SList (map SStr (location a ps))))
  | SList [SStr "checkout"; root; SStr tmpname; SStr normref] =>
      or_bad (do rt <- as_list_of as_str root; Some (SList (map SStr (checkout_parts rt tmpname normref))))
  | SList [SStr "lines"; checkout; files; rel; lineno; endlineno] =>
      (* the loader stores [files] of the checkout; the checkout is then removed (empty file system); what an object
         of file [rel] spanning lineno..endlineno gives as its lines (0 0: the module itself) *)
      or_bad (do co <- as_list_of as_str checkout; do fl <- as_list_of dec_file files; do rl <- as_list_of as_str rel;
              do a <- as_nat lineno; do b <- as_nat endlineno;
              let lc := visit_files co fl [] in
              Some (SList (map SStr (if Nat.eqb a 0 then obj_lines [] lc (co ++ rl) else obj_source [] lc (co ++ rl) a b))))
  | _ => bad_input
  end.
