(* C12: histories on ONE Docstring object.  The public, writable attributes are value (here: its lines), parser and
   parser_options; parse(style, **options) uses the style given or else the configured parser, the options given or
   else the configured ones, and the CURRENT value; `parsed` is computed by parse() on first access and cached
   (documented); reading `lines` gives the lines of the current value.  There is no other state.
   Executable definitions only. *)
From Coq Require Import List NArith String Bool Arith.
From Verif Require Import Lib.Sexp Model.C12_regex Model.C12_docstrings Model.C12_chars.
Import ListNotations.
Open Scope list_scope.
Open Scope nat_scope.

Inductive pstyle := PGoogle | PNumpy | PSphinx.

(* what one parse returns *)
Inductive pres :=
| PPlain (cl : list text)                                              (* no parser: one text section, the value *)
| PGoogleR (r : result (list section * list (list ditem)))
| PNumpyR (r : result (list section * list (list ditem)))
| PSphinxR (r : result (list section)) (v : sval).

(* parse as a function of the current text, the style and the options (and of the parent, which never changes) *)
Definition parse_pure (p : parent) (pa : parent_ann) (cl : list text) (s : option pstyle) (o : gopts) : pres :=
  match s with
  | None => PPlain cl
  | Some PGoogle => PGoogleR (g_parse_full cl o p)
  | Some PNumpy => PNumpyR (n_parse_full cl o p)
  | Some PSphinx => PSphinxR (s_parse (features cl)) (s_parse_full pa cl)
  end.

Record dstate := mkD { d_lines : list text; d_parser : option pstyle; d_opts : gopts; d_parsed : option pres }.

Inductive op :=
| OParse (s : option pstyle) (o : option gopts)   (* docstring.parse(s, **o) *)
| OSetValue (cl : list text)                      (* docstring.value = ... *)
| OSetParser (s : option pstyle)                  (* docstring.parser = ... *)
| OSetOpts (o : gopts)                            (* docstring.parser_options = {...} *)
| OReadParsed                                     (* docstring.parsed *)
| OReadLines.                                     (* docstring.lines *)

Inductive obs := ObsParse (r : pres) | ObsLines (cl : list text) | ObsNone.

Definition pick {A} (given : option A) (configured : A) : A := match given with Some x => x | None => configured end.
Definition pick_style (given configured : option pstyle) : option pstyle :=
  match given with Some x => Some x | None => configured end.

Section History.
  Variable p : parent.
  Variable pa : parent_ann.

  Definition parse_now (st : dstate) (s : option pstyle) (o : option gopts) : pres :=
    parse_pure p pa (d_lines st) (pick_style s (d_parser st)) (pick o (d_opts st)).

  Definition step (st : dstate) (x : op) : dstate * obs :=
    match x with
    | OParse s o => (st, ObsParse (parse_now st s o))
    | OSetValue cl => (mkD cl (d_parser st) (d_opts st) (d_parsed st), ObsNone)
    | OSetParser s => (mkD (d_lines st) s (d_opts st) (d_parsed st), ObsNone)
    | OSetOpts o => (mkD (d_lines st) (d_parser st) o (d_parsed st), ObsNone)
    | OReadParsed =>
        match d_parsed st with
        | Some r => (st, ObsParse r)
        | None => let r := parse_now st None None in
                  (mkD (d_lines st) (d_parser st) (d_opts st) (Some r), ObsParse r)
        end
    | OReadLines => (st, ObsLines (d_lines st))
    end.

  Fixpoint exec (st : dstate) (ops : list op) : dstate * list obs :=
    match ops with
    | [] => (st, [])
    | x :: r => let '(st1, o1) := step st x in
                let '(st2, os) := exec st1 r in (st2, o1 :: os)
    end.
End History.

(* the public fields a history leaves: only the assignments count *)
Fixpoint fields_after (cl : list text) (s : option pstyle) (o : gopts) (ops : list op)
  : list text * option pstyle * gopts :=
  match ops with
  | [] => (cl, s, o)
  | OSetValue cl' :: r => fields_after cl' s o r
  | OSetParser s' :: r => fields_after cl s' o r
  | OSetOpts o' :: r => fields_after cl s o' r
  | _ :: r => fields_after cl s o r
  end.
