(* C13 model, part 1: the CPython string operations the three docstring parsers use, over ASCII strings
   represented as [list ascii].  Executable definitions only.  Each function names the Python operation it stands for;
   the harness compares every one of them with CPython on generated strings (oracle check). *)
From Coq Require Import List Ascii String Bool Arith.
Import ListNotations.
Open Scope char_scope.
Open Scope list_scope.
Open Scope nat_scope.

Notation str := (list ascii) (only parsing).

Definition ceq (a b : ascii) : bool := Ascii.eqb a b.

(* str.isspace for one ASCII character = what [\s] matches in a str pattern: 9..13, 28..31, 32 *)
Definition is_space (c : ascii) : bool :=
  let n := nat_of_ascii c in
  (n =? 32) || ((9 <=? n) && (n <=? 13)) || ((28 <=? n) && (n <=? 31)).

(* [\w] on ASCII: letters, digits, underscore *)
Definition is_word (c : ascii) : bool :=
  let n := nat_of_ascii c in
  ((48 <=? n) && (n <=? 57)) || ((65 <=? n) && (n <=? 90)) || ((97 <=? n) && (n <=? 122)) || (n =? 95).

Definition printable (c : ascii) : bool :=
  let n := nat_of_ascii c in (32 <=? n) && (n <=? 126).

Definition nl : ascii := "010".
Definition sp : ascii := " ".

(* str.lower on ASCII *)
Definition lower_char (c : ascii) : ascii :=
  let n := nat_of_ascii c in
  if (65 <=? n) && (n <=? 90) then ascii_of_nat (n + 32) else c.
Definition lower (s : str) : str := map lower_char s.

Fixpoint str_eqb (a b : str) : bool :=
  match a, b with
  | [], [] => true
  | x :: a', y :: b' => ceq x y && str_eqb a' b'
  | _, _ => false
  end.

(* s.startswith(p) *)
Fixpoint startswith (p s : str) : bool :=
  match p with
  | [] => true
  | c :: p' => match s with
               | [] => false
               | d :: s' => ceq c d && startswith p' s'
               end
  end.

Definition spaces (n : nat) : str := repeat sp n.

(* s.lstrip() *)
Fixpoint lstrip (s : str) : str :=
  match s with
  | c :: r => if is_space c then lstrip r else s
  | [] => []
  end.

(* s.lstrip(" ") *)
Fixpoint lstrip_sp (s : str) : str :=
  match s with
  | c :: r => if ceq c sp then lstrip_sp r else s
  | [] => []
  end.

(* s.lstrip(ch) for a one-character set *)
Fixpoint lstrip_char (ch : ascii) (s : str) : str :=
  match s with
  | c :: r => if ceq c ch then lstrip_char ch r else s
  | [] => []
  end.

(* generic rstrip: drop the longest suffix whose characters all satisfy f *)
Fixpoint rstrip_by (f : ascii -> bool) (s : str) : str :=
  match s with
  | [] => []
  | c :: r => match rstrip_by f r with
              | [] => if f c then [] else [c]
              | r' => c :: r'
              end
  end.

Definition rstrip (s : str) : str := rstrip_by is_space s.                (* s.rstrip() *)
Definition rstrip_nl (s : str) : str := rstrip_by (ceq nl) s.              (* s.rstrip("\n") *)
Definition strip (s : str) : str := rstrip (lstrip s).                     (* s.strip() *)
Definition is_paren (c : ascii) : bool := ceq c "(" || ceq c ")".
Fixpoint lstrip_by (f : ascii -> bool) (s : str) : str :=
  match s with
  | c :: r => if f c then lstrip_by f r else s
  | [] => []
  end.
Definition strip_parens (s : str) : str := rstrip_by is_paren (lstrip_by is_paren s).   (* s.strip("()") *)

(* not line.strip() *)
Definition is_empty_line (s : str) : bool := forallb is_space s.

(* len(line) - len(line.lstrip()) *)
Fixpoint indent_of (s : str) : nat :=
  match s with
  | c :: r => if is_space c then S (indent_of r) else 0
  | [] => 0
  end.

(* c in s *)
Definition contains_char (c : ascii) (s : str) : bool := existsb (ceq c) s.

(* s.split(c, 1) when c occurs: (before the first c, after it); None when c does not occur *)
Fixpoint split_first (c : ascii) (s : str) : option (str * str) :=
  match s with
  | [] => None
  | d :: r => if ceq d c then Some ([], r)
              else match split_first c r with
                   | Some (a, b) => Some (d :: a, b)
                   | None => None
                   end
  end.

(* longest prefix whose characters satisfy f, and the rest *)
Fixpoint span (f : ascii -> bool) (s : str) : str * str :=
  match s with
  | c :: r => if f c then let (a, b) := span f r in (c :: a, b) else ([], s)
  | [] => ([], [])
  end.

(* s.removesuffix(suf) *)
Fixpoint removesuffix (suf s : str) : str :=
  match s with
  | [] => []
  | c :: r => if str_eqb s suf then [] else c :: removesuffix suf r
  end.
(* careful: removesuffix above removes the suffix only where the WHOLE remaining string equals it, i.e. at the end *)

(* s.endswith(suf) *)
Fixpoint endswith (suf s : str) : bool :=
  str_eqb s suf || match s with [] => false | _ :: r => endswith suf r end.

(* "\n".join(lines) *)
Fixpoint join_nl (ls : list str) : str :=
  match ls with
  | [] => []
  | [l] => l
  | l :: r => l ++ nl :: join_nl r
  end.

(* sep.join(lines) *)
Fixpoint join_with (sep : str) (ls : list str) : str :=
  match ls with
  | [] => []
  | [l] => l
  | l :: r => l ++ sep ++ join_with sep r
  end.

(* s.split("\n") *)
Fixpoint split_nl (s : str) : list str :=
  match s with
  | [] => [[]]
  | c :: r => if ceq c nl then [] :: split_nl r
              else match split_nl r with
                   | l :: ls => (c :: l) :: ls
                   | [] => [[c]]
                   end
  end.

(* s.splitlines() on ASCII text: a line ends at \n, \r, \r\n (one boundary), \v, \f, FS, GS, RS; no final empty piece.
   (str.splitlines also cuts at NEL, U+2028, U+2029: outside ASCII, outside this model.) *)
Definition is_linebreak (c : ascii) : bool :=
  let n := nat_of_ascii c in ((10 <=? n) && (n <=? 13)) || ((28 <=? n) && (n <=? 30)).
Definition cr : ascii := "013".

Fixpoint splitlines_aux (cur : str) (s : str) : list str :=      (* cur = current line, reversed *)
  match s with
  | [] => match cur with [] => [] | _ => [rev cur] end
  | c :: r =>
      if is_linebreak c then
        rev cur :: match r with
                   | d :: r' => if ceq c cr && ceq d nl then splitlines_aux [] r' else splitlines_aux [] r
                   | [] => []
                   end
      else splitlines_aux (c :: cur) r
  end.
Definition splitlines (s : str) : list str := splitlines_aux [] s.

(* does s start with "):" *)
Definition starts_pc (s : str) : bool :=
  match s with
  | x :: y :: _ => ceq x ")" && ceq y ":"
  | _ => false
  end.

(* does "):" occur in s *)
Fixpoint has_parencolon (s : str) : bool :=
  match s with
  | [] => false
  | _ :: r => starts_pc s || has_parencolon r
  end.

(* the non-greedy "(type):" group: split r at the FIRST occurrence of "):" that leaves a non-empty part before it.
   first_parencolon r = Some (before, after)  ->  r = before ++ "):" ++ after, before <> [] *)
Fixpoint first_parencolon (s : str) : option (str * str) :=
  match s with
  | [] => None
  | c :: r =>
      if starts_pc r then Some ([c], skipn 2 r)
      else match first_parencolon r with
           | Some (a, b) => Some (c :: a, b)
           | None => None
           end
  end.

(* drop the blank lines at the end of a list of lines *)
Fixpoint rstrip_blank (cs : list str) : list str :=
  match cs with
  | [] => []
  | c :: r => match rstrip_blank r with
              | [] => match c with [] => [] | _ => [c] end
              | r' => c :: r'
              end
  end.

(* string literals *)
Definition s_of (s : string) : str := list_ascii_of_string s.
