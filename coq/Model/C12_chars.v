(* C12 character level.  A docstring is a list of lines, a line a list of characters ([ch], Model/C12_regex.v).
   (1) The 15 line features the control-flow model (Model/C12_docstrings.v) runs on are COMPUTED here from the
       characters, with the regular expressions and keyword tables regenerated from /repo (Gen/C12_regexes.v,
       Gen/C12_tables.v) and the model matcher.
   (2) Item-level parsing: the texts of the items of Google / Numpy blocks, their split into name, annotation
       source and description (colon splits, the Returns regex, the Numpy parameter / returns / default regexes),
       Sphinx field parsing with its duplicate and type-field bookkeeping.
   Every function is structural recursion over the characters or the lines; look-ups that can fail in Python
   (lines[0] of an item) are explicit and return [Err IndexError].  Executable definitions only. *)
From Coq Require Import List NArith ZArith String Ascii Bool Arith.
From Verif Require Import Lib.Sexp Model.C12_regex Gen.C12_regexes Gen.C12_tables Model.C12_docstrings.
Import ListNotations.
Open Scope string_scope.
Open Scope list_scope.
Open Scope nat_scope.

Definition text := list ch.

(* ---------------------------------------------------------------- str methods *)
Definition is_c (n : N) (x : ch) : bool := N.eqb (cp x) n.
Definition nl : ch := ascii_ch 10%N.
Definition spc : ch := ascii_ch 32%N.

(* List.rev is quadratic; this is the linear one (rev_append_rev gives frev l = rev l) *)
Definition frev {A} (l : list A) : list A := rev_append l [].

Fixpoint dropw {A} (f : A -> bool) (l : list A) : list A :=
  match l with [] => [] | x :: r => if f x then dropw f r else l end.
Fixpoint takew {A} (f : A -> bool) (l : list A) : list A :=
  match l with [] => [] | x :: r => if f x then x :: takew f r else [] end.
Definition rdropw {A} (f : A -> bool) (l : list A) : list A := frev (dropw f (frev l)).

Definition lstrip (t : text) : text := dropw c_space t.              (* str.lstrip() *)
Definition rstrip (t : text) : text := rdropw c_space t.             (* str.rstrip() *)
Definition strip (t : text) : text := rstrip (lstrip t).
Definition rstrip_nl (t : text) : text := rdropw is_nl t.            (* str.rstrip("\n") *)
Definition l_blank (t : text) : bool := forallb c_space t.           (* not line.strip() *)
Definition l_ws (t : text) : nat := List.length (takew c_space t).   (* len(line) - len(line.lstrip()) *)
Definition l_sp (t : text) : nat := List.length (takew (is_c 32) t). (* leading ' ' *)
Definition cps (t : text) : list N := map cp t.
Definition lower (t : text) : list N := flat_map c_low t.            (* str.lower(), character by character *)
Definition str_cps (s : string) : list N := map N_of_ascii (list_ascii_of_string s).

Fixpoint prefix_cp (pat l : list N) : bool :=
  match pat, l with
  | [], _ => true
  | a :: pr, b :: lr => N.eqb a b && prefix_cp pr lr
  | _ :: _, [] => false
  end.
Fixpoint eq_cp (a b : list N) : bool :=
  match a, b with
  | [], [] => true
  | x :: ar, y :: br => N.eqb x y && eq_cp ar br
  | _, _ => false
  end.
Definition text_eqb (a b : text) : bool := eq_cp (cps a) (cps b).

(* "\n".join / " ".join *)
Fixpoint join (sep : ch) (ls : list text) : text :=
  match ls with
  | [] => []
  | [l] => l
  | l :: r => l ++ sep :: join sep r
  end.

(* str.split(c, 1): None when c does not occur *)
Fixpoint split1 (c : N) (t : text) : option (text * text) :=
  match t with
  | [] => None
  | x :: r => if is_c c x then Some ([], r)
              else match split1 c r with Some (a, b) => Some (x :: a, b) | None => None end
  end.
(* str.split(c): always at least one part *)
Fixpoint split_all (c : N) (t : text) : text * list text :=
  match t with
  | [] => ([], [])
  | x :: r => let '(h, tl) := split_all c r in
              if is_c c x then ([], h :: tl) else (x :: h, tl)
  end.
Definition split_list (c : N) (t : text) : list text := let '(h, tl) := split_all c t in h :: tl.

(* str.strip(chars) for a set of code points *)
Definition in_cps (cs : list N) (x : ch) : bool := existsb (N.eqb (cp x)) cs.
Definition strip_chars (cs : list N) (t : text) : text := rdropw (in_cps cs) (dropw (in_cps cs) t).

(* str.removesuffix *)
Definition remove_suffix (suf : list N) (t : text) : text :=
  if prefix_cp (frev suf) (frev (cps t)) then firstn (List.length t - List.length suf) t else t.
Definition ends_with (suf : list N) (t : text) : bool := prefix_cp (frev suf) (frev (cps t)).

(* number of non-overlapping ", " from the left: len(s.split(", ")) - 1 *)
Fixpoint count_comma_space (l : list N) : nat :=
  match l with
  | a :: r => match r with
              | b :: r' => if N.eqb a 44 && N.eqb b 32 then S (count_comma_space r') else count_comma_space r
              | [] => 0
              end
  | [] => 0
  end.
(* s.split(", ") *)
Fixpoint split_comma_space (cur : text) (t : text) : list text :=
  match t with
  | a :: r => match r with
              | b :: r' => if is_c 44 a && is_c 32 b then frev cur :: split_comma_space [] r'
                           else split_comma_space (a :: cur) r
              | [] => [frev (a :: cur)]
              end
  | [] => [frev cur]
  end.

(* str.replace(" or ", " | ") *)
Fixpoint replace_or (t : text) : text :=
  match t with
  | a :: r =>
      match r with
      | b :: c :: d :: r' =>
          if is_c 32 a && is_c 111 b && is_c 114 c && is_c 32 d
          then spc :: ascii_ch 124%N :: spc :: replace_or r'
          else a :: replace_or r
      | _ => a :: replace_or r
      end
  | [] => []
  end.

(* str.splitlines(): \n \r \r\n \v \f \x1c \x1d \x1e \x85    ; no empty last line *)
Definition is_lb (x : ch) : bool :=
  let c := cp x in
  in_range 10 13 c || in_range 28 30 c || N.eqb c 133 || N.eqb c 8232 || N.eqb c 8233.
Fixpoint splitlines_aux (cur : text) (t : text) : list text :=
  match t with
  | [] => match cur with [] => [] | _ => [frev cur] end
  | x :: r =>
      if is_lb x then
        frev cur :: match r with
                   | y :: r' => if is_c 13 x && is_c 10 y then splitlines_aux [] r' else splitlines_aux [] r
                   | [] => []
                   end
      else splitlines_aux (x :: cur) r
  end.
Definition splitlines (t : text) : list text := splitlines_aux [] t.

(* ---------------------------------------------------------------- the line features, computed *)
Fixpoint lookup_kw (tbl : list (string * nat)) (key : list N) : option nat :=
  match tbl with
  | [] => None
  | (k, v) :: r => if eq_cp (str_cps k) key then Some v else lookup_kw r key
  end.

Definition rx_match (x : regex) (t : text) : option (N * caps) := re_match (rx_ic x) (rx_re x) t.

Definition l_fence (t : text) : bool := prefix_cp [96; 96; 96]%N (dropw (N.eqb 32) (lower t)).
Definition l_colon (t : text) : bool := existsb (is_c 58) t.
Definition l_dash (t : text) : bool := negb (l_blank t) && l_blank (filter (fun x => negb (is_c 45 x)) t).

(* _RE_ADMONITION.match(line), then groups["type"].lower() in _section_kind *)
Definition l_gadm (t : text) : adm :=
  match rx_match rx_google__RE_ADMONITION t with
  | None => ANone
  | Some (_, c) =>
      match group t c rx_google__RE_ADMONITION__type with
      | None => AAdm
      | Some ty =>
          match lookup_kw google_section_kind (lower ty) with
          | Some k => match dec_skind k with Some sk => ASec sk | None => AAdm end
          | None => AAdm
          end
      end
  end.
(* line.lower() in _section_kind *)
Definition l_nkind (t : text) : option skind :=
  match lookup_kw numpy_section_kind (lower t) with
  | Some k => dec_skind k
  | None => None
  end.
(* _RE_PARAMETER.match(line): number of names *)
Definition l_npnames (t : text) : nat :=
  match rx_match rx_numpy__RE_PARAMETER t with
  | None => 0
  | Some (_, c) =>
      match group t c rx_numpy__RE_PARAMETER__names with
      | Some ns => S (count_comma_space (cps ns))
      | None => 0
      end
  end.
Definition l_colon0 (t : text) : bool := match t with x :: _ => is_c 58 x | [] => false end.
(* the first entry of _field_types with a name such that line.startswith(":" + name) *)
Fixpoint l_sfield_in (tbl : list (nat * list string)) (l : list N) : option sfld :=
  match tbl with
  | [] => None
  | (code, names) :: r =>
      if existsb (fun n => prefix_cp (58%N :: str_cps n) l) names
      then match dec_sfld code with Some (Some f) => Some f | _ => None end
      else l_sfield_in r l
  end.
Definition l_sfield (t : text) : option sfld := l_sfield_in sphinx_field_types (cps t).
Definition count_c (c : N) (t : text) : nat := List.length (filter (is_c c) t).
Definition l_ncol (t : text) : nat := Nat.min 2 (count_c 58 t).
(* spaces of line.lstrip() before its first ":" (all of them when there is none) / between its first and second ":" *)
Definition l_s1 (t : text) : nat := Nat.min 3 (count_c 32 (takew (fun x => negb (is_c 58 x)) (lstrip t))).
Definition l_s2 (t : text) : nat :=
  match split1 58 (lstrip t) with
  | None => 0
  | Some (_, r) => Nat.min 3 (count_c 32 (takew (fun x => negb (is_c 58 x)) r))
  end.

Definition lf_of_line (t : text) : lf :=
  mkLf (l_blank t) (match t with [] => true | _ => false end) (l_ws t) (l_sp t) (l_fence t) (l_colon t) (l_gadm t)
       (l_dash t) (l_nkind t) (l_npnames t) (l_colon0 t) (l_sfield t) (l_ncol t) (l_s1 t) (l_s2 t).

(* ---------------------------------------------------------------- items *)
(* name, annotation source (None: taken from the parent, or none), description (None: not modelled) *)
Definition ditem := (text * option text * option text)%type.

Definition line_at (cl : list text) (i : nat) : text := nth i cl [].
(* lines[a:b] *)
Definition lines_between (cl : list text) (a b : nat) : list text := firstn (b - a) (skipn a cl).

(* ---- Google ---- *)
(* continuation line of an item whose first line has [indent] leading blanks *)
Definition g_cont_line (indent : nat) (l : text) : text :=
  if l_blank l then [] else if indent * 2 <=? l_sp l then skipn (indent * 2) l else skipn (l_ws l) l.
(* the item that starts at line o and ends before line o' *)
Definition g_item_lines (cl : list text) (indent o o' : nat) : text * list text :=
  (skipn indent (line_at cl o), map (g_cont_line indent) (lines_between cl (S o) o')).
(* starts [o1; o2; ...] and the line after the block -> [(o1, o2); (o2, o3); ...; (on, stop)] *)
Fixpoint spans (starts : list nat) (stop : nat) : list (nat * nat) :=
  match starts with
  | [] => []
  | o :: r => (o, match r with o' :: _ => o' | [] => stop end) :: spans r stop
  end.
(* _read_block_items at character level: the items of the block below line [offset - 1] *)
Definition g_block_items (cl : list text) (fs : list lf) (offset : nat) : result (list (text * list text)) :=
  match g_read_block_items fs offset with
  | Err e => Err e
  | Ok (items, off) =>
      match items with
      | [] => Ok []
      | (o, _) :: _ => let indent := l_ws (line_at cl o) in
                       Ok (map (fun se => g_item_lines cl indent (fst se) (snd se)) (spans (map fst items) (S off)))
      end
  end.
(* _read_block: the dedented text of the block *)
Definition g_block_text (cl : list text) (fs : list lf) (offset : nat) : result (option text) :=
  match g_read_block fs offset with
  | Err e => Err e
  | Ok (None, _) => Ok None
  | Ok (Some (f, la, ind), _) =>
      Ok (Some (rstrip_nl (join nl (lstrip (line_at cl f) :: map (skipn ind) (lines_between cl (S f) (S la))))))
  end.
(* _read_block_items_maybe *)
Definition g_items_maybe_full (cl : list text) (fs : list lf) (offset : nat) (multiple : bool)
  : result (list (text * list text)) :=
  if multiple then g_block_items cl fs offset
  else match g_block_text cl fs offset with
       | Err e => Err e
       | Ok None => Ok []
       | Ok (Some t) =>
           match t with
           | [] => Ok []                       (* if not one_block: return [] *)
           | _ => match split_list 10 t with   (* one_block.split("\n"); lines[0] in _get_name_annotation_description *)
                  | [] => Err IndexError
                  | l0 :: r => Ok [(l0, r)]
                  end
           end
       end.

(* "\n".join([description.lstrip(), *lines[1:]]).rstrip("\n") *)
Definition g_desc (after : text) (rest : list text) : text := rstrip_nl (join nl (lstrip after :: rest)).
Definition opt_suffix : list N := str_cps ", optional".

(* Parameters / Other Parameters / Attributes *)
Definition g_named_item (it : text * list text) : option ditem :=
  match split1 58 (fst it) with
  | None => None                                     (* "Failed to get 'name: description' pair" -> skipped *)
  | Some (nwt, d) =>
      let desc := Some (g_desc d (snd it)) in
      match split1 32 nwt with
      | Some (name, ann) => Some (name, Some (remove_suffix opt_suffix (strip_chars [40; 41]%N ann)), desc)
      | None => Some (nwt, None, desc)
      end
  end.
(* Functions / Classes: the name stops at the first "(" and the whole signature is the annotation *)
Definition g_sig_item (it : text * list text) : option ditem :=
  match split1 58 (fst it) with
  | None => None
  | Some (nws, d) =>
      let desc := Some (g_desc d (snd it)) in
      match split1 40 nws with
      | Some (name, _) => Some (name, Some nws, desc)
      | None => Some (nws, None, desc)
      end
  end.
Definition g_module_item (it : text * list text) : option ditem :=
  match split1 58 (fst it) with
  | None => None
  | Some (name, d) => Some (name, None, Some (g_desc d (snd it)))
  end.
(* Raises / Warns: what stands before the colon is the annotation *)
Definition g_raise_item (it : text * list text) : option ditem :=
  match split1 58 (fst it) with
  | None => None
  | Some (ann, d) => Some ([], Some ann, Some (g_desc d (snd it)))
  end.
Definition nonempty (o : option text) : option text := match o with Some [] => None | x => x end.
(* _get_name_annotation_description *)
Definition g_nad_item (named : bool) (it : text * list text) : option ditem :=
  if named then
    match rx_match rx_google__RE_NAME_ANNOTATION_DESCRIPTION (fst it) with
    | None => None                                   (* ValueError -> the item is skipped *)
    | Some (_, c) =>
        let g := group (fst it) c in
        let name := match g rx_google__RE_NAME_ANNOTATION_DESCRIPTION__name with Some n => n | None => [] end in
        let d := match g rx_google__RE_NAME_ANNOTATION_DESCRIPTION__desc with Some x => x | None => [] end in
        Some (name, nonempty (g rx_google__RE_NAME_ANNOTATION_DESCRIPTION__type), Some (g_desc d (snd it)))
    end
  else
    match split1 58 (fst it) with
    | Some (ann, d) => Some ([], nonempty (Some (rdropw (is_c 41) (dropw (is_c 40) ann))), Some (g_desc d (snd it)))
    | None => Some ([], None, Some (g_desc (fst it) (snd it)))
    end.

Fixpoint filter_map {A B} (f : A -> option B) (l : list A) : list B :=
  match l with
  | [] => []
  | x :: r => match f x with Some y => y :: filter_map f r | None => filter_map f r end
  end.

(* ---- Examples sections (the same code in the Google and the Numpy parser) ---- *)
Definition rx_sub (x : regex) (t : text) : text := re_sub_del (rx_ic x) (rx_re x) t.
Definition tag_text : text := map (fun a => ascii_ch (N_of_ascii a)) (list_ascii_of_string "text").
Definition tag_examples : text := map (fun a => ascii_ch (N_of_ascii a)) (list_ascii_of_string "examples").

(* state of the loop over text.split("\n"): in_code_example, in_code_block, current_text, current_example (newest
   first), sub_sections (newest first) *)
Record exst := mkExst { ex_in : bool; ex_blk : bool; ex_text : list text; ex_code : list text; ex_subs : list ditem }.

Definition ex_step (flags blankline : regex) (trim : bool) (st : exst) (line : text) : exst :=
  if l_blank line then
    if ex_in st then
      mkExst false (ex_blk st) (ex_text st) []
             (match ex_code st with
              | [] => ex_subs st
              | _ => (tag_examples, None, Some (join nl (frev (ex_code st)))) :: ex_subs st
              end)
    else mkExst (ex_in st) (ex_blk st) (line :: ex_text st) (ex_code st) (ex_subs st)
  else if ex_in st then
    let line' := if trim then rx_sub blankline (rx_sub flags line) else line in
    mkExst true (ex_blk st) (ex_text st) (line' :: ex_code st) (ex_subs st)
  else if prefix_cp [96; 96; 96]%N (cps line) then
    mkExst false (negb (ex_blk st)) (line :: ex_text st) (ex_code st) (ex_subs st)
  else if ex_blk st then
    mkExst false true (line :: ex_text st) (ex_code st) (ex_subs st)
  else if prefix_cp [62; 62; 62]%N (cps line) then
    let line' := if trim then rx_sub flags line else line in
    mkExst true false []
           (line' :: ex_code st)
           (match ex_text st with
            | [] => ex_subs st
            | _ => (tag_text, None, Some (rstrip_nl (join nl (frev (ex_text st))))) :: ex_subs st
            end)
  else mkExst false false (line :: ex_text st) (ex_code st) (ex_subs st).

Definition examples_of (flags blankline : regex) (trim : bool) (block : text) : list ditem :=
  let st := fold_left (ex_step flags blankline trim) (split_list 10 block) (mkExst false false [] [] []) in
  frev (match ex_text st with
        | _ :: _ => (tag_text, None, Some (rstrip_nl (join nl (frev (ex_text st))))) :: ex_subs st
        | [] => match ex_code st with
                | _ :: _ => (tag_examples, None, Some (join nl (frev (ex_code st)))) :: ex_subs st
                | [] => ex_subs st
                end
        end).

(* the items of the section of kind k whose header is line hdr *)
Definition g_section_items (cl : list text) (fs : list lf) (o : gopts) (k : skind) (hdr : nat) : result (list ditem) :=
  let items f := match g_block_items cl fs (S hdr) with Err e => Err e | Ok its => Ok (filter_map f its) end in
  let nad multiple named :=
    match g_items_maybe_full cl fs (S hdr) multiple with
    | Err e => Err e
    | Ok its => Ok (filter_map (g_nad_item named) its)
    end in
  match k with
  | KParams | KOther | KAttrs => items g_named_item
  | KFuncs | KClasses => items g_sig_item
  | KModules => items g_module_item
  | KRaises | KWarns => items g_raise_item
  | KReturns | KYields => nad (o_ret_multi o) (o_ret_named o)
  | KReceives => nad (o_rec_multi o) (o_rec_named o)
  | KExamples =>
      match g_block_text cl fs (S hdr) with
      | Err e => Err e
      | Ok t => Ok (examples_of rx_google__RE_DOCTEST_FLAGS rx_google__RE_DOCTEST_BLANKLINE (o_trim o)
                                (match t with Some x => x | None => [] end))
      end
  | KDeprecated => Ok []
  end.

(* returns_type_in_property_summary: the annotation is what stands before the first ":" of the first line of the
   left-stripped text section *)
Definition g_summary_annotation (cl : list text) (ls : list (nat * bool)) : option text :=
  let txt := lstrip (rstrip_nl (join nl (map (fun ib : nat * bool => if snd ib then ([] : text) else line_at cl (fst ib)) ls))) in
  match split_list 10 txt with
  | l0 :: _ => match split1 58 l0 with Some (a, _) => Some a | None => None end
  | [] => None
  end.

(* ---- Numpy ---- *)
(* start lines of the items: the recursion of n_items_loop, remembering where each item starts *)
Fixpoint n_items_idx (rest : list lf) (o : nat) (cur : nat) (acc : list nat) : list nat * nat :=
  match rest with
  | [] => (frev (cur :: acc), o)
  | l :: r =>
      if blank l then n_items_idx r (S o) cur acc
      else if 4 <=? sp l then n_items_idx r (S o) cur acc
      else if 1 <=? sp l then n_items_idx r (S o) cur acc
      else if next_is_dash r then (frev (cur :: acc), o)
      else n_items_idx r (S o) o (cur :: acc)
  end.
Definition n_block_idx (fs : list lf) (offset : nat) : result (list nat * nat) :=
  if List.length fs <=? offset then Ok ([], offset)
  else match skip_blank (skipn offset fs) offset with
       | None => Err IndexError
       | Some (o, l, r) => let '(items, n) := n_items_idx r (S o) o [] in Ok (items, pred n)
       end.
Definition n_cont_line (l : text) : text :=
  if l_blank l then [] else if 4 <=? l_sp l then skipn 4 l else skipn (l_ws l) l.
Definition n_block_items (cl : list text) (fs : list lf) (offset : nat) : result (list (text * list text)) :=
  match n_block_idx fs offset with
  | Err e => Err e
  | Ok (starts, off) =>
      Ok (map (fun se => (line_at cl (fst se), map n_cont_line (lines_between cl (S (fst se)) (snd se))))
              (spans starts (S off)))
  end.

(* "\n".join(item[1:]).rstrip() if len(item) > 1 else "" *)
Definition n_param_desc (rest : list text) : text := rstrip (join nl rest).
Definition n_param_items (it : text * list text) : list ditem :=
  match rx_match rx_numpy__RE_PARAMETER (fst it) with
  | None => []
  | Some (_, c) =>
      let g := group (fst it) c in
      match g rx_numpy__RE_PARAMETER__names with
      | None => []
      | Some ns =>
          let ann0 := nonempty (g rx_numpy__RE_PARAMETER__type) in
          let ann1 :=
            match nonempty (g rx_numpy__RE_PARAMETER__choices) with
            | Some ch => Some ch
            | None =>
                match ann0 with
                | None => None
                | Some a =>
                    match rx_match rx_numpy__read_parameters_1 a with
                    | Some (_, c2) => match group a c2 rx_numpy__read_parameters_1__annotation with
                                      | Some a' => Some a'
                                      | None => Some a
                                      end
                    | None => Some a
                    end
                end
            end in
          let ann := match ann1 with
                     | Some a => match a with [] => Some a | _ => Some (remove_suffix opt_suffix a) end
                     | None => None
                     end in
          let desc := Some (n_param_desc (snd it)) in
          map (fun n => (n, ann, desc)) (split_comma_space [] ns)
      end
  end.
(* Returns / Yields / Receives: name and annotation by _RE_RETURNS; the description goes through textwrap.dedent
   (standard library) and is not modelled *)
Definition n_returns_item (it : text * list text) : option ditem :=
  match rx_match rx_numpy__RE_RETURNS (fst it) with
  | None => None
  | Some (_, c) =>
      let g := group (fst it) c in
      let first_nonempty a b := match nonempty a with Some x => Some x | None => b end in
      let name := match first_nonempty (g rx_numpy__RE_RETURNS__nt_name) (g rx_numpy__RE_RETURNS__name) with
                  | Some n => n | None => [] end in
      Some (name, first_nonempty (g rx_numpy__RE_RETURNS__nt_type) (g rx_numpy__RE_RETURNS__type), None)
  end.
Definition n_raise_item (it : text * list text) : option ditem := Some ([], Some (fst it), None).
Definition n_attr_item (it : text * list text) : option ditem :=
  match split1 58 (fst it) with
  | Some (name, ann) => Some (strip name, nonempty (Some (strip ann)), None)
  | None => Some (fst it, None, None)
  end.
Definition n_sig_item (it : text * list text) : option ditem :=
  match split1 40 (fst it) with
  | Some (name, _) => Some (strip name, Some (strip (fst it)), None)
  | None => Some (fst it, None, None)
  end.

(* _read_block: the lines of the block, joined *)
Definition n_block_text (cl : list text) (fs : list lf) (offset : nat) : result text :=
  if List.length fs <=? offset then Ok []
  else match skip_blank (skipn offset fs) offset with
       | None => Err IndexError
       | Some (o, l, r) => Ok (rstrip_nl (join nl (lines_between cl o (n_block_loop (l :: r) o))))
       end.

Definition n_section_items (cl : list text) (fs : list lf) (trim : bool) (k : skind) (hdr : nat) : result (list ditem) :=
  match k with
  | KExamples =>
      match n_block_text cl fs (S (S hdr)) with
      | Err e => Err e
      | Ok t => Ok (examples_of rx_numpy__RE_DOCTEST_FLAGS rx_numpy__RE_DOCTEST_BLANKLINE trim t)
      end
  | _ =>
  match n_block_items cl fs (S (S hdr)) with
  | Err e => Err e
  | Ok its =>
      Ok (match k with
          | KParams | KOther => flat_map n_param_items its
          | KReturns | KYields | KReceives => filter_map n_returns_item its
          | KRaises | KWarns => filter_map n_raise_item its
          | KAttrs => filter_map n_attr_item its
          | KFuncs | KClasses | KModules => filter_map n_sig_item its
          | KDeprecated => match its with it :: _ => [([], Some (fst it), None)] | [] => [] end
          | KExamples => []
          end)
  end
  end.

(* ---- Sphinx ---- *)
(* what the field readers look up on the parent: names of its parameters that carry an annotation, and names n for
   which parent[n].annotation exists and is not None *)
Record parent_ann := mkParentAnn { pa_params : list (list N); pa_attrs : list (list N); pa_return : bool }.
Definition mem_cps (n : list N) (l : list (list N)) : bool := existsb (eq_cp n) l.

(* annotation of a parsed element: text from the docstring, or whatever the parent says (None when it says nothing) *)
Inductive sann := SAStr (t : text) | SAParent | SANone.

Record sval := mkSval {
  sv_desc : list (nat * text);
  sv_params : list (text * sann * text);          (* name, annotation, description -- newest first *)
  sv_ptypes : list (text * text);
  sv_attrs : list (text * sann * text);
  sv_atypes : list (text * text);
  sv_excs : list (text * text);                   (* annotation, description -- newest first *)
  sv_ret : option (sann * text);
  sv_rtype : option text }.

Fixpoint assoc_text {A} (n : text) (l : list (text * A)) : option A :=
  match l with
  | [] => None
  | (k, v) :: r => if text_eqb k n then Some v else assoc_text n r
  end.
Definition has_name {A B} (n : text) (l : list (text * A * B)) : bool :=
  existsb (fun e => text_eqb (fst (fst e)) n) l.
(* param.annotation = type if it is None *)
Fixpoint set_ann_if_none {B} (n : text) (ty : text) (l : list (text * sann * B)) : list (text * sann * B) :=
  match l with
  | [] => []
  | (k, a, d) :: r =>
      if text_eqb k n then (k, match a with SANone => SAStr ty | x => x end, d) :: r
      else (k, a, d) :: set_ann_if_none n ty r
  end.

(* _parse_directive on the consolidated line: None = invalid; else (directive parts, value) *)
Definition s_directive (first : text) (conts : list text) : option (list text * text) :=
  let line := rstrip_nl (join spc (lstrip first :: map lstrip conts)) in
  match split1 58 line with
  | None => None
  | Some (_, r1) =>
      match split1 58 r1 with
      | None => None
      | Some (directive, value) => Some (split_list 32 directive, strip value)
      end
  end.

Definition s_field (pa : parent_ann) (f : sfld) (first : text) (conts : list text) (v : sval) : sval :=
  match s_directive first conts with
  | None => v
  | Some (parts, value) =>
      match f with
      | FParam =>
          let go (ty : option text) (name : text) :=
            if has_name name (sv_params v) then v
            else
              let a0 := match assoc_text name (sv_ptypes v) with Some t => SAStr t | None => SANone end in
              let a1 := match ty with Some t => SAStr t | None => a0 end in
              let a2 := match a1 with
                        | SANone => if mem_cps (cps (lstrip name)) (pa_params pa) then SAParent else SANone
                        | x => x
                        end in
              mkSval (sv_desc v) ((name, a2, value) :: sv_params v) (sv_ptypes v) (sv_attrs v) (sv_atypes v)
                     (sv_excs v) (sv_ret v) (sv_rtype v) in
          match parts with
          | [_; name] => go None name
          | [_; ty; name] => go (Some ty) name
          | _ => v
          end
      | FPType =>
          match parts with
          | [_; name] =>
              let ty := replace_or (strip value) in
              mkSval (sv_desc v) (set_ann_if_none name ty (sv_params v)) ((name, ty) :: sv_ptypes v) (sv_attrs v)
                     (sv_atypes v) (sv_excs v) (sv_ret v) (sv_rtype v)
          | _ => v
          end
      | FAttr =>
          match parts with
          | [_; name] =>
              if has_name name (sv_attrs v) then v
              else
                let a := match assoc_text name (sv_atypes v) with
                         | Some t => SAStr t
                         | None => if mem_cps (cps name) (pa_attrs pa) then SAParent else SANone
                         end in
                mkSval (sv_desc v) (sv_params v) (sv_ptypes v) ((name, a, value) :: sv_attrs v) (sv_atypes v)
                       (sv_excs v) (sv_ret v) (sv_rtype v)
          | _ => v
          end
      | FAType =>
          match parts with
          | [_; name] =>
              let ty := replace_or (strip value) in
              mkSval (sv_desc v) (sv_params v) (sv_ptypes v) (set_ann_if_none name ty (sv_attrs v))
                     ((name, ty) :: sv_atypes v) (sv_excs v) (sv_ret v) (sv_rtype v)
          | _ => v
          end
      | FExc =>
          match parts with
          | [_; ex] => mkSval (sv_desc v) (sv_params v) (sv_ptypes v) (sv_attrs v) (sv_atypes v)
                              ((ex, value) :: sv_excs v) (sv_ret v) (sv_rtype v)
          | _ => v
          end
      | FRet =>
          let a := match sv_rtype v with
                   | Some t => SAStr t
                   | None => if pa_return pa then SAParent else SANone
                   end in
          mkSval (sv_desc v) (sv_params v) (sv_ptypes v) (sv_attrs v) (sv_atypes v) (sv_excs v)
                 (Some (a, value)) (sv_rtype v)
      | FRType =>
          let ty := replace_or (strip value) in
          mkSval (sv_desc v) (sv_params v) (sv_ptypes v) (sv_attrs v) (sv_atypes v) (sv_excs v)
                 (match sv_ret v with Some (_, d) => Some (SAStr ty, d) | None => None end) (Some ty)
      end
  end.

(* the main loop over the lines: structural on the lines left; [skip] = continuation lines of the field just read,
   which the reader has consumed (it returns the index of the last of them and the loop adds one) *)
Fixpoint s_loop (pa : parent_ann) (skip : nat) (rest : list text) (o : nat) (v : sval) {struct rest} : sval :=
  match rest with
  | [] => v
  | l :: r =>
      match skip with
      | S k => s_loop pa k r (S o) v
      | 0 =>
          match l_sfield l with
          | None => s_loop pa 0 r (S o) (mkSval ((o, l) :: sv_desc v) (sv_params v) (sv_ptypes v) (sv_attrs v)
                                                (sv_atypes v) (sv_excs v) (sv_ret v) (sv_rtype v))
          | Some f =>
              let conts := takew (fun x => negb (l_colon0 x)) r in
              s_loop pa (List.length conts) r (S o) (s_field pa f l conts v)
          end
      end
  end.

Definition s_parse_full (pa : parent_ann) (cl : list text) : sval :=
  s_loop pa 0 cl 0 (mkSval [] [] [] [] [] [] None None).

(* ---------------------------------------------------------------- whole parses at character level *)
Definition features (cl : list text) : list lf := map lf_of_line cl.

(* sections of the control-flow model together with the items of every item section *)
Fixpoint map_result {A B} (f : A -> result B) (l : list A) : result (list B) :=
  match l with
  | [] => Ok []
  | x :: r => match f x with
              | Err e => Err e
              | Ok y => match map_result f r with Err e => Err e | Ok ys => Ok (y :: ys) end
              end
  end.

Definition g_details (cl : list text) (fs : list lf) (o : gopts) (secs : list section) : result (list (list ditem)) :=
  let ordinary := map_result (fun s => match s with
                                       | SSec k hdr _ => g_section_items cl fs o k hdr
                                       | _ => Ok []
                                       end) in
  match secs with
  | SText ls _ true :: _ =>
      (* the last section is the Returns section made from the property summary *)
      match ordinary (removelast secs) with
      | Err e => Err e
      | Ok d => Ok (d ++ [[([], g_summary_annotation cl ls, Some [])]])
      end
  | _ => ordinary secs
  end.

Definition g_parse_full (cl : list text) (o : gopts) (p : parent) : result (list section * list (list ditem)) :=
  let fs := features cl in
  match g_parse fs o p with
  | Err e => Err e
  | Ok secs => match g_details cl fs o secs with Err e => Err e | Ok d => Ok (secs, d) end
  end.

Definition n_details (cl : list text) (fs : list lf) (trim : bool) (secs : list section) : result (list (list ditem)) :=
  map_result (fun s => match s with
                       | SSec k hdr _ => n_section_items cl fs trim k hdr
                       | _ => Ok []
                       end) secs.

Definition n_parse_full (cl : list text) (o : gopts) (p : parent) : result (list section * list (list ditem)) :=
  let fs := features cl in
  match n_parse fs o p with
  | Err e => Err e
  | Ok secs => match n_details cl fs (o_trim o) secs with Err e => Err e | Ok d => Ok (secs, d) end
  end.
