(* C15 base vocabulary shared by the generated ladder (Gen/C15_ladder.v) and the loader model (Model/C15_loader.v):
   the agent a module is handed to, the exception alphabet with its (Python) class ancestry, handler matching. *)
From Coq Require Import List String Bool.
Import ListNotations.
Open Scope string_scope.
Open Scope list_scope.

(* what _load_module_path does with one module path *)
Inductive exn :=
| XSystemExit | XKeyboardInterrupt                       (* BaseException only *)
| XRuntimeError | XAttributeError                        (* generic Exception subclasses *)
| XImportError | XModuleNotFound
| XSyntaxError | XUnicodeDecode | XOSError | XFileNotFound
| XLoadingError                                          (* _griffe.exceptions.LoadingError *)
| XPanic.                                                (* a BaseException subclass of the analysed code (pyo3's PanicException) *)

Inductive agent := ACreate | AVisit | AInspect | ARaise (x : exn).

Definition exn_name (x : exn) : string :=
  match x with
  | XSystemExit => "SystemExit" | XKeyboardInterrupt => "KeyboardInterrupt"
  | XRuntimeError => "RuntimeError" | XAttributeError => "AttributeError"
  | XImportError => "ImportError" | XModuleNotFound => "ModuleNotFoundError"
  | XSyntaxError => "SyntaxError" | XUnicodeDecode => "UnicodeDecodeError"
  | XOSError => "OSError" | XFileNotFound => "FileNotFoundError"
  | XLoadingError => "LoadingError"
  | XPanic => "PanicException"
  end.

Definition all_exn : list exn :=
  [XSystemExit; XKeyboardInterrupt; XRuntimeError; XAttributeError; XImportError; XModuleNotFound;
   XSyntaxError; XUnicodeDecode; XOSError; XFileNotFound; XLoadingError; XPanic].

(* the class and its bases (names, by MRO, without `object`); tied to CPython/Griffe by the oracle check *)
Definition ancestors (x : exn) : list string :=
  match x with
  | XSystemExit => ["SystemExit"; "BaseException"]
  | XKeyboardInterrupt => ["KeyboardInterrupt"; "BaseException"]
  | XRuntimeError => ["RuntimeError"; "Exception"; "BaseException"]
  | XAttributeError => ["AttributeError"; "Exception"; "BaseException"]
  | XImportError => ["ImportError"; "Exception"; "BaseException"]
  | XModuleNotFound => ["ModuleNotFoundError"; "ImportError"; "Exception"; "BaseException"]
  | XSyntaxError => ["SyntaxError"; "Exception"; "BaseException"]
  | XUnicodeDecode => ["UnicodeDecodeError"; "UnicodeError"; "ValueError"; "Exception"; "BaseException"]
  | XOSError => ["OSError"; "Exception"; "BaseException"]
  | XFileNotFound => ["FileNotFoundError"; "OSError"; "Exception"; "BaseException"]
  | XLoadingError => ["LoadingError"; "GriffeError"; "Exception"; "BaseException"]
  | XPanic => ["PanicException"; "BaseException"]
  end.

Definition str_in (s : string) (l : list string) : bool := existsb (String.eqb s) l.

(* `except (H1, H2, ...)` catches x *)
Definition caught_by (handlers : list string) (x : exn) : bool :=
  existsb (fun h => str_in h (ancestors x)) handlers.

(* a try statement whose handlers each re-raise another exception: first matching clause wins *)
Fixpoint rewrap (clauses : list (list string * exn)) (x : exn) : exn :=
  match clauses with
  | [] => x
  | (hs, y) :: r => if caught_by hs x then y else rewrap r x
  end.

Definition exn_eqb (a b : exn) : bool := String.eqb (exn_name a) (exn_name b).

(* the families a caller of griffe.load is documented to handle *)
Definition import_family (x : exn) : bool :=
  match x with XImportError | XModuleNotFound | XLoadingError => true | _ => false end.

(* the public ways into the loader: griffe.load, griffe.load_git, `griffe dump`, and the three loads of `griffe check`
   (the old reference through load_git, the new one through load_git when a base reference is given, through load otherwise) *)
Inductive entry := ELoad | ELoadGit | EDump | ECheckOld | ECheckNewRef | ECheckNewTree.
Definition all_entries : list entry := [ELoad; ELoadGit; EDump; ECheckOld; ECheckNewRef; ECheckNewTree].
Definition entry_name (e : entry) : string :=
  match e with
  | ELoad => "load" | ELoadGit => "load_git" | EDump => "dump"
  | ECheckOld => "check_old" | ECheckNewRef => "check_new_ref" | ECheckNewTree => "check_new_tree"
  end.

(* the statements of GriffeLoader._inspect_module, in source order *)
Inductive istep := ISkipIgnored | IReadSource | IInspect.
