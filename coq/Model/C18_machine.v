(* C18 model, part 4: the dataclasses extension as the STATEFUL machine it is.  One extension object serves many
   on_package_loaded events; _dataclass_parameters is memoised by functools.cache for the life of the process (keyed by
   the class OBJECT), _del_members_annotated_as_initvar mutates a class after its __init__ was synthesised, the walk
   (_apply_recursively) visits classes in member order (a subclass may come before or after its bases, which may belong
   to a package loaded by an earlier event) and skips canonical paths already seen during the SAME event.
   The machine takes the shape of the merging code (Model/C18_modes.v) and two flags that the code has at (false, false);
   the other settings are the plausible-but-wrong variants (memo dropped at each event / set of seen paths kept on the
   extension), used only to show that the theorem is sensitive to them.  Executable definitions only. *)
From Coq Require Import List Arith Bool ZArith String.
From Verif Require Import Lib.Sexp Model.C18_dataclass Model.C18_modes.
Import ListNotations.
Open Scope list_scope. Open Scope nat_scope.

Record sstate := mkst {
  s_cache : list (nat * list gfld);      (* functools.cache of _dataclass_parameters: class object -> its entries *)
  s_pruned : list nat;                   (* class objects whose InitVar-annotated members were deleted *)
  s_init : list (nat * init_member);     (* members["__init__"] set by the extension *)
  s_label : list nat;                    (* "dataclass" label added by _set_dataclass_label *)
  s_processed : list nat                 (* canonical paths seen (a local of on_package_loaded in the code) *)
}.
Definition st0 : sstate := mkst [] [] [] [] [].

Fixpoint lookup {A} (k : nat) (l : list (nat * A)) : option A :=
  match l with
  | [] => None
  | (k', v) :: r => if Nat.eqb k k' then Some v else lookup k r
  end.
Definition memb (k : nat) (l : list nat) : bool := existsb (Nat.eqb k) l.

Definition is_initvar_stmt (s : stmt) : bool := match s with SAttr _ AInitVar _ => true | _ => false end.
(* class_.members (attributes) as the extension finds them NOW *)
Definition live_body (st : sstate) (j : nat) (b : cls) : list stmt :=
  if memb j (s_pruned st) then filter (fun s => negb (is_initvar_stmt s)) (g_body b) else g_body b.
(* the body of _dataclass_parameters run now *)
Definition scan_now (st : sstate) (j : nat) (b : cls) : list gfld :=
  match c_dec b with
  | None => []
  | Some d => g_scan_all (opt_is (d_kw d) true) (live_body st j b)
  end.

(* _dataclass_parameters(class_) through functools.cache *)
Definition cached (st : sstate) (j : nat) (b : cls) : list gfld * sstate :=
  match lookup j (s_cache st) with
  | Some l => (l, st)
  | None => let l := scan_now st j b in
            (l, mkst ((j, l) :: s_cache st) (s_pruned st) (s_init st) (s_label st) (s_processed st))
  end.

(* the calls of _dataclass_parameters made while the fields of a class are gathered: the decorated classes of the
   reversed MRO, then the class itself *)
Fixpoint warm (t : table) (st : sstate) (l : list nat) : sstate :=
  match l with
  | [] => st
  | j :: r =>
      match nth_error t j with
      | Some b => if decorated b then warm t (snd (cached st j b)) r else warm t st r
      | None => warm t st r
      end
  end.
(* what _dataclass_parameters(k) answers in state st *)
Definition own_of (t : table) (st : sstate) (k : nat) : list gfld :=
  match nth_error t k with
  | Some b => fst (cached st k b)
  | None => []
  end.

(* "__init__" in mod_cls.members *)
Definition has_init (st : sstate) (j : nat) (c : cls) : bool :=
  match c_hw c with
  | Some _ => true
  | None => match lookup j (s_init st) with Some _ => true | None => false end
  end.

(* the Class branch of _apply_recursively for class object j (its MRO, c_mro, is the one computable at this moment) *)
Definition process (m : mode) (t : table) (st : sstate) (j : nat) : sstate :=
  match nth_error t j with
  | None => st
  | Some c =>
      let sa := if existsb decorated (mro_classes t c)
                then mkst (s_cache st) (s_pruned st) (s_init st) (j :: s_label st) (s_processed st) else st in
      if has_init sa j c then sa
      else
        let s1 := warm t sa (rev (c_mro c) ++ [j]) in
        let s2 := if decorated c && negb (init_false c)
                  then mkst (s_cache s1) (s_pruned s1) ((j, Synth (gm_params m t (own_of t s1) j c)) :: s_init s1) (s_label s1) (s_processed s1)
                  else s1 in
        mkst (s_cache s2) (j :: s_pruned s2) (s_init s2) (s_label s2) (s_processed s2)
  end.

(* one on_package_loaded event: the classes of the package tree in walk order; paths = canonical path of each object *)
Fixpoint walk (m : mode) (t : table) (paths : list nat) (st : sstate) (ev : list nat) : sstate :=
  match ev with
  | [] => st
  | j :: r =>
      let p := nth j paths 0 in
      if memb p (s_processed st) then walk m t paths st r
      else let s1 := process m t st j in
           walk m t paths (mkst (s_cache s1) (s_pruned s1) (s_init s1) (s_label s1) (p :: s_processed s1)) r
  end.

(* flags: drop_cache = cache cleared at each event; keep_processed = the processed set lives on the extension.
   extensions/dataclasses.py is (false, false). *)
Definition event (m : mode) (drop_cache keep_processed : bool) (t : table) (paths : list nat) (st : sstate) (ev : list nat) : sstate :=
  walk m t paths (mkst (if drop_cache then [] else s_cache st) (s_pruned st) (s_init st) (s_label st)
                       (if keep_processed then s_processed st else [])) ev.
Definition session_gen (m : mode) (dc kp : bool) (t : table) (paths : list nat) (evs : list (list nat)) : sstate :=
  fold_left (event m dc kp t paths) evs st0.
Definition session (m : mode) := session_gen m false false.

(* what one sees afterwards: members.get("__init__") and "dataclass" in labels *)
Definition s_member (st : sstate) (j : nat) (c : cls) : init_member :=
  match c_hw c with
  | Some _ => Handwritten
  | None => match lookup j (s_init st) with Some m => m | None => Absent end
  end.
Definition s_labelled (st : sstate) (j : nat) (c : cls) : bool := decorated c || memb j (s_label st).

(* ---- loads in any order: the MRO of a class is whatever can be computed WHEN it is asked for ----
   Each event comes with the table as it stands at that moment: the same classes (decorator, body, hand-written __init__),
   MRO lists over the packages loaded so far - for every class, not only for the classes walked by the event
   (_dataclass_fields asks the parents for their MRO at the time of the child's event). *)
Definition session_tv (m : mode) (paths : list nat) (evs : list (table * list nat)) : sstate :=
  fold_left (fun st (te : table * list nat) => event m false false (fst te) paths st (snd te)) evs st0.

(* Class.parameters read AFTER all the loads: the members are those the events left, the lookup follows the MRO of now *)
Definition s_member_at (st : sstate) (tfin : table) (k : nat) : init_member :=
  match nth_error tfin k with Some b => s_member st k b | None => Absent end.
