(* C01: the entry point extracted for the differential runs.  Dispatches the tags of the later model parts
   (content tables, raw modules lowered by the regenerated dispatch tables, ...) and hands everything else to
   [run_C01] of Model/C01_visitor.v. *)
From Coq Require Import List ZArith String Ascii Bool Arith.
From Verif Require Import Lib.Sexp Model.C01_base Gen.C01_tables Gen.C01_dispatch Model.C01_visitor Model.C01_content Model.C01_raw Model.C01_layout Model.C01_dedent Model.C01_resolve Model.C01_ext Model.C01_lines.
Import ListNotations.
Open Scope string_scope.
Open Scope list_scope.
Open Scope nat_scope.

(* one module given as statements: machine result, level semantics, declarative bindings, declarative tables *)
Definition run_views (mname : string) (b0 : list stmt) : sexp :=
  (* decorator spellings still given as references are first resolved in scope (Model/C01_resolve.v) *)
  let b := resolve_module mname b0 in
  let bs := level_bindings_list InModule mname false PScope b in
  let names := first_names [] bs in
  SList [enc_result (run_visit mname b);
         enc_result (spec_module mname b);
         SList [SList (map enc_binding bs); enc_strs names;
                SList (map (fun n => of_opt enc_binding (survivor n None bs)) names);
                of_bool (has_accessor_list b)];
         run_content mname b].

Definition run_C01_all (s : sexp) : sexp :=
  match s with
  | SList [SStr "content"; SStr mname; body] =>
      (* the declarative member tables (theorems C01_member_table*, C01_init_function_members): module level,
         then every class / descending __init__ in source order *)
      match dec_body body with Some b => run_content mname b | None => bad_input end
  | SList [SStr "raw"; SStr mname; rbody] =>
      (* a module as raw AST nodes: lowered by the regenerated dispatch tables, then all four views at once;
         ("unlowered") when the tables and the payloads do not fit together *)
      match dec_rbody rbody with
      | Some rb => match lower_module rb with
                   | Some b => run_views mname b
                   | None => SList [SStr "unlowered"] end
      | None => bad_input end
  | SList [SStr "layout"; SStr mname; items] =>
      (* a module as a layout tree (text lines attached to the statements): the rendered text, the well-formedness
         verdict, the four views of the statements [number] derives, and every occurrence of a reported span with
         the verdict of slicing the rendered text by it (theorem C01_slice_reported_span says: always 1) *)
      match as_list_of (dec_lay 64) items with
      | Some ls =>
          let text := render_list ls in
          SList [SList (map SStr text); of_bool (forallb well_formed ls); run_views mname (number_list 1 ls);
                 SList (map (enc_occ text) (occ_list 1 ls))]
      | None => bad_input end
  | SList [SStr "dedent"; ls] =>
      (* Object.source of an object whose lines are ls *)
      match as_list_of as_str ls with Some l => SList (map SStr (dedent_ws l)) | None => bad_input end
  | SList [SStr "ext-history"; c0; ops] =>
      (* one extension container: initial extensions, then registrations and visits (raw modules); per visit, what each
         extension that ever appears receives (theorem C01_history_announces_to_registered) *)
      let dec_op := fun o => match o with
        | SList [SStr "add"; e] => do e' <- as_nat e; Some (HAdd e')
        | SList [SStr "visit"; SStr m; rb] =>
            do rb' <- dec_rbody rb; do b <- lower_module rb'; Some (HVisit m (resolve_module m b))
        | _ => None end in
      match as_list_of as_nat c0, as_list_of dec_op ops with
      | Some c, Some h =>
          let ids := c ++ adds h in
          SList (map (fun log => SList (map (fun e => SList [of_nat e; SList (map enc_event (received e log))]) ids))
                     (run_history c h))
      | _, _ => bad_input end
  | SList [SStr "lines-history"; h] =>
      (* loads on a lines collection with a history: the text held for the loaded path after each load *)
      match as_list_of dec_lstep h with
      | Some steps => SList (map (fun o => match o with Some t => SList (map SStr t) | None => SStr "missing" end) (run_lines [] steps))
      | None => bad_input end
  | SList [SStr "doc-labels"] =>
      (* the documented decorator table of theorem C01_decorator_labels_documented *)
      SList (map (fun p => SList [SStr p; enc_strs (doc_labels p)]) doc_paths)
  | SList [SStr "views"; SStr mname; body] =>
      match dec_body body with Some b => run_views mname b | None => bad_input end
  | _ => run_C01 s
  end.
