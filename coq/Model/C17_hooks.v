(* C17 model, read-only extension hooks.
   Inspector.inspect_module / inspect_class call the extensions' on_*_node hooks and then Inspector.generic_inspect, which
   iterates node.children.  An extension may, from those hooks, walk the object tree with the documented helpers
   (Extension.inspect / generic_inspect), i.e. read node.children of the node and of any node below it, any number of
   times, before the Inspector reads it.  node.children is a functools.cached_property: what it stores is Gen/C17_tables.v's
   children_impl (regenerated from runtime.py).
   Executable definitions only. *)
From Coq Require Import List ZArith String Ascii Bool Arith.
From Verif Require Import Lib.Sexp Model.C17_base Gen.C17_tables.
Import ListNotations.
Open Scope string_scope.
Open Scope list_scope.
Open Scope nat_scope.

(* ---- one node: the cache of its children (None: the property has not been read yet) *)
Definition read {A} (impl : citer) (members : list A) (c : option (list A)) : list A * option (list A) :=
  match c with
  | None => (members, Some (match impl with CList => members | CGenerator => [] end))   (* computed now; a generator is consumed by its reader *)
  | Some l => (l, Some (match impl with CList => l | CGenerator => [] end))
  end.

(* the cache after k reads *)
Fixpoint reads {A} (impl : citer) (members : list A) (k : nat) : option (list A) :=
  match k with
  | 0 => None
  | S k' => snd (read impl members (reads impl members k'))
  end.

(* what the reader number k+1 gets *)
Definition seen_after {A} (impl : citer) (members : list A) (k : nat) : list A := fst (read impl members (reads impl members k)).

Definition visible (impl : citer) (k : nat) : bool := match impl with CList => true | CGenerator => k =? 0 end.

(* ---- the object tree and the Inspector's traversal of it.  hook p = how many times the extensions have read the
   children of the node at path p (from the hooks of that node or of a node above it) when the Inspector gets there *)
Inductive otree := ONode (name : string) (kids : list otree).

Fixpoint inspect_tree (impl : citer) (hook : list string -> nat) (path : list string) (t : otree) : otree :=
  match t with
  | ONode n kids =>
      let p := path ++ [n] in
      ONode n (if visible impl (hook p) then map (inspect_tree impl hook p) kids else [])
  end.

Definition no_hooks (p : list string) : nat := 0.

(* ---- s-expression interface: ["children", k, members] -> what reader k+1 gets with the generated children_impl *)
Definition run_hooks (s : sexp) : option sexp :=
  match s with
  | SList [SStr "children"; k; ms] =>
      match as_nat k, as_list_of as_str ms with
      | Some k', Some ms' => Some (SList (map SStr (seen_after children_impl ms' k')))
      | _, _ => Some bad_input
      end
  | _ => None
  end.
