(* C10 model, part 4: signatures produced by edit histories of the `Parameters` container (models.py), the object the
   diff reads: `params[i] = p`, `params["name"] = p`, `del params[i]`, `del params["name"]`, `params.add(p)`.
   The container is a list; look-up by name is look-up in that list (nothing else is remembered across edits).
   Executable definitions only. *)
From Coq Require Import List Arith Bool ZArith String.
From Verif Require Import Lib.Sexp Model.C10_kinds Gen.C10_tables Gen.C10_rules Model.C10_diff Model.C10_defaults Model.C10_ext.
Import ListNotations.
Open Scope list_scope. Open Scope nat_scope.

Section Hist.
Variable A : Type.
Variable nm : A -> nat.

Inductive hop := HSetIdx (i : nat) (p : A) | HSetName (n : nat) (p : A) | HDelIdx (i : nat) | HDelName (n : nat) | HAdd (p : A).

Fixpoint set_nth (i : nat) (p : A) (s : list A) : list A :=
  match s, i with [], _ => [] | _ :: r, 0 => p :: r | q :: r, S j => q :: set_nth j p r end.
Fixpoint del_nth (i : nat) (s : list A) : list A :=
  match s, i with [], _ => [] | _ :: r, 0 => r | q :: r, S j => q :: del_nth j r end.
Fixpoint pos_of (n : nat) (s : list A) : option nat :=
  match s with [] => None | q :: r => if Nat.eqb (nm q) n then Some 0 else match pos_of n r with Some k => Some (S k) | None => None end end.

(* result list and whether the operation raised (IndexError / KeyError / ValueError leave the list as it was) *)
Definition h_apply (s : list A) (o : hop) : list A * bool :=
  match o with
  | HSetIdx i p => if Nat.ltb i (List.length s) then (set_nth i p s, false) else (s, true)
  | HSetName n p => match pos_of n s with Some i => (set_nth i p s, false) | None => (s ++ [p], false) end
  | HDelIdx i => if Nat.ltb i (List.length s) then (del_nth i s, false) else (s, true)
  | HDelName n => match pos_of n s with Some i => (del_nth i s, false) | None => (s, true) end
  | HAdd p => match pos_of (nm p) s with Some _ => (s, true) | None => (s ++ [p], false) end
  end.
Fixpoint h_run (s : list A) (os : list hop) : list A * list bool :=
  match os with
  | [] => (s, [])
  | o :: r => let (s', e) := h_apply s o in let (s'', es) := h_run s' r in (s'', e :: es)
  end.
End Hist.
Arguments HSetIdx {A}. Arguments HSetName {A}. Arguments HDelIdx {A}. Arguments HDelName {A}. Arguments HAdd {A}.
Arguments h_apply {A}. Arguments h_run {A}. Arguments set_nth {A}. Arguments del_nth {A}. Arguments pos_of {A}.

(* ---- s-expression interface ---- *)
Definition dec_hop (s : sexp) : option (hop xparam) :=
  match s with
  | SList [SStr "seti"; i; p] => do i' <- as_nat i; do p' <- dec_xparam p; Some (HSetIdx i' p')
  | SList [SStr "setn"; n; p] => do n' <- as_nat n; do p' <- dec_xparam p; Some (HSetName n' p')
  | SList [SStr "deli"; i] => do i' <- as_nat i; Some (HDelIdx i')
  | SList [SStr "deln"; n] => do n' <- as_nat n; Some (HDelName n')
  | SList [SStr "add"; p] => do p' <- dec_xparam p; Some (HAdd p')
  | _ => None end%string.

Definition enc_kind (k : kind) : sexp := SStr (match k with PO => "PO" | PK => "PK" | VP => "VP" | KO => "KO" | VK => "VK" end)%string.
(* the final signature is reported by name, kind and whether a default is present (the defaults themselves are compared
   through the diff) *)
Definition enc_shape (s : xsig) : sexp :=
  SList (map (fun p => SList [of_nat (xname p); enc_kind (xkind p); of_bool (match xdef p with Some _ => true | None => false end)]) s).

Definition run_with (fd : sig -> sig -> list brk) (s : sexp) : sexp :=
  match s with
  | SList [SStr "hdiff"; o; oops; n; nops] =>
      match dec_xsig o, as_list_of dec_hop oops, dec_xsig n, as_list_of dec_hop nops with
      | Some xo, Some ho, Some xn, Some hn =>
          let (fo, eo) := h_run xname xo ho in let (fn, en) := h_run xname xn hn in
          let o' := abs_sig (impl_ident fo fn) fo in let n' := abs_sig (impl_ident fo fn) fn in
          SList [enc_shape fo; SList (map of_bool eo); enc_shape fn; SList (map of_bool en);
                 SList (map enc_brk (fd o' n')); of_bool (known_gap_m o' n'); of_bool (wf o' && wf n')]
      | _, _, _, _ => bad_input end
  | _ => Model.C10_ext.run_with fd s
  end%string.
Definition run_C10 := run_with fdiff_m.
