(* C13 model, part 4: src/_griffe/docstrings/sphinx.py at character level: field matching, _parse_directive,
   _consolidate_continuation_lines, the seven field readers with their dictionaries, _parsed_values_to_sections;
   plus the written structure, its rendering and the expected result.  Executable definitions only. *)
From Coq Require Import List Ascii String Bool Arith.
From Verif Require Import Model.C13_strings Model.C13_google.
Import ListNotations.
Open Scope char_scope.
Open Scope list_scope.
Open Scope nat_scope.

(* _field_types, in order (the names are pinned against sphinx.py by the harness translator) *)
Inductive fkind := FType | FParam | FVartype | FVar | FExc | FReturn | FRtype.

Definition field_names : list (fkind * list string) :=
  [(FType, ["type"%string]);
   (FParam, ["param"; "parameter"; "arg"; "argument"; "key"; "keyword"]%string);
   (FVartype, ["vartype"%string]);
   (FVar, ["var"; "ivar"; "cvar"]%string);
   (FExc, ["raises"; "raise"; "except"; "exception"]%string);
   (FReturn, ["returns"; "return"]%string);
   (FRtype, ["rtype"%string])].

(* _FieldType.matches: any(line.startswith(f":{name}") for name in self.names) ; first matching field type wins *)
Fixpoint match_field (l : list (fkind * list string)) (line : str) : option fkind :=
  match l with
  | [] => None
  | (k, names) :: r =>
      if existsb (fun n => startswith (colon :: s_of n) line) names then Some k else match_field r line
  end.

Definition starts_colon (line : str) : bool := startswith [colon] line.

(* the main loop, seen as a sequence of events: a description line, or a field line with its continuation lines
   (_consolidate_continuation_lines takes every following line that does not start with ':') *)
Inductive event := EDesc (line : str) | EField (k : fkind) (line : str) (conts : list str).

Fixpoint events_aux (lines : list str) : list event * list str :=
  match lines with
  | [] => ([], [])
  | l :: r =>
      let '(evs, acc) := events_aux r in
      match match_field field_names l with
      | Some k => (EField k l acc :: evs, [])
      | None => if starts_colon l then (EDesc l :: map EDesc acc ++ evs, []) else (evs, l :: acc)
      end
  end.

Definition events (lines : list str) : list event :=
  let '(evs, acc) := events_aux lines in map EDesc acc ++ evs.

(* s.split(c) : all pieces *)
Fixpoint split_all (c : ascii) (s : str) : list str :=
  match s with
  | [] => [[]]
  | d :: r => if ceq d c then [] :: split_all c r
              else match split_all c r with
                   | p :: ps => (d :: p) :: ps
                   | [] => [[d]]
                   end
  end.

(* " ".join(block).rstrip("\n") with every line lstripped *)
Definition consolidate (line : str) (conts : list str) : str :=
  rstrip_nl (join_with [sp] (map lstrip (line :: conts))).

(* _parse_directive: (directive_parts, value) or None when the line has fewer than two colons *)
Definition parse_directive (line : str) (conts : list str) : option (list str * str) :=
  match split_first colon (consolidate line conts) with
  | None => None
  | Some (_, r1) =>
      match split_first colon r1 with
      | None => None
      | Some (directive, value) => Some (split_all sp directive, strip value)
      end
  end.

(* descriptive_type.replace(" or ", " | ") *)
Definition s_or : str := s_of " or ".
Definition s_bar : str := s_of " | ".
Fixpoint replace_or_fuel (fuel : nat) (s : str) : str :=
  match fuel with
  | 0 => s
  | S f =>
      match s with
      | [] => []
      | c :: r => if startswith s_or s then s_bar ++ replace_or_fuel f (skipn 4 s) else c :: replace_or_fuel f r
      end
  end.
Definition replace_or (s : str) : str := replace_or_fuel (S (List.length s)) s.

Record sstate := mkS {
  s_desc : list str;
  s_params : list (str * pitem);
  s_ptypes : list (str * str);
  s_attrs : list (str * pitem);
  s_atypes : list (str * str);
  s_excs : list pitem;
  s_ret : option pitem;
  s_rtype : option str }.

Definition s0 : sstate := mkS [] [] [] [] [] [] None None.

Fixpoint set_ann_if_none (n : str) (t : str) (l : list (str * pitem)) : list (str * pitem) :=
  match l with
  | [] => []
  | (k, p) :: r =>
      if str_eqb k n
      then (k, match p_ann p with None => mkItem (p_name p) (Some t) (p_desc p) (p_value p) | Some _ => p end) :: r
      else (k, p) :: set_ann_if_none n t r
  end.

Fixpoint dict_set (n : str) (t : str) (l : list (str * str)) : list (str * str) :=
  match l with
  | [] => [(n, t)]
  | (k, v) :: r => if str_eqb k n then (k, t) :: r else (k, v) :: dict_set n t r
  end.

Definition has_key {A} (n : str) (l : list (str * A)) : bool := match assoc n l with Some _ => true | None => false end.

(* docstring.parent.annotation for _read_return: None = AttributeError *)
Definition parent_return (c : pctx) (has_annotation_attr : bool) : option (option str) :=
  if has_annotation_attr
  then Some (match c_ret c with
             | RNone => None
             | RPlain p => Some (rpart_text p)
             | RIter w _ => Some w
             | RGen w _ _ _ => Some w
             end)
  else None.

Definition step (c : pctx) (ret_attr : bool) (st : sstate) (e : event) : sstate :=
  match e with
  | EDesc l => mkS (s_desc st ++ [l]) (s_params st) (s_ptypes st) (s_attrs st) (s_atypes st) (s_excs st) (s_ret st) (s_rtype st)
  | EField k line conts =>
      match parse_directive line conts with
      | None => st
      | Some (parts, value) =>
          match k with
          | FParam =>
              let go := fun (ty : option str) (name : str) =>
                if has_key name (s_params st) then st
                else
                  let ann0 := match ty with Some t => Some t | None => assoc name (s_ptypes st) end in
                  let ann := match ann0 with
                             | Some a => Some a
                             | None => match lookup_param c (lstrip name) with Some (a, _) => a | None => None end
                             end in
                  let dflt := match lookup_param c (lstrip name) with Some (_, v) => v | None => None end in
                  mkS (s_desc st) (s_params st ++ [(name, mkItem (Some name) ann value dflt)]) (s_ptypes st)
                      (s_attrs st) (s_atypes st) (s_excs st) (s_ret st) (s_rtype st) in
              match parts with
              | [_; name] => go None name
              | [_; ty; name] => go (Some ty) name
              | _ => st
              end
          | FType =>
              match parts with
              | [_; name] =>
                  let t := replace_or value in
                  mkS (s_desc st) (set_ann_if_none name t (s_params st)) (dict_set name t (s_ptypes st))
                      (s_attrs st) (s_atypes st) (s_excs st) (s_ret st) (s_rtype st)
              | _ => st
              end
          | FVar =>
              match parts with
              | [_; name] =>
                  if has_key name (s_attrs st) then st
                  else
                    let ann := match assoc name (s_atypes st) with
                               | Some t => Some t
                               | None => match lookup_attr c name with Some a => a | None => None end
                               end in
                    mkS (s_desc st) (s_params st) (s_ptypes st) (s_attrs st ++ [(name, mkItem (Some name) ann value None)])
                        (s_atypes st) (s_excs st) (s_ret st) (s_rtype st)
              | _ => st
              end
          | FVartype =>
              match parts with
              | [_; name] =>
                  let t := replace_or value in
                  mkS (s_desc st) (s_params st) (s_ptypes st) (set_ann_if_none name t (s_attrs st)) (dict_set name t (s_atypes st))
                      (s_excs st) (s_ret st) (s_rtype st)
              | _ => st
              end
          | FExc =>
              match parts with
              | [_; ex] => mkS (s_desc st) (s_params st) (s_ptypes st) (s_attrs st) (s_atypes st)
                               (s_excs st ++ [mkItem None (Some ex) value None]) (s_ret st) (s_rtype st)
              | _ => st
              end
          | FReturn =>
              let ann := match s_rtype st with
                         | Some t => Some t
                         | None => match parent_return c ret_attr with Some a => a | None => None end
                         end in
              mkS (s_desc st) (s_params st) (s_ptypes st) (s_attrs st) (s_atypes st) (s_excs st)
                  (Some (mkItem (Some []) ann value None)) (s_rtype st)
          | FRtype =>
              let t := replace_or value in
              mkS (s_desc st) (s_params st) (s_ptypes st) (s_attrs st) (s_atypes st) (s_excs st)
                  (match s_ret st with Some p => Some (mkItem (p_name p) (Some t) (p_desc p) (p_value p)) | None => None end)
                  (Some t)
          end
      end
  end.

(* _strip_blank_lines *)
Fixpoint drop_blank (ls : list str) : list str :=
  match ls with
  | l :: r => if is_empty_line l then drop_blank r else ls
  | [] => []
  end.
Definition strip_blank_lines (ls : list str) : list str := rev (drop_blank (rev (drop_blank ls))).

Definition sections_of (st : sstate) : list gsec :=
  GText (join_nl (strip_blank_lines (s_desc st)))
  :: (match s_params st with [] => [] | ps => [GItems KParams None (map snd ps)] end)
  ++ (match s_attrs st with [] => [] | ps => [GItems KAttrs None (map snd ps)] end)
  ++ (match s_ret st with None => [] | Some p => [GItems KReturns None [p]] end)
  ++ (match s_excs st with [] => [] | ps => [GItems KRaises None ps] end).

(* parse_sphinx(docstring) on docstring.lines; ret_attr = "the parent has an .annotation attribute" *)
Definition parse_sphinx (c : pctx) (ret_attr : bool) (lines : list str) : list gsec :=
  sections_of (fold_left (step c ret_attr) (events lines) s0).

(* ---- what is written in Sphinx style (field lists), its rendering and the expected result.
   Core covered by the theorem: :param: (optional inline type), :var:, :raises:, :returns: fields under every
   field-name alias, multi-line descriptions; no separate :type:/:vartype:/:rtype: fields (the model above has them;
   finding C13-F8 lives there). *)
Inductive sfield :=
| SFParam (fname : string) (ty : option str) (name : str) (d0 : str) (conts : list str)
| SFVar (fname : string) (name : str) (d0 : str) (conts : list str)
| SFRaises (fname : string) (exc : str) (d0 : str) (conts : list str)
| SFReturns (fname : string) (d0 : str) (conts : list str).

Definition cont4 (c : str) : str := spaces 4 ++ c.

Definition render_sfield (f : sfield) : list str :=
  match f with
  | SFParam fn ty n d0 cs =>
      (colon :: s_of fn ++ (match ty with Some t => sp :: t | None => [] end) ++ sp :: n ++ colon :: sp :: d0) :: map cont4 cs
  | SFVar fn n d0 cs => (colon :: s_of fn ++ sp :: n ++ colon :: sp :: d0) :: map cont4 cs
  | SFRaises fn e d0 cs => (colon :: s_of fn ++ sp :: e ++ colon :: sp :: d0) :: map cont4 cs
  | SFReturns fn d0 cs => (colon :: s_of fn ++ colon :: sp :: d0) :: map cont4 cs
  end.

Definition render_sphinx (text : list str) (fields : list sfield) : list str :=
  text ++ [] :: flat_map render_sfield fields.

(* continuation lines are joined with single blanks: that is how Sphinx descriptions come back *)
Definition sjoin (d0 : str) (cs : list str) : str := join_with [sp] (d0 :: cs).

Definition sec_of (k : kind) (l : list pitem) : list gsec := match l with [] => [] | _ => [GItems k None l] end.

Definition exp_param (c : pctx) (f : sfield) : list pitem :=
  match f with
  | SFParam _ ty n d0 cs =>
      [mkItem (Some n)
              (match ty with Some t => Some t | None => match lookup_param c (lstrip n) with Some (a, _) => a | None => None end end)
              (sjoin d0 cs)
              (match lookup_param c (lstrip n) with Some (_, v) => v | None => None end)]
  | _ => []
  end.
Definition exp_var (c : pctx) (f : sfield) : list pitem :=
  match f with
  | SFVar _ n d0 cs => [mkItem (Some n) (match lookup_attr c n with Some a => a | None => None end) (sjoin d0 cs) None]
  | _ => []
  end.
Definition exp_exc (f : sfield) : list pitem :=
  match f with SFRaises _ e d0 cs => [mkItem None (Some e) (sjoin d0 cs) None] | _ => [] end.
Definition exp_ret (c : pctx) (ra : bool) (f : sfield) : list pitem :=
  match f with
  | SFReturns _ d0 cs => [mkItem (Some []) (match parent_return c ra with Some a => a | None => None end) (sjoin d0 cs) None]
  | _ => []
  end.

Definition last_opt {A} (l : list A) : option A := match rev l with x :: _ => Some x | [] => None end.

(* Sphinx's fixed order: text, parameters, attributes, returns (the last :returns: wins), raises *)
Definition expect_sphinx (c : pctx) (ra : bool) (text : list str) (fields : list sfield) : list gsec :=
  GText (join_nl text)
  :: sec_of KParams (flat_map (exp_param c) fields)
  ++ sec_of KAttrs (flat_map (exp_var c) fields)
  ++ (match last_opt (flat_map (exp_ret c ra) fields) with Some p => [GItems KReturns None [p]] | None => [] end)
  ++ sec_of KRaises (flat_map exp_exc fields).

(* ---- well-formedness *)
Definition pr (s : str) : bool := forallb printable s.
Definition ne (s : str) : bool := match s with [] => false | _ => true end.
Definition fns (s : str) : bool := match s with c :: _ => negb (ceq c sp) | [] => true end.
Definition lns (s : str) : bool := negb (ceq (last s "x") sp).
Definition tok_char (c : ascii) : bool := printable c && negb (ceq c sp) && negb (ceq c colon).
Definition wf_tok (n : str) : bool := ne n && forallb tok_char n.
Definition wf_sline (l : str) : bool := ne l && pr l && fns l.
Definition wf_sdesc (d0 : str) (cs : list str) : bool :=
  wf_sline d0 && forallb wf_sline cs && lns (last (d0 :: cs) []).

Definition in_names (k : fkind) (fn : string) : bool :=
  match find (fun p => match fst p, k with
                       | FParam, FParam | FVar, FVar | FExc, FExc | FReturn, FReturn => true
                       | _, _ => false end) field_names with
  | Some (_, names) => existsb (String.eqb fn) names
  | None => false
  end.

Definition wf_sfield (f : sfield) : bool :=
  match f with
  | SFParam fn ty n d0 cs => in_names FParam fn && (match ty with Some t => wf_tok t | None => true end) && wf_tok n && wf_sdesc d0 cs
  | SFVar fn n d0 cs => in_names FVar fn && wf_tok n && wf_sdesc d0 cs
  | SFRaises fn e d0 cs => in_names FExc fn && wf_tok e && wf_sdesc d0 cs
  | SFReturns fn d0 cs => in_names FReturn fn && wf_sdesc d0 cs
  end.

Fixpoint nodupb (l : list str) : bool :=
  match l with
  | [] => true
  | x :: r => negb (existsb (str_eqb x) r) && nodupb r
  end.

Definition pnames (fields : list sfield) : list str := flat_map (fun f => match f with SFParam _ _ n _ _ => [n] | _ => [] end) fields.
Definition vnames (fields : list sfield) : list str := flat_map (fun f => match f with SFVar _ n _ _ => [n] | _ => [] end) fields.

Definition wf_stext_line (l : str) : bool := pr l && negb (starts_colon l).
Definition wf_stext (text : list str) : bool :=
  match text with [] => false | _ => true end && forallb wf_stext_line text
  && negb (is_empty_line (hd [] text)) && negb (is_empty_line (last text [])).

Definition wf_sphinx (text : list str) (fields : list sfield) : bool :=
  wf_stext text && forallb wf_sfield fields && nodupb (pnames fields) && nodupb (vnames fields).
