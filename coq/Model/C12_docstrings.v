(* C12 model: control flow and indexing of the three docstring parsers
   (src/_griffe/docstrings/google.py, numpy.py, sphinx.py) over a line-feature abstraction.
   Executable definitions only.

   A docstring is a [list lf]: one feature record per line of [Docstring.lines], computed by the harness
   from its own copies of the regular expressions / string tests (never imported from Griffe).
   Every [lines[i]] of the Python code is an explicit lookup here; a failed lookup is [Err IndexError]
   (or the [Fail IndexError] outcome of a loop step).  The three main [while offset < len(lines)] loops,
   whose offset is moved by the block readers, run on explicit fuel ([Err OutOfFuel] when exhausted);
   the readers' own loops only ever add one to their offset and are structural recursion over the
   remaining lines. *)
From Coq Require Import List ZArith String Bool Arith.
From Verif Require Import Lib.Sexp.
Import ListNotations.
Open Scope string_scope.
Open Scope list_scope.
Open Scope nat_scope.

Inductive err := IndexError | OutOfFuel.
Inductive result (A : Type) := Ok (a : A) | Err (e : err).
Arguments Ok {A} a. Arguments Err {A} e.

(* one iteration of a main loop: go on with a new state, stop (loop condition false), or raise *)
Inductive outcome (S : Type) := Next (s : S) | Done (s : S) | Fail (e : err).
Arguments Next {S} s. Arguments Done {S} s. Arguments Fail {S} e.

Section Iter.
  Variable St : Type.
  Variable step : St -> outcome St.
  Fixpoint iter (fuel : nat) (s : St) : result St :=
    match fuel with
    | 0 => Err OutOfFuel
    | S f => match step s with
             | Done r => Ok r
             | Next s' => iter f s'
             | Fail e => Err e
             end
    end.
End Iter.
Arguments iter {St} step fuel s.

(* section kinds that have a reader (DocstringSectionKind minus text/admonition) *)
Inductive skind :=
| KParams | KOther | KRaises | KWarns | KExamples | KAttrs | KFuncs | KClasses | KModules
| KReturns | KYields | KReceives | KDeprecated.

(* google: result of _RE_ADMONITION.match(line) and of `type.lower() in _section_kind` *)
Inductive adm := ANone | AAdm | ASec (k : skind).

(* sphinx: first entry of _field_types whose matches(line) holds *)
Inductive sfld := FPType | FParam | FAType | FAttr | FExc | FRet | FRType.

Record lf := mkLf {
  blank : bool;          (* not line.strip() *)
  null : bool;           (* line == "" *)
  ws : nat;              (* len(line) - len(line.lstrip()) *)
  sp : nat;              (* number of leading ' ' characters: line.startswith(k * " ") <-> k <= sp *)
  fence : bool;          (* line.lower().lstrip(" ").startswith("```") *)
  colon : bool;          (* ":" in line *)
  gadm : adm;            (* google admonition / section header *)
  dash : bool;           (* numpy _is_dash_line *)
  nkind : option skind;  (* numpy: line.lower() in _section_kind *)
  npnames : nat;         (* numpy: 0 if _RE_PARAMETER does not match, else number of names *)
  colon0 : bool;         (* sphinx: line.startswith(":") *)
  sfield : option sfld;  (* sphinx field type *)
  ncol : nat;            (* min(2, number of ":" in the line) *)
  s1 : nat;              (* min(3, spaces of line.lstrip() before its first ":" -- all of them when there is none) *)
  s2 : nat               (* min(3, spaces between its first and second ":" -- up to the end when there is one; 0 when none) *)
}.

(* a line of a text section: index, replaced by "" (numpy blank lines), the line *)
Definition tentry := (nat * bool * lf)%type.
Definition t_idx (e : tentry) : nat := fst (fst e).
Definition t_blanked (e : tentry) : bool := snd (fst e).
Definition t_line (e : tentry) : lf := snd e.
Definition t_null (e : tentry) : bool := t_blanked e || null (t_line e).
Definition t_out (e : tentry) : nat * bool := (t_idx e, t_blanked e).

Inductive section :=
| SText (ls : list (nat * bool)) (fcolon split : bool)
    (* "\n".join(lines).rstrip("\n"); fcolon: the first non-blank line has a ":";
       split: the property summary "type: ..." was cut off (returns_type_in_property_summary) *)
| SAdm (hdr first last indent : nat)              (* google admonition: header line, block extent *)
| SNAdm (hdr : nat) (ls : list (nat * bool))      (* numpy admonition: title line, text lines *)
| SSec (k : skind) (hdr : nat) (items : nat).     (* any other section: header line, number of items *)

(* `current` lists are kept newest-first *)
Definition text_of (cur : list tentry) : list (nat * bool) := map t_out (rev cur).
Definition any_nonnull (cur : list tentry) : bool := existsb (fun e => negb (t_null e)) cur.

(* value.lstrip().split("\n")[0] contains ":"  (ls oldest-first) *)
Fixpoint first_nonblank_colon (ls : list tentry) : bool :=
  match ls with
  | [] => false
  | e :: r => if blank (t_line e) then first_nonblank_colon r else colon (t_line e)
  end.
Definition mk_text (cur : list tentry) : section := SText (text_of cur) (first_nonblank_colon (rev cur)) false.

(* while _is_empty_line(lines[o]): o += 1   -- over rest = lines[o:]; None = lines[o] raised IndexError *)
Fixpoint skip_blank (rest : list lf) (o : nat) : option (nat * lf * list lf) :=
  match rest with
  | [] => None
  | l :: r => if blank l then skip_blank r (S o) else Some (o, l, r)
  end.

(* ================= Google ================= *)
Definition item := (nat * bool)%type.   (* line number of the item, ":" in its first line *)

Fixpoint g_items_loop (rest : list lf) (o indent : nat) (cur : item) (acc : list item) : list item * nat :=
  match rest with
  | [] => (rev (cur :: acc), o)
  | l :: r =>
      if blank l then g_items_loop r (S o) indent cur acc
      else if indent * 2 <=? sp l then g_items_loop r (S o) indent cur acc
      else if S indent <=? sp l then g_items_loop r (S o) indent cur acc
      else if indent <=? sp l then g_items_loop r (S o) indent (o, colon l) (cur :: acc)
      else (rev (cur :: acc), o)
  end.

(* _read_block_items: (items, new offset).  Only ever called with offset >= 1, so [pred] is Python's -1. *)
Definition g_read_block_items (lines : list lf) (offset : nat) : result (list item * nat) :=
  if List.length lines <=? offset then Ok ([], offset)
  else match skip_blank (skipn offset lines) offset with
       | None => Err IndexError
       | Some (o, l, r) =>
           if ws l =? 0 then Ok ([], pred o)
           else let '(items, n) := g_items_loop r (S o) (ws l) (o, colon l) [] in Ok (items, pred n)
       end.

Fixpoint g_block_loop (rest : list lf) (o indent : nat) : nat :=
  match rest with
  | [] => o
  | l :: r => if (indent <=? sp l) || blank l then g_block_loop r (S o) indent else o
  end.

(* _read_block: (Some (first, last, indent) when the contents are non-empty, new offset) *)
Definition g_read_block (lines : list lf) (offset : nat) : result (option (nat * nat * nat) * nat) :=
  if List.length lines <=? offset then Ok (None, pred offset)
  else match skip_blank (skipn offset lines) offset with
       | None => Err IndexError
       | Some (o, l, r) =>
           if ws l =? 0 then Ok (None, pred offset)
           else let n := g_block_loop r (S o) (ws l) in Ok (Some (o, pred n, ws l), pred n)
       end.

Definition g_items_maybe (lines : list lf) (offset : nat) (multiple : bool) : result (list item * nat) :=
  if multiple then g_read_block_items lines offset
  else match g_read_block lines offset with
       | Err e => Err e
       | Ok (None, off) => Ok ([], off)
       | Ok (Some _, off) => Ok ([(off, false)], off)
       end.

Record gopts := mkGopts {
  o_ignore_init : bool; o_trim : bool; o_ret_multi : bool; o_ret_named : bool;
  o_ret_prop : bool; o_rec_multi : bool; o_rec_named : bool; o_warn : bool }.

(* what the parsers look at on docstring.parent *)
Record parent := mkParent {
  p_init_method : bool;   (* a function named __init__ whose parent is a class *)
  p_property : bool       (* an attribute labelled "property" *) }.

(* _section_reader[kind](docstring, offset=...) : (number of items of the section value, new offset) *)
Definition g_reader (lines : list lf) (o : gopts) (k : skind) (offset : nat) : result (nat * nat) :=
  match k with
  | KExamples =>
      match g_read_block lines offset with
      | Err e => Err e
      | Ok (_, off) => Ok (1, off)          (* sub_sections is never empty *)
      end
  | KReturns | KYields =>
      match g_items_maybe lines offset (o_ret_multi o) with
      | Err e => Err e
      | Ok (items, off) => Ok (List.length items, off)
      end
  | KReceives =>
      match g_items_maybe lines offset (o_rec_multi o) with
      | Err e => Err e
      | Ok (items, off) => Ok (List.length items, off)
      end
  | _ =>
      match g_read_block_items lines offset with
      | Err e => Err e
      | Ok (items, off) => Ok (List.length (filter snd items), off)     (* items without ":" are skipped *)
      end
  end.

Record gst := mkGst { g_off : nat; g_code : bool; g_cur : list tentry; g_secs : list section }.

(* if current_section: if any(current_section): sections.append(Text) *)
Definition flush_text (cur : list tentry) (secs : list section) : list section :=
  match cur with
  | [] => secs
  | _ => if any_nonnull cur then mk_text cur :: secs else secs
  end.

(* lines[offset - 1] is blank (true when there is no line above) *)
Definition line_above_blank (lines : list lf) (off : nat) : option bool :=
  match off with
  | 0 => Some true
  | S p => match nth_error lines p with Some x => Some (blank x) | None => None end
  end.
(* has_next... and _is_empty_line(lines[i]) *)
Definition blank_at (lines : list lf) (i : nat) : bool :=
  match nth_error lines i with Some x => blank x | None => false end.
(* has_next... and not blank and lines[i].startswith(" ") *)
Definition indented_at (lines : list lf) (i : nat) : bool :=
  match nth_error lines i with Some x => negb (blank x) && (1 <=? sp x) | None => false end.

Definition g_step (lines : list lf) (o : gopts) (st : gst) : outcome gst :=
  let off := g_off st in
  match nth_error lines off with
  | None => Done st
  | Some l =>
    let app := (off, false, l) :: g_cur st in
    let plain := Next (mkGst (S off) false app (g_secs st)) in
    if g_code st then Next (mkGst (S off) (negb (fence l)) app (g_secs st))
    else if fence l then Next (mkGst (S off) true app (g_secs st))
    else match gadm l with
    | ANone => plain
    | a =>
      match line_above_blank lines off with
      | None => Fail IndexError
      | Some above =>
        if negb (indented_at lines (S off) || indented_at lines (S (S off))) then plain
        else if negb above || (indented_at lines (S (S off)) && blank_at lines (S off)) then plain
        else match a with
        | ASec k =>
            let secs1 := flush_text (g_cur st) (g_secs st) in
            match g_reader lines o k (S off) with
            | Err e => Fail e
            | Ok (n, off') =>
                Next (mkGst (S off') false [] (if 0 <? n then SSec k off n :: secs1 else secs1))
            end
        | _ =>
            match g_read_block lines (S off) with
            | Err e => Fail e
            | Ok (Some (f, la, ind), off') =>
                Next (mkGst (S off') false [] (SAdm off f la ind :: flush_text (g_cur st) (g_secs st)))
            | Ok (None, off') =>
                (* with suppress(IndexError): current_section.append(lines[offset]) *)
                let cur' := match nth_error lines off' with
                            | Some x => (off', false, x) :: g_cur st
                            | None => g_cur st
                            end in
                Next (mkGst (S off') false cur' (g_secs st))
            end
        end
      end
    end
  end.

(* after the loop: last text section, then returns_type_in_property_summary *)
Definition g_finish (o : gopts) (p : parent) (st : gst) : list section :=
  let secs := rev (match g_cur st with
                   | [] => g_secs st
                   | cur => mk_text cur :: g_secs st
                   end) in
  if o_ret_prop o && p_property p then
    match secs with
    | SText ls true false :: rest => SText ls true true :: rest ++ [SSec KReturns 0 1]
    | _ => secs
    end
  else secs.

Definition g_start (o : gopts) (p : parent) : nat := if o_ignore_init o && p_init_method p then 2 else 0.

Definition g_parse (lines : list lf) (o : gopts) (p : parent) : result (list section) :=
  match iter (g_step lines o) (S (List.length lines)) (mkGst (g_start o p) false [] []) with
  | Err e => Err e
  | Ok st => Ok (g_finish o p st)
  end.

(* ================= Numpy ================= *)
Definition next_is_dash (r : list lf) : bool := match r with d :: _ => dash d | [] => false end.
Definition next2_is_dash (r : list lf) : bool := match r with _ :: d :: _ => dash d | _ => false end.

(* items are represented by the npnames feature of their first line *)
Fixpoint n_items_loop (rest : list lf) (o : nat) (cur : nat) (acc : list nat) : list nat * nat :=
  match rest with
  | [] => (rev (cur :: acc), o)
  | l :: r =>
      if blank l then n_items_loop r (S o) cur acc
      else if 4 <=? sp l then n_items_loop r (S o) cur acc
      else if 1 <=? sp l then n_items_loop r (S o) cur acc
      else if next_is_dash r then (rev (cur :: acc), o)
      else n_items_loop r (S o) (npnames l) (cur :: acc)
  end.

Definition n_read_block_items (lines : list lf) (offset : nat) : result (list nat * nat) :=
  if List.length lines <=? offset then Ok ([], offset)
  else match skip_blank (skipn offset lines) offset with
       | None => Err IndexError
       | Some (o, l, r) =>
           let '(items, n) := n_items_loop r (S o) (npnames l) [] in Ok (items, pred n)
       end.

Fixpoint n_block_loop (rest : list lf) (o : nat) : nat :=
  match rest with
  | [] => o
  | l :: r =>
      if blank l && next_is_dash r then o
      else if blank l && next2_is_dash r then o
      else n_block_loop r (S o)
  end.

Definition n_read_block (lines : list lf) (offset : nat) : result nat :=
  if List.length lines <=? offset then Ok offset
  else match skip_blank (skipn offset lines) offset with
       | None => Err IndexError
       | Some (o, l, r) => Ok (pred (n_block_loop (l :: r) o))
       end.

Definition n_reader (lines : list lf) (k : skind) (offset : nat) : result (nat * nat) :=
  match k with
  | KExamples =>
      match n_read_block lines offset with
      | Err e => Err e
      | Ok off => Ok (1, off)
      end
  | KParams | KOther =>
      match n_read_block_items lines offset with
      | Err e => Err e
      | Ok (items, off) => Ok (fold_right plus 0 items, off)   (* one parameter per name of each parsable item *)
      end
  | KDeprecated =>
      match n_read_block_items lines offset with
      | Err e => Err e
      | Ok (items, off) => Ok ((if 0 <? List.length items then 1 else 0), off)
      end
  | _ =>
      match n_read_block_items lines offset with
      | Err e => Err e
      | Ok (items, off) => Ok (List.length items, off)
      end
  end.

Record nst := mkNst { n_off : nat; n_code : bool; n_cur : list tentry; n_adm : option nat; n_secs : list section }.

(* _append_section *)
Definition n_append (secs : list section) (cur : list tentry) (adm : option nat) : list section :=
  match adm with
  | Some h => SNAdm h (text_of cur) :: secs
  | None => match cur with
            | [] => secs
            | _ => if any_nonnull cur then mk_text cur :: secs else secs
            end
  end.

Definition n_step (lines : list lf) (st : nst) : outcome nst :=
  let off := n_off st in
  match nth_error lines off with
  | None => Done st
  | Some l =>
    let verb := (off, false, l) :: n_cur st in
    if n_code st then Next (mkNst (S off) (negb (fence l)) verb (n_adm st) (n_secs st))
    else if fence l then Next (mkNst (S off) true verb (n_adm st) (n_secs st))
    else if blank l then Next (mkNst (S off) false ((off, true, l) :: n_cur st) (n_adm st) (n_secs st))
    else if S off =? List.length lines then
      Next (mkNst (S off) false [] None (n_append (n_secs st) verb (n_adm st)))
    else match nth_error lines (S off) with
    | None => Fail IndexError
    | Some d =>
      if dash d then
        let secs1 := n_append (n_secs st) (n_cur st) (n_adm st) in
        match nkind l with
        | Some k =>
            match n_reader lines k (S (S off)) with
            | Err e => Fail e
            | Ok (n, off') =>
                Next (mkNst (S off') false [] None (if 0 <? n then SSec k off n :: secs1 else secs1))
            end
        | None => Next (mkNst (S (S off)) false [] (Some off) secs1)
        end
      else Next (mkNst (S off) false verb (n_adm st) (n_secs st))
    end
  end.

(* after the loop: when no admonition is open and lines are left, they become a text section even if all of them
   are empty (the empty docstring gives one empty text section, like the other parsers); otherwise _append_section *)
Definition n_finish (st : nst) : list section :=
  rev (match n_adm st, n_cur st with
       | None, e :: c => mk_text (e :: c) :: n_secs st
       | a, cur => n_append (n_secs st) cur a
       end).

Definition n_parse (lines : list lf) (o : gopts) (p : parent) : result (list section) :=
  match iter (n_step lines) (S (List.length lines)) (mkNst (g_start o p) false [] None []) with
  | Err e => Err e
  | Ok st => Ok (n_finish st)
  end.

(* ================= Sphinx ================= *)
(* _consolidate_continuation_lines from rest = lines[o:]: (index after the block, continuation lines) *)
Fixpoint s_cont (rest : list lf) (o : nat) (acc : list lf) : nat * list lf :=
  match rest with
  | [] => (o, rev acc)
  | l :: r => if colon0 l then (o, rev acc) else s_cont r (S o) (l :: acc)
  end.

(* spaces of the directive part when it runs on into continuation lines *)
Fixpoint s_spaces (conts : list lf) (acc : nat) : nat :=
  match conts with
  | [] => acc
  | l :: r => if 1 <=? ncol l then acc + 1 + s1 l else s_spaces r (acc + 1 + s1 l)
  end.

(* len(directive.split(" ")) *)
Definition s_parts (first : lf) (conts : list lf) : nat :=
  S (if 2 <=? ncol first then s2 first else s_spaces conts (s2 first)).

Definition s_valid (first : lf) (conts : list lf) : bool :=
  2 <=? fold_right plus 0 (map ncol (first :: conts)).

Record sst := mkSst {
  s_off : nat; s_desc : list tentry;
  s_params : nat;      (* param directives that reach the duplicate test: upper bound of the number of parameters *)
  s_attrs : nat;       (* same for attributes *)
  s_excs : nat; s_ret : bool }.

Definition s_step (lines : list lf) (st : sst) : outcome sst :=
  let off := s_off st in
  match nth_error lines off with
  | None => Done st
  | Some l =>
    match sfield l with
    | None => Next (mkSst (S off) ((off, false, l) :: s_desc st) (s_params st) (s_attrs st) (s_excs st) (s_ret st))
    | Some f =>
      let '(j, conts) := s_cont (skipn (S off) lines) (S off) [] in
      let valid := s_valid l conts in
      let parts := s_parts l conts in
      let nxt := S (pred j) in        (* reader returns next_index = j - 1, the loop adds one *)
      match f with
      | FParam =>
          let ok := valid && ((parts =? 2) || (parts =? 3)) in
          Next (mkSst nxt (s_desc st) (if ok then S (s_params st) else s_params st) (s_attrs st) (s_excs st) (s_ret st))
      | FAttr =>
          let ok := valid && (parts =? 2) in
          Next (mkSst nxt (s_desc st) (s_params st) (if ok then S (s_attrs st) else s_attrs st) (s_excs st) (s_ret st))
      | FExc =>
          let ok := valid && (parts =? 2) in
          Next (mkSst nxt (s_desc st) (s_params st) (s_attrs st) (if ok then S (s_excs st) else s_excs st) (s_ret st))
      | FRet => Next (mkSst nxt (s_desc st) (s_params st) (s_attrs st) (s_excs st) (s_ret st || valid))
      | _ => Next (mkSst nxt (s_desc st) (s_params st) (s_attrs st) (s_excs st) (s_ret st))
      end
    end
  end.

Fixpoint drop_blank (l : list tentry) : list tentry :=
  match l with
  | [] => []
  | e :: r => if blank (t_line e) then drop_blank r else l
  end.

(* _strip_blank_lines on the description (given newest-first) *)
Definition strip_blank (desc_rev : list tentry) : list tentry := drop_blank (rev (drop_blank desc_rev)).

Definition s_finish (st : sst) : list section :=
  SText (map t_out (strip_blank (s_desc st))) false false ::
  (if 0 <? s_params st then [SSec KParams 0 (s_params st)] else []) ++
  (if 0 <? s_attrs st then [SSec KAttrs 0 (s_attrs st)] else []) ++
  (if s_ret st then [SSec KReturns 0 1] else []) ++
  (if 0 <? s_excs st then [SSec KRaises 0 (s_excs st)] else []).

Definition s_parse (lines : list lf) : result (list section) :=
  match iter (s_step lines) (S (List.length lines)) (mkSst 0 [] 0 0 0 false) with
  | Err e => Err e
  | Ok st => Ok (s_finish st)
  end.

(* ================= cleandoc post-condition ================= *)
(* Docstring.__init__ stores inspect.cleandoc(value.rstrip()): at least one line, and the last line is
   not blank unless the text is empty (a single "" line). *)
Definition cleandoc_post (lines : list lf) : bool :=
  match rev lines with
  | [] => false
  | [l] => negb (blank l) || null l
  | l :: _ => negb (blank l)
  end.

(* consistency of the features of one line: the empty string is blank *)
Definition lf_wf (l : lf) : bool := implb (null l) (blank l).
Definition lines_wf (lines : list lf) : bool := forallb lf_wf lines.

(* ================= what "plain text" gives (statements of the plain-text theorems) ================= *)
(* lines a .. a+n-1, verbatim *)
Definition idx_text (a n : nat) : list (nat * bool) := map (fun i => (i, false)) (seq a n).
(* the first non-blank line has a ":" *)
Fixpoint fnc_lines (ls : list lf) : bool :=
  match ls with
  | [] => false
  | l :: r => if blank l then fnc_lines r else colon l
  end.
(* number of leading blank lines *)
Fixpoint leading_blank (ls : list lf) : nat :=
  match ls with
  | [] => 0
  | l :: r => if blank l then S (leading_blank r) else 0
  end.

(* ================= well-formed section skeletons ================= *)
(* n = number of lines.  Text lines exist; an admonition has a header above a non-empty indented block that lies
   inside the docstring; every other section has at least one item (`if section:`) and an existing header line. *)
Definition wf_section (n : nat) (s : section) : bool :=
  match s with
  | SText ls _ _ => forallb (fun ib => fst ib <? n) ls
  | SAdm h f l i => (h <? f) && (f <=? l) && (l <? n) && (1 <=? i)
  | SNAdm h ls => (h <? n) && forallb (fun ib => fst ib <? n) ls
  | SSec _ h items => (1 <=? items) && (h <? n)
  end.
Definition wf_sections (n : nat) (secs : list section) : bool := forallb (wf_section n) secs.

(* ================= s-expression interface ================= *)
Definition dec_skind (n : nat) : option skind :=
  match n with
  | 0 => Some KParams | 1 => Some KOther | 2 => Some KRaises | 3 => Some KWarns | 4 => Some KExamples
  | 5 => Some KAttrs | 6 => Some KFuncs | 7 => Some KClasses | 8 => Some KModules | 9 => Some KReturns
  | 10 => Some KYields | 11 => Some KReceives | 12 => Some KDeprecated | _ => None
  end.
Definition enc_skind (k : skind) : string :=
  match k with
  | KParams => "parameters" | KOther => "other parameters" | KRaises => "raises" | KWarns => "warns"
  | KExamples => "examples" | KAttrs => "attributes" | KFuncs => "functions" | KClasses => "classes"
  | KModules => "modules" | KReturns => "returns" | KYields => "yields" | KReceives => "receives"
  | KDeprecated => "deprecated"
  end.
(* 0 = none, k+1 = kind k *)
Definition dec_okind (n : nat) : option (option skind) :=
  match n with 0 => Some None | S m => match dec_skind m with Some k => Some (Some k) | None => None end end.
Definition dec_adm (n : nat) : option adm :=
  match n with
  | 0 => Some ANone
  | 1 => Some AAdm
  | S (S m) => match dec_skind m with Some k => Some (ASec k) | None => None end
  end.
Definition dec_sfld (n : nat) : option (option sfld) :=
  match n with
  | 0 => Some None | 1 => Some (Some FPType) | 2 => Some (Some FParam) | 3 => Some (Some FAType)
  | 4 => Some (Some FAttr) | 5 => Some (Some FExc) | 6 => Some (Some FRet) | 7 => Some (Some FRType)
  | _ => None
  end.

Definition dec_lf (s : sexp) : option lf :=
  match s with
  | SList [b; nu; w; p; fe; co; ga; da; nk; np; c0; sf; nc; x1; x2] =>
      do b' <- as_bool b; do nu' <- as_bool nu; do w' <- as_nat w; do p' <- as_nat p;
      do fe' <- as_bool fe; do co' <- as_bool co;
      do ga0 <- as_nat ga; do ga' <- dec_adm ga0;
      do da' <- as_bool da;
      do nk0 <- as_nat nk; do nk' <- dec_okind nk0;
      do np' <- as_nat np; do c0' <- as_bool c0;
      do sf0 <- as_nat sf; do sf' <- dec_sfld sf0;
      do nc' <- as_nat nc; do x1' <- as_nat x1; do x2' <- as_nat x2;
      Some (mkLf b' nu' w' p' fe' co' ga' da' nk' np' c0' sf' nc' x1' x2')
  | _ => None
  end.

Definition dec_gopts (s : sexp) : option gopts :=
  match s with
  | SList [a; b; c; d; e; f; g; h] =>
      do a' <- as_bool a; do b' <- as_bool b; do c' <- as_bool c; do d' <- as_bool d;
      do e' <- as_bool e; do f' <- as_bool f; do g' <- as_bool g; do h' <- as_bool h;
      Some (mkGopts a' b' c' d' e' f' g' h')
  | _ => None
  end.

Definition dec_parent (s : sexp) : option parent :=
  match s with
  | SList [a; b] => do a' <- as_bool a; do b' <- as_bool b; Some (mkParent a' b')
  | _ => None
  end.

Definition enc_tl (ib : nat * bool) : sexp := SList [of_nat (fst ib); of_bool (snd ib)].
Definition enc_section (s : section) : sexp :=
  match s with
  | SText ls _ split => SList [SStr "text"; SList (map enc_tl ls); of_bool split]
  | SAdm h f l i => SList [SStr "admonition"; of_nat h; of_nat f; of_nat l; of_nat i]
  | SNAdm h ls => SList [SStr "nadmonition"; of_nat h; SList (map enc_tl ls)]
  | SSec k h n => SList [SStr (enc_skind k); of_nat h; of_nat n]
  end.
Definition enc_err (e : err) : sexp := SStr (match e with IndexError => "IndexError" | OutOfFuel => "OutOfFuel" end).
(* the two flags are the hypotheses of the theorems evaluated on this input: cleandoc post-condition, feature consistency *)
Definition enc_result (lines : list lf) (r : result (list section)) : sexp :=
  let flags := SList [of_bool (cleandoc_post lines); of_bool (lines_wf lines)] in
  match r with
  | Ok secs => SList [SStr "ok"; flags; SList (map enc_section secs)]
  | Err e => SList [SStr "err"; flags; enc_err e]
  end.

Definition run_C12 (s : sexp) : sexp :=
  match s with
  | SList [SStr style; o; p; ls] =>
      match dec_gopts o, dec_parent p, as_list_of dec_lf ls with
      | Some o', Some p', Some ls' =>
          if String.eqb style "google" then enc_result ls' (g_parse ls' o' p')
          else if String.eqb style "numpy" then enc_result ls' (n_parse ls' o' p')
          else if String.eqb style "sphinx" then enc_result ls' (s_parse ls')
          else bad_input
      | _, _, _ => bad_input
      end
  | _ => bad_input
  end.
