(* C03 — spec side.  Executable definitions only (no proofs).

   [rprint]    a precedence-aware reference printer for Python expressions (the authority is CPython's parser: the check
            ties it by parsing its output back; its spacing conventions are those of ast.unparse / Griffe).
   [gaps]   the decidable known-gap classifier: which families of rendering defects of Griffe an expression touches.
   [subst]  the string-annotation rule stated declaratively: which str constants stand for code.
   [wf], [src_names], the s-expression codec and [run_C03]. *)
From Coq Require Import List ZArith String Ascii Bool Arith.
From Verif Require Import Lib.Sexp Model.C03_ops Gen.C03_tables Model.C03_expr.
Import ListNotations.
Open Scope string_scope. Open Scope list_scope. Open Scope nat_scope.

(* ---------- operator spellings of the Python grammar (spec side; Proofs tie the generated tables to these) ---------- *)
Definition spec_unop (o : unop) : string :=
  match o with U_Invert => "~" | U_Not => "not " | U_UAdd => "+" | U_USub => "-" end.
Definition spec_binop (o : binop) : string :=
  match o with
  | B_Add => "+" | B_Sub => "-" | B_Mult => "*" | B_MatMult => "@" | B_Div => "/" | B_Mod => "%" | B_Pow => "**"
  | B_LShift => "<<" | B_RShift => ">>" | B_BitOr => "|" | B_BitXor => "^" | B_BitAnd => "&" | B_FloorDiv => "//"
  end.
Definition spec_boolop (o : boolop) : string := match o with L_And => "and" | L_Or => "or" end.
Definition spec_cmpop (o : cmpop) : string :=
  match o with
  | C_Eq => "==" | C_NotEq => "!=" | C_Lt => "<" | C_LtE => "<=" | C_Gt => ">" | C_GtE => ">="
  | C_Is => "is" | C_IsNot => "is not" | C_In => "in" | C_NotIn => "not in"
  end.

(* ---------- precedence of the source forms (levels: Model/C03_expr.v) ---------- *)
Definition binop_prec (o : binop) : nat :=
  match o with
  | B_BitOr => 9 | B_BitXor => 10 | B_BitAnd => 11 | B_LShift | B_RShift => 12 | B_Add | B_Sub => 13
  | B_Mult | B_MatMult | B_Div | B_Mod | B_FloorDiv => 14 | B_Pow => 16
  end.
(* minimal precedence of the left / right operand: left-associative except ** (power: await_primary '**' factor) *)
Definition binop_lreq (o : binop) : nat := match o with B_Pow => P_AWAIT | _ => binop_prec o end.
Definition binop_rreq (o : binop) : nat := match o with B_Pow => P_FACTOR | _ => S (binop_prec o) end.
Definition boolop_prec (o : boolop) : nat := match o with L_Or => P_OR | L_And => P_AND end.
Definition unop_prec (o : unop) : nat := match o with U_Not => P_NOT | _ => P_FACTOR end.

(* precedence of the form an expression is printed in (tuples, walrus, displays and generator expressions print their
   own brackets) *)
Fixpoint prec (e : pyexpr) : nat :=
  match e with
  | PParsed p => prec p
  | PYield _ | PYieldFrom _ => P_YIELD
  | PLambda _ _ _ _ _ _ | PIfExp _ _ _ => P_TEST
  | PBoolOp o _ => boolop_prec o
  | PUnaryOp o _ => unop_prec o
  | PCompare _ _ _ => P_CMP
  | PBinOp _ o _ => binop_prec o
  | PAwait _ => P_AWAIT
  | _ => P_ATOM
  end.

Definition paren_if (b : bool) (s : string) : string := if b then "(" ++ s ++ ")" else s.

Fixpoint is_int_lit (e : pyexpr) : bool :=
  match e with PNum true _ => true | PParsed p => is_int_lit p | _ => false end.

(* a generator expression that is the only argument of a call shares the call's parentheses *)
Fixpoint is_genexp_src (e : pyexpr) : bool :=
  match e with PGeneratorExp _ _ => true | PParsed p => is_genexp_src p | _ => false end.
Definition sole_genexp (all : list pyexpr) : bool :=
  match all with [a] => is_genexp_src a | _ => false end.

Definition optstr {A} (f : A -> string) (o : option A) : string := match o with Some a => f a | None => "" end.

(* ---------- the reference printer ---------- *)
Open Scope string_scope.
(* direct = "this node is the slice of a Subscript" (the only place a tuple is written without parentheses) *)
Fixpoint rprint (direct : bool) (e : pyexpr) {struct e} : string :=
  let ra := fun (req : nat) (c : pyexpr) => paren_if (Nat.ltb (prec c) req) (rprint false c) in
  let gens_s := fun (gens : list pyexpr) => sjoin " " (map (rprint false) gens) in
  (* the pieces of an f-string (or of a format spec): literal text escaped, replacement fields printed *)
  let fparts := fun (vs : list pyexpr) =>
    sconcat (map (fun c => match c with PStr _ raw _ => fesc raw | _ => rprint false c end) vs) in
  match e with
  | PName id _ => id
  | PNum isint r => num_text isint r
  | PConst r => r
  | PStr r _ _ => r
  | PParsed p => rprint direct p
  | PAttribute v a => (if is_int_lit v then "(" ++ rprint false v ++ ")" else ra P_ATOM v) ++ "." ++ a
  | PBinOp l o r => ra (binop_lreq o) l ++ " " ++ spec_binop o ++ " " ++ ra (binop_rreq o) r
  | PBoolOp o vs => sjoin (" " ++ spec_boolop o ++ " ") (map (ra (S (boolop_prec o))) vs)
  | PUnaryOp o v => spec_unop o ++ ra (unop_prec o) v
  | PCompare l ops cs =>
      ra P_BOR l ++ sconcat (map (fun oc : cmpop * string => (" " ++ spec_cmpop (fst oc) ++ " " ++ snd oc)%string) (combine ops (map (ra P_BOR) cs)))
  | PCall f args kws =>
      ra P_ATOM f ++
      (if sole_genexp (args ++ kws)%list then sconcat (map (rprint false) args ++ map (rprint false) kws)%list
       else "(" ++ sjoin ", " (map (ra P_TEST) args ++ map (ra P_TEST) kws)%list ++ ")")
  | PKeyword None v => "**" ++ ra P_TEST v
  | PKeyword (Some n) v => n ++ "=" ++ ra P_TEST v
  | PSubscript v _ sl => ra P_ATOM v ++ "[" ++ paren_if (Nat.ltb (prec sl) P_TEST) (rprint true sl) ++ "]"
  | PSlice lo up st =>
      optstr (ra P_TEST) lo ++ ":" ++ optstr (ra P_TEST) up ++ (match st with Some s => ":" ++ ra P_TEST s | None => "" end)
  | PTuple es =>
      let body := sjoin ", " (map (ra P_TEST) es) ++ (match es with [_] => "," | _ => "" end) in
      if direct && negb (is_nil es) then body else "(" ++ body ++ ")"
  | PList es => "[" ++ sjoin ", " (map (ra P_TEST) es) ++ "]"
  | PSet es => "{" ++ sjoin ", " (map (ra P_TEST) es) ++ "}"
  | PDict items => "{" ++ sjoin ", " (map (rprint false) items) ++ "}"
  | PDictItem None v => "**" ++ ra P_BOR v
  | PDictItem (Some k) v => ra P_TEST k ++ ": " ++ ra P_TEST v
  | PIfExp b t o => ra P_OR b ++ " if " ++ ra P_OR t ++ " else " ++ ra P_TEST o
  | PLambda po pk vp ko vk body =>
      let entries := (map (rprint false) po ++ (if is_nil po then [] else ["/"]) ++ map (rprint false) pk
                     ++ (match vp with Some n => [("*" ++ n)%string] | None => if is_nil ko then [] else ["*"] end)
                     ++ map (rprint false) ko ++ (match vk with Some n => [("**" ++ n)%string] | None => [] end))%list in
      "lambda" ++ (if is_nil entries then "" else " " ++ sjoin ", " entries) ++ ": " ++ ra P_TEST body
  | PParam n d => n ++ (match d with Some d' => "=" ++ ra P_TEST d' | None => "" end)
  | PNamedExpr t v => "(" ++ ra P_ATOM t ++ " := " ++ ra P_TEST v ++ ")"
  | PStarred v => "*" ++ ra P_BOR v
  | PListComp e gens => "[" ++ ra P_TEST e ++ " " ++ gens_s gens ++ "]"
  | PSetComp e gens => "{" ++ ra P_TEST e ++ " " ++ gens_s gens ++ "}"
  | PGeneratorExp e gens => "(" ++ ra P_TEST e ++ " " ++ gens_s gens ++ ")"
  | PDictComp k v gens => "{" ++ ra P_TEST k ++ ": " ++ ra P_TEST v ++ " " ++ gens_s gens ++ "}"
  | PComprehension t it ifs a =>
      (if a then "async " else "") ++ "for " ++ ra P_BOR t ++ " in " ++ ra P_OR it
      ++ sconcat (map (fun c => (" if " ++ ra P_OR c)%string) ifs)
  | PJoinedStr vs => "f'" ++ fparts vs ++ "'"
  | PFormattedValue v conv spec =>
      let s := ra P_OR v in
      "{" ++ (if starts_brace s then " " else "") ++ s ++ conv_text conv
      ++ (match spec with
          | Some (PJoinedStr vs) => ":" ++ fparts vs
          | Some o => ":" ++ rprint false o
          | None => ""
          end)
      ++ "}"
  | PYield v => "yield" ++ (match v with Some c => " " ++ ra P_TEST c | None => "" end)
  | PYieldFrom v => "yield from " ++ ra P_TEST v
  | PAwait v => "await " ++ ra P_ATOM v
  end.

Open Scope list_scope. Open Scope nat_scope.
Definition ref_at (req : nat) (c : pyexpr) : string := paren_if (Nat.ltb (prec c) req) (rprint false c).

(* ---------- known-gap classifier ---------- *)
Definition G_GROUP := 1.      (* an operand needs grouping parentheses that Griffe does not write *)
Definition G_FSTRING := 3.
Definition G_LAMBDA := 4.
Definition G_GENEXP := 6.
Definition G_EMPTY_SLICE_TUPLE := 7.
Definition G_YIELD := 8.
Definition G_INT_ATTR := 9.
Definition G_AWAIT := 10.

Fixpoint fam (e : pyexpr) : nat :=
  match e with
  | PParsed p => fam p
  | PYield _ | PYieldFrom _ => G_YIELD
  | _ => G_GROUP
  end.

(* the position requires precedence req: a gap at the top of a stored expression (nothing there can write parentheses) *)
Definition need_top (req : nat) (c : pyexpr) : list nat := if prec c <? req then [fam c] else [].

(* characters Griffe has to escape in the literal part of an f-string *)
Fixpoint has_brace (s : string) : bool :=
  match s with
  | EmptyString => false
  | String c r => Ascii.eqb c "{"%char || Ascii.eqb c "}"%char || has_brace r
  end.
Fixpoint has_unsafe (s : string) : bool :=
  match s with
  | EmptyString => false
  | String c r => let n := nat_of_ascii c in
                  (n <? 32) || (n =? 127) || (n =? 39) || (n =? 92) || has_unsafe r
  end.

Definition lambda_gap (po pk : list pyexpr) (vp : option string) (ko : list pyexpr) : bool :=
  (negb (is_nil po) && is_nil pk) || (match vp with Some _ => negb (is_nil ko) | None => false end).

Definition is_joined (e : pyexpr) : bool := match e with PJoinedStr _ => true | _ => false end.

Definition is_name_or_attr_src (e : pyexpr) : bool :=
  match e with PName _ _ | PAttribute _ _ => true | _ => false end.

(* ---------- what a subscripted value denotes: dotted chain of names resolved through the module's imports ---------- *)
Fixpoint src_canon (env : nenv) (e : pyexpr) : option string :=
  match e with
  | PName id loc => Some (if loc then id else resolve env id)
  | PAttribute v a => match src_canon env v with Some p => Some (p ++ "." ++ a)%string | None => None end
  | _ => None
  end.
Definition src_is_literal (env : nenv) (v : pyexpr) : bool :=
  match src_canon env v with Some p => is_literal_path p | None => false end.

(* the path the unrepaired _build_subscript computes for a chain whose root is not a name: the root is forgotten *)
Fixpoint quirk_canon (e : pyexpr) : option string :=
  match e with
  | PAttribute v a =>
      match v with
      | PName _ _ => None
      | PAttribute _ _ => match quirk_canon v with Some p => Some (p ++ "." ++ a)%string | None => None end
      | PNum _ _ | PConst _ | PStr _ _ _ => Some ("str." ++ a)%string
      | _ => Some a
      end
  | _ => None
  end.
Definition quirk_literal (v : pyexpr) : bool :=
  match quirk_canon v with Some p => is_literal_path p | None => false end.

(* source trees handed to [build] by the abstraction contain no PParsed; litroot = the repair of finding F14 is present:
   without it no subscripted value may be a chain with a non-name root that spells typing.Literal (the unrepaired
   _build_subscript takes it for Literal) *)
Fixpoint rule_ok (litroot : bool) (e : pyexpr) {struct e} : bool :=
  let np := rule_ok litroot in
  let no := fun (o : option pyexpr) => match o with Some c => np c | None => true end in
  match e with
  | PName _ _ | PNum _ _ | PConst _ => true
  | PStr _ _ p => no p
  | PParsed _ => false
  | PAttribute v _ | PUnaryOp _ v | PKeyword _ v | PStarred v | PYieldFrom v | PAwait v => np v
  | PBinOp l _ r => np l && np r
  | PBoolOp _ vs | PTuple vs | PList vs | PSet vs | PJoinedStr vs | PDict vs => forallb np vs
  | PCompare l _ cs => np l && forallb np cs
  | PCall f args kws => np f && forallb np args && forallb np kws
  | PSubscript v _ sl => (litroot || negb (quirk_literal v)) && np v && np sl
  | PSlice lo up st => no lo && no up && no st
  | PDictItem k v => no k && np v
  | PIfExp b t o => np b && np t && np o
  | PLambda po pk _ ko _ body => forallb np po && forallb np pk && forallb np ko && np body
  | PParam _ d => no d
  | PNamedExpr t v => np t && np v
  | PListComp e gens | PSetComp e gens | PGeneratorExp e gens => np e && forallb np gens
  | PDictComp k v gens => np k && np v && forallb np gens
  | PComprehension t it ifs _ => np t && np it && forallb np ifs
  | PFormattedValue v _ spec => np v && no spec
  | PYield v => no v
  end.
(* no PParsed (rule_ok with the repair) *)
Definition no_parsed (e : pyexpr) : bool := rule_ok true e.

(* ---------- which names an expression binds itself: comprehension targets and lambda parameters ---------- *)
(* the Name nodes of an assignment target that are stores (a.b and a[i] only load a) *)
Fixpoint store_names (t : pyexpr) : list string :=
  match t with
  | PName id _ => [id]
  | PTuple es | PList es => flat_map store_names es
  | PStarred v => store_names v
  | PParsed p => store_names p
  | _ => []
  end.
Definition param_name (p : pyexpr) : list string := match p with PParam n _ => [n] | _ => [] end.
Definition optl (o : option string) : list string := match o with Some n => [n] | None => [] end.
Definition mem_str (x : string) (l : list string) : bool := existsb (String.eqb x) l.

(* every Name carries the flag the scoping rule gives it under the local names ls:
   - the targets of all the `for` clauses of a comprehension are local to its element, its targets, its conditions and
     the iterables of its later clauses; the iterable of the first clause is evaluated outside;
   - the parameters of a lambda are local to its body; its defaults are evaluated outside *)
Fixpoint scope_ok (ls : list string) (e : pyexpr) {struct e} : bool :=
  let d := scope_ok ls in
  let dopt := fun (o : option pyexpr) => match o with Some c => d c | None => true end in
  let comp := fun (elts : list pyexpr) (gens : list pyexpr) =>
    let ls' := (ls ++ flat_map (fun g => match g with PComprehension t _ _ _ => store_names t | _ => [] end) gens)%list in
    forallb (scope_ok ls') elts &&
    (fix sg (first : bool) (gs : list pyexpr) {struct gs} : bool :=
       match gs with
       | [] => true
       | PComprehension t it ifs _ :: r =>
           scope_ok ls' t && scope_ok (if first then ls else ls') it && forallb (scope_ok ls') ifs && sg false r
       | g :: r => scope_ok ls' g && sg false r
       end) true gens in
  match e with
  | PName id loc => Bool.eqb loc (mem_str id ls)
  | PNum _ _ | PConst _ => true
  | PStr _ _ p => dopt p
  | PParsed p => d p
  | PAttribute v _ | PUnaryOp _ v | PKeyword _ v | PStarred v | PYieldFrom v | PAwait v => d v
  | PBinOp l _ r => d l && d r
  | PBoolOp _ vs | PTuple vs | PList vs | PSet vs | PDict vs | PJoinedStr vs => forallb d vs
  | PCompare l _ cs => d l && forallb d cs
  | PCall f args kws => d f && forallb d args && forallb d kws
  | PSubscript v _ sl => d v && d sl
  | PSlice lo up st => dopt lo && dopt up && dopt st
  | PDictItem k v => dopt k && d v
  | PIfExp b t o => d b && d t && d o
  | PLambda po pk vp ko vk body =>
      forallb d po && forallb d pk && forallb d ko
      && scope_ok (ls ++ flat_map param_name po ++ flat_map param_name pk ++ optl vp ++ flat_map param_name ko ++ optl vk)%list body
  | PParam _ dd => dopt dd
  | PNamedExpr t v => d t && d v
  | PListComp e1 gens | PSetComp e1 gens | PGeneratorExp e1 gens => comp [e1] gens
  | PDictComp k v gens => comp [k; v] gens
  | PComprehension t it ifs _ => d t && d it && forallb d ifs      (* only reached outside a comprehension node *)
  | PFormattedValue v _ spec => d v && dopt spec
  | PYield v => dopt v
  end.

(* the abstraction's own Literal flags agree with the resolution of the model (oracle tie: two statements of one rule) *)
Fixpoint lits_agree (env : nenv) (e : pyexpr) {struct e} : bool :=
  let d := lits_agree env in
  let dopt := fun (o : option pyexpr) => match o with Some c => d c | None => true end in
  match e with
  | PName _ _ | PNum _ _ | PConst _ => true
  | PStr _ _ p => dopt p
  | PParsed p => d p
  | PSubscript v lit sl => Bool.eqb lit (src_is_literal env v) && d v && d sl
  | PAttribute v _ | PUnaryOp _ v | PKeyword _ v | PStarred v | PYieldFrom v | PAwait v => d v
  | PBinOp l _ r => d l && d r
  | PBoolOp _ vs | PTuple vs | PList vs | PSet vs | PDict vs | PJoinedStr vs => forallb d vs
  | PCompare l _ cs => d l && forallb d cs
  | PCall f args kws => d f && forallb d args && forallb d kws
  | PSlice lo up st => dopt lo && dopt up && dopt st
  | PDictItem k v => dopt k && d v
  | PIfExp b t o => d b && d t && d o
  | PLambda po pk _ ko _ body => forallb d po && forallb d pk && forallb d ko && d body
  | PParam _ dd => dopt dd
  | PNamedExpr t v => d t && d v
  | PListComp e1 gens | PSetComp e1 gens | PGeneratorExp e1 gens => d e1 && forallb d gens
  | PDictComp k v gens => d k && d v && forallb d gens
  | PComprehension t it ifs _ => d t && d it && forallb d ifs
  | PFormattedValue v _ spec => d v && dopt spec
  | PYield v => dopt v
  end.

Section WithFixes.
Variable fx : fixes.
Variable env : nenv.

(* an operand of lower precedence than its slot requires: a gap unless operands are parenthesised by precedence *)
Definition need (req : nat) (c : pyexpr) : list nat := if fx_prec fx then [] else need_top req c.

(* the flags mirror the ones [build] threads: insub / injoin / infmt; direct as in [rprint] *)
Fixpoint gaps (direct isub ijoin ifmt : bool) (e : pyexpr) {struct e} : list nat :=
  let g1 := gaps false false ijoin ifmt in
  let ga := fun (req : nat) (c : pyexpr) => need req c ++ g1 c in
  let go := fun (req : nat) (o : option pyexpr) => match o with Some c => ga req c | None => [] end in
  (* pieces of an f-string or of a format spec; nfmt = the in_formatted_str flag its pieces are built with *)
  let fparts := fun (nfmt : bool) (vs : list pyexpr) =>
    flat_map (fun c => match c with
                       | PStr _ raw _ =>
                           if nfmt || (negb (fx_fesc fx) && (has_brace raw || has_unsafe raw)) then [G_FSTRING] else []
                       | PParsed _ => [G_FSTRING]   (* literal text of a nested f-string taken for code *)
                       | _ => gaps false false true nfmt c
                       end) vs in
  match e with
  | PName _ _ | PConst _ | PNum _ _ => []
  | PStr _ _ _ => if ijoin && negb ifmt then [G_FSTRING] else []
  | PParsed p => gaps direct isub false false p
  | PAttribute v _ => ga P_ATOM v ++ (if is_int_lit v && negb (fx_intattr fx) then [G_INT_ATTR] else [])
  | PBinOp l o r => ga (binop_lreq o) l ++ ga (binop_rreq o) r
  | PBoolOp o vs => flat_map (ga (S (boolop_prec o))) vs
  | PUnaryOp o v => ga (unop_prec o) v
  | PCompare l _ cs => ga P_BOR l ++ flat_map (ga P_BOR) cs
  | PCall f args kws =>
      ga P_ATOM f ++
      (if sole_genexp (args ++ kws)
       then flat_map (fun a => if fx_genexp fx then g1 a else tl (g1 a)) args      (* it shares the call's parentheses *)
            ++ flat_map (fun a => if fx_genexp fx then g1 a else tl (g1 a)) kws
       else flat_map (ga P_TEST) args ++ flat_map (ga P_TEST) kws)
  | PKeyword _ v => ga P_TEST v
  | PSubscript v _ sl =>
      need P_ATOM v ++ gaps false false ijoin ifmt v ++ need P_TEST sl ++ gaps true true ijoin ifmt sl
  | PSlice lo up st => go P_TEST lo ++ go P_TEST up ++ go P_TEST st
  | PTuple es =>
      (if direct && is_nil es && negb (fx_tuple0 fx) then [G_EMPTY_SLICE_TUPLE] else [])
      ++ flat_map (fun c => need P_TEST c ++ gaps false false ijoin ifmt c) es
  | PList es | PSet es => flat_map (ga P_TEST) es
  | PDict items => flat_map g1 items
  | PDictItem None v => ga P_BOR v
  | PDictItem (Some k) v => ga P_TEST k ++ ga P_TEST v
  | PIfExp b t o => ga P_OR b ++ ga P_OR t ++ ga P_TEST o
  | PLambda po pk vp ko _ body =>
      (if lambda_gap po pk vp ko && negb (fx_lambda fx) then [G_LAMBDA] else [])
      ++ flat_map g1 po ++ flat_map g1 pk ++ flat_map g1 ko ++ ga P_TEST body
  | PParam _ d => match d with Some c => need P_TEST c ++ gaps false false ijoin ifmt c | None => [] end
  | PNamedExpr t v => ga P_ATOM t ++ ga P_TEST v
  | PStarred v => ga P_BOR v
  | PListComp e gens | PSetComp e gens => ga P_TEST e ++ flat_map g1 gens
  | PGeneratorExp e gens => (if fx_genexp fx then [] else [G_GENEXP]) ++ ga P_TEST e ++ flat_map g1 gens
  | PDictComp k v gens => ga P_TEST k ++ ga P_TEST v ++ flat_map g1 gens
  | PComprehension t it ifs _ => ga P_BOR t ++ ga P_OR it ++ flat_map (ga P_OR) ifs
  | PJoinedStr vs => fparts (if fx_fnest fx then false else ifmt) vs
  | PFormattedValue v conv spec =>
      (if negb (fx_fconv fx) && (negb (conv =? -1)%Z || (match spec with Some _ => true | None => false end)) then [G_FSTRING] else [])
      ++ (if negb (fx_fglue fx) && starts_brace (ref_at P_OR v) then [G_FSTRING] else [])
      ++ need P_OR v ++ gaps false false ijoin true v
      ++ (if fx_fconv fx then
            match spec with
            | Some (PJoinedStr vs) => fparts false vs
            | Some o => [G_FSTRING]
            | None => []
            end
          else [])
  | PYield v => go P_TEST v
  | PYieldFrom v => ga P_TEST v
  | PAwait v => G_AWAIT :: ga P_ATOM v
  end.

(* top: minimal precedence of the position the expression is stored from:
   P_YIELD for the right-hand side of an assignment, P_TEST for annotations, defaults, decorators, base classes *)
Definition gaps_top (top : nat) (e : pyexpr) : list nat := need_top top e ++ gaps false false false false e.
Definition known_gap (top : nat) (e : pyexpr) : bool := negb (is_nil (gaps_top top e)).

(* ---------- the string-annotation rule, declaratively ---------- *)
(* m: are strings code here (Parse false), code-but-under-Literal (Parse true) or data (NoParse);
   ijoin/ifmt: inside an f-string / inside a replacement field of one *)
Fixpoint subst (m : pmode) (ijoin ifmt : bool) (e : pyexpr) {struct e} : pyexpr :=
  let s := subst m ijoin ifmt in
  let so := fun (o : option pyexpr) => match o with Some c => Some (s c) | None => None end in
  match e with
  | PName _ _ | PNum _ _ | PConst _ | PParsed _ => e
  | PStr _ _ parsed =>
      if ijoin && negb ifmt then e
      else match m, parsed with Parse false, Some p => PParsed p | _, _ => e end
  | PAttribute v a => PAttribute (s v) a
  | PBinOp l o r => PBinOp (s l) o (s r)
  | PBoolOp o vs => PBoolOp o (map s vs)
  | PUnaryOp o v => PUnaryOp o (s v)
  | PCompare l ops cs => PCompare (s l) ops (map s cs)
  | PCall f args kws => PCall (s f) (map s args) (map s kws)
  | PKeyword n v => PKeyword n (s v)
  | PSubscript v lit sl =>
      (* the subscripted value is never parsed; the slice is, unless the value is a chain of names that the module's
         imports resolve to typing.Literal / typing_extensions.Literal (sticky) *)
      let m' := match m with
                | NoParse => NoParse
                | Parse l0 => Parse (l0 || src_is_literal env v)
                end in
      PSubscript v lit (subst m' ijoin ifmt sl)
  | PSlice lo up st => PSlice (so lo) (so up) (so st)
  | PTuple es => PTuple (map s es)
  | PList es => PList (map s es)
  | PSet es => PSet (map s es)
  | PDict items => PDict (map s items)
  | PDictItem k v => PDictItem (so k) (s v)
  | PIfExp b t o => PIfExp (s b) (s t) (s o)
  | PLambda po pk vp ko vk body => PLambda po pk vp ko vk (s body)     (* defaults are never parsed *)
  | PParam _ _ => e
  | PNamedExpr t v => PNamedExpr (s t) (s v)
  | PStarred v => PStarred (s v)
  | PListComp e1 gens => PListComp (s e1) (map s gens)
  | PSetComp e1 gens => PSetComp (s e1) (map s gens)
  | PGeneratorExp e1 gens => PGeneratorExp (s e1) (map s gens)
  | PDictComp k v gens => PDictComp (s k) (s v) (map s gens)
  | PComprehension t it ifs a => PComprehension (s t) (s it) (map s ifs) a
  | PJoinedStr vs => PJoinedStr (map (subst m true (if fx_fnest fx then false else ifmt)) vs)
  | PFormattedValue v conv spec =>
      PFormattedValue (subst m ijoin true v) conv
        (if fx_fconv fx then match spec with Some sp => Some (subst m ijoin false sp) | None => None end else spec)
  | PYield v => PYield (so v)
  | PYieldFrom v => PYieldFrom (s v)
  | PAwait v => PAwait (s v)
  end.

(* scan false e: e contains an await (no builder: _build raises);
   scan true e:  ... or a format spec that is not stored, i.e. some sub-expression is dropped *)
Fixpoint scan (sc : bool) (e : pyexpr) {struct e} : bool :=
  let d := scan sc in
  let dopt := fun (o : option pyexpr) => match o with Some c => d c | None => false end in
  match e with
  | PName _ _ | PNum _ _ | PConst _ | PStr _ _ _ => false
  | PParsed p => d p
  | PAwait _ => true
  | PAttribute v _ | PUnaryOp _ v | PKeyword _ v | PStarred v | PYieldFrom v => d v
  | PBinOp l _ r => d l || d r
  | PBoolOp _ vs | PTuple vs | PList vs | PSet vs | PDict vs | PJoinedStr vs => existsb d vs
  | PCompare l _ cs => d l || existsb d cs
  | PCall f args kws => d f || existsb d args || existsb d kws
  | PSubscript v _ sl => d v || d sl
  | PSlice lo up st => dopt lo || dopt up || dopt st
  | PDictItem k v => dopt k || d v
  | PIfExp b t o => d b || d t || d o
  | PLambda po pk _ ko _ body => existsb d po || existsb d pk || existsb d ko || d body
  | PParam _ dd => dopt dd
  | PNamedExpr t v => d t || d v
  | PListComp e1 gens | PSetComp e1 gens | PGeneratorExp e1 gens => d e1 || existsb d gens
  | PDictComp k v gens => d k || d v || existsb d gens
  | PComprehension t it ifs _ => d t || d it || existsb d ifs
  | PFormattedValue v _ spec =>
      d v || (if fx_fconv fx then dopt spec else sc && match spec with Some _ => true | None => false end)
  | PYield v => dopt v
  end.
Definition has_await (e : pyexpr) : bool := scan false e.
Definition drops (e : pyexpr) : bool := scan true e.

End WithFixes.

Definition ref_top (top : nat) (e : pyexpr) : string := ref_at top e.

(* what the harness's expected tree does not follow: literal text of an f-string nested in a replacement field that the
   unrepaired builder takes for a string annotation *)
Fixpoint ref_unsupported (e : pyexpr) {struct e} : bool :=
  let ro := fun (o : option pyexpr) => match o with Some c => ref_unsupported c | None => false end in
  match e with
  | PName _ _ | PNum _ _ | PConst _ | PStr _ _ _ => false
  | PParsed p => ref_unsupported p
  | PAttribute v _ | PUnaryOp _ v | PKeyword _ v | PStarred v | PYieldFrom v | PAwait v => ref_unsupported v
  | PBinOp l _ r => ref_unsupported l || ref_unsupported r
  | PBoolOp _ vs | PTuple vs | PList vs | PSet vs | PDict vs => existsb ref_unsupported vs
  | PCompare l _ cs => ref_unsupported l || existsb ref_unsupported cs
  | PCall f args kws => ref_unsupported f || existsb ref_unsupported args || existsb ref_unsupported kws
  | PSubscript v _ sl => ref_unsupported v || ref_unsupported sl
  | PSlice lo up st => ro lo || ro up || ro st
  | PDictItem k v => ro k || ref_unsupported v
  | PIfExp b t o => ref_unsupported b || ref_unsupported t || ref_unsupported o
  | PLambda po pk _ ko _ body =>
      existsb ref_unsupported po || existsb ref_unsupported pk || existsb ref_unsupported ko || ref_unsupported body
  | PParam _ d => ro d
  | PNamedExpr t v => ref_unsupported t || ref_unsupported v
  | PListComp e gens | PSetComp e gens | PGeneratorExp e gens => ref_unsupported e || existsb ref_unsupported gens
  | PDictComp k v gens => ref_unsupported k || ref_unsupported v || existsb ref_unsupported gens
  | PComprehension t it ifs _ => ref_unsupported t || ref_unsupported it || existsb ref_unsupported ifs
  | PJoinedStr vs => existsb (fun c => match c with PParsed _ => true | _ => ref_unsupported c end) vs
  | PFormattedValue v _ spec => ref_unsupported v || ro spec
  | PYield v => ro v
  end.

(* ---------- well-formedness: pseudo-nodes only where the abstraction puts them; constant spellings look like reprs ---------- *)
Inductive poskind := KExpr | KItem | KParam.

Definition conv_ok (z : Z) : bool := (z =? -1)%Z || (z =? 97)%Z || (z =? 114)%Z || (z =? 115)%Z.

Fixpoint wfk (k : poskind) (e : pyexpr) {struct e} : bool :=
  let w := wfk KExpr in
  let wo := fun (o : option pyexpr) => match o with Some c => w c | None => true end in
  match e with
  | PDictItem key v => (match k with KItem => true | _ => false end) && wo key && w v
  | PParam _ d => (match k with KParam => true | _ => false end) && wo d
  | _ =>
    (match k with KExpr => true | _ => false end) &&
    match e with
    | PName _ _ => true
    | PNum isint r => Bool.eqb (is_decimal (num_text isint r)) isint    (* repr of a non-negative int is its decimal digits; a float / complex repr never is *)
    | PConst r | PStr r _ _ => negb (is_decimal r)
    | PParsed p => w p
    | PAttribute v _ | PUnaryOp _ v | PKeyword _ v | PStarred v | PYieldFrom v | PAwait v => w v
    | PBinOp l _ r => w l && w r
    | PBoolOp _ vs | PTuple vs | PList vs | PSet vs | PJoinedStr vs => forallb w vs
    | PCompare l ops cs => w l && negb (is_nil ops) && (List.length ops =? List.length cs) && forallb w cs
    | PCall f args kws => w f && forallb w args && forallb w kws
    | PSubscript v _ sl => w v && w sl
    | PSlice lo up st => wo lo && wo up && wo st
    | PDict items => forallb (wfk KItem) items
    | PIfExp b t o => w b && w t && w o
    | PLambda po pk _ ko _ body =>
        forallb (wfk KParam) po && forallb (wfk KParam) pk && forallb (wfk KParam) ko && w body
    | PNamedExpr t v => w t && w v
    | PListComp e gens | PSetComp e gens | PGeneratorExp e gens => w e && forallb w gens
    | PDictComp key v gens => w key && w v && forallb w gens
    | PComprehension t it ifs _ => w t && w it && forallb w ifs
    | PFormattedValue v conv spec =>
        w v && conv_ok conv && wo spec && (match spec with Some sp => is_joined sp | None => true end)
    | PYield v => wo v
    | PDictItem _ _ | PParam _ _ => false
    end
  end.
Definition wf (e : pyexpr) : bool := wfk KExpr e.

(* ---------- names of the source, in textual order (Name ids and attribute names) ---------- *)
Fixpoint src_names (e : pyexpr) {struct e} : list string :=
  let sn := src_names in
  let so := fun (o : option pyexpr) => match o with Some c => sn c | None => [] end in
  match e with
  | PName id _ => [id]
  | PNum _ _ | PConst _ | PStr _ _ _ => []
  | PParsed p => sn p
  | PAttribute v a => sn v ++ [a]
  | PBinOp l _ r => sn l ++ sn r
  | PBoolOp _ vs | PTuple vs | PList vs | PSet vs | PDict vs | PJoinedStr vs => flat_map sn vs
  | PUnaryOp _ v | PKeyword _ v | PStarred v | PYieldFrom v | PAwait v => sn v
  | PCompare l _ cs => sn l ++ flat_map sn cs
  | PCall f args kws => sn f ++ flat_map sn args ++ flat_map sn kws
  | PSubscript v _ sl => sn v ++ sn sl
  | PSlice lo up st => so lo ++ so up ++ so st
  | PDictItem k v => so k ++ sn v
  | PIfExp b t o => sn b ++ sn t ++ sn o
  | PLambda po pk _ ko _ body => flat_map sn po ++ flat_map sn pk ++ flat_map sn ko ++ sn body
  | PParam _ d => so d
  | PNamedExpr t v => sn t ++ sn v
  | PListComp e1 gens | PSetComp e1 gens | PGeneratorExp e1 gens => sn e1 ++ flat_map sn gens
  | PDictComp k v gens => sn k ++ sn v ++ flat_map sn gens
  | PComprehension t it ifs _ => sn t ++ sn it ++ flat_map sn ifs
  | PFormattedValue v _ spec => sn v ++ so spec
  | PYield v => so v
  end.

Definition item_names (l : list item) : list string :=
  flat_map (fun i => match i with IExpr (GName n _) => [n] | _ => [] end) l.
