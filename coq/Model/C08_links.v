(* C08 model: which expressions come back from a reload exactly as they were -- a structural predicate that does not
   mention the loader ([canon]), proved equal to the round trip itself ([slot_restored]) in Proofs/C08_links.v.
   Executable definitions only. *)
From Coq Require Import List ZArith String Ascii Bool Arith.
From Verif Require Import Lib.Sexp Gen.C08_tables Model.C08_json.
Import ListNotations.
Open Scope string_scope.
Open Scope list_scope.
Open Scope nat_scope.

Definition link_eqb (a b : plink) : bool :=
  match a, b with
  | LNone, LNone | LScope, LScope | LPrev, LPrev | LStr, LStr | LOther, LOther => true
  | _, _ => false
  end.

(* the link the loader gives a name that follows, in a dotted chain, elements that left the loop in state p *)
Definition chain_link (p : prevk) : plink := match link_of p with Some l => l | None => LNone end.

(* the names of a dotted chain after its first element *)
Fixpoint canon_chain (p : prevk) (r : list ev) : bool :=
  match r with
  | [] => true
  | VName _ lk :: r' => link_eqb lk (chain_link p) && canon_chain PvName r'
  | _ :: _ => false
  end.

(* every name carries the link a reload gives it, and every enum-typed field is one the loader converts back:
   a name outside a chain is attached to the scope; in a chain `a.b.c` the first element is treated like any
   expression, a name after a name is linked to it, a name after a string literal to "str", a name after any other
   expression to nothing; ExprParameter.kind holds the ParameterKind member itself *)
Fixpoint canon (e : ev) : bool :=
  match e with
  | VNone | VBool _ | VStr _ | VInt _ => true
  | VEnum _ => false
  | VList l => forallb canon l
  | VName _ p => link_eqb p LScope
  | VNode c fs =>
      if String.eqb c "ExprAttribute"
      then match fs with
           | [(_, VList (v0 :: r))] => canon v0 && canon_chain (next_prev PvNone v0) r
           | _ => false
           end
      else forallb (fun kv => match kv with
                              | (k, v) => if String.eqb c "ExprParameter" && String.eqb k "kind"
                                          then match v with VEnum _ => true | _ => false end
                                          else canon v
                              end) fs
  end.

Definition canon_deco (d : decorator) : bool := canon (dc_value d).
Definition canon_param (p : parameter) : bool := canon (p_annotation p) && canon (p_default p).
Definition canon_extra (x : extra) : bool :=
  match x with
  | XModule _ => true
  | XClass bases decos => forallb canon bases && forallb canon_deco decos
  | XFunction decos params ret => forallb canon_deco decos && forallb canon_param params && canon ret
  | XAttribute v a => canon v && canon a
  end.
Fixpoint canon_tree (t : tree) : bool :=
  match t with
  | TAlias _ _ _ _ => true
  | TObj _ _ _ _ _ members x => canon_extra x && forallb (fun km => match km with (_, m) => canon_tree m end) members
  end.
