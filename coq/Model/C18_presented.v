(* C18 model, part 5: the constructor Griffe PRESENTS for a class (Class.parameters = all_members["__init__"].parameters:
   the class' own __init__ member, else the one of the first class of its MRO that has one) against the one CPython
   resolves (cls.__init__ along __mro__, i.e. inspect.signature(cls)).  Executable definitions only. *)
From Coq Require Import List Arith Bool ZArith String.
From Verif Require Import Lib.Sexp Model.C18_dataclass Model.C18_modes.
Import ListNotations.
Open Scope list_scope. Open Scope nat_scope.

Fixpoint first_init (f : nat -> init_member) (l : list nat) : option (nat * init_member) :=
  match l with
  | [] => None
  | j :: r => match f j with Absent => first_init f r | m => Some (j, m) end
  end.

Definition gm_member_at (m : mode) (t : table) (j : nat) : init_member :=
  match nth_error t j with Some b => gm_init_member m t j b | None => Absent end.
Definition py_member_at (t : table) (e : env) (j : nat) : init_member :=
  match nth_error t j with Some b => py_init_member e j b | None => Absent end.

(* (providing class, its __init__ member); None = no __init__ anywhere but object's *)
Definition gm_presented (m : mode) (t : table) (i : nat) (c : cls) : option (nat * init_member) :=
  first_init (gm_member_at m t) (i :: c_mro c).
Definition py_presented (t : table) (e : env) (i : nat) (c : cls) : option (nat * init_member) :=
  first_init (py_member_at t e) (i :: c_mro c).

(* the parameters after self; the hand-written __init__ of class j is `def __init__(self, q<j>)`, name 100 + j *)
Definition hw_name (j : nat) : name := 100 + j.
Definition presented_params (o : option (nat * init_member)) : list param :=
  match o with
  | Some (j, Handwritten) => [mkp (hw_name j) PK false]
  | Some (_, Synth ps) => ps
  | _ => []
  end.
