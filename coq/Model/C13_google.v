(* C13 model, part 2: src/_griffe/docstrings/google.py at character level.
   _read_block_items, _read_block, the item readers of every section kind, _RE_ADMONITION and
   _RE_NAME_ANNOTATION_DESCRIPTION hand-compiled to functions, _annotation_from_parent, the Examples reader,
   and the main loop of parse_google.  Executable definitions only. *)
From Coq Require Import List Ascii String Bool Arith.
From Verif Require Import Model.C13_strings Gen.C13_tables.
Import ListNotations.
Open Scope char_scope.
Open Scope list_scope.
Open Scope nat_scope.

Inductive kind := KParams | KOther | KRaises | KWarns | KExamples | KAttrs | KFuncs | KClasses | KModules
                | KReturns | KYields | KReceives | KDeprecated.

Definition kind_eqb (a b : kind) : bool :=
  match a, b with
  | KParams, KParams | KOther, KOther | KRaises, KRaises | KWarns, KWarns | KExamples, KExamples | KAttrs, KAttrs
  | KFuncs, KFuncs | KClasses, KClasses | KModules, KModules | KReturns, KReturns | KYields, KYields
  | KReceives, KReceives | KDeprecated, KDeprecated => true
  | _, _ => false
  end.

(* DocstringSectionKind value -> kind *)
Definition kind_of_name (s : string) : option kind :=
  if String.eqb s "parameters" then Some KParams else
  if String.eqb s "other parameters" then Some KOther else
  if String.eqb s "raises" then Some KRaises else
  if String.eqb s "warns" then Some KWarns else
  if String.eqb s "examples" then Some KExamples else
  if String.eqb s "attributes" then Some KAttrs else
  if String.eqb s "functions" then Some KFuncs else
  if String.eqb s "classes" then Some KClasses else
  if String.eqb s "modules" then Some KModules else
  if String.eqb s "returns" then Some KReturns else
  if String.eqb s "yields" then Some KYields else
  if String.eqb s "receives" then Some KReceives else
  if String.eqb s "deprecated" then Some KDeprecated else None.

Fixpoint table_lookup (t : list (string * string)) (key : str) : option kind :=
  match t with
  | [] => None
  | (k, v) :: r => if str_eqb (s_of k) key then kind_of_name v else table_lookup r key
  end.

(* google._section_kind.get(title) ; the table is regenerated from the source on every run *)
Definition g_section_kind (title_lower : str) : option kind := table_lookup google_section_kind title_lower.

(* ---- the documented object, as far as the parsers look at it *)
Inductive rpart := RPName (s : str) | RPTuple (whole : str) (elems : list str).
Inductive rann :=
| RNone                                   (* no parent / no return annotation *)
| RPlain (p : rpart)
| RIter (whole : str) (p : rpart)          (* Iterator[p] *)
| RGen (whole : str) (y s r : rpart).      (* Generator[y, s, r] *)

Record pctx := mkCtx {
  c_params : option (list (str * (option str * option str)));   (* None: parent has no .parameters *)
  c_attrs : option (list (str * option str));                   (* None: parent[name] raises *)
  c_ret : rann }.

Definition no_parent : pctx := mkCtx None None RNone.

Fixpoint assoc {A} (k : str) (l : list (str * A)) : option A :=
  match l with
  | [] => None
  | (k', v) :: r => if str_eqb k' k then Some v else assoc k r
  end.

(* docstring.parent.parameters[name]  (Parameters.__getitem__ strips leading stars) *)
Definition lookup_param (c : pctx) (name : str) : option (option str * option str) :=
  match c_params c with
  | None => None
  | Some ps => assoc (lstrip_char "*" name) ps
  end.

(* docstring.parent[name].annotation : None = lookup failed, Some a = found with annotation a *)
Definition lookup_attr (c : pctx) (name : str) : option (option str) :=
  match c_attrs c with
  | None => None
  | Some l => assoc name l
  end.

Definition rpart_text (p : rpart) : str := match p with RPName s => s | RPTuple w _ => w end.

Definition tuple_split (multiple : bool) (index : nat) (p : rpart) : str :=
  match p with
  | RPName s => s
  | RPTuple w es => if multiple then match nth_error es index with Some e => e | None => w end else w
  end.

(* _annotation_from_parent(docstring, gen_index=…, multiple=…, index=…) *)
Definition annotation_from_parent (c : pctx) (gen_index : nat) (multiple : bool) (index : nat) : option str :=
  match c_ret c with
  | RNone => None
  | RPlain p => Some (tuple_split multiple index p)
  | RIter w p => if gen_index =? 0 then Some (tuple_split multiple index p) else Some w
  | RGen w y s r => Some (tuple_split multiple index (match gen_index with 0 => y | 1 => s | _ => r end))
  end.

(* ---- parsed items / sections *)
Record pitem := mkItem { p_name : option str; p_ann : option str; p_desc : str; p_value : option str }.

Inductive gsec :=
| GText (v : str)
| GItems (k : kind) (title : option str) (items : list pitem)
| GAdm (akind : str) (title : str) (text : str)
| GExamples (title : option str) (chunks : list (bool * str)).      (* true = console example, false = prose *)

Inductive presult := POk (l : list gsec) | PErr (e : string) | PFuel.

(* ---- block readers.  They work on the lines that follow the section title and say how many they consumed. *)

(* while _is_empty_line(lines[new_offset]): new_offset += 1   -- None = IndexError *)
Fixpoint skip_empty (ls : list str) : option (nat * str * list str) :=
  match ls with
  | [] => None
  | l :: r => if is_empty_line l
              then match skip_empty r with Some (n, f, a) => Some (S n, f, a) | None => None end
              else Some (0, l, r)
  end.

(* the loop of _read_block_items after the first item line: (remaining lines of the current item, later items, #lines) *)
Fixpoint rbi (ind : nat) (ls : list str) : list str * list (list str) * nat :=
  match ls with
  | [] => ([], [], 0)
  | l :: r =>
      if is_empty_line l then let '(c, its, k) := rbi ind r in ([] :: c, its, S k)
      else if startswith (spaces (ind * 2)) l then let '(c, its, k) := rbi ind r in (skipn (ind * 2) l :: c, its, S k)
      else if startswith (spaces (ind + 1)) l then let '(c, its, k) := rbi ind r in (lstrip l :: c, its, S k)
      else if startswith (spaces ind) l then let '(c, its, k) := rbi ind r in ([], (skipn ind l :: c) :: its, S k)
      else ([], [], 0)
  end.

Inductive rb_items := RBI (items : list (list str)) (consumed : nat) | RBIErr.

Definition read_block_items (ls : list str) : rb_items :=
  match ls with
  | [] => RBI [] 0
  | _ => match skip_empty ls with
         | None => RBIErr
         | Some (nskip, first, after) =>
             let ind := indent_of first in
             if ind =? 0 then RBI [] nskip
             else let '(c, its, k) := rbi ind after in RBI ((skipn ind first :: c) :: its) (nskip + 1 + k)
         end
  end.

Fixpoint rb_rest (ind : nat) (ls : list str) : list str * nat :=
  match ls with
  | [] => ([], 0)
  | l :: r => if startswith (spaces ind) l || is_empty_line l
              then let '(b, k) := rb_rest ind r in (skipn ind l :: b, S k)
              else ([], 0)
  end.

Inductive rb_block := RBB (text : str) (consumed : nat) | RBBErr.

Definition read_block (ls : list str) : rb_block :=
  match ls with
  | [] => RBB [] 0
  | _ => match skip_empty ls with
         | None => RBBErr
         | Some (nskip, first, after) =>
             let ind := indent_of first in
             if ind =? 0 then RBB [] 0
             else let '(b, k) := rb_rest ind after in
                  RBB (rstrip_nl (join_nl (lstrip first :: b))) (nskip + 1 + k)
         end
  end.

(* "\n".join([description.lstrip(), *lines[1:]]).rstrip("\n") *)
Definition desc_of (d0 : str) (conts : list str) : str := rstrip_nl (join_nl (lstrip d0 :: conts)).

Definition colon : ascii := ":".
Definition s_optional : str := s_of ", optional".

(* annotation.strip("()").removesuffix(", optional") ; parse_docstring_annotation keeps the text *)
Definition clean_annotation (a : str) : str := removesuffix s_optional (strip_parens a).

(* one item of _read_parameters *)
Definition parse_param (c : pctx) (it : list str) : option pitem :=
  match it with
  | [] => None
  | l0 :: conts =>
      match split_first colon l0 with
      | None => None                                  (* "Failed to get 'name: description' pair" : skipped *)
      | Some (nwt, d) =>
          let '(name, ann) :=
            match split_first sp nwt with
            | Some (n, a) => (n, Some (clean_annotation a))
            | None => (nwt, match lookup_param c nwt with Some (a, _) => a | None => None end)
            end in
          let dflt := match lookup_param c name with Some (_, v) => v | None => None end in
          Some (mkItem (Some name) ann (desc_of d conts) dflt)
      end
  end.

(* one item of _read_attributes_section (`annotation = None` at the top of each iteration) *)
Definition parse_attr (c : pctx) (it : list str) : option pitem :=
  match it with
  | [] => None
  | l0 :: conts =>
      match split_first colon l0 with
      | None => None
      | Some (nwt, d) =>
          let '(name, ann) :=
            match split_first sp nwt with
            | Some (n, a) => (n, Some (clean_annotation a))
            | None => (nwt, match lookup_attr c nwt with Some a => a | None => None end)
            end in
          Some (mkItem (Some name) ann (desc_of d conts) None)
      end
  end.

Definition lparen : ascii := "(".

(* _read_functions_section / _read_classes_section *)
Definition parse_func (it : list str) : option pitem :=
  match it with
  | [] => None
  | l0 :: conts =>
      match split_first colon l0 with
      | None => None
      | Some (nws, d) =>
          match split_first lparen nws with
          | Some (n, _) => Some (mkItem (Some n) (Some nws) (desc_of d conts) None)
          | None => Some (mkItem (Some nws) None (desc_of d conts) None)
          end
      end
  end.

Definition parse_module (it : list str) : option pitem :=
  match it with
  | [] => None
  | l0 :: conts =>
      match split_first colon l0 with
      | None => None
      | Some (n, d) => Some (mkItem (Some n) None (desc_of d conts) None)
      end
  end.

(* _read_raises_section / _read_warns_section *)
Definition parse_raise (it : list str) : option pitem :=
  match it with
  | [] => None
  | l0 :: conts =>
      match split_first colon l0 with
      | None => None
      | Some (a, d) => Some (mkItem None (Some a) (desc_of d conts) None)
      end
  end.

Fixpoint filter_map {A B} (f : A -> option B) (l : list A) : list B :=
  match l with
  | [] => []
  | x :: r => match f x with Some y => y :: filter_map f r | None => filter_map f r end
  end.

(* _RE_NAME_ANNOTATION_DESCRIPTION (text pinned in harness/props/c13.py:PINNED_REGEX): optional prefix
   [name = \w+]? \s* [ '(' type = .+? ')' ]? ':' \s*   followed by desc = rest of the line.   -> (name, type, desc) *)
Definition re_name_annotation_description (line : str) : option str * option str * str :=
  let '(w, r1) := span is_word line in
  let name := match w with [] => None | _ => Some w end in
  let r2 := lstrip r1 in
  match r2 with
  | "(" :: r3 => match first_parencolon r3 with
                 | Some (ty, rest) => (name, Some ty, lstrip rest)
                 | None => (None, None, line)
                 end
  | ":" :: r3 => (name, None, lstrip r3)
  | _ => (None, None, line)
  end.

Definition rparen : ascii := ")".

(* _get_name_annotation_description(docstring, line_number, lines, named=…) *)
Definition get_nad (named : bool) (it : list str) : option (option str * option str * str) :=
  match it with
  | [] => None                       (* lines[0] on an empty list; callers never pass one *)
  | l0 :: conts =>
      let '(name, ann, d) :=
        if named then re_name_annotation_description l0
        else match split_first colon l0 with
             | Some (a, d) => (None, Some (rstrip_by (ceq rparen) (lstrip_char lparen a)), d)
             | None => (None, None, l0)
             end in
      Some (name, ann, desc_of d conts)
  end.

Definition truthy (o : option str) : bool := match o with Some (_ :: _) => true | _ => false end.

(* the item loop of _read_returns_section / _read_yields_section / _read_receives_section *)
Fixpoint parse_ret_items (c : pctx) (named : bool) (gen_index : nat) (multiple : bool) (index : nat)
         (items : list (list str)) : list pitem :=
  match items with
  | [] => []
  | it :: r =>
      match get_nad named it with
      | None => parse_ret_items c named gen_index multiple (S index) r
      | Some (name, ann, d) =>
          let ann' := if truthy ann then ann else annotation_from_parent c gen_index multiple index in
          mkItem (Some (match name with Some n => n | None => [] end)) ann' d None
            :: parse_ret_items c named gen_index multiple (S index) r
      end
  end.

(* ---- Examples *)
Definition s_doctest : str := s_of "doctest:".
Definition hash : ascii := "#".

(* does _RE_DOCTEST_FLAGS (blanks, '#', blanks, 'doctest:', at least one character, end) match at the start of s *)
Definition flags_at (s : str) : bool :=
  match lstrip s with
  | "#" :: r => let r' := lstrip r in
                startswith s_doctest r' && negb (List.length r' <=? List.length s_doctest)
  | _ => false
  end.

(* _RE_DOCTEST_FLAGS.sub("", line) *)
Fixpoint trim_flags (s : str) : str :=
  if flags_at s then [] else match s with [] => [] | c :: r => c :: trim_flags r end.

Definition s_blankline : str := s_of "<BLANKLINE>".
(* _RE_DOCTEST_BLANKLINE.sub("", line) *)
Definition trim_blankline (s : str) : str := if str_eqb (strip s) s_blankline then [] else s.

Definition s_fence : str := s_of "```".
Definition s_prompt : str := s_of ">>>".

Definition nonempty_list {A} (l : list A) : bool := match l with [] => false | _ => true end.

Fixpoint ex_loop (trim : bool) (in_ex in_block : bool) (cur_text cur_ex : list str) (ls : list str) : list (bool * str) :=
  match ls with
  | [] => if nonempty_list cur_text then [(false, rstrip_nl (join_nl cur_text))]
          else if nonempty_list cur_ex then [(true, join_nl cur_ex)] else []
  | l :: r =>
      if is_empty_line l then
        if in_ex then (if nonempty_list cur_ex then [(true, join_nl cur_ex)] else []) ++ ex_loop trim false in_block cur_text [] r
        else ex_loop trim false in_block (cur_text ++ [l]) cur_ex r
      else if in_ex then
        let l' := if trim then trim_blankline (trim_flags l) else l in
        ex_loop trim true in_block cur_text (cur_ex ++ [l']) r
      else if startswith s_fence l then ex_loop trim false (negb in_block) (cur_text ++ [l]) cur_ex r
      else if in_block then ex_loop trim false in_block (cur_text ++ [l]) cur_ex r
      else if startswith s_prompt l then
        (if nonempty_list cur_text then [(false, rstrip_nl (join_nl cur_text))] else [])
          ++ ex_loop trim true in_block [] (cur_ex ++ [if trim then trim_flags l else l]) r
      else ex_loop trim false in_block (cur_text ++ [l]) cur_ex r
  end.

Definition parse_examples (trim : bool) (text : str) : list (bool * str) := ex_loop trim false false [] [] (split_nl text).

(* ---- options *)
Record gopts := mkOpts { ret_multi : bool; ret_named : bool; rec_multi : bool; rec_named : bool; trim_flags_opt : bool }.
Definition default_opts : gopts := mkOpts true true true true true.

(* _read_block_items_maybe *)
Definition read_block_items_maybe (multiple : bool) (ls : list str) : rb_items :=
  if multiple then read_block_items ls
  else match read_block ls with
       | RBBErr => RBIErr
       | RBB [] k => RBI [] k
       | RBB t k => RBI [split_nl t] k          (* one_block.split("\n") since the C13-F9 repair *)
       end.

Inductive sec_body := BItems (items : list pitem) | BExamples (chunks : list (bool * str)).
Inductive rs_result := RS (b : sec_body) (consumed : nat) | RSErr.

Definition items_reader (f : list (list str) -> list pitem) (ls : list str) : rs_result :=
  match read_block_items ls with
  | RBIErr => RSErr
  | RBI its k => RS (BItems (f its)) k
  end.

Definition ret_reader (c : pctx) (multi named : bool) (gen_index : nat) (ls : list str) : rs_result :=
  match read_block_items_maybe multi ls with
  | RBIErr => RSErr
  | RBI its k => RS (BItems (parse_ret_items c named gen_index (negb (List.length its <=? 1)) 0 its)) k
  end.

(* _section_reader[kind](docstring, offset=offset + 1, **options) *)
Definition read_section (o : gopts) (c : pctx) (k : kind) (ls : list str) : rs_result :=
  match k with
  | KParams | KOther => items_reader (filter_map (parse_param c)) ls
  | KAttrs => items_reader (filter_map (parse_attr c)) ls
  | KFuncs | KClasses => items_reader (filter_map parse_func) ls
  | KModules => items_reader (filter_map parse_module) ls
  | KRaises | KWarns => items_reader (filter_map parse_raise) ls
  | KReturns => ret_reader c (ret_multi o) (ret_named o) 2 ls
  | KYields => ret_reader c (ret_multi o) (ret_named o) 0 ls
  | KReceives => ret_reader c (rec_multi o) (rec_named o) 1 ls
  | KExamples => match read_block ls with
                 | RBBErr => RSErr
                 | RBB t k => RS (BExamples (parse_examples (trim_flags_opt o) t)) k
                 end
  | KDeprecated => RSErr           (* google has no such reader; the table never yields it *)
  end.

(* ---- _RE_ADMONITION (text pinned in harness/props/c13.py:PINNED_REGEX): type = one \w then any of \s \w '-',
   a colon, then either only blanks or blanks followed by title = the rest starting at a non-blank.  -> (type, title) *)
Definition adm_char (c : ascii) : bool := is_space c || is_word c || ceq c "-".

Definition re_admonition (line : str) : option (str * option str) :=
  match line with
  | c :: _ =>
      if is_word c then
        let '(ty, r) := span adm_char line in
        match r with
        | ":" :: rest =>
            if is_empty_line rest then Some (ty, None)
            else match rest with
                 | s :: _ => if is_space s then Some (ty, Some (lstrip rest)) else None
                 | [] => None
                 end
        | _ => None
        end
      else None
  | [] => None
  end.

Definition dash : ascii := "-".
(* admonition_type.lower().replace(" ", "-") *)
Definition dashify (s : str) : str := map (fun c => if ceq c sp then dash else c) (lower s).

Definition any_truthy (cur : list str) : bool := existsb (fun l => nonempty_list l) cur.
Definition text_of (cur : list str) : str := rstrip_nl (join_nl cur).
(* if current_section: if any(current_section): sections.append(Text(...)) *)
Definition flush (cur : list str) : list gsec := if any_truthy cur then [GText (text_of cur)] else [].

Definition is_blank_opt (o : option str) : bool := match o with Some x => is_empty_line x | None => false end.
Definition indented_opt (o : option str) : bool :=
  match o with Some x => negb (is_empty_line x) && startswith [sp] x | None => false end.

Definition prev_blank_after (rest : list str) (consumed : nat) : bool :=
  match consumed with
  | 0 => false                         (* the previous line is the section title itself *)
  | S c => match nth_error rest c with Some x => is_empty_line x | None => true end
  end.

Definition titled (title : option str) (k : kind) (b : sec_body) : list gsec :=
  match b with
  | BItems [] => []                    (* if section: ... *)
  | BItems its => [GItems k title its]
  | BExamples [] => []
  | BExamples ch => [GExamples title ch]
  end.

Definition pcons (x : list gsec) (r : presult) : presult :=
  match r with POk l => POk (x ++ l) | e => e end.

Definition is_fence (l : str) : bool := startswith s_fence (lstrip_sp l).

(* the while loop of parse_google.  cur = current_section, prev_blank = "no previous line or it is blank". *)
Fixpoint gloop (fuel : nat) (o : gopts) (c : pctx) (cur : list str) (incode : bool) (prev_blank : bool)
         (lines : list str) : presult :=
  match fuel with
  | 0 => PFuel
  | S fuel' =>
    match lines with
    | [] => POk (match cur with [] => [] | _ => [GText (text_of cur)] end)
    | l :: rest =>
        let plain := fun (_ : unit) => gloop fuel' o c (cur ++ [l]) false (is_empty_line l) rest in
        if incode then gloop fuel' o c (cur ++ [l]) (negb (is_fence l)) (is_empty_line l) rest
        else if is_fence l then gloop fuel' o c (cur ++ [l]) true (is_empty_line l) rest
        else match re_admonition l with
             | None => plain tt
             | Some (ty, title) =>
                 let n1 := nth_error rest 0 in
                 let n2 := nth_error rest 1 in
                 let blank_below := is_blank_opt n1 in
                 let ind1 := indented_opt n1 in
                 let ind2 := indented_opt n2 in
                 if negb (ind1 || ind2) then plain tt
                 else if negb prev_blank || (ind2 && blank_below) then plain tt
                 else match g_section_kind (lower ty) with
                      | Some k =>
                          match read_section o c k rest with
                          | RSErr => PErr "IndexError"
                          | RS b n => pcons (flush cur ++ titled title k b)
                                            (gloop fuel' o c [] false (prev_blank_after rest n) (skipn n rest))
                          end
                      | None =>
                          match read_block rest with
                          | RBBErr => PErr "IndexError"
                          | RBB [] _ => plain tt
                          | RBB t n => pcons (flush cur ++ [GAdm (dashify ty) (match title with Some x => x | None => ty end) t])
                                             (gloop fuel' o c [] false (prev_blank_after rest n) (skipn n rest))
                          end
                      end
             end
    end
  end.

(* parse_google(docstring, **options) on docstring.lines *)
Definition parse_google (o : gopts) (c : pctx) (lines : list str) : presult :=
  gloop (S (List.length lines)) o c [] false true lines.
