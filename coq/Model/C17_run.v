(* C17: the one function extracted for the correspondence checks; dispatches on the leading tag. *)
From Coq Require Import List ZArith String Ascii Bool Arith.
From Verif Require Import Lib.Sexp Model.C17_base Gen.C17_tables Model.C17_agents Model.C17_bases Model.C17_pyobj Model.C17_star Model.C17_rebind Model.C17_hooks.
Import ListNotations.
Open Scope string_scope.
Open Scope list_scope.

Definition run_C17_all (s : sexp) : sexp :=
  match s with
  | SList [SStr "bases"; sc; bs] =>
      match as_list_of dec_sframe sc, as_list_of dec_base bs with
      | Some sc', Some bs' => run_bases sc' bs'
      | _, _ => bad_input
      end
  | _ =>
      match run_pyobj s with
      | Some r => r
      | None => match run_star s with
                | Some r => r
                | None => match run_rebind s with
                          | Some r => r
                          | None => match run_hooks s with Some r => r | None => run_C17 s end
                          end
                end
      end
  end.
