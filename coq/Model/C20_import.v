(* C20 — the "package absent at that reference" path of load_git with inspection allowed (the default):
   GriffeLoader.load falls back to dynamic_import(top_module, finder.search_paths), and the inspector imports every module
   it analyses the same way. Executable definitions only:
     - the import system of the calling process as a state: sys.path, sys.modules, which directory provides which
       top-level module, whether byte code is written, the __pycache__ entries written so far;
     - importlib.import_module, importer.sys_path (its law for the new sys.path is REGENERATED from
       src/_griffe/importer.py into Gen/C20_syspath.v), importer.dynamic_import, the fallback of GriffeLoader.load,
       the search paths load_git hands to load;
     - s-expression codec and run_import (dispatched from run_C20). *)
From Coq Require Import List ZArith String Ascii Bool Arith.
From Verif Require Import Lib.Sexp Gen.C20_syspath.
Import ListNotations.
Open Scope string_scope. Open Scope list_scope. Open Scope nat_scope.

Definition dir := nat.      (* identity of a directory that can sit on sys.path *)

Record pyproc := mkProc {
  sys_path : list dir;
  sys_modules : list (string * dir);     (* already imported top-level modules and where they came from *)
  provides : list (dir * string);        (* the file system: directory d holds an importable top-level module m *)
  bytecode : bool;                       (* sys.dont_write_bytecode is off *)
  pycache : list (dir * string)          (* __pycache__ entries written, oldest last *)
}.

Definition set_path (st : pyproc) (v : list dir) := mkProc v (sys_modules st) (provides st) (bytecode st) (pycache st).

Fixpoint mod_lookup (m : string) (l : list (string * dir)) : option dir :=
  match l with
  | [] => None
  | (m', d) :: r => if String.eqb m' m then Some d else mod_lookup m r
  end.

Definition has_module (st : pyproc) (d : dir) (m : string) : bool :=
  existsb (fun x => Nat.eqb (fst x) d && String.eqb (snd x) m) (provides st).

(* importlib.import_module(m) for a top-level module: sys.modules first, then the first entry of sys.path that holds it;
   a fresh import is recorded in sys.modules and, with byte code on, leaves a __pycache__ entry in that directory *)
Definition import_module (m : string) (st : pyproc) : option dir * pyproc :=
  match mod_lookup m (sys_modules st) with
  | Some d => (Some d, st)
  | None =>
      match find (fun d => has_module st d m) (sys_path st) with
      | Some d => (Some d, mkProc (sys_path st) ((m, d) :: sys_modules st) (provides st) (bytecode st)
                                  (if bytecode st then (d, m) :: pycache st else pycache st))
      | None => (None, st)
      end
  end.

(* importer.sys_path, called with the paths: no paths -> sys.path untouched; otherwise sys.path := sys_path_law paths old (generated from
   the source), the body runs, and `finally` puts the old list back *)
Definition pathlaw := list dir -> list dir -> list dir.

Definition with_sys_path_l {A} (law : pathlaw) (paths : list dir) (body : pyproc -> A * pyproc) (st : pyproc) : A * pyproc :=
  match paths with
  | [] => body st
  | _ =>
      let old := sys_path st in
      let (r, st') := body (set_path st (law paths old)) in
      (r, set_path st' old)
  end.

(* importer.dynamic_import(m, import_paths) for a top-level module *)
Definition dynamic_import_l (law : pathlaw) (m : string) (paths : list dir) (st : pyproc) : option dir * pyproc :=
  with_sys_path_l law paths (import_module m) st.

(* the modules one load imports: the top-level package of the fallback, then whatever the inspector asks for *)
Fixpoint import_all_l (law : pathlaw) (ms : list string) (paths : list dir) (st : pyproc) : list (option dir) * pyproc :=
  match ms with
  | [] => ([], st)
  | m :: r => let (o, st1) := dynamic_import_l law m paths st in
              let (os, st2) := import_all_l law r paths st1 in (o :: os, st2)
  end.

(* the code as it is: the law regenerated from importer.py *)
Definition dynamic_import := dynamic_import_l sys_path_law.
Definition import_all := import_all_l sys_path_law.

(* the law of a `sys_path` that keeps the interpreter's entries after the given ones (NOT the code as it is) *)
Definition prepend_law : pathlaw := fun paths old => paths ++ filter (fun p => negb (mem p paths)) old.

(* load_git: `search_paths = [worktree / path for path in search_paths or ["."]]` -- never empty *)
Definition git_search_paths (checkout_root : dir) (sub : list dir) : list dir :=
  match sub with [] => [checkout_root] | _ => sub end.

Inductive load_outcome := FoundOnDisk (d : dir) | Imported (d : dir) | NotFound.

(* GriffeLoader.load for a top-level package: the finder looks at the search paths on disk; when it finds nothing and
   inspection is allowed (allow_inspection or force_inspection), the top-level module is imported dynamically *)
Definition load_top_l (law : pathlaw) (pkg : string) (paths : list dir) (inspection : bool) (st : pyproc) : load_outcome * pyproc :=
  match find (fun d => has_module st d pkg) paths with
  | Some d => (FoundOnDisk d, st)
  | None =>
      if inspection then
        match dynamic_import_l law pkg paths st with
        | (Some d, st') => (Imported d, st')
        | (None, st') => (NotFound, st')
        end
      else (NotFound, st)
  end.

Definition load_top := load_top_l sys_path_law.

(* ------------------------------------------------------------------ codec *)

Definition dec_ns (x : sexp) : option (nat * string) :=
  match x with SList [a; b] => do a' <- as_nat a; do b' <- as_str b; Some (a', b') | _ => None end.
Definition dec_sn (x : sexp) : option (string * nat) :=
  match x with SList [a; b] => do a' <- as_str a; do b' <- as_nat b; Some (a', b') | _ => None end.

Definition dec_proc (x : sexp) : option pyproc :=
  match x with
  | SList [sp; sm; pv; bc] =>
      do sp' <- as_list_of as_nat sp; do sm' <- as_list_of dec_sn sm; do pv' <- as_list_of dec_ns pv; do bc' <- as_bool bc;
      Some (mkProc sp' sm' pv' bc' [])
  | _ => None
  end.

Definition enc_outcome (o : load_outcome) : sexp :=
  match o with
  | FoundOnDisk d => SList [SStr "found-on-disk"; of_nat d]
  | Imported d => SList [SStr "imported"; of_nat d]
  | NotFound => SList [SStr "not-found"]
  end.

(* ["import-load"; proc; pkg; checkout root; sub search paths; inspection] ->
   [outcome; pycache written (dir, module)...; sys.path afterwards; sys.modules afterwards] *)
Definition run_import (x : sexp) : sexp :=
  match x with
  | SList [SStr "import-load"; pr; SStr pkg; root; sub; insp] =>
      match dec_proc pr, as_nat root, as_list_of as_nat sub, as_bool insp with
      | Some st, Some root', Some sub', Some insp' =>
          let (o, st') := load_top pkg (git_search_paths root' sub') insp' st in
          SList [enc_outcome o; SList (map (fun x => SList [of_nat (fst x); SStr (snd x)]) (pycache st'));
                 SList (map of_nat (sys_path st')); SList (map (fun x => SList [SStr (fst x); of_nat (snd x)]) (sys_modules st'))]
      | _, _, _, _ => bad_input
      end
  | _ => bad_input
  end.
