(* C16 model, part 2: navigation THROUGH aliases (models.py Alias.final_target / Alias.members, mixins.py get_member).
   Alias.members is a pure function of the final target's CURRENT members: one wrapper alias per member, whose parent
   is the alias (or the wrapper) it was reached through, whose target is the target's member, whose path is the
   alias's path plus the names walked since.  Wrappers are not heap nodes: a lookup result is a [ref].
   Read-only: a link that is not resolved yet would be resolved on the way (a mutation): explicit result [EScope].
   Executable definitions only. *)
From Coq Require Import List ZArith String Ascii Bool Arith.
From Verif Require Import Lib.Sexp.
From Verif Require Import Gen.C16_shape Model.C16_tree.
Import ListNotations.
Open Scope string_scope.
Open Scope list_scope.
Open Scope nat_scope.

(* what a lookup returns: an object of the heap, or a wrapper built by Alias.members:
   RW a suf m = Alias(last suf, target = m, parent = ...) reached from the heap alias [a] by walking [suf] *)
Inductive ref := RN (i : nat) | RW (a : nat) (suf : path) (m : nat).

Definition obj_of (x : ref) : nat := match x with RN i => i | RW _ _ m => m end.

(* Alias.final_target: follow resolved links until a non-alias object; a path seen twice is a CyclicAliasError *)
Fixpoint final_from (s : state) (fuel : nat) (seen : list path) (x : nat) : res nat :=
  match fuel with
  | 0 => Err EFuel
  | S f =>
    match getn s x with
    | None => Err EBad
    | Some n =>
      if is_ali (nkind n) then
        match path_of s x with
        | POk p => if existsb (path_eqb p) seen then Err ECyclic
                   else match ntarget n with
                        | None => Err EScope                 (* Alias.target would resolve it now *)
                        | Some t => final_from s f (p :: seen) t
                        end
        | PAttr => Err EMissing
        | PFuel => Err EFuel
        end
      else Ok x
    end
  end.

Definition ffuel (s : state) : nat := S (List.length (heap s)).

Definition ref_path (s : state) (x : ref) : pres :=
  match x with
  | RN i => path_of s i
  | RW a suf _ => match path_of s a with POk p => POk (p ++ suf) | e => e end
  end.

(* the object whose members a lookup continues in *)
Definition ref_final (s : state) (x : ref) : res nat :=
  match x with
  | RN i => final_from s (ffuel s) [] i
  | RW a suf m => match ref_path s x with
                  | POk p => final_from s (ffuel s) [p] m      (* the wrapper's own path is the first one seen *)
                  | PAttr => Err EMissing
                  | PFuel => Err EFuel
                  end
  end.

Definition members_of (s : state) (f : nat) : list (name * nat) :=
  match getn s f with Some n => nmembers n | None => [] end.

Definition is_plain (s : state) (i : nat) : bool :=
  match getn s i with Some n => negb (is_ali (nkind n)) | None => false end.

(* building the wrappers registers each of them with ITS target's aliases (Alias.__init__ -> _update_target_aliases ->
   target.aliases -> final_target): a member that is an alias whose chain is not resolved yet would be resolved on the
   way (a mutation; its failure can even escape as ValueError while the AliasResolutionError is being built): cut *)
Definition needs_resolution (s : state) (f : nat) : bool :=
  existsb (fun ky => match final_from s (ffuel s) [] (snd ky) with Err EScope => true | _ => false end) (members_of s f).

(* obj.members for an object, Alias.members for an alias or a wrapper *)
Definition members_t (s : state) (x : ref) : res (list (name * ref)) :=
  match x with
  | RN i =>
    match getn s i with
    | None => Err EBad
    | Some n =>
      if is_ali (nkind n) then
        match ref_final s x with
        | Ok f => if needs_resolution s f then Err EScope
                  else Ok (map (fun ky => (fst ky, RW i [fst ky] (snd ky))) (members_of s f))
        | Err e => Err e
        end
      else Ok (map (fun ky => (fst ky, RN (snd ky))) (nmembers n))
    end
  | RW a suf m =>
    match ref_final s x with
    | Ok f => if needs_resolution s f then Err EScope
              else Ok (map (fun ky => (fst ky, RW a (suf ++ [fst ky]) (snd ky))) (members_of s f))
    | Err e => Err e
    end
  end.

Definition rlookup := @lookup name ref String.eqb.

(* get_member from an object / alias / wrapper: one dictionary access per name *)
Fixpoint gett_from (s : state) (x : ref) (p : path) : res ref :=
  match p with
  | [] => Ok x
  | k :: rest =>
    match members_t s x with
    | Err e => Err e
    | Ok ms => match rlookup k ms with None => Err EMissing | Some y => gett_from s y rest end
    end
  end.

(* get_member on the collection or on an object *)
Definition gett (s : state) (r : recv) (p : path) : res ref :=
  match p with
  | [] => Err EValue
  | k :: rest =>
    match r with
    | RRoot => match mlookup k (root s) with None => Err EMissing | Some y => gett_from s (RN y) rest end
    | RObj i => gett_from s (RN i) p
    end
  end.

(* the chained lookup through final targets, without wrappers: at every step go to the final target, take its member *)
Fixpoint getc (s : state) (i : nat) (p : path) : res nat :=
  match p with
  | [] => Ok i
  | k :: rest =>
    match final_from s (ffuel s) [] i with
    | Err e => Err e
    | Ok f => match mlookup k (members_of s f) with None => Err EMissing | Some y => getc s y rest end
    end
  end.

(* ---- codec: the differential run asks for lookups in the state a history ends in *)
Definition enc_ref (s : state) (x : ref) : sexp :=
  match x with
  | RN i => SList [SStr "n"; of_nat i]
  | RW a suf m => SList [SStr "w"; enc_pres (ref_path s x); of_nat m]
  end.

Definition enc_res_ref (s : state) (r : res ref) : sexp :=
  match r with Ok x => SList [SStr "ok"; enc_ref s x] | Err e => SList [enc_err (Some e)] end.

Definition dec_query (q : sexp) : option (recv * path) :=
  match q with
  | SList [r; p] => do r' <- dec_recv r; do p' <- dec_path p; Some (r', p')
  | _ => None
  end.

Definition run_C16t (x : sexp) : sexp :=
  match x with
  | SList [SStr "through"; ops; qs] =>
      match as_list_of dec_op ops, as_list_of dec_query qs with
      | Some l, Some ql =>
          let sf := snd (outcomes init l) in      (* = run attach_before_retarget init l *)
          SList (map (fun rq => enc_res_ref sf (gett sf (fst rq) (snd rq))) ql)
      | _, _ => bad_input
      end
  | _ => run_C16 x
  end.
