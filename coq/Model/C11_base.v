(* C11: the vocabulary shared by the generated definitions (Gen/C11_ladder.v, regenerated from mixins.py and diff.py on every
   run) and the model (Model/C11_apidiff.v).  Executable definitions only. *)
From Coq Require Import List Arith Bool String Ascii.
Open Scope string_scope. Open Scope nat_scope.

(* str.startswith / str.endswith *)
Definition starts_with (p s : string) := prefix p s.
Definition ends_with (suf s : string) :=
  Nat.leb (String.length suf) (String.length s) &&
  String.eqb (substring (String.length s - String.length suf) (String.length suf) s) suf.

Inductive okind := KModule | KClass | KFunction | KAttribute | KAlias.
Definition okind_eqb a b :=
  match a, b with
  | KModule, KModule | KClass, KClass | KFunction, KFunction | KAttribute, KAttribute | KAlias, KAlias => true
  | _, _ => false end.

(* what ObjectAliasMixin.is_public looks at: self.public (set? value), self.is_alias, self.is_module, self.name,
   bool(self.parent), self.parent.is_module, self.parent.exports is not None, self.name in self.parent.exports,
   self.name in self.parent.imports *)
Record facts := mkFacts {
  f_public_set : bool; f_public_val : bool; f_is_alias : bool; f_is_module : bool; f_name : string;
  f_has_parent : bool; f_parent_is_module : bool; f_parent_has_exports : bool;
  f_in_parent_exports : bool; f_in_parent_imports : bool }.

(* what _type_based_yield does with a pair: _alias_incompatibilities, ObjectChangedKindBreakage, _member_incompatibilities,
   _class_incompatibilities, _function_incompatibilities, _attribute_incompatibilities, nothing *)
Inductive action := AAlias | AKindChanged | AMembers | AClass | AFunction | AAttribute | ANothing.
(* what the seen_paths guard is keyed on *)
Inductive seen_key := SeenPair | SeenOld | SeenNew.
