(* C04 model: name resolution in stored expressions.
   Griffe side : models.py Object.resolve / Function.resolve, expressions.py ExprName.canonical_path and
                 _build_attribute chaining, agents/nodes/imports.py relative_to_absolute,
                 agents/visitor.py visit_import / visit_importfrom (what alias member a statement creates).
   Spec side   : CPython scoping (LOAD_NAME in a class body: class namespace, globals, builtins; enclosing class
                 bodies are skipped, enclosing function scopes are closed over, the module is the last static scope),
                 importlib._bootstrap._resolve_name and the import statement's binding rules.
   Executable definitions only. *)
From Coq Require Import List ZArith String Ascii Bool Arith.
From Verif Require Import Lib.Sexp.
Import ListNotations.
Open Scope string_scope.
Open Scope list_scope.
Open Scope nat_scope.
Infix "+++" := String.append (right associativity, at level 60).

(* ------------------------------------------------------------------------------------------------ scopes *)
Inductive kind := KModule | KClass | KFunction.
(* a member of a scope: an object defined there (its path is <scope path>.<name>) or an alias with a target path *)
Inductive member := MObj | MAlias (target : string).
Record frame := mkFrame { fkind : kind; fname : string; fmembers : list (string * member); fparams : list string }.
(* A referencing position is the chain of scope objects from the innermost one (ExprName.parent) outwards along
   Object.parent up to the root (parent None). *)
Definition chain := list frame.

Fixpoint lookup {A} (n : string) (l : list (string * A)) : option A :=
  match l with [] => None | (k, v) :: r => if String.eqb k n then Some v else lookup n r end.
Fixpoint mem (n : string) (l : list string) : bool :=
  match l with [] => false | k :: r => String.eqb k n || mem n r end.

Definition is_module (f : frame) := match fkind f with KModule => true | _ => false end.
Definition is_class (f : frame) := match fkind f with KClass => true | _ => false end.
Definition is_function (f : frame) := match fkind f with KFunction => true | _ => false end.

(* Object.path of the innermost object of a chain *)
Fixpoint path_of (c : chain) : string :=
  match c with
  | [] => ""
  | f :: rest => match rest with [] => fname f | _ :: _ => path_of rest +++ "." +++ fname f end
  end.

Definition member_path (c : chain) (n : string) (m : member) : string :=
  match m with MObj => path_of c +++ "." +++ n | MAlias t => t end.
Definition param_path (rest : chain) (n : string) : string := path_of rest +++ "(" +++ n +++ ")".

Definition nonempty {A} (l : list A) : bool := match l with [] => false | _ => true end.

(* What one object answers by itself.  Function.resolve: `self.parent and self.name == "__init__" and name in
   self.parameters` first, then Object.resolve's `name in self.members`. *)
Definition g_bind (f : frame) (rest : chain) (n : string) : option string :=
  if is_function f && nonempty rest && String.eqb (fname f) "__init__" && mem n (fparams f)
  then Some (param_path rest n)
  else match lookup n (fmembers f) with Some m => Some (member_path (f :: rest) n m) | None => None end.

(* Object.resolve; None = NameResolutionError *)
Fixpoint resolve (c : chain) (n : string) : option string :=
  match c with
  | [] => None
  | f :: rest =>
      match g_bind f rest n with
      | Some p => Some p
      | None =>
          if is_module f then None                                (* `self.parent is None or self.is_module`: raise *)
          else
          match rest with
          | [] => None                                           (* self.parent is None: raise *)
          | g :: _ => if String.eqb n (fname g) && negb (is_module g)
                      then Some (path_of rest)                   (* name == self.parent.name and not module *)
                      else resolve rest n
          end
      end
  end.

(* ExprName.canonical_path with a scope object as parent: the error is caught, the name comes back unchanged *)
Definition canonical (c : chain) (n : string) : string :=
  match resolve c n with Some p => p | None => n end.

(* The same walk, recording whether the frame that answered is one CPython consults from the innermost scope:
   TOk, or a class body CPython skips (TClassLeak).  (The walk ends at the nearest module since the repair of C04-F2.) *)
Inductive tag := TOk | TClassLeak.
Fixpoint resolve_tagged (inner : bool) (c : chain) (n : string) : option (string * tag) :=
  match c with
  | [] => None
  | f :: rest =>
      match g_bind f rest n with
      | Some p => Some (p, if is_class f && negb inner then TClassLeak else TOk)
      | None =>
          if is_module f then None
          else
          match rest with
          | [] => None
          | g :: r => if String.eqb n (fname g) && negb (is_module g)
                      then Some (path_of rest,
                                 match r with
                                 | h :: _ => if is_class h then TClassLeak else TOk
                                 | [] => TClassLeak
                                 end)
                      else resolve_tagged false rest n
          end
      end
  end.

Definition tag_of (c : chain) (n : string) : option tag := option_map snd (resolve_tagged true c n).
(* known-gap predicate (decidable) *)
Definition gap_class (c : chain) (n : string) : bool := match tag_of c n with Some TClassLeak => true | _ => false end.

(* ------------------------------------------------------------------------------------------------ CPython *)
(* what a scope binds: parameters of a function are locals of every function (written <class path>(<name>), the only
   notation Griffe has for them); then the names bound in that scope *)
Definition py_bind (f : frame) (rest : chain) (n : string) : option string :=
  if is_function f && mem n (fparams f)
  then Some (param_path rest n)
  else match lookup n (fmembers f) with Some m => Some (member_path (f :: rest) n m) | None => None end.

(* inner = true only at the referencing scope itself *)
Fixpoint py_scan (inner : bool) (c : chain) (n : string) : option string :=
  match c with
  | [] => None
  | f :: rest =>
      match fkind f with
      | KModule => py_bind f rest n                       (* globals; then builtins: no static binding *)
      | KClass => if inner
                  then match py_bind f rest n with Some p => Some p | None => py_scan false rest n end
                  else py_scan false rest n               (* enclosing class bodies are not in scope *)
      | KFunction => match py_bind f rest n with Some p => Some p | None => py_scan false rest n end
      end
  end.
Definition py_lookup (c : chain) (n : string) : option string := py_scan true c n.

(* well-formed chains: what the visitor builds *)
Definition registered (f g : frame) : bool :=
  match lookup (fname f) (fmembers g) with Some MObj => true | _ => false end.
Fixpoint disjoint (ps : list string) (ms : list (string * member)) : bool :=
  match ps with [] => true | p :: r => (match lookup p ms with None => true | Some _ => false end) && disjoint r ms end.
Definition frame_ok (f : frame) (rest : chain) : bool :=
  match fkind f with
  | KModule => match rest with [] => true | g :: _ => is_module g end
  | KClass => match rest with [] => false | g :: _ => registered f g end
  | KFunction => String.eqb (fname f) "__init__"
                 && match rest with [] => false | g :: _ => is_class g && registered f g end
                 && disjoint (fparams f) (fmembers f)
                 && negb (mem (fname f) (fparams f))
                 && match lookup (fname f) (fmembers f) with None => true | Some _ => false end
  end.
Fixpoint wf_chain (c : chain) : bool :=
  match c with [] => true | f :: rest => frame_ok f rest && wf_chain rest end.

(* names bound by the expression itself (comprehension targets, lambda parameters): CPython binds a local, which has
   no dotted path, so the identifier stays as written; Griffe does not track them *)
Definition py_canonical (local : bool) (c : chain) (n : string) : string :=
  if local then n else match py_lookup c n with Some p => p | None => n end.
Definition gap_local (local : bool) (c : chain) (n : string) : bool :=
  local && match resolve c n with Some _ => true | None => false end.

(* statement vocabulary (used by the theorems): what justifies a returned path, and "nothing binds the name" *)
Inductive justified : chain -> string -> string -> Prop :=
| JMember : forall pre f post n, lookup n (fmembers f) = Some MObj ->
    justified (pre ++ f :: post) n (path_of (f :: post) +++ "." +++ n)
| JAlias : forall pre f post n t, lookup n (fmembers f) = Some (MAlias t) ->
    justified (pre ++ f :: post) n t
| JParam : forall pre f post n, is_function f = true -> fname f = "__init__" -> mem n (fparams f) = true -> post <> [] ->
    justified (pre ++ f :: post) n (param_path post n)
| JOwnName : forall pre g post n, fname g = n -> is_module g = false ->
    justified (pre ++ g :: post) n (path_of (g :: post)).

(* the frames the walk can reach: up to and including the nearest module *)
Fixpoint in_scope_frames (c : chain) : chain :=
  match c with [] => [] | f :: rest => if is_module f then [f] else f :: in_scope_frames rest end.
Definition unbound (c : chain) (n : string) : Prop :=
  forall f, In f (in_scope_frames c) -> lookup n (fmembers f) = None.


(* ------------------------------------------------------------------------------------------------ attribute chains *)
Inductive anode := AName (n : string) | AAttr (v : anode) (a : string).          (* ast.Name / ast.Attribute *)
Inductive ename := ERoot (n : string) | EAttr (parent : ename) (a : string).    (* ExprName with scope / ExprName parent *)

Definition last_e (l : list ename) (d : ename) : ename := List.last l d.
(* _build_attribute: left is an ExprName -> [left, ExprName(attr, left)]; left is an ExprAttribute -> append, parent = last *)
Fixpoint build_attr (x : anode) : list ename :=
  match x with
  | AName n => [ERoot n]
  | AAttr v a => let l := build_attr v in l ++ [EAttr (last_e l (ERoot "")) a]
  end.
Fixpoint e_canonical (c : chain) (e : ename) : string :=
  match e with ERoot n => canonical c n | EAttr p a => e_canonical c p +++ "." +++ a end.
(* ExprAttribute.canonical_path = self.last.canonical_path *)
Definition attr_canonical (c : chain) (x : anode) : string := e_canonical c (last_e (build_attr x) (ERoot "")).
Fixpoint aroot (x : anode) : string := match x with AName n => n | AAttr v _ => aroot v end.
Fixpoint asegs (x : anode) : list string := match x with AName _ => [] | AAttr v a => asegs v ++ [a] end.
Definition dotted_from (root : string) (segs : list string) : string :=
  fold_left (fun acc s => acc +++ "." +++ s) segs root.

(* ------------------------------------------------------------------------------------------------ relative imports *)
Definition join_dots (l : list string) : string := String.concat "." l.

(* `while level > 0 and current_module.parent is not None` over the module's parent chain (innermost first) *)
Fixpoint walk_up (l : nat) (mrev : list string) : list string :=
  match l, mrev with
  | S l', _ :: ((_ :: _) as rest) => walk_up l' rest
  | _, _ => mrev
  end.

(* relative_to_absolute: the module object that `base` is taken from, as reversed path components *)
Definition griffe_base (level : nat) (mrev : list string) (is_init : bool) : list string :=
  let has_parent := match mrev with _ :: _ :: _ => true | _ => false end in
  let is_package := negb has_parent && is_init in
  let is_subpackage := has_parent && is_init in
  let level1 := if ((0 <? level) && is_package) || is_subpackage then pred level else level in
  walk_up level1 mrev.

Definition opt_prefix (m : option string) : string := match m with Some s => s +++ "." | None => "" end.

Definition relative_to_absolute (level : nat) (mrev : list string) (is_init : bool) (module : option string) (name : string) : string :=
  (if 0 <? level then join_dots (rev (griffe_base level mrev is_init)) +++ "." else "") +++ opt_prefix module +++ name.

(* importlib._bootstrap._resolve_name(module, __package__, level) for level >= 1; None = ImportError.
   __package__ is the module's own path for an __init__ module, its parent's path otherwise. *)
Definition package_rev (mrev : list string) (is_init : bool) : list string := if is_init then mrev else tl mrev.
Definition cpython_base (level : nat) (mrev : list string) (is_init : bool) : option (list string) :=
  let p := package_rev mrev is_init in
  if (level =? 0) || (List.length p <? level) then None else Some (skipn (pred level) p).
(* path of the object `from <rel> import name` binds: attribute `name` of the resolved module *)
Definition cpython_from_target (level : nat) (mrev : list string) (is_init : bool) (module : option string) (name : string) : option string :=
  if level =? 0 then Some (opt_prefix module +++ name)
  else match cpython_base level mrev is_init with
       | Some b => Some (join_dots (rev b) +++ "." +++ opt_prefix module +++ name)
       | None => None
       end.

(* ------------------------------------------------------------------------------------------------ import statements *)
(* visit_import, one ast.alias: dotted name as components, optional asname -> (member name, alias target) *)
Definition visit_import (comps : list string) (asname : option string) : string * string :=
  match asname with
  | Some a => (a, join_dots comps)
  | None => (hd "" comps, hd "" comps)
  end.
(* CPython: `import a.b` binds `a` to the top-level package; `import a.b as c` binds `c` to the submodule a.b *)
Definition cpython_import (comps : list string) (asname : option string) : string * string :=
  match asname with
  | Some a => (a, join_dots comps)
  | None => (hd "" comps, join_dots (firstn 1 comps))
  end.

Inductive from_result :=
| FSkip                                          (* `continue`: nothing recorded *)
| FImportsOnly (name path : string)              (* imports[name] = path, no alias member (would point to itself) *)
| FAlias (name path : string).                   (* imports[name] = path and Alias(name, path) set as member *)

(* visit_importfrom, one non-star ast.alias.  scope_path = self.current.path (module or class being visited) *)
Definition visit_importfrom (mrev : list string) (is_init : bool) (scope_path : string)
                            (level : nat) (module : option string) (name : string) (asname : option string) : from_result :=
  let no_module := match module with None => true | Some s => String.eqb s "" end in
  let no_asname := match asname with None => true | Some s => String.eqb s "" end in
  if no_module && (level =? 1) && no_asname && is_init then FSkip
  else
    let module' := if no_module then None else module in
    let alias_path := relative_to_absolute level mrev is_init module' name in
    let alias_name := if no_asname then name else match asname with Some a => a | None => name end in
    if String.eqb alias_path (scope_path +++ "." +++ alias_name) then FImportsOnly alias_name alias_path
    else FAlias alias_name alias_path.

Definition cpython_importfrom (mrev : list string) (is_init : bool)
                              (level : nat) (module : option string) (name : string) (asname : option string) : option (string * string) :=
  let module' := match module with Some s => if String.eqb s "" then None else Some s | None => None end in
  let alias_name := match asname with Some a => if String.eqb a "" then name else a | None => name end in
  match cpython_from_target level mrev is_init module' name with
  | Some p => Some (alias_name, p)
  | None => None
  end.

(* ------------------------------------------------------------------------------------------------ s-expressions *)
Definition dec_kind (s : sexp) : option kind :=
  match s with SStr "module" => Some KModule | SStr "class" => Some KClass | SStr "function" => Some KFunction | _ => None end.
Definition dec_member (s : sexp) : option (string * member) :=
  match s with
  | SList [SStr n; SList []] => Some (n, MObj)
  | SList [SStr n; SList [SStr t]] => Some (n, MAlias t)
  | _ => None
  end.
Definition dec_frame (s : sexp) : option frame :=
  match s with
  | SList [k; SStr n; ms; ps] =>
      do k' <- dec_kind k; do ms' <- as_list_of dec_member ms; do ps' <- as_list_of as_str ps;
      Some (mkFrame k' n ms' ps')
  | _ => None
  end.
Definition enc_tag (t : option tag) : sexp :=
  SStr (match t with None => "unresolved" | Some TOk => "ok" | Some TClassLeak => "class-leak" end).
Fixpoint dec_anode (segs : list string) (acc : anode) : anode :=
  match segs with [] => acc | s :: r => dec_anode r (AAttr acc s) end.
Definition enc_from (r : from_result) : sexp :=
  match r with
  | FSkip => SList [SStr "skip"]
  | FImportsOnly n p => SList [SStr "imports-only"; SStr n; SStr p]
  | FAlias n p => SList [SStr "alias"; SStr n; SStr p]
  end.

Definition run_C04 (s : sexp) : sexp :=
  match s with
  | SList [SStr "resolve"; c; SStr n; loc] =>
      match as_list_of dec_frame c, as_bool loc with
      | Some c', Some l =>
          SList [of_opt SStr (resolve c' n); enc_tag (tag_of c' n); of_opt SStr (py_lookup c' n);
                 of_bool (wf_chain c'); SStr (canonical c' n); SStr (py_canonical l c' n);
                 of_bool (gap_class c' n); of_bool (gap_local l c' n)]
      | _, _ => bad_input
      end
  | SList [SStr "attr"; c; SStr root; segs] =>
      match as_list_of dec_frame c, as_list_of as_str segs with
      | Some c', Some segs' =>
          let x := dec_anode segs' (AName root) in
          SList [SStr (attr_canonical c' x);
                 SList (map (fun e => SStr (e_canonical c' e)) (build_attr x))]
      | _, _ => bad_input
      end
  | SList [SStr "rel"; lv; m; ini; md; SStr name] =>
      match as_nat lv, as_list_of as_str m, as_bool ini, as_opt as_str md with
      | Some lv', Some m', Some ini', Some md' =>
          SList [SStr (relative_to_absolute lv' (rev m') ini' md' name);
                 of_opt SStr (cpython_from_target lv' (rev m') ini' md' name)]
      | _, _, _, _ => bad_input
      end
  | SList [SStr "import"; comps; asn] =>
      match as_list_of as_str comps, as_opt as_str asn with
      | Some comps', Some asn' =>
          let g := visit_import comps' asn' in let p := cpython_import comps' asn' in
          SList [SStr (fst g); SStr (snd g); SStr (fst p); SStr (snd p)]
      | _, _ => bad_input
      end
  | SList [SStr "from"; m; ini; SStr scope; lv; md; SStr name; asn] =>
      match as_list_of as_str m, as_bool ini, as_nat lv, as_opt as_str md, as_opt as_str asn with
      | Some m', Some ini', Some lv', Some md', Some asn' =>
          SList [enc_from (visit_importfrom (rev m') ini' scope lv' md' name asn');
                 match cpython_importfrom (rev m') ini' lv' md' name asn' with
                 | Some (a, p) => SList [SStr a; SStr p]
                 | None => SList []
                 end]
      | _, _, _, _, _ => bad_input
      end
  | _ => bad_input
  end.
