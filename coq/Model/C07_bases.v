(* C07 model, part 2: how the bases of a class statement become `Class.resolved_bases`.

   Griffe side (models.py / expressions.py / mixins.py):
     Expr.canonical_path (ExprName through Object.resolve, ExprAttribute, ExprSubscript),
     ModulesCollection.get_member walking a dotted path through aliases, Alias.final_target /
     resolve_target with their cycle guards, the loop of Class.resolved_bases that follows an attribute assigned a
     name / attribute chain (fix 3a123f9, `followed` path set), the `except (AliasResolutionError, CyclicAliasError,
     KeyError)` drop and the `is_class` filter of Class._mro.
   Authority side: what the class statement means in Python once every module has run: a name bound by
     `X = <expr>` denotes what the expression denotes, builtins and unloaded modules (object, typing.Generic)
     are classes like any other, `A[int]` stands for `A` among the bases (__mro_entries__).
   Both are one function [fin]/[walk] with a flag [follow] and a heap that is or is not extended with the
   external classes.  From a program (heap + class statements) the two class tables of Model/C07_mro.v are
   derived: [gtbl] (what Griffe linearises) and [ptbl] (what CPython linearises).
   Executable definitions only. *)
From Coq Require Import List ZArith String Bool Arith.
From Verif Require Import Lib.Sexp Model.C07_mro.
Import ListNotations.
Open Scope string_scope.
Open Scope list_scope.
Open Scope nat_scope.

Definition path := list string.

(* base expressions: K, pkg.mod.K / alias.K / Holder.K, e[...] *)
Inductive bexpr := BName (n : string) | BAttr (e : bexpr) (a : string) | BSub (e : bexpr).

(* objects of the collection.  KAttr: an attribute whose assigned value is itself a name/attribute/subscript
   (`Base = K1`); KObj: any other object that is not an alias (function, other attribute, class outside the table). *)
Inductive okind := KMod | KCls (i : nat) | KObj | KAttr (v : bexpr) | KAlias (tgt : path).
Definition heap := list (path * okind).

Fixpoint path_eqb (p q : path) : bool :=
  match p, q with
  | [], [] => true
  | a :: p', b :: q' => String.eqb a b && path_eqb p' q'
  | _, _ => false
  end.
Definition memp (p : path) (l : list path) : bool := existsb (path_eqb p) l.
Fixpoint find_obj (h : heap) (p : path) : option okind :=
  match h with
  | [] => None
  | (q, k) :: r => if path_eqb q p then Some k else find_obj r p
  end.
Definition is_mod (h : heap) (p : path) : bool :=
  match find_obj h p with Some KMod => true | _ => false end.

(* ------------------------------------------------------------------------------------------------
   Object.resolve(name): members of the scope; then -- the body of a class is not an enclosing scope for the classes
   nested in it -- from a class scope the enclosing CLASS bodies are skipped (`while parent.is_class and
   parent.parent is not None: parent = parent.parent`) and the search goes on in what encloses them (the module).
   Every non-module object of the heap that serves as a scope is a class (functions are not modelled).
   fuel = length of the scope path + 1; running out cannot happen (the scope shrinks) and means "not found".
   ------------------------------------------------------------------------------------------------ *)
(* the parent after the skipping loop: the nearest enclosing module, or the outermost object *)
Fixpoint skip_classes (fuel : nat) (h : heap) (p : path) : path :=
  match fuel with
  | 0 => p
  | S f => if is_mod h p then p
           else match removelast p with
                | [] => p                                   (* parent.parent is None *)
                | q => skip_classes f h q
                end
  end.
Fixpoint resolve_name (fuel : nat) (h : heap) (scope : path) (n : string) : option path :=
  match fuel with
  | 0 => None
  | S f =>
      match find_obj h (scope ++ [n]) with
      | Some (KAlias tgt) => Some tgt                      (* members[name].target_path *)
      | Some _ => Some (scope ++ [n])                      (* members[name].path *)
      | None =>
          match find_obj h scope with
          | Some KMod | None => None                       (* NameResolutionError *)
          | Some _ =>
              match removelast scope with
              | [] => None                                  (* self.parent is None *)
              | q => let parent := skip_classes (List.length q) h q in
                     if String.eqb n (last parent "") && negb (is_mod h parent) then Some parent
                     else resolve_name f h parent n
              end
          end
      end
  end.

(* Expr.canonical_path in the scope where the class statement stands *)
Fixpoint canon (h : heap) (scope : path) (e : bexpr) : path :=
  match e with
  | BName n => match resolve_name (S (List.length scope)) h scope n with Some p => p | None => [n] end
  | BAttr e' a => canon h scope e' ++ [a]
  | BSub e' => canon h scope e'
  end.

(* ------------------------------------------------------------------------------------------------
   get_member from the collection + final_target
   ------------------------------------------------------------------------------------------------ *)
Inductive rres := Found (p : path) (k : okind) | RKey | RCyc | RFuel.

(* walk the parts; F finalises an object path (follows aliases down to an object) *)
Fixpoint walk (F : path -> rres) (cur : path) (parts : list string) : rres :=
  match parts with
  | [] => F cur
  | n :: rest =>
      match cur with
      | [] => walk F [n] rest                              (* the collection's own members: top-level modules *)
      | _ => match F cur with
             | Found cur' _ => walk F (cur' ++ [n]) rest   (* Alias.members are its final target's members *)
             | e => e
             end
      end
  end.

(* [seen]: the aliases being resolved right now (Alias._passed_through) / already passed (final_target's paths_seen).
   [follow] = false: Griffe.  [follow] = true: Python, where an assigned name denotes its value. *)
Fixpoint fin (fuel : nat) (follow : bool) (h : heap) (seen : list path) (p : path) : rres :=
  match fuel with
  | 0 => RFuel
  | S f =>
      match find_obj h p with
      | None => RKey
      | Some (KAlias tgt) =>
          if memp p seen then RCyc else walk (fin f follow h (p :: seen)) [] tgt
      | Some (KAttr e) =>
          if follow then
            if memp p seen then RCyc else walk (fin f follow h (p :: seen)) [] (canon h (removelast p) e)
          else Found p (KAttr e)
      | Some k => Found p k
      end
  end.

Definition lookup_path (follow : bool) (h : heap) (p : path) : rres :=
  walk (fin (S (List.length h)) follow h []) [] p.
(* one base expression of a class statement standing in [scope] *)
Definition resolve_base (follow : bool) (h : heap) (scope : path) (e : bexpr) : rres :=
  lookup_path follow h (canon h scope e).

Definition is_sub (e : bexpr) : bool := match e with BSub _ => true | _ => false end.

(* The `while resolved_base.is_attribute and isinstance(resolved_base.value, (ExprName, ExprAttribute))` loop of
   Class.resolved_bases (fix 3a123f9): an attribute assigned a name / attribute chain is followed to what that names,
   each step a fresh get_member + final_target; `followed` holds the paths already reached, coming back to one raises
   KeyError (base dropped).  A subscripted value (`IntList = MyList[int]`) is NOT followed: the attribute is the result.
   [subs] = true follows those as well (the reading in which every assigned name denotes its value).
   fuel = number of objects + 1: every step reaches a new object. *)
Fixpoint follow_attr (subs : bool) (fuel : nat) (h : heap) (followed : list path) (p : path) (k : okind) : rres :=
  match k with
  | KAttr v =>
      if is_sub v && negb subs then Found p k
      else match fuel with
           | 0 => RFuel
           | S f => match lookup_path false h (canon h (removelast p) v) with
                    | Found q k' => if memp q followed then RKey else follow_attr subs f h (q :: followed) q k'
                    | e => e
                    end
           end
  | _ => Found p k
  end.
(* one base expression as Class.resolved_bases resolves it *)
Definition gresolve_s (subs : bool) (h : heap) (scope : path) (e : bexpr) : rres :=
  match resolve_base false h scope e with
  | Found p k => follow_attr subs (S (List.length h)) h [p] p k
  | r => r
  end.
Definition gresolve : heap -> path -> bexpr -> rres := gresolve_s false.

(* Class.resolved_bases: the objects found, whatever their kind; errors are dropped *)
Definition resolved_objs (h : heap) (scope : path) (es : list bexpr) : list (path * okind) :=
  flat_map (fun e => match gresolve h scope e with Found p k => [(p, k)] | _ => [] end) es.
(* ... and the `if base.is_class` filter of _mro *)
Definition class_of (pk : path * okind) : list nat := match snd pk with KCls i => [i] | _ => [] end.
Definition gbases (h : heap) (scope : path) (es : list bexpr) : list nat :=
  flat_map class_of (resolved_objs h scope es).
(* Python: every base has to evaluate to a class *)
Definition pbase (h : heap) (scope : path) (e : bexpr) : option nat :=
  match resolve_base true h scope e with Found _ (KCls i) => Some i | _ => None end.
(* typing.py, _GenericAlias.__mro_entries__: `Generic[T]` written before another subscripted base is erased from the bases
   (the later base brings Generic along).  [generic i]: class i is typing.Generic. *)
Fixpoint mro_entries (generic : nat -> bool) (es : list (bexpr * nat)) : list nat :=
  match es with
  | [] => []
  | (e, i) :: r =>
      if is_sub e && generic i && existsb (fun ei => is_sub (fst ei)) r then mro_entries generic r
      else i :: mro_entries generic r
  end.
Definition pbases_g (generic : nat -> bool) (h : heap) (scope : path) (es : list bexpr) : option (list nat) :=
  do bs <- map_opt (pbase h scope) es; Some (mro_entries generic (combine es bs)).
Definition pbases (h : heap) (scope : path) (es : list bexpr) : option (list nat) := pbases_g (fun _ => false) h scope es.

(* Griffe's resolution ends on an attribute: its value is subscripted, the loop does not follow it *)
Definition stops_at_attr (h : heap) (scope : path) (e : bexpr) : bool :=
  match gresolve h scope e with Found _ (KAttr _) => true | _ => false end.

(* ------------------------------------------------------------------------------------------------
   Python's nested evaluation, stated on its own: an assigned name denotes its value WHEREVER it stands in the
   chain, and that value was computed by itself when the assignment ran -- evaluating it starts afresh (empty stack
   of aliases being resolved).  Import aliases are guarded against cycles as in [fin]; a cyclic assignment has no
   denotation (the fuel runs out: RFuel).  fuel (2 + #objects)^2 is enough whenever Griffe's loop finds something.
   ------------------------------------------------------------------------------------------------ *)
Fixpoint pyfin (fuel : nat) (h : heap) (seen : list path) (p : path) : rres :=
  match fuel with
  | 0 => RFuel
  | S f =>
      match find_obj h p with
      | None => RKey
      | Some (KAlias tgt) => if memp p seen then RCyc else walk (pyfin f h (p :: seen)) [] tgt
      | Some (KAttr e) => walk (pyfin f h []) [] (canon h (removelast p) e)
      | Some k => Found p k
      end
  end.
Definition py_fuel (h : heap) : nat := (2 + List.length h) * (2 + List.length h).
Definition py_lookup (fuel : nat) (h : heap) (p : path) : rres := walk (pyfin fuel h []) [] p.
Definition pyresolve (h : heap) (scope : path) (e : bexpr) : rres := py_lookup (py_fuel h) h (canon h scope e).
Definition pybase (h : heap) (scope : path) (e : bexpr) : option nat :=
  match pyresolve h scope e with Found _ (KCls i) => Some i | _ => None end.

(* ------------------------------------------------------------------------------------------------
   Programs: a heap and the class statements; externals are classes Python knows and the collection does not
   ------------------------------------------------------------------------------------------------ *)
Record xcls := mkX { xpath : path; xscope : path; xbases : list bexpr; xmembers : list string;
                     xmalias : list (string * path) }.
(* ppatch: bindings as they were when the class statements ran, where they differ from the final ones the collection
   holds (`Base = K1; class C(Base); Base = K2`): Python reads them first *)
Record prog := mkProg { pheap : heap; pclasses : list xcls; pext : list path; pobject : path; ppatch : heap }.

Fixpoint join (p : path) : string :=
  match p with [] => "" | [a] => a | a :: r => a ++ "." ++ join r end.

Definition n_cls (g : prog) : nat := List.length (pclasses g).
(* external classes get the indices after the program's own; `object` is the last one *)
Definition ext_heap (g : prog) : heap :=
  map (fun jp => (snd jp, KCls (n_cls g + fst jp))) (combine (seq 0 (List.length (pext g))) (pext g))
  ++ map (fun p => (removelast p, KMod)) (pext g)              (* the module an external class lives in: `typing` *)
  ++ [(pobject g, KCls (n_cls g + List.length (pext g)))].
Definition full_heap (g : prog) : heap := ppatch g ++ pheap g ++ ext_heap g.
Definition obj_index (g : prog) : nat := n_cls g + List.length (pext g).

Definition is_ext (g : prog) (i : nat) : bool := (n_cls g <=? i) && (i <? obj_index g).
Definition pbases_of (g : prog) (x : xcls) : option (list nat) := pbases_g (is_ext g) (full_heap g) (xscope x) (xbases x).

(* Python resolves base e of class statement x to a class of the program; Griffe to something else, or to nothing *)
Definition misresolved (g : prog) (x : xcls) (e : bexpr) : bool :=
  match pbase (full_heap g) (xscope x) e with
  | Some i => (i <? n_cls g) &&
              negb (match gresolve (pheap g) (xscope x) e with Found _ (KCls j) => Nat.eqb j i | _ => false end)
  | None => false
  end.

Definition gtbl (g : prog) : tbl :=
  map (fun x => mkCls (join (xpath x)) (gbases (pheap g) (xscope x) (xbases x)) (xmembers x)) (pclasses g).
Definition ptbl (g : prog) : tbl :=
  map (fun x => mkCls (join (xpath x))
                      (match pbases_of g x with Some bs => bs | None => [] end)
                      (xmembers x)) (pclasses g)
  ++ map (fun p => mkCls (join p) [] []) (pext g).
Definition pbases_ok (g : prog) : bool :=
  forallb (fun x => match pbases_of g x with Some _ => true | None => false end) (pclasses g).

(* CPython's MRO where `object` (index o) may also be written explicitly among the bases *)
Fixpoint py_mro_ext (fuel : nat) (t : tbl) (o : nat) (c : nat) : res (list nat) :=
  match fuel with
  | 0 => OutOfFuel
  | S f =>
      if Nat.eqb c o then Ok [o]
      else
        let bases := cbases (nth_cls t c) in
        match bases with
        | [] => cpython_mro_impl c [o] [[o]]
        | _ => match map_res (py_mro_ext f t o) bases with
               | Ok ms => cpython_mro_impl c bases ms
               | Fail e => Fail e
               | OutOfFuel => OutOfFuel
               end
        end
  end.
Definition cpython_mro_ext (t : tbl) (c : nat) : res (list nat) := py_mro_ext (S (List.length t)) t (List.length t) c.

(* what of CPython's MRO the collection can show: the program's own classes *)
Definition visible (n : nat) (m : list nat) : list nat := filter (fun k => k <? n) m.
Definition map_ok {A B} (f : A -> B) (r : res A) : res B :=
  match r with Ok a => Ok (f a) | Fail e => Fail e | OutOfFuel => OutOfFuel end.

Definition cpython_getattr_ext (t : tbl) (c : nat) (n : string) : option nat :=
  match cpython_mro_ext t c with Ok m => first_definer t m n | _ => None end.

(* ------------------------------------------------------------------------------------------------
   Hiding classes from a table: what dropping unresolvable bases does to the hierarchy
   ------------------------------------------------------------------------------------------------ *)
Definition hide_row (x : nat) (k : cls) : cls := mkCls (cpath k) (filter (fun b => negb (Nat.eqb b x)) (cbases k)) (cmembers k).
Definition hide (x : nat) (t : tbl) : tbl := map (hide_row x) t.
Definition drop (x : nat) (l : list nat) : list nat := filter (fun b => negb (Nat.eqb b x)) l.
(* x occurs in l at most as the last element *)
Fixpoint last_only (x : nat) (l : list nat) : bool :=
  match l with
  | [] => true
  | [_] => true
  | a :: r => negb (Nat.eqb a x) && last_only x r
  end.

(* KnownGap of finding C07-F1, decidable: x is written last in every bases list up to c and is last in every
   linearisation CPython computes below c (those are the lists merged for c and its ancestors). *)
Definition ext_last_only (t : tbl) (x c : nat) : bool :=
  forallb (fun d => last_only x (cbases (nth_cls t d))) (seq 0 (S c)) &&
  forallb (fun d => match cpython_mro t d with Ok m => last_only x m | _ => true end) (seq 0 c).
Definition ext_not_last (t : tbl) (x c : nat) : bool := negb (ext_last_only t x c).

(* several classes the collection does not hold, hidden one after the other (each last-only in the table left by the
   previous ones: `class C(A, Generic[T], ABC)` is fine hiding ABC first) *)
Fixpoint hide_all (xs : list nat) (t : tbl) : tbl := match xs with [] => t | x :: r => hide_all r (hide x t) end.
Fixpoint drop_all (xs : list nat) (l : list nat) : list nat := match xs with [] => l | x :: r => drop_all r (drop x l) end.
Fixpoint ext_last_only_all (t : tbl) (xs : list nat) (c : nat) : bool :=
  match xs with [] => true | x :: r => ext_last_only t x c && ext_last_only_all (hide x t) r c end.

(* ------------------------------------------------------------------------------------------------
   Inherited aliases whose target member is itself an alias (an import inside the class body)
   ------------------------------------------------------------------------------------------------ *)
Definition member_final (g : prog) (owner : nat) (n : string) : rres :=
  let x := nth owner (pclasses g) (mkX [] [] [] [] []) in
  match lookup n (xmalias x) with
  | Some tgt => lookup_path false (pheap g) tgt
  | None => Found (xpath x ++ [n]) KObj
  end.

(* ------------------------------------------------------------------------------------------------
   s-expression interface
   ------------------------------------------------------------------------------------------------ *)
Definition dec_path (s : sexp) : option path := as_list_of as_str s.
Fixpoint dec_bexpr_f (fuel : nat) (s : sexp) : option bexpr :=
  match fuel with
  | 0 => None
  | S f =>
      match s with
      | SList [SStr "n"; SStr n] => Some (BName n)
      | SList [SStr "a"; e; SStr a] => do e' <- dec_bexpr_f f e; Some (BAttr e' a)
      | SList [SStr "s"; e] => do e' <- dec_bexpr_f f e; Some (BSub e')
      | _ => None
      end
  end.
Definition dec_bexpr (s : sexp) : option bexpr := dec_bexpr_f 64 s.
Definition dec_kind (s : sexp) : option okind :=
  match s with
  | SList [SStr "mod"] => Some KMod
  | SList [SStr "cls"; i] => do i' <- as_nat i; Some (KCls i')
  | SList [SStr "obj"] => Some KObj
  | SList [SStr "attr"; v] => do v' <- dec_bexpr v; Some (KAttr v')
  | SList [SStr "alias"; t] => do t' <- dec_path t; Some (KAlias t')
  | _ => None
  end.
Definition dec_entry (s : sexp) : option (path * okind) :=
  match s with
  | SList [p; k] => do p' <- dec_path p; do k' <- dec_kind k; Some (p', k')
  | _ => None
  end.
Definition dec_malias (s : sexp) : option (string * path) :=
  match s with
  | SList [SStr n; p] => do p' <- dec_path p; Some (n, p')
  | _ => None
  end.
Definition dec_xcls (s : sexp) : option xcls :=
  match s with
  | SList [p; sc; bs; ms; mas] =>
      do p' <- dec_path p; do sc' <- dec_path sc; do bs' <- as_list_of dec_bexpr bs;
      do ms' <- as_list_of as_str ms; do mas' <- as_list_of dec_malias mas;
      Some (mkX p' sc' bs' ms' mas')
  | _ => None
  end.
Definition dec_prog (s : sexp) : option prog :=
  match s with
  | SList [h; cs; ext; ob; pa] =>
      do h' <- as_list_of dec_entry h; do cs' <- as_list_of dec_xcls cs;
      do ext' <- as_list_of dec_path ext; do ob' <- dec_path ob; do pa' <- as_list_of dec_entry pa;
      Some (mkProg h' cs' ext' ob' pa')
  | _ => None
  end.

Definition enc_kind (k : okind) : sexp :=
  match k with
  | KMod => SStr "mod" | KCls _ => SStr "cls" | KObj => SStr "obj" | KAttr _ => SStr "attr" | KAlias _ => SStr "alias"
  end.
Definition enc_rres (r : rres) : sexp :=
  match r with
  | Found p k => SList [SStr "found"; SStr (join p); enc_kind k]
  | RKey => SList [SStr "key"]
  | RCyc => SList [SStr "cyclic"]
  | RFuel => SList [SStr "fuel"]
  end.
Definition enc_xalias (g : prog) (t : tbl) (a : alias) : sexp :=
  SList [SStr (al_name a); SStr (alias_path t a); SStr (alias_target_path t a); of_nat (al_owner a); of_bool (al_inherited a);
         enc_rres (member_final g (al_owner a) (al_name a))].
Definition enc_xentry (g : prog) (t : tbl) (kv : string * entry) : sexp :=
  match snd kv with
  | Own c n => SList [SStr (fst kv); SStr "own"; SStr (cpath (nth_cls t c) ++ "." ++ n)]
  | Inh a => SList [SStr (fst kv); SStr "inherited"; enc_xalias g t a]
  end.

(* everything the harness compares, for class c of program g *)
Definition run_class (g : prog) (c : nat) : sexp :=
  let x := nth c (pclasses g) (mkX [] [] [] [] []) in
  let gt := gtbl g in
  let pt := ptbl g in
  let n := n_cls g in
  SList [
    (* 0: Class.resolved_bases: paths and kinds, errors dropped *)
    SList (map (fun pk => SList [SStr (join (fst pk)); enc_kind (snd pk)]) (resolved_objs (pheap g) (xscope x) (xbases x)));
    (* 1: per base expression, Griffe's resolution outcome *)
    SList (map (fun e => enc_rres (gresolve (pheap g) (xscope x) e)) (xbases x));
    (* 2: bases after the is_class filter *)
    enc_list (cbases (nth_cls gt c));
    (* 3: Python's bases (None: some base does not denote a class) *)
    of_opt enc_list (pbases_of g x);
    (* 4: Griffe's mro() on its table *)
    enc_res (griffe_mro gt c);
    (* 5: CPython's __mro__ with externals and object, 6: the part of it the collection can show, without the class itself *)
    enc_res (cpython_mro_ext pt c);
    enc_res (map_ok (fun m => visible n (tail m)) (cpython_mro_ext pt c));
    (* 7: inherited_members, 8: all_members *)
    SList (map (fun kv => SList [SStr (fst kv); enc_xalias g gt (snd kv)]) (inherited_members gt c));
    SList (map (enc_xentry g gt) (all_members gt c));
    (* 9: CPython's attribute lookup, per member name of the program *)
    SList (map (fun nm => SList [SStr nm; of_opt of_nat (cpython_getattr_ext pt c nm)]) (all_names pt));
    (* 10: KnownGap of the narrowed C07-F2: a base that Python resolves to a class of the program and Griffe does not *)
    of_bool (existsb (misresolved g x) (xbases x));
    (* 11: Griffe's own claim for comparison with 6 is exact when nothing was dropped here *)
    of_bool (match pbases_of g x with
             | Some bs => if list_eq_dec Nat.eq_dec bs (cbases (nth_cls gt c)) then true else false
             | None => false end);
    (* 12: the hypothesis of C07_hidden_all holds for this class: the external classes, in the order given or reversed,
       are last-only one after the other (explicit `object` bases left out: the harness looks at those) *)
    of_bool (let pt' := hide (obj_index g) pt in
             let xs := seq n (List.length (pext g)) in
             ext_last_only_all pt' xs c || ext_last_only_all pt' (rev xs) c);
    (* 13: Python's bases by the nested evaluation [pyresolve] (must equal 3) *)
    of_opt enc_list (match map_opt (pybase (full_heap g) (xscope x)) (xbases x) with
                     | Some bs => Some (mro_entries (is_ext g) (combine (xbases x) bs))
                     | None => None end)
  ].

Definition run_C07b (s : sexp) : sexp :=
  match s with
  | SList [SStr "prog"; g] =>
      match dec_prog g with
      | Some g' => SList (map (run_class g') (seq 0 (n_cls g')))
      | None => bad_input
      end
  | SList [SStr "resolve"; h; sc; e] =>
      match as_list_of dec_entry h, dec_path sc, dec_bexpr e with
      | Some h', Some sc', Some e' =>
          SList [enc_rres (gresolve h' sc' e'); enc_rres (resolve_base true h' sc' e'); SStr (join (canon h' sc' e'))]
      | _, _, _ => bad_input
      end
  | SList [SStr "hide"; t; x; c] =>
      match dec_tbl t, as_nat x, as_nat c with
      | Some t', Some x', Some c' =>
          SList [enc_res (griffe_mro (hide x' t') c'); enc_res (map_ok (fun m => drop x' (tail m)) (cpython_mro t' c'))]
      | _, _, _ => bad_input
      end
  | _ => run_C07 s
  end.
