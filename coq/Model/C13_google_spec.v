(* C13 model, part 3: what is WRITTEN (sections, items), how the Google style writes it down (render_google, following
   docs/reference/docstrings.md), what parsing should give back (expect_google), and the decidable well-formedness
   predicate under which the round-trip theorem is proved.  Executable definitions only. *)
From Coq Require Import List Ascii String Bool Arith.
From Verif Require Import Model.C13_strings Model.C13_google.
Import ListNotations.
Open Scope char_scope.
Open Scope list_scope.
Open Scope nat_scope.

(* one documented item: optional name, optional annotation (for functions/classes: the argument text of the signature),
   the part of the description written on the item's first line, and the continuation lines ([] = blank line) *)
Record witem := mkW { w_name : option str; w_ann : option str; w_d0 : str; w_conts : list str }.

Inductive wsec :=
| WText (lines : list str)
| WItems (k : kind) (header : str) (title : option str) (items : list witem)
| WAdm (header : str) (title : option str) (lines : list str)
(* a Returns / Yields / Receives section written for given option values: multi = *_multiple_items (false: one item, its
   continuation lines at the indentation of its first line), named = *_named_value (false: `type: description` or a bare
   description, no names) *)
| WRet (multi named : bool) (k : kind) (header : str) (title : option str) (items : list witem)
(* an Examples section: chunks of prose (false) and of console sessions (true, first line `>>> ...`), separated by one
   blank line; trim = the value of trim_doctest_flags it was written for *)
| WExamples (trim : bool) (header : str) (title : option str) (chunks : list (bool * list str)).

Definition oapp (o : option str) : str := match o with Some s => s | None => [] end.

(* text before the colon of an item; None = the item is a bare description *)
Definition head_of (k : kind) (it : witem) : option str :=
  match k with
  | KParams | KOther | KAttrs =>
      Some (oapp (w_name it) ++ match w_ann it with Some a => sp :: lparen :: a ++ [rparen] | None => [] end)
  | KFuncs | KClasses =>
      Some (oapp (w_name it) ++ match w_ann it with Some a => lparen :: a ++ [rparen] | None => [] end)
  | KModules => Some (oapp (w_name it))
  | KRaises | KWarns => Some (oapp (w_ann it))
  | _ =>
      match w_name it, w_ann it with
      | None, None => None
      | Some n, None => Some n
      | None, Some a => Some (lparen :: a ++ [rparen])
      | Some n, Some a => Some (n ++ sp :: lparen :: a ++ [rparen])
      end
  end.

(* what follows the colon on the first line: nothing, or a blank and the start of the description *)
Definition dpart (d0 : str) : str := match d0 with [] => [] | d => sp :: d end.

Definition first_line (k : kind) (it : witem) : str :=
  match head_of k it with
  | Some h => h ++ colon :: dpart (w_d0 it)
  | None => w_d0 it
  end.

Definition indent_line (n : nat) (c : str) : str := match c with [] => [] | _ => spaces n ++ c end.

Definition item_lines (ind : nat) (k : kind) (it : witem) : list str :=
  (spaces ind ++ first_line k it) :: map (indent_line (ind * 2)) (w_conts it).

(* the first line of an item when items cannot be named: `type: description`, or the bare description *)
Definition first_line_u (it : witem) : str :=
  match w_ann it with
  | Some a => a ++ colon :: dpart (w_d0 it)
  | None => w_d0 it
  end.

Definition first_line_m (named : bool) (k : kind) (it : witem) : str := if named then first_line k it else first_line_u it.

Definition item_lines_m (multi named : bool) (ind : nat) (k : kind) (it : witem) : list str :=
  (spaces ind ++ first_line_m named k it) :: map (indent_line (if multi then ind * 2 else ind)) (w_conts it).

Definition header_line (header : str) (title : option str) : str :=
  header ++ colon :: match title with Some t => sp :: t | None => [] end.

(* chunks one after the other, a blank line between two of them *)
Fixpoint flatten_chunks (chunks : list (bool * list str)) : list str :=
  match chunks with
  | [] => []
  | [(_, ls)] => ls
  | (_, ls) :: r => ls ++ [] :: flatten_chunks r
  end.

Definition render_sec (ind : nat) (s : wsec) : list str :=
  match s with
  | WText ls => ls
  | WItems k h t its => header_line h t :: flat_map (item_lines ind k) its
  | WAdm h t ls => header_line h t :: map (indent_line ind) ls
  | WRet m n k h t its => header_line h t :: flat_map (item_lines_m m n ind k) its
  | WExamples _ h t chunks => header_line h t :: map (indent_line ind) (flatten_chunks chunks)
  end.

(* sections are separated by one blank line *)
Fixpoint render_google (ind : nat) (secs : list wsec) : list str :=
  match secs with
  | [] => []
  | [s] => render_sec ind s
  | s :: r => render_sec ind s ++ [] :: render_google ind r
  end.

(* ---- what parsing should give back *)
Definition orelse (a b : option str) : option str := match a with Some _ => a | None => b end.

Definition gen_index_of (k : kind) : nat := match k with KYields => 0 | KReceives => 1 | _ => 2 end.

(* blank lines at the end of the continuation lines set the item apart from the next one: they belong to no description *)
Definition expect_item (c : pctx) (k : kind) (multiple : bool) (index : nat) (it : witem) : pitem :=
  let d := join_nl (w_d0 it :: rstrip_blank (w_conts it)) in
  let n := oapp (w_name it) in
  match k with
  | KParams | KOther =>
      mkItem (Some n)
             (orelse (w_ann it) (match lookup_param c n with Some (a, _) => a | None => None end))
             d (match lookup_param c n with Some (_, v) => v | None => None end)
  | KAttrs => mkItem (Some n) (orelse (w_ann it) (match lookup_attr c n with Some a => a | None => None end)) d None
  | KFuncs | KClasses => mkItem (Some n) (match w_ann it with Some a => Some (n ++ lparen :: a ++ [rparen]) | None => None end) d None
  | KModules => mkItem (Some n) None d None
  | KRaises | KWarns => mkItem None (w_ann it) d None
  | _ => mkItem (Some n) (orelse (w_ann it) (annotation_from_parent c (gen_index_of k) multiple index)) d None
  end.

Fixpoint expect_items (c : pctx) (k : kind) (multiple : bool) (index : nat) (its : list witem) : list pitem :=
  match its with
  | [] => []
  | it :: r => expect_item c k multiple index it :: expect_items c k multiple (S index) r
  end.

(* a console chunk comes back with its doctest flags removed (and `<BLANKLINE>` markers emptied on all lines but the
   first) when trim_doctest_flags is set *)
Definition trim_console (trim : bool) (ls : list str) : list str :=
  if trim then match ls with
               | [] => []
               | l0 :: r => trim_flags l0 :: map (fun l => trim_blankline (trim_flags l)) r
               end
  else ls.

Definition expect_chunk (trim : bool) (ch : bool * list str) : bool * str :=
  let '(b, ls) := ch in (b, join_nl (if b then trim_console trim ls else ls)).

Definition expect_sec (c : pctx) (s : wsec) : gsec :=
  match s with
  | WText ls => GText (join_nl ls)
  | WItems k h t its => GItems k t (expect_items c k (negb (List.length its <=? 1)) 0 its)
  | WAdm h t ls => GAdm (dashify h) (match t with Some x => x | None => h end) (join_nl ls)
  | WRet _ _ k h t its => GItems k t (expect_items c k (negb (List.length its <=? 1)) 0 its)
  | WExamples trim h t chunks => GExamples t (map (expect_chunk trim) chunks)
  end.

Definition expect_google (c : pctx) (secs : list wsec) : list gsec := map (expect_sec c) secs.

(* ---- well-formedness (decidable) *)
Definition all_printable (s : str) : bool := forallb printable s.
Definition nonempty (s : str) : bool := match s with [] => false | _ => true end.
Definition first_not_space (s : str) : bool := match s with c :: _ => negb (ceq c sp) | [] => true end.
Definition last_nonempty (ls : list str) : bool := match ls with [] => true | _ => nonempty (last ls []) end.

(* a continuation line: blank ([]), or printable text with something other than spaces in it *)
Definition wf_cont (c : str) : bool := all_printable c && (negb (nonempty c) || negb (is_empty_line c)).

Definition wf_desc (d0 : str) (conts : list str) : bool :=
  all_printable d0 && first_not_space d0 && forallb wf_cont conts && last_nonempty conts.

(* the description of an item: like wf_desc, but blank lines may follow it (they separate the item from the next one) *)
Definition wf_idesc (d0 : str) (conts : list str) : bool :=
  all_printable d0 && first_not_space d0 && forallb wf_cont conts && last_nonempty (rstrip_blank conts).

Definition name_char (c : ascii) : bool := printable c && negb (ceq c sp) && negb (ceq c colon).
Definition wf_name (n : str) : bool := nonempty n && forallb name_char n.
Definition wf_fname (n : str) : bool := wf_name n && negb (contains_char lparen n).
Definition wf_word (n : str) : bool := nonempty n && forallb is_word n.

(* a type between parentheses after a name: non-empty, no colon, does not begin or end with a parenthesis
   (strip("()") would eat it), does not end in ", optional" (removed by the parser) *)
Definition wf_ann (a : str) : bool :=
  nonempty a && all_printable a && negb (contains_char colon a)
  && negb (is_paren (hd sp a)) && negb (is_paren (last a sp)) && negb (endswith s_optional a).

(* the exception / warning class of a Raises / Warns item *)
Definition wf_exc (a : str) : bool := nonempty a && all_printable a && negb (contains_char colon a) && first_not_space a.

(* the argument text of a documented signature `name(args)` *)
Definition wf_sigargs (a : str) : bool := all_printable a && negb (contains_char colon a).

(* the type between parentheses of a Returns/Yields/Receives item: non-empty, and "):" does not occur in it
   (the non-greedy type group ends at the first "):") *)
Definition wf_rann (a : str) : bool := nonempty a && all_printable a && negb (has_parencolon a).

(* a bare description of a Returns/Yields/Receives item must not read as `name:` / `name (type):` / `(type):` :
   after its first word and the blanks that follow, the next character is neither ':' nor '(' *)
Definition wf_desc_only (d0 : str) : bool :=
  nonempty d0 &&
  match lstrip (snd (span is_word d0)) with
  | c :: _ => negb (ceq c colon) && negb (ceq c lparen)
  | [] => true
  end.

Definition opt_all (f : str -> bool) (o : option str) : bool := match o with Some s => f s | None => true end.
Definition is_some {A} (o : option A) : bool := match o with Some _ => true | None => false end.

Definition wf_item (k : kind) (it : witem) : bool :=
  wf_idesc (w_d0 it) (w_conts it) &&
  match k with
  | KParams | KOther | KAttrs => is_some (w_name it) && opt_all wf_name (w_name it) && opt_all wf_ann (w_ann it)
  | KFuncs | KClasses => is_some (w_name it) && opt_all wf_fname (w_name it) && opt_all wf_sigargs (w_ann it)
  | KModules => is_some (w_name it) && opt_all wf_name (w_name it) && negb (is_some (w_ann it))
  | KRaises | KWarns => negb (is_some (w_name it)) && is_some (w_ann it) && opt_all wf_exc (w_ann it)
  | KReturns | KYields | KReceives =>
      opt_all wf_word (w_name it) && opt_all wf_rann (w_ann it)
      && (if is_some (w_name it) || is_some (w_ann it) then true else wf_desc_only (w_d0 it))
  | _ => false
  end.

(* the type of an item that cannot be named: no colon, and no parenthesis at either end (they are optional and removed) *)
Definition wf_uann (a : str) : bool :=
  nonempty a && all_printable a && first_not_space a && negb (contains_char colon a)
  && negb (ceq (hd sp a) lparen) && negb (ceq (last a sp) rparen).

(* an item of a Returns / Yields / Receives section in a given mode *)
Definition wf_item_m (multi named : bool) (k : kind) (it : witem) : bool :=
  (if named then wf_item k it
   else wf_idesc (w_d0 it) (w_conts it) && negb (is_some (w_name it)) && opt_all wf_uann (w_ann it)
        && (if is_some (w_ann it) then true else nonempty (w_d0 it) && negb (contains_char colon (w_d0 it))))
  && (multi || last_nonempty (w_conts it)).

Definition rkindb (k : kind) : bool := match k with KReturns | KYields | KReceives => true | _ => false end.

(* the option values that govern a section kind *)
Definition modes_of (o : gopts) (k : kind) : bool * bool :=
  match k with
  | KReceives => (rec_multi o, rec_named o)
  | _ => (ret_multi o, ret_named o)
  end.

(* a line of an Examples section: printable text (deeper indentation allowed) *)
Definition wf_ex_line (l : str) : bool := all_printable l && negb (is_empty_line l).
Definition wf_chunk (ch : bool * list str) : bool :=
  let '(b, ls) := ch in
  forallb wf_ex_line ls &&
  match ls with
  | [] => false
  | l0 :: _ =>
      if b then startswith s_prompt l0
      else forallb (fun l => negb (startswith s_prompt l) && negb (startswith s_fence l)) ls
  end.
Fixpoint no_adjacent_prose (chunks : list (bool * list str)) : bool :=
  match chunks with
  | (a, _) :: (((b, _) :: _) as r) => (a || b) && no_adjacent_prose r
  | _ => true
  end.

Definition wf_header (h : str) : bool :=
  all_printable h && match h with c :: _ => is_word c | [] => false end && forallb adm_char h.
Definition wf_title (t : str) : bool := nonempty t && all_printable t && first_not_space t.

Definition wf_text_line (l : str) : bool := all_printable l && first_not_space l && negb (is_fence l).

(* a line of free text that reads like `Title:` is only taken for a section title when one of the next two lines is
   indented: inside free text that can happen under a code fence *)
Definition adm_safe (l : str) (n1 n2 : option str) : bool :=
  match re_admonition l with
  | None => true
  | Some _ => negb (indented_opt n1 || indented_opt n2)
  end.

(* the lines of a free-text section: outside code fences every line starts in its first column; between an opening fence
   line and the next fence line anything printable goes (indentation, blank lines, section keywords); every fence is closed *)
Fixpoint wf_tl (incode : bool) (tl : list str) : bool :=
  match tl with
  | [] => negb incode
  | l :: r =>
      all_printable l &&
      (if incode then wf_tl (negb (is_fence l)) r
       else first_not_space l &&
            (if is_fence l then wf_tl true r
             else adm_safe l (nth_error r 0) (nth_error r 1) && wf_tl false r))
  end.

Definition wf_sec (o : gopts) (c : pctx) (s : wsec) : bool :=
  match s with
  | WText ls => nonempty (hd [] ls) && last_nonempty ls && wf_tl false ls && match ls with [] => false | _ => true end
  | WItems k h t its =>
      wf_header h && opt_all wf_title t
      && match g_section_kind (lower h) with Some k' => kind_eqb k k' | None => false end
      && match its with [] => false | _ => true end
      && forallb (wf_item k) its
      && (if rkindb k then let '(m, n) := modes_of o k in m && n else true)
  | WAdm h t ls =>
      wf_header h && opt_all wf_title t
      && match g_section_kind (lower h) with Some _ => false | None => true end
      && match ls with l0 :: r => nonempty l0 && wf_desc l0 r | [] => false end
  | WRet m n k h t its =>
      wf_header h && opt_all wf_title t
      && match g_section_kind (lower h) with Some k' => kind_eqb k k' | None => false end
      && match its with [] => false | _ => true end
      && forallb (wf_item_m m n k) its
      && rkindb k && (let '(m', n') := modes_of o k in Bool.eqb m m' && Bool.eqb n n')
      && (m || (List.length its <=? 1))
  | WExamples trim h t chunks =>
      wf_header h && opt_all wf_title t
      && match g_section_kind (lower h) with Some KExamples => true | _ => false end
      && Bool.eqb trim (trim_flags_opt o)
      && match chunks with [] => false | _ => true end
      && forallb wf_chunk chunks && no_adjacent_prose chunks
      && first_not_space (hd [] (flatten_chunks chunks))
  end.

Definition is_text (s : wsec) : bool := match s with WText _ => true | _ => false end.

Fixpoint no_adjacent_text (secs : list wsec) : bool :=
  match secs with
  | a :: ((b :: _) as r) => negb (is_text a && is_text b) && no_adjacent_text r
  | _ => true
  end.

Definition wf_secs (o : gopts) (c : pctx) (secs : list wsec) : bool := forallb (wf_sec o c) secs && no_adjacent_text secs.
