(* C08 model, text level: json.dumps (default separators, ensure_ascii) and json.loads on byte strings read as
   code points below 256.  [dumps] prints a [json] term the way json.dumps prints the dict that as_dict builds;
   [loads] is a recursive-descent reader of the JSON grammar as CPython's decoder implements it (strict mode:
   literal control characters are rejected inside strings; object keys must be strings; trailing data is an error).
   Floats, the constants NaN / Infinity and \u escapes above U+00FF are outside the model ([PUnmod]).
   Executable definitions only. *)
From Coq Require Import List ZArith String Ascii Bool Arith DecimalString.
From Verif Require Import Lib.Sexp Model.C08_json.
Import ListNotations.
Open Scope string_scope.
Open Scope list_scope.
Open Scope nat_scope.

Definition dquote : ascii := ascii_of_nat 34.
Definition bslash : ascii := ascii_of_nat 92.
Definition ch (n : nat) : ascii := ascii_of_nat n.
Definition code (c : ascii) : nat := nat_of_ascii c.

(* ------------------------------------------------------------------------------------------------ *)
(* 1. Printing                                                                                        *)

Definition hex_digit (n : nat) : ascii := if n <? 10 then ch (48 + n) else ch (87 + n).
(* json.encoder.py_encode_basestring_ascii: everything outside ' '..'~' is escaped *)
Definition escape_char (c : ascii) (k : string) : string :=
  let n := code c in
  if n =? 34 then String bslash (String dquote k)
  else if n =? 92 then String bslash (String bslash k)
  else if n =? 10 then String bslash (String (ch 110) k)
  else if n =? 13 then String bslash (String (ch 114) k)
  else if n =? 9 then String bslash (String (ch 116) k)
  else if n =? 8 then String bslash (String (ch 98) k)
  else if n =? 12 then String bslash (String (ch 102) k)
  else if (n <? 32) || (126 <? n)
       then String bslash (String (ch 117) (String (ch 48) (String (ch 48) (String (hex_digit (n / 16)) (String (hex_digit (n mod 16)) k)))))
  else String c k.

Fixpoint escape_k (s : string) (k : string) : string :=
  match s with
  | EmptyString => k
  | String c r => escape_char c (escape_k r k)
  end.
Definition quote_k (s : string) (k : string) : string := String dquote (escape_k s (String dquote k)).

Definition print_Z (z : Z) : string := NilEmpty.string_of_int (Z.to_int z).

(* [print_k j k] = the text of j followed by k *)
Fixpoint print_k (j : json) (k : string) : string :=
  match j with
  | JNull => append "null" k
  | JBool b => append (if b then "true" else "false") k
  | JNum z => append (print_Z z) k
  | JStr s => quote_k s k
  | JArr l =>
      String (ch 91)
        ((fix elems (first : bool) (l : list json) : string :=
            match l with
            | [] => String (ch 93) k
            | x :: r => append (if first then "" else ", ") (print_k x (elems false r))
            end) true l)
  | JObj kvs =>
      String (ch 123)
        ((fix membs (first : bool) (l : list (string * json)) : string :=
            match l with
            | [] => String (ch 125) k
            | (key, v) :: r => append (if first then "" else ", ") (quote_k key (append ": " (print_k v (membs false r))))
            end) true kvs)
  end.

Definition dumps (j : json) : string := print_k j EmptyString.

(* ------------------------------------------------------------------------------------------------ *)
(* 2. Reading                                                                                         *)

Inductive pres (A : Type) :=
| POk (a : A) (rest : string)
| PErr            (* json.JSONDecodeError *)
| PUnmod          (* valid or invalid JSON that this model does not describe *)
| PFuel.          (* out of fuel: not reachable with the fuel [loads] passes *)
Arguments POk {A} a rest. Arguments PErr {A}. Arguments PUnmod {A}. Arguments PFuel {A}.

Definition pmap {A B} (f : A -> B) (r : pres A) : pres B :=
  match r with POk a rest => POk (f a) rest | PErr => PErr | PUnmod => PUnmod | PFuel => PFuel end.

Definition is_jws (c : ascii) : bool := let n := code c in (n =? 32) || (n =? 9) || (n =? 10) || (n =? 13).
Fixpoint skip_ws (s : string) : string :=
  match s with
  | EmptyString => EmptyString
  | String c r => if is_jws c then skip_ws r else s
  end.

Definition is_digit (c : ascii) : bool := let n := code c in (48 <=? n) && (n <=? 57).

Definition hexval (c : ascii) : option nat :=
  let n := code c in
  if (48 <=? n) && (n <=? 57) then Some (n - 48)
  else if (97 <=? n) && (n <=? 102) then Some (n - 87)
  else if (65 <=? n) && (n <=? 70) then Some (n - 55)
  else None.

(* the body of a string, after the opening quote (json.decoder.py_scanstring, strict) *)
Fixpoint parse_str_body (s : string) : pres string :=
  match s with
  | EmptyString => PErr                                         (* unterminated string *)
  | String c r =>
      let n := code c in
      if n =? 34 then POk EmptyString r
      else if n =? 92 then
        match r with
        | EmptyString => PErr
        | String e r2 =>
            let m := code e in
            if m =? 117 then                                    (* \uXXXX *)
              match r2 with
              | String h1 (String h2 (String h3 (String h4 r3))) =>
                  match hexval h1, hexval h2, hexval h3, hexval h4 with
                  | Some a, Some b, Some c', Some d =>
                      let v := ((a * 16 + b) * 16 + c') * 16 + d in
                      if v <? 256 then pmap (String (ch v)) (parse_str_body r3) else PUnmod
                  | _, _, _, _ => PErr
                  end
              | _ => PErr
              end
            else
              match (if m =? 34 then Some dquote else if m =? 92 then Some bslash else if m =? 47 then Some (ch 47)
                     else if m =? 98 then Some (ch 8) else if m =? 102 then Some (ch 12) else if m =? 110 then Some (ch 10)
                     else if m =? 114 then Some (ch 13) else if m =? 116 then Some (ch 9) else None) with
              | Some x => pmap (String x) (parse_str_body r2)
              | None => PErr                                    (* invalid \escape *)
              end
        end
      else if n <? 32 then PErr                                 (* invalid control character *)
      else pmap (String c) (parse_str_body r)
  end.

Fixpoint span_digits (s : string) : string * string :=
  match s with
  | EmptyString => (EmptyString, EmptyString)
  | String c r => if is_digit c then let (d, rest) := span_digits r in (String c d, rest) else (EmptyString, s)
  end.

(* does the text continue a number into a float?  (\.[0-9]+)?([eE][-+]?[0-9]+)? of json.scanner.NUMBER_RE *)
Definition float_follows (rest : string) : bool :=
  match rest with
  | String c (String d r) =>
      let n := code c in
      if n =? 46 then is_digit d
      else if (n =? 101) || (n =? 69)
           then is_digit d || (((code d =? 43) || (code d =? 45)) && match r with String e _ => is_digit e | _ => false end)
      else false
  | _ => false
  end.

(* (0|[1-9][0-9]* ) at the start of s1, the sign already read *)
Definition parse_digits (neg : bool) (s1 : string) : pres json :=
  match s1 with
  | EmptyString => PErr
  | String c r =>
      if is_digit c then
        let (ds, rest) := if code c =? 48 then (String c EmptyString, r) else span_digits s1 in
        if float_follows rest then PUnmod
        else match NilEmpty.uint_of_string ds with
             | Some d => POk (JNum (if neg then Z.opp (Z.of_uint d) else Z.of_uint d)) rest
             | None => PErr
             end
      else if neg && (code c =? 73) then PUnmod                 (* -Infinity *)
      else PErr
  end.

(* -?(0|[1-9][0-9]* ) at the start of s *)
Definition parse_number (s : string) : pres json :=
  match s with
  | String c r => if code c =? 45 then parse_digits true r else parse_digits false s
  | EmptyString => PErr
  end.

(* p is a prefix of s: what follows *)
Fixpoint strip_prefix (p s : string) : option string :=
  match p, s with
  | EmptyString, _ => Some s
  | String a p', String b s' => if Ascii.eqb a b then strip_prefix p' s' else None
  | String _ _, EmptyString => None
  end.

Definition literal (p : string) (v : json) (s : string) : pres json :=
  match strip_prefix p s with Some r => POk v r | None => PErr end.

(* elements of an array, s at the start of an element; n bounds their number *)
Fixpoint parse_elems (pv : string -> pres json) (n : nat) (s : string) : pres (list json) :=
  match n with
  | O => PFuel
  | S n' =>
      match pv s with
      | POk v rest =>
          match skip_ws rest with
          | String d rest' =>
              if code d =? 44 then pmap (cons v) (parse_elems pv n' rest')
              else if code d =? 93 then POk [v] rest'
              else PErr
          | EmptyString => PErr
          end
      | PErr => PErr | PUnmod => PUnmod | PFuel => PFuel
      end
  end.

(* members of an object, s at the start of a key (after white space) *)
Fixpoint parse_membs (pv : string -> pres json) (n : nat) (s : string) : pres (list (string * json)) :=
  match n with
  | O => PFuel
  | S n' =>
      match s with
      | String q r =>
          if code q =? 34 then
            match parse_str_body r with
            | POk key rest =>
                match skip_ws rest with
                | String c rest1 =>
                    if code c =? 58 then
                      match pv rest1 with
                      | POk v rest2 =>
                          match skip_ws rest2 with
                          | String d rest3 =>
                              if code d =? 44 then pmap (cons (key, v)) (parse_membs pv n' (skip_ws rest3))
                              else if code d =? 125 then POk [(key, v)] rest3
                              else PErr
                          | EmptyString => PErr
                          end
                      | PErr => PErr | PUnmod => PUnmod | PFuel => PFuel
                      end
                    else PErr
                | EmptyString => PErr
                end
            | PErr => PErr | PUnmod => PUnmod | PFuel => PFuel
            end
          else PErr                                             (* expecting property name enclosed in double quotes *)
      | EmptyString => PErr
      end
  end.

Fixpoint parse_value (fuel : nat) (s : string) : pres json :=
  match fuel with
  | O => PFuel
  | S f =>
      match skip_ws s with
      | EmptyString => PErr
      | String c r =>
          let n := code c in
          if n =? 34 then pmap JStr (parse_str_body r)
          else if n =? 91 then
            match skip_ws r with
            | EmptyString => PErr
            | String c2 r2 => if code c2 =? 93 then POk (JArr []) r2
                              else pmap JArr (parse_elems (parse_value f) f (String c2 r2))
            end
          else if n =? 123 then
            match skip_ws r with
            | EmptyString => PErr
            | String c2 r2 => if code c2 =? 125 then POk (JObj []) r2
                              else pmap JObj (parse_membs (parse_value f) f (String c2 r2))
            end
          else if n =? 110 then literal "null" JNull (String c r)
          else if n =? 116 then literal "true" (JBool true) (String c r)
          else if n =? 102 then literal "false" (JBool false) (String c r)
          else if (n =? 45) || is_digit c then parse_number (String c r)
          else if (n =? 78) || (n =? 73) then PUnmod               (* NaN, Infinity *)
          else PErr
      end
  end.

(* json.loads: one value, white space around it, nothing else *)
Definition loads (s : string) : pres json :=
  match parse_value (S (String.length s)) s with
  | POk j rest => if is_empty (skip_ws rest) then POk j EmptyString else PErr
  | e => e
  end.

(* the whole pipeline at the text level: Module.from_json / json.loads(text, object_hook=json_decoder) *)
Inductive tres := TOk (v : pv) | TErr (e : err) | TJson | TUnmod.
Definition loads_decode (s : string) : tres :=
  match loads s with
  | POk j _ => match decode j with Ok v => TOk v | Err e => TErr e end
  | PErr => TJson
  | PUnmod => TUnmod
  | PFuel => TUnmod
  end.

(* nodes of a term (fuel measure) *)
Fixpoint jsize (j : json) : nat :=
  match j with
  | JArr l => S (fold_right (fun x acc => jsize x + acc) 0 l)
  | JObj kvs => S (fold_right (fun kv acc => jsize (snd kv) + acc) 0 kvs)
  | _ => 1
  end.

(* ------------------------------------------------------------------------------------------------ *)
(* 3. The command line's format: json.dumps(..., indent=2, sort_keys=True) (cli.py dump)               *)

Fixpoint spaces_k (n : nat) (k : string) : string := match n with O => k | S m => String (ch 32) (spaces_k m k) end.
(* '\n' + indent * level *)
Definition newline_k (lvl : nat) (k : string) : string := String (ch 10) (spaces_k (2 * lvl) k).

(* json.encoder._make_iterencode with an indent: empty containers stay "[]" / "{}", the item separator is "," *)
Fixpoint print_ind (lvl : nat) (j : json) (k : string) : string :=
  match j with
  | JArr (x0 :: r0) =>
      String (ch 91)
        ((fix elems (first : bool) (l : list json) : string :=
            match l with
            | [] => newline_k lvl (String (ch 93) k)
            | x :: r => (if first then newline_k (S lvl) else fun s => String (ch 44) (newline_k (S lvl) s))
                          (print_ind (S lvl) x (elems false r))
            end) true (x0 :: r0))
  | JObj (kv0 :: r0) =>
      String (ch 123)
        ((fix membs (first : bool) (l : list (string * json)) : string :=
            match l with
            | [] => newline_k lvl (String (ch 125) k)
            | (key, v) :: r => (if first then newline_k (S lvl) else fun s => String (ch 44) (newline_k (S lvl) s))
                                 (quote_k key (append ": " (print_ind (S lvl) v (membs false r))))
            end) true (kv0 :: r0))
  | _ => print_k j k
  end.

(* sort_keys=True: the items of every dict sorted by key (code point order), stable *)
Fixpoint insert_kv (kv : string * json) (l : list (string * json)) : list (string * json) :=
  match l with
  | [] => [kv]
  | kv' :: r => if String.ltb (fst kv') (fst kv) then kv' :: insert_kv kv r else kv :: l
  end.
Fixpoint sort_keys (j : json) : json :=
  match j with
  | JArr l => JArr (map sort_keys l)
  | JObj kvs => JObj (fold_right insert_kv [] (map (fun kv => (fst kv, sort_keys (snd kv))) kvs))
  | _ => j
  end.

(* what `griffe dump` prints for the documents of the requested packages (print() appends the newline) *)
Definition dumps_cli (j : json) : string := print_ind 0 (sort_keys j) (String (ch 10) EmptyString).
