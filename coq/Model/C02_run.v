(* C02: the one entry point extracted to OCaml; dispatches on the leading tag. *)
From Coq Require Import List String.
From Verif Require Import Lib.Sexp Model.C02_params Model.C02_container Model.C02_scope Model.C02_tree Model.C02_flow Model.C02_multi.
Import ListNotations.
Open Scope string_scope.

Definition run_C02 (s : sexp) : sexp :=
  match s with
  | SList (SStr "params" :: _) | SList (SStr "spec" :: _) => run_params s
  | SList (SStr "ops" :: _) | SList (SStr "ops-spec" :: _) | SList (SStr "bound" :: _) => run_container s
  | SList (SStr "items" :: _) | SList (SStr "cpy" :: _) => run_scope s
  | SList (SStr "flow" :: _) => run_flow s
  | SList (SStr "multi" :: _) | SList (SStr "merge" :: _) => run_multi_sexp s
  | SList (SStr "tree" :: _) | SList (SStr "tree-spec" :: _) => run_tree s
  | _ => bad_input
  end.
