(* C18 model: extensions/dataclasses.py (_dataclass_parameters, _reorder_parameters, _set_dataclass_init,
   _apply_recursively's `"__init__" not in members` guard, label propagation) and CPython 3.12's
   dataclasses._process_class / _get_field / _fields_in_init_order / _init_fn.  Executable definitions only.

   A module is a table of classes in definition order.  Each class carries its decorator arguments (if decorated
   with @dataclass), its body as a list of abstract statements, an optional hand-written __init__ (placed last in
   the body; it may assign new annotated instance attributes `self.n: int = 0`), and its MRO as a list of table
   indices of its strict ancestors (C07's subject; the harness passes CPython's and checks Griffe's is the same). *)
From Coq Require Import List Arith Bool ZArith String.
From Verif Require Import Lib.Sexp.
Import ListNotations.
Open Scope list_scope. Open Scope nat_scope.

Definition name := nat.

(* field(init=..., kw_only=..., default=..., default_factory=..., <anything else, e.g. repr=False>) *)
Record fargs := mkfa { fa_init : option bool; fa_kw : option bool; fa_default : bool; fa_factory : bool; fa_other : bool }.
Inductive value := VNone | VPlain | VField (a : fargs).
Inductive ann := ANone | APlain | AClassVar | AInitVar | AKwOnly.
Inductive stmt :=
| SAttr (n : name) (a : ann) (v : value)     (* n [: ann] [= value] *)
| SDef (n : name) (prop : bool)              (* def n(self) / @property def n(self) -> int *)
| SAnnProp (n : name).                       (* n: int  followed by  @property def n(self) -> int *)
Record decargs := mkdec { d_init : option bool; d_kw : option bool }.
Record cls := mkcls { c_dec : option decargs; c_body : list stmt; c_hw : option (list name); c_mro : list nat }.
Definition table := list cls.

Inductive pkind := PK | KO.
Record param := mkp { p_name : name; p_kind : pkind; p_def : bool }.
Inductive init_member := Absent | Handwritten | Synth (ps : list param).

Definition opt_is (o : option bool) (b : bool) : bool := match o with Some x => Bool.eqb x b | None => false end.
Definition decorated (c : cls) : bool := match c_dec c with Some _ => true | None => false end.
Definition mro_classes (t : table) (c : cls) : list cls :=
  flat_map (fun j => match nth_error t j with Some b => [b] | None => [] end) (c_mro c).
Definition is_field_ann (a : ann) : bool := match a with APlain | AInitVar => true | _ => false end.
Definition init_false (b : cls) : bool := match c_dec b with Some d => opt_is (d_init d) false | None => false end.

(* ---- Python dict semantics: d[key(x)] = x keeps the position of an existing key, appends a new one ---- *)
Section Dict.
  Variable A : Type.
  Variable key : A -> name.
  Fixpoint upd (m : list A) (x : A) : list A :=
    match m with
    | [] => [x]
    | y :: r => if Nat.eqb (key y) (key x) then x :: r else y :: upd r x
    end.
  Definition merge (m l : list A) : list A := fold_left upd l m.
  Definition dedup (l : list A) : list A := merge [] l.
End Dict.
Arguments upd {A} key m x. Arguments merge {A} key m l. Arguments dedup {A} key l.

(* ================= Griffe ================= *)

(* members of the class as the visitor leaves them: body statements, then the annotated instance attributes a
   hand-written __init__ (last in the body) assigns *)
Definition g_body (c : cls) : list stmt :=
  c_body c ++ match c_hw c with Some l => map (fun n => SAttr n APlain VPlain) l | None => [] end.

(* parameter default: "default_factory" in args -> call; else args.get("default", None if is_field else member.value) *)
Definition g_default (v : value) : bool :=
  match v with
  | VNone => false
  | VPlain => true
  | VField a => fa_factory a || fa_default a
  end.
Definition g_init_false (v : value) : bool := match v with VField a => opt_is (fa_init a) false | _ => false end.
Definition g_kw_true (v : value) : bool := match v with VField a => opt_is (fa_kw a) true | _ => false end.
Definition g_kw_false (v : value) : bool := match v with VField a => opt_is (fa_kw a) false | _ => false end.

(* the loop of _dataclass_parameters over class_.members *)
Fixpoint g_scan (kw : bool) (body : list stmt) : list param :=
  match body with
  | [] => []
  | SDef _ _ :: r => g_scan kw r                      (* functions: not attributes; properties: "property" label *)
  | SAnnProp _ :: r => g_scan kw r                    (* the property replaced the attribute member *)
  | SAttr n a v :: r =>
      match a with
      | ANone => g_scan kw r                          (* annotation is None *)
      | AClassVar => g_scan kw r                      (* class-attribute and not instance-attribute *)
      | AKwOnly => g_scan true r
      | _ => if g_init_false v then g_scan kw r
             else mkp n (if g_kw_true v || (kw && negb (g_kw_false v)) then KO else PK) (g_default v) :: g_scan kw r
      end
  end.

Definition g_class_params (c : cls) : list param :=
  match c_dec c with
  | None => []
  | Some d => g_scan (opt_is (d_kw d) true) (g_body c)
  end.

(* _set_dataclass_init: parents in reversed MRO that carry the decorator, then the class itself *)
Definition g_collect (t : table) (c : cls) : list param :=
  flat_map (fun b => if decorated b then g_class_params b else []) (rev (mro_classes t c)) ++ g_class_params c.

Definition is_pk (p : param) : bool := match p_kind p with PK => true | KO => false end.
Definition is_ko (p : param) : bool := match p_kind p with KO => true | PK => false end.
Definition g_reorder (l : list param) : list param :=
  let d := dedup p_name l in filter is_pk d ++ filter is_ko d.

(* members["__init__"] after on_package_loaded (parameters after self) *)
Definition g_init_member (t : table) (c : cls) : init_member :=
  match c_hw c with
  | Some _ => Handwritten
  | None => if decorated c then (if init_false c then Absent else Synth (g_reorder (g_collect t c))) else Absent
  end.

(* "dataclass" in labels: from the decorator (visitor), or added by _set_dataclass_label when a parent is decorated *)
Definition g_label (t : table) (c : cls) : bool := decorated c || existsb decorated (mro_classes t c).

(* ================= CPython ================= *)

Inductive ftype := FReal | FClassVar | FInitVar.
Record fld := mkf { f_name : name; f_type : ftype; f_init : bool; f_kw : bool; f_def : bool }.

(* does statement s leave a class attribute behind once the class exists and @dataclass (if any) has processed it *)
Definition stmt_binds (dec : bool) (s : stmt) : option name :=
  match s with
  | SDef n _ => Some n
  | SAnnProp n => Some n
  | SAttr n _ VNone => None
  | SAttr n _ VPlain => Some n
  | SAttr n _ (VField fa) => if dec then (if fa_default fa then Some n else None) else Some n
  end.
Definition binds (c : cls) (n : name) : bool :=
  existsb (fun s => match stmt_binds (decorated c) s with Some m => Nat.eqb m n | None => false end) (c_body c).
(* getattr(cls, n, MISSING) is not MISSING through the strict ancestors *)
Definition inh (t : table) (c : cls) (n : name) : bool := existsb (fun b => binds b n) (mro_classes t c).

Definition ann_type (a : ann) : ftype := match a with AClassVar => FClassVar | AInitVar => FInitVar | _ => FReal end.

(* the loop over cls.__annotations__ with _get_field; None = CPython raises *)
Fixpoint py_scan (inhf : name -> bool) (kw seen : bool) (body : list stmt) : option (list fld) :=
  match body with
  | [] => Some []
  | SDef _ _ :: r => py_scan inhf kw seen r
  | SAnnProp n :: r => option_map (cons (mkf n FReal true kw true)) (py_scan inhf kw seen r)
  | SAttr n a v :: r =>
      match a with
      | ANone => match v with VField _ => None | _ => py_scan inhf kw seen r end   (* field without annotation *)
      | AKwOnly => if seen then None else py_scan inhf true true r
      | _ =>
        let ty := ann_type a in
        match v with
        | VNone => option_map (cons (mkf n ty true kw (inhf n))) (py_scan inhf kw seen r)
        | VPlain => option_map (cons (mkf n ty true kw true)) (py_scan inhf kw seen r)
        | VField fa =>
            let bad := match ty with
                       | FReal => false
                       | FInitVar => fa_factory fa
                       | FClassVar => fa_factory fa || match fa_kw fa with Some _ => true | None => false end
                       end in
            if bad || (fa_default fa && fa_factory fa) then None
            else option_map (cons (mkf n ty (match fa_init fa with Some b => b | None => true end)
                                              (match fa_kw fa with Some b => b | None => kw end)
                                              (fa_default fa || fa_factory fa)))
                            (py_scan inhf kw seen r)
        end
      end
  end.

Definition py_own (t : table) (c : cls) : option (list fld) :=
  match c_dec c with
  | Some d => py_scan (inh t c) (opt_is (d_kw d) true) false (c_body c)
  | None => Some []
  end.

Definition in_init (f : fld) : bool := match f_type f with FClassVar => false | _ => f_init f end.
Definition to_param (f : fld) : param := mkp (f_name f) (if f_kw f then KO else PK) (f_def f).
Definition py_params (fl : list fld) : list param :=
  let ins := filter in_init fl in
  map to_param (filter (fun f => negb (f_kw f)) ins) ++ map to_param (filter f_kw ins).

(* _init_fn: non-default argument follows default argument (std fields only) *)
Fixpoint order_ok (seen_def : bool) (l : list fld) : bool :=
  match l with
  | [] => true
  | f :: r => if in_init f && negb (f_kw f)
              then (if f_def f then order_ok true r else negb seen_def && order_ok seen_def r)
              else order_ok seen_def r
  end.

(* env: for every class already created, its own __dict__.get("__dataclass_fields__") *)
Definition env := list (option (list fld)).
Fixpoint find_some {A B} (f : A -> option B) (l : list A) : option B :=
  match l with [] => None | x :: r => match f x with Some y => Some y | None => find_some f r end end.
(* getattr(b, "__dataclass_fields__", None): attribute lookup along b's own MRO *)
Definition getattr_fields (t : table) (e : env) (j : nat) : option (list fld) :=
  match nth_error t j with
  | None => None
  | Some b => find_some (fun k => match nth_error e k with Some (Some fl) => Some fl | _ => None end) (j :: c_mro b)
  end.
Definition inherited (t : table) (e : env) (c : cls) : list fld :=
  fold_left (fun acc j => match getattr_fields t e j with Some fl => merge f_name acc fl | None => acc end)
            (rev (c_mro c)) [].

(* one class statement executed; outer None = the module raises *)
Definition py_step (t : table) (e : env) (c : cls) : option (option (list fld)) :=
  match c_dec c with
  | None => Some None
  | Some d =>
      match py_own t c with
      | None => None
      | Some own =>
          let fields := merge f_name (inherited t e c) own in
          if opt_is (d_init d) false || order_ok false fields then Some (Some fields) else None
      end
  end.
Fixpoint py_eval (t : table) (e : env) (todo : list cls) : option env :=
  match todo with
  | [] => Some e
  | c :: r => match py_step t e c with Some x => py_eval t (e ++ [x]) r | None => None end
  end.
Definition py_eval_table (t : table) : option env := py_eval t [] t.

(* cls.__dict__.get("__init__") after the module ran *)
Definition py_init_member (e : env) (i : nat) (c : cls) : init_member :=
  match c_hw c with
  | Some _ => Handwritten
  | None =>
      match c_dec c with
      | None => Absent
      | Some d => if opt_is (d_init d) false then Absent
                  else match nth_error e i with Some (Some fl) => Synth (py_params fl) | _ => Absent end
      end
  end.
(* dataclasses.is_dataclass(cls): hasattr(cls, "__dataclass_fields__") *)
Definition py_is_dataclass (t : table) (c : cls) : bool := decorated c || existsb decorated (mro_classes t c).

(* ================= known gaps (findings C18-F2, F3, F4, F6, F7): decidable predicates =================
   (F1, F5, F8, F9 were repaired in the code; their predicates are gone) *)

(* the decorated classes whose fields feed c's __init__: reversed MRO, then c *)
Definition chain (t : table) (c : cls) : list cls := filter decorated (rev (mro_classes t c) ++ [c]).

Definition own_or_nil (t : table) (b : cls) : list fld := match py_own t b with Some l => l | None => [] end.
(* flat collection: every decorated class contributes its own fields once *)
Definition flat_fields (t : table) (c : cls) : list fld := dedup f_name (flat_map (own_or_nil t) (chain t c)).

(* F2: an annotation-only field whose name is bound as a class attribute in an ancestor (CPython takes it as default) *)
Fixpoint g2_scan (inhf : name -> bool) (body : list stmt) : bool :=
  match body with
  | [] => false
  | SAttr n a VNone :: r => (is_field_ann a && inhf n) || g2_scan inhf r
  | _ :: r => g2_scan inhf r
  end.
Definition G2 (t : table) (c : cls) : bool := existsb (fun b => g2_scan (inh t b) (c_body b)) (chain t c).

(* F3: one name is an __init__ field in one class of the chain and a ClassVar / init=False field in another
   (CPython overrides first and filters afterwards; Griffe filters per class first) *)
Definition consistent {A} (key : A -> name) (P : A -> bool) (l : list A) : bool :=
  forallb (fun x => forallb (fun y => implb (Nat.eqb (key x) (key y)) (Bool.eqb (P x) (P y))) l) l.
Definition G3 (t : table) (c : cls) : bool := negb (consistent f_name in_init (flat_map (own_or_nil t) (chain t c))).

(* F4: a decorated ancestor has a hand-written __init__ that assigns annotated instance attributes *)
Definition hw_assigns (b : cls) : bool := match c_hw b with Some (_ :: _) => true | _ => false end.
Definition G4 (t : table) (c : cls) : bool := existsb hw_assigns (chain t c).

(* F6: CPython's accumulated __dataclass_fields__ (every base contributes its whole inherited dict again) differs
   from the flat collection: only possible with multiple inheritance *)
Definition fld_eqb (a b : fld) : bool :=
  Nat.eqb (f_name a) (f_name b) &&
  match f_type a, f_type b with FReal, FReal | FClassVar, FClassVar | FInitVar, FInitVar => true | _, _ => false end &&
  Bool.eqb (f_init a) (f_init b) && Bool.eqb (f_kw a) (f_kw b) && Bool.eqb (f_def a) (f_def b).
Fixpoint list_eqb {A} (eqb : A -> A -> bool) (l m : list A) : bool :=
  match l, m with
  | [], [] => true
  | x :: l', y :: m' => eqb x y && list_eqb eqb l' m'
  | _, _ => false
  end.
Definition G6 (t : table) (e : env) (i : nat) (c : cls) : bool :=
  match nth_error e i with
  | Some (Some fl) => negb (list_eqb fld_eqb fl (flat_fields t c))
  | _ => true
  end.

(* F7: an annotated name re-bound by a property in the same body *)
Definition g7_scan (body : list stmt) : bool := existsb (fun s => match s with SAnnProp _ => true | _ => false end) body.
Definition G7 (t : table) (c : cls) : bool := existsb (fun b => g7_scan (c_body b)) (chain t c).

Definition gaps (t : table) (e : env) (i : nat) (c : cls) : list bool :=
  [G2 t c; G3 t c; G4 t c; G6 t e i c; G7 t c].
Definition known_gap (t : table) (e : env) (i : nat) (c : cls) : bool := existsb (fun b => b) (gaps t e i c).

(* single inheritance: the MRO of every class is its base followed by the base's MRO *)
Definition linear_at (t : table) (i : nat) (c : cls) : bool :=
  match c_mro c with
  | [] => true
  | j :: r => Nat.ltb j i && match nth_error t j with Some b => list_eqb Nat.eqb r (c_mro b) | None => false end
  end.
Fixpoint linear_from (t : table) (i : nat) (l : list cls) : bool :=
  match l with [] => true | c :: r => linear_at t i c && linear_from t (S i) r end.
Definition linear (t : table) : bool := linear_from t 0 t.

(* ================= s-expression interface ================= *)
Open Scope string_scope.
Definition dec_ob := as_opt as_bool.
Definition dec_fargs (l : list sexp) : option fargs :=
  match l with
  | [i; k; d; f; o] => do i' <- dec_ob i; do k' <- dec_ob k; do d' <- as_bool d; do f' <- as_bool f; do o' <- as_bool o;
                       Some (mkfa i' k' d' f' o')
  | _ => None end.
Definition dec_value (s : sexp) : option value :=
  match s with
  | SList [SStr "none"] => Some VNone
  | SList [SStr "plain"] => Some VPlain
  | SList (SStr "field" :: l) => option_map VField (dec_fargs l)
  | _ => None end.
Definition dec_ann (s : sexp) : option ann :=
  match s with
  | SStr "none" => Some ANone | SStr "plain" => Some APlain | SStr "classvar" => Some AClassVar
  | SStr "initvar" => Some AInitVar | SStr "kwonly" => Some AKwOnly | _ => None end.
Definition dec_stmt (s : sexp) : option stmt :=
  match s with
  | SList [SStr "attr"; n; a; v] => do n' <- as_nat n; do a' <- dec_ann a; do v' <- dec_value v; Some (SAttr n' a' v')
  | SList [SStr "def"; n; p] => do n' <- as_nat n; do p' <- as_bool p; Some (SDef n' p')
  | SList [SStr "annprop"; n] => do n' <- as_nat n; Some (SAnnProp n')
  | _ => None end.
Definition dec_decargs (s : sexp) : option decargs :=
  match s with SList [i; k] => do i' <- dec_ob i; do k' <- dec_ob k; Some (mkdec i' k') | _ => None end.
Definition dec_cls (s : sexp) : option cls :=
  match s with
  | SList [d; b; h; m] =>
      do d' <- as_opt dec_decargs d; do b' <- as_list_of dec_stmt b; do h' <- as_opt (as_list_of as_nat) h;
      do m' <- as_list_of as_nat m; Some (mkcls d' b' h' m')
  | _ => None end.

Definition enc_param (p : param) : sexp :=
  SList [of_nat (p_name p); SStr (match p_kind p with PK => "PK" | KO => "KO" end); of_bool (p_def p)].
Definition enc_member (m : init_member) : sexp :=
  match m with
  | Absent => SList [SStr "absent"]
  | Handwritten => SList [SStr "handwritten"]
  | Synth ps => SList [SStr "synth"; SList (map enc_param ps)]
  end.

Fixpoint enc_classes (t : table) (oe : option env) (i : nat) (l : list cls) : list sexp :=
  match l with
  | [] => []
  | c :: r =>
      SList [enc_member (g_init_member t c);
             match oe with Some e => enc_member (py_init_member e i c) | None => SList [SStr "rejected"] end;
             of_bool (g_label t c); of_bool (py_is_dataclass t c);
             SList (map of_bool (match oe with Some e => gaps t e i c | None => [] end))]
      :: enc_classes t oe (S i) r
  end.

Definition run_C18 (s : sexp) : sexp :=
  match s with
  | SList [SStr "table"; cs] =>
      match as_list_of dec_cls cs with
      | Some t => let oe := py_eval_table t in
                  SList [of_bool (match oe with Some _ => true | None => false end); of_bool (linear t);
                         SList (enc_classes t oe 0 t)]
      | None => bad_input end
  | _ => bad_input
  end.
