(* C02 model: agents/visitor.py handle_function / get_base_property bookkeeping of one scope (module, class or
   function body) over a stream of definitions and other binders, with a per-definition outcome log; and CPython's
   execution of the same stream (namespace, typing's overload registry, property objects).
   Executable definitions only. *)
From Coq Require Import List ZArith String Ascii Bool Arith.
From Verif Require Import Lib.Sexp Model.C02_kinds Gen.C02_tables.
Import ListNotations.
Open Scope string_scope.
Open Scope list_scope.

(* DForeign: an accessor-shaped decorator (`<expr>.setter|deleter`) whose base is not this definition's own path;
   the visitor ignores it like any other decorator, CPython does not *)
Inductive deco := DOverload | DProperty | DSetter (base : string) | DDeleter (base : string) | DForeign | DOther.
Record fdef := mkF { fid : Z; fname : string; fdecos : list deco }.

(* what the visitor meets in a scope body: a def / async def, or anything else that binds a name to a
   non-function member (class, assignment, import) *)
Inductive item := IDef (f : fdef) | IBind (id : Z) (n : string).
Definition iname (it : item) : string := match it with IDef f => fname f | IBind _ n => n end.
Definition iid (it : item) : Z := match it with IDef f => fid f | IBind i _ => i end.

Inductive member :=
| MFunc (id : Z) (overloads : list Z)
| MProp (id : Z) (setter deleter : option Z)
| MOther (id : Z).

(* tracks = the scope is a module or a class (`self.current.kind in {Kind.MODULE, Kind.CLASS}`) *)
Record scope := mkScope { tracks : bool; members : list (string * member); buffer : list (string * list Z) }.

Fixpoint lookup {A} (n : string) (l : list (string * A)) : option A :=
  match l with [] => None | (k, v) :: r => if String.eqb k n then Some v else lookup n r end.
Fixpoint remove_key {A} (n : string) (l : list (string * A)) : list (string * A) :=
  match l with [] => [] | (k, v) :: r => if String.eqb k n then remove_key n r else (k, v) :: remove_key n r end.
(* dict assignment: keeps the position of an existing key, appends a new one *)
Fixpoint assign {A} (n : string) (v : A) (l : list (string * A)) : list (string * A) :=
  match l with
  | [] => [(n, v)]
  | (k, w) :: r => if String.eqb k n then (k, v) :: r else (k, w) :: assign n v r
  end.

Definition is_overload (d : deco) := match d with DOverload => true | _ => false end.
Definition is_property (d : deco) := match d with DProperty => true | _ => false end.

Definition member_is_property (s : scope) (n : string) : bool :=
  match lookup n (members s) with Some (MProp _ _ _) => true | _ => false end.

(* get_base_property: first decorator `<base>.setter|deleter` whose base resolves to this function's own path,
   where the member currently bound to that name is a (non-alias) property.  true = setter. *)
Fixpoint base_property (s : scope) (n : string) (ds : list deco) : option bool :=
  match ds with
  | [] => None
  | DSetter b :: r => if String.eqb b n && member_is_property s n then Some true else base_property s n r
  | DDeleter b :: r => if String.eqb b n && member_is_property s n then Some false else base_property s n r
  | _ :: r => base_property s n r
  end.

Inductive outcome :=
| OImpl (overloads : list Z)      (* set as member; these overloads were attached *)
| OOverload                       (* appended to the scope's pending overloads of that name *)
| ODropped                        (* overload in a scope that keeps none: neither member nor pending *)
| OProp                           (* became a property attribute, set as member *)
| OSetter (prop : Z) | ODeleter (prop : Z)   (* attached to that property, not a member *)
| OBind.

Definition set_member (s : scope) (n : string) (m : member) : scope :=
  mkScope (tracks s) (assign n m (members s)) (buffer s).

(* what each branch does *)
Definition property_action (s : scope) (f : fdef) : scope * outcome :=
  (set_member s (fname f) (MProp (fid f) None None), OProp).
Definition overload_action (s : scope) (f : fdef) : scope * outcome :=
  if tracks s then
    let old := match lookup (fname f) (buffer s) with Some l => l | None => [] end in
    (mkScope (tracks s) (members s) (assign (fname f) (old ++ [fid f]) (buffer s)), OOverload)
  else (s, ODropped).
Definition impl_action (s : scope) (f : fdef) : scope * outcome :=
  if tracks s then
    match lookup (fname f) (buffer s) with
    | Some (x :: l) =>
        (mkScope (tracks s) (assign (fname f) (MFunc (fid f) (x :: l)) (members s)) (remove_key (fname f) (buffer s)),
         OImpl (x :: l))
    | _ => (set_member s (fname f) (MFunc (fid f) []), OImpl [])
    end
  else (set_member s (fname f) (MFunc (fid f) []), OImpl []).

(* the tests are tried in the order the source tries them (Gen/C02_tables.v: ladder) *)
Fixpoint dispatch (l : list branch) (s : scope) (f : fdef) : scope * outcome :=
  match l with
  | [] => impl_action s f
  | BProperty :: r => if existsb is_property (fdecos f) then property_action s f else dispatch r s f
  | BOverload :: r => if existsb is_overload (fdecos f) then overload_action s f else dispatch r s f
  | BAccessor :: r =>
      match base_property s (fname f) (fdecos f), lookup (fname f) (members s) with
      | Some true, Some (MProp id _ d) => (set_member s (fname f) (MProp id (Some (fid f)) d), OSetter id)
      | Some false, Some (MProp id st _) => (set_member s (fname f) (MProp id st (Some (fid f))), ODeleter id)
      | _, _ => dispatch r s f
      end
  end.

Definition handle_function (s : scope) (f : fdef) : scope * outcome := dispatch ladder s f.

Definition handle_item (s : scope) (it : item) : scope * outcome :=
  match it with
  | IDef f => handle_function s f
  | IBind id n => (set_member s n (MOther id), OBind)
  end.

Definition step (s : scope) (it : item) : scope := fst (handle_item s it).
Definition visit_items (its : list item) (s : scope) : scope := fold_left step its s.

Fixpoint visit_log (its : list item) (s : scope) : list outcome :=
  match its with
  | [] => []
  | it :: r => snd (handle_item s it) :: visit_log r (step s it)
  end.

Definition buf (n : string) (s : scope) : list Z :=
  match lookup n (buffer s) with Some l => l | None => [] end.

(* ---------- CPython: executing the same body ---------- *)
Inductive cobj :=
| CFunc (id : Z)                         (* a function object (possibly inside staticmethod/classmethod) *)
| CDummy                                 (* typing._overload_dummy *)
| CProp (fget : Z) (fset fdel : option Z)
| COtherObj (id : Z).

Record cstate := mkC { ns : list (string * cobj); registry : list (string * list Z) }.

Definition reg (n : string) (c : cstate) : list Z := match lookup n (registry c) with Some l => l | None => [] end.

(* one decorator applied to the object built so far for `def n` (id i).  Shapes outside the idioms
   (a role decorator on something that is no longer the plain function, a setter for another name) are
   reported as "unsupported" rather than guessed. *)
Definition apply_deco (c : cstate) (n : string) (d : deco) (o : cobj) : result (cobj * cstate) :=
  match d, o with
  | DOther, _ => Ok (o, c)
  | DForeign, _ => Err "unsupported"
  | DOverload, CFunc i => Ok (CDummy, mkC (ns c) (assign n (reg n c ++ [i]) (registry c)))
  | DProperty, CFunc i => Ok (CProp i None None, c)
  | DSetter b, CFunc i =>
      if String.eqb b n then
        match lookup b (ns c) with
        | Some (CProp g _ dl) => Ok (CProp g (Some i) dl, c)
        | Some _ => Err "AttributeError"
        | None => Err "NameError"
        end
      else Err "unsupported"
  | DDeleter b, CFunc i =>
      if String.eqb b n then
        match lookup b (ns c) with
        | Some (CProp g st _) => Ok (CProp g st (Some i), c)
        | Some _ => Err "AttributeError"
        | None => Err "NameError"
        end
      else Err "unsupported"
  | _, _ => Err "unsupported"
  end.

(* decorators are applied bottom-up: ds_rev = rev (fdecos f) *)
Fixpoint apply_decos (c : cstate) (n : string) (ds_rev : list deco) (o : cobj) : result (cobj * cstate) :=
  match ds_rev with
  | [] => Ok (o, c)
  | d :: r => match apply_deco c n d o with
              | Ok (o', c') => apply_decos c' n r o'
              | Err e => Err e
              end
  end.

(* decorator expressions are evaluated top-down before the function object exists: `n.setter` needs n bound to
   a property right now; a foreign accessor is outside the modelled shapes *)
Definition is_foreign (d : deco) := match d with DForeign => true | _ => false end.
Fixpoint eval_decos (c : cstate) (ds : list deco) : option string :=
  match ds with
  | [] => None
  | DSetter b :: r | DDeleter b :: r =>
      match lookup b (ns c) with
      | Some (CProp _ _ _) => eval_decos c r
      | Some _ => Some "AttributeError"
      | None => Some "NameError"
      end
  | _ :: r => eval_decos c r
  end.

Definition cpy_item (c : cstate) (it : item) : result cstate :=
  match it with
  | IBind id n => Ok (mkC (assign n (COtherObj id) (ns c)) (registry c))
  | IDef f =>
      if existsb is_foreign (fdecos f) then Err "unsupported" else
      match eval_decos c (fdecos f) with
      | Some e => Err e
      | None =>
          match apply_decos c (fname f) (rev (fdecos f)) (CFunc (fid f)) with
          | Ok (o, c') => Ok (mkC (assign (fname f) o (ns c')) (registry c'))
          | Err e => Err e
          end
      end
  end.

Fixpoint cpy_exec (its : list item) (c : cstate) : result cstate :=
  match its with
  | [] => Ok c
  | it :: r => match cpy_item c it with Ok c' => cpy_exec r c' | Err e => Err e end
  end.

(* ---------- declarative vocabulary for the theorems ---------- *)
(* the suffix after the last element satisfying f; None when no element does *)
Fixpoint after_last {A} (f : A -> bool) (l : list A) : option (list A) :=
  match l with
  | [] => None
  | x :: r => match after_last f r with
              | Some t => Some t
              | None => if f x then Some r else None
              end
  end.

Definition is_impl (o : outcome) : bool := match o with OImpl _ => true | _ => false end.
Definition is_ovl (o : outcome) : bool := match o with OOverload => true | _ => false end.
Definition impl_of (n : string) (x : item * outcome) : bool := String.eqb (iname (fst x)) n && is_impl (snd x).
Definition ovl_of (n : string) (x : item * outcome) : bool := String.eqb (iname (fst x)) n && is_ovl (snd x).
Definition overload_ids (n : string) (l : list (item * outcome)) : list Z := map (fun x => iid (fst x)) (filter (ovl_of n) l).
(* all overload lists attached to implementations named n, in order *)
Definition attached (n : string) (l : list (item * outcome)) : list Z :=
  flat_map (fun x => if String.eqb (iname (fst x)) n then match snd x with OImpl ovs => ovs | _ => [] end else []) l.

(* the first item named n that is not a pending overload re-binds the name whatever it was bound to *)
Definition plain_overload_b (f : fdef) : bool := negb (existsb is_property (fdecos f)) && existsb is_overload (fdecos f).
Fixpoint own_accessor (n : string) (ds : list deco) : bool :=
  match ds with
  | [] => false
  | DSetter b :: r => String.eqb b n || own_accessor n r
  | DDeleter b :: r => String.eqb b n || own_accessor n r
  | _ :: r => own_accessor n r
  end.
Definition unconditional_binder (it : item) : bool :=
  match it with
  | IBind _ _ => true
  | IDef f => existsb is_property (fdecos f) || (negb (existsb is_overload (fdecos f)) && negb (own_accessor (fname f) (fdecos f)))
  end.
Fixpoint rebinds_first (n : string) (its : list item) : bool :=
  match its with
  | [] => false
  | it :: r => if String.eqb (iname it) n then
                 match it with
                 | IDef f => if plain_overload_b f then rebinds_first n r else unconditional_binder it
                 | IBind _ _ => true
                 end
               else rebinds_first n r
  end.

(* ---------- from decorator callable paths to the roles above (tables regenerated from visitor.py) ---------- *)
(* str.rsplit(".", 1): (text before the last dot, text after it); None when there is no dot (ValueError -> continue) *)
Fixpoint rsplit_dot (s : string) : option (string * string) :=
  match s with
  | EmptyString => None
  | String c r =>
      match rsplit_dot r with
      | Some (a, b) => Some (String c a, b)
      | None => if Ascii.eqb c "."%char then Some (EmptyString, r) else None
      end
  end.

Definition in_strings (x : string) (l : list string) : bool := existsb (String.eqb x) l.

(* fpath = Function.path of the definition being handled, p = Decorator.callable_path.
   One path falls in at most one table; the order of the tests below is immaterial for the generated tables
   (Proofs/C02_scope.v: classify_tables_disjoint). *)
Definition classify (fpath : string) (p : string) : deco :=
  if in_strings p overload_paths then DOverload
  else if in_strings p property_paths then DProperty
  else match rsplit_dot p with
       | Some (base, last) =>
           match lookup last accessor_names with
           | Some true => if String.eqb base fpath then DSetter fpath else DForeign
           | Some false => if String.eqb base fpath then DDeleter fpath else DForeign
           | None => DOther
           end
       | None => DOther
       end.

(* ---------- s-expression interface ---------- *)
(* a decorator is given either as a role (tests of the bookkeeping alone) or as a callable path to classify *)
Definition dec_deco (fpath : string) (n : string) (s : sexp) : option deco :=
  match s with
  | SList [SStr "overload"] => Some DOverload
  | SList [SStr "property"] => Some DProperty
  | SList [SStr "setter"; SStr b] => Some (DSetter b)
  | SList [SStr "deleter"; SStr b] => Some (DDeleter b)
  | SList [SStr "other"] => Some DOther
  | SList [SStr "foreign"] => Some DForeign
  | SList [SStr "path"; SStr p] =>
      Some (match classify fpath p with DSetter _ => DSetter n | DDeleter _ => DDeleter n | d => d end)
  | _ => None
  end.
Definition dec_item (s : sexp) : option item :=
  match s with
  | SList [SStr "def"; SInt i; SStr n; SStr fpath; ds] => do ds' <- as_list_of (dec_deco fpath n) ds; Some (IDef (mkF i n ds'))
  | SList [SStr "bind"; SInt i; SStr n] => Some (IBind i n)
  | _ => None
  end.
Definition enc_member (nm : string * member) : sexp :=
  match snd nm with
  | MFunc id ov => SList [SStr (fst nm); SStr "function"; SInt id; SList (map SInt ov)]
  | MProp id st dl => SList [SStr (fst nm); SStr "property"; SInt id; of_opt SInt st; of_opt SInt dl]
  | MOther id => SList [SStr (fst nm); SStr "other"; SInt id]
  end.
Definition enc_outcome (o : outcome) : sexp :=
  match o with
  | OImpl ovs => SList [SStr "impl"; SList (map SInt ovs)]
  | OOverload => SList [SStr "overload"]
  | ODropped => SList [SStr "dropped"]
  | OProp => SList [SStr "property"]
  | OSetter p => SList [SStr "setter"; SInt p]
  | ODeleter p => SList [SStr "deleter"; SInt p]
  | OBind => SList [SStr "bind"]
  end.
Definition enc_scope (s : scope) (log : list outcome) : sexp :=
  SList [SList (map enc_member (members s));
         SList (map (fun kv => SList [SStr (fst kv); SList (map SInt (snd kv))]) (buffer s));
         SList (map enc_outcome log)].
Definition enc_cobj (no : string * cobj) : sexp :=
  match snd no with
  | CFunc i => SList [SStr (fst no); SStr "function"; SInt i]
  | CDummy => SList [SStr (fst no); SStr "dummy"]
  | CProp g s d => SList [SStr (fst no); SStr "property"; SInt g; of_opt SInt s; of_opt SInt d]
  | COtherObj i => SList [SStr (fst no); SStr "other"; SInt i]
  end.
Definition enc_cstate (r : result cstate) : sexp :=
  match r with
  | Ok c => SList [SStr "ok"; SList (map enc_cobj (ns c));
                   SList (map (fun kv => SList [SStr (fst kv); SList (map SInt (snd kv))]) (registry c))]
  | Err e => SList [SStr "err"; SStr e]
  end.

Definition run_scope (s : sexp) : sexp :=
  match s with
  | SList [SStr "items"; SStr k; its] =>
      let kind := if String.eqb k "module" then Some KModule else if String.eqb k "class" then Some KClass
                  else if String.eqb k "function" then Some KFunction else None in
      match kind, as_list_of dec_item its with
      | Some k', Some its' =>
          let s0 := mkScope (existsb (skind_eqb k') tracking_kinds) [] [] in enc_scope (visit_items its' s0) (visit_log its' s0)
      | _, _ => bad_input
      end
  | SList [SStr "cpy"; its] =>
      match as_list_of dec_item its with
      | Some its' => enc_cstate (cpy_exec its' (mkC [] []))
      | None => bad_input
      end
  | _ => bad_input
  end.
