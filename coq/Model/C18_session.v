(* C18 model, part 2: what lies around the per-class computation.

   (1) The constructor Griffe PRESENTS for a class (Class.parameters = all_members["__init__"].parameters: the class' own
       __init__ member, else the one of the first class of its MRO that has one) against the one CPython resolves
       (cls.__init__ along __mro__, i.e. inspect.signature(cls)).
   (2) The dataclasses extension as the STATEFUL machine it is: one extension object serves many on_package_loaded
       events; _dataclass_parameters is memoised by functools.cache for the life of the process (keyed by the class
       OBJECT), _del_members_annotated_as_initvar mutates a class after its __init__ was synthesised, the walk
       (_apply_recursively) visits classes in member order (a subclass may come before or after its bases, which may
       belong to a package loaded by an earlier event) and skips canonical paths already seen during the SAME event.
       The machine takes the shape of the merging code (Model/C18_modes.v) and two flags that the code has at
       (false, false); the other settings are the plausible-but-wrong variants (cache dropped at each event / processed
       set kept on the extension), used only to show that the theorem is sensitive to them.
   Executable definitions only. *)
From Coq Require Import List Arith Bool ZArith String.
From Verif Require Import Lib.Sexp Model.C18_dataclass.
Import ListNotations.
Open Scope list_scope. Open Scope nat_scope.

(* ================= (1) the presented constructor ================= *)

Fixpoint first_init (f : nat -> init_member) (l : list nat) : option (nat * init_member) :=
  match l with
  | [] => None
  | j :: r => match f j with Absent => first_init f r | m => Some (j, m) end
  end.

Definition g_member_at (t : table) (j : nat) : init_member :=
  match nth_error t j with Some b => g_init_member t b | None => Absent end.
Definition py_member_at (t : table) (e : env) (j : nat) : init_member :=
  match nth_error t j with Some b => py_init_member e j b | None => Absent end.

(* (providing class, its __init__ member); None = no __init__ anywhere but object's *)
Definition g_presented (t : table) (i : nat) (c : cls) : option (nat * init_member) :=
  first_init (g_member_at t) (i :: c_mro c).
Definition py_presented (t : table) (e : env) (i : nat) (c : cls) : option (nat * init_member) :=
  first_init (py_member_at t e) (i :: c_mro c).

(* the parameters after self; the hand-written __init__ of class j is `def __init__(self, q<j>)`, name 100 + j *)
Definition hw_name (j : nat) : name := 100 + j.
Definition presented_params (o : option (nat * init_member)) : list param :=
  match o with
  | Some (j, Handwritten) => [mkp (hw_name j) PK false]
  | Some (_, Synth ps) => ps
  | _ => []
  end.

(* ================= (2) the extension as a state machine ================= *)

Record sstate := mkst {
  s_cache : list (nat * list param);     (* functools.cache of _dataclass_parameters: class object -> parameters *)
  s_pruned : list nat;                   (* class objects whose InitVar-annotated members were deleted *)
  s_init : list (nat * init_member);     (* members["__init__"] set by the extension *)
  s_label : list nat;                    (* "dataclass" label added by _set_dataclass_label *)
  s_processed : list nat                 (* canonical paths seen (a local of on_package_loaded in the code) *)
}.
Definition st0 : sstate := mkst [] [] [] [] [].

Fixpoint lookup {A} (k : nat) (l : list (nat * A)) : option A :=
  match l with
  | [] => None
  | (k', v) :: r => if Nat.eqb k k' then Some v else lookup k r
  end.
Definition memb (k : nat) (l : list nat) : bool := existsb (Nat.eqb k) l.

Definition is_initvar_stmt (s : stmt) : bool := match s with SAttr _ AInitVar _ => true | _ => false end.
(* class_.members (attributes) as the extension finds them NOW *)
Definition live_body (st : sstate) (j : nat) (b : cls) : list stmt :=
  if memb j (s_pruned st) then filter (fun s => negb (is_initvar_stmt s)) (g_body b) else g_body b.
Definition params_now (st : sstate) (j : nat) (b : cls) : list param :=
  match c_dec b with
  | None => []
  | Some d => g_scan (opt_is (d_kw d) true) (live_body st j b)
  end.

(* _dataclass_parameters(class_) through functools.cache *)
Definition cached (st : sstate) (j : nat) (b : cls) : list param * sstate :=
  match lookup j (s_cache st) with
  | Some ps => (ps, st)
  | None => let ps := params_now st j b in
            (ps, mkst ((j, ps) :: s_cache st) (s_pruned st) (s_init st) (s_label st) (s_processed st))
  end.

(* the loop of _set_dataclass_init over reversed(mro), then the class itself: decorated classes only *)
Fixpoint collect (t : table) (st : sstate) (l : list nat) : list param * sstate :=
  match l with
  | [] => ([], st)
  | j :: r =>
      match nth_error t j with
      | Some b => if decorated b
                  then let (ps, st1) := cached st j b in
                       let (qs, st2) := collect t st1 r in (ps ++ qs, st2)
                  else collect t st r
      | None => collect t st r
      end
  end.

(* "__init__" in mod_cls.members *)
Definition has_init (st : sstate) (j : nat) (c : cls) : bool :=
  match c_hw c with
  | Some _ => true
  | None => match lookup j (s_init st) with Some _ => true | None => false end
  end.

(* the Class branch of _apply_recursively for class object j (its MRO, c_mro, is the one computable at this moment) *)
Definition process (t : table) (st : sstate) (j : nat) : sstate :=
  match nth_error t j with
  | None => st
  | Some c =>
      let sa := if existsb decorated (mro_classes t c)
                then mkst (s_cache st) (s_pruned st) (s_init st) (j :: s_label st) (s_processed st) else st in
      if has_init sa j c then sa
      else
        let (ps, s1) := collect t sa (rev (c_mro c) ++ [j]) in
        let s2 := if decorated c && negb (init_false c)
                  then mkst (s_cache s1) (s_pruned s1) ((j, Synth (g_reorder ps)) :: s_init s1) (s_label s1) (s_processed s1)
                  else s1 in
        mkst (s_cache s2) (j :: s_pruned s2) (s_init s2) (s_label s2) (s_processed s2)
  end.

(* one on_package_loaded event: the classes of the package tree in walk order; paths = canonical path of each object *)
Fixpoint walk (t : table) (paths : list nat) (st : sstate) (ev : list nat) : sstate :=
  match ev with
  | [] => st
  | j :: r =>
      let p := nth j paths 0 in
      if memb p (s_processed st) then walk t paths st r
      else let s1 := process t st j in
           walk t paths (mkst (s_cache s1) (s_pruned s1) (s_init s1) (s_label s1) (p :: s_processed s1)) r
  end.

(* flags: drop_cache = cache cleared at each event; keep_processed = the processed set lives on the extension.
   extensions/dataclasses.py is (false, false). *)
Definition event (drop_cache keep_processed : bool) (t : table) (paths : list nat) (st : sstate) (ev : list nat) : sstate :=
  walk t paths (mkst (if drop_cache then [] else s_cache st) (s_pruned st) (s_init st) (s_label st)
                     (if keep_processed then s_processed st else [])) ev.
Definition session_gen (dc kp : bool) (t : table) (paths : list nat) (evs : list (list nat)) : sstate :=
  fold_left (event dc kp t paths) evs st0.
Definition session := session_gen false false.

(* what one sees afterwards: members.get("__init__") and "dataclass" in labels *)
Definition s_member (st : sstate) (j : nat) (c : cls) : init_member :=
  match c_hw c with
  | Some _ => Handwritten
  | None => match lookup j (s_init st) with Some m => m | None => Absent end
  end.
Definition s_labelled (st : sstate) (j : nat) (c : cls) : bool := decorated c || memb j (s_label st).
