(* C17 model, names bound more than once in one scope.
   Static : Visitor.visit_import / visit_importfrom and handle_function / visit_classdef always set the member;
            Visitor.handle_attribute keeps an existing member when the assignment sits directly in an `if` or `except`
            branch ("prefer the no-exception case") and replaces it otherwise.
   Runtime: the statements that are executed bind in order; the last one wins.
   Executable definitions only. *)
From Coq Require Import List ZArith String Ascii Bool Arith.
From Verif Require Import Lib.Sexp.
Import ListNotations.
Open Scope string_scope.
Open Scope list_scope.

(* what a name is after a statement: bound by an import, by def/class, or by an assignment *)
Inductive bkind := BImport | BDef | BAssign.

Record bstmt := mkB {
  b_kind : bkind;
  b_branch : bool;      (* the statement's parent node is an ast.If / ast.ExceptHandler *)
  b_taken : bool }.     (* CPython executes it *)

Definition is_some {A} (o : option A) : bool := match o with Some _ => true | None => false end.

(* the visitor: one statement *)
Definition visit_step (st : option bkind) (s : bstmt) : option bkind :=
  match b_kind s with
  | BImport => Some BImport
  | BDef => Some BDef
  | BAssign => if is_some st && b_branch s then st else Some BAssign
  end.

(* CPython: one statement *)
Definition run_step (rt : option bkind) (s : bstmt) : option bkind := if b_taken s then Some (b_kind s) else rt.

Definition visit_all (l : list bstmt) : option bkind := fold_left visit_step l None.
Definition run_all (l : list bstmt) : option bkind := fold_left run_step l None.

(* a statement is skipped by the visitor exactly when CPython does not execute it *)
Definition skipped (st : option bkind) (s : bstmt) : bool :=
  match b_kind s with BAssign => is_some st && b_branch s | _ => false end.
Fixpoint branches_in_step (st : option bkind) (l : list bstmt) : bool :=
  match l with
  | [] => true
  | s :: r => Bool.eqb (b_taken s) (negb (skipped st s)) && branches_in_step (visit_step st s) r
  end.

(* gap predicate F12 (decidable): some statement is executed although the visitor skips it, or the reverse *)
Definition gap_rebind (l : list bstmt) : bool := negb (branches_in_step None l).

(* ------------------------------------------------------------------------------------------------ *)
(* where a statement sits, and which branches run: nothing is supplied from outside any more          *)

Inductive cond :=
| CTypeChecking        (* typing.TYPE_CHECKING / TYPE_CHECKING: False at runtime *)
| CNotTypeChecking     (* not typing.TYPE_CHECKING *)
| CFalseTest           (* a test that is false in every supported interpreter: sys.version_info < (3, 0) *)
| CTrueTest.           (* sys.version_info >= (3, 0) *)

Inductive place :=
| PTop                 (* directly in the module / class body, or in the body of a `try` that does not raise *)
| PThen (c : cond)     (* body of `if c:` *)
| PElse (c : cond)     (* its `else:` *)
| PExcept.             (* handler of an exception that is not raised *)

Definition eval_cond (c : cond) : bool :=
  match c with CTypeChecking => false | CNotTypeChecking => true | CFalseTest => false | CTrueTest => true end.

(* CPython executes the statement *)
Definition place_taken (p : place) : bool :=
  match p with PTop => true | PThen c => eval_cond c | PElse c => negb (eval_cond c) | PExcept => false end.
(* handle_attribute's test: node.parent is an ast.If or an ast.ExceptHandler *)
Definition place_branch (p : place) : bool := match p with PTop => false | _ => true end.
(* Visitor.visit_if: the statement is visited with type_guarded set (the member gets runtime=False) *)
Definition place_guarded (p : place) : bool :=
  match p with PThen CTypeChecking | PElse CNotTypeChecking => true | _ => false end.

Record cstmt := mkC { c_kind : bkind; c_place : place }.
Definition lower (s : cstmt) : bstmt := mkB (c_kind s) (place_branch (c_place s)) (place_taken (c_place s)).

(* the visitor, with the runtime flag of the member it keeps *)
Definition visit_step_c (st : option (bkind * bool)) (s : cstmt) : option (bkind * bool) :=
  let fresh := Some (c_kind s, negb (place_guarded (c_place s))) in
  match c_kind s with
  | BAssign => if is_some st && place_branch (c_place s) then st else fresh
  | _ => fresh
  end.
Definition visit_all_c (l : list cstmt) : option (bkind * bool) := fold_left visit_step_c l None.

(* gap predicate F12 over the conditions themselves (decidable) *)
Definition gap_cond (l : list cstmt) : bool := gap_rebind (map lower l).

Definition dec_cond (s : sexp) : option cond :=
  match s with
  | SStr "tc" => Some CTypeChecking | SStr "nottc" => Some CNotTypeChecking
  | SStr "false" => Some CFalseTest | SStr "true" => Some CTrueTest | _ => None
  end.
Definition dec_place (s : sexp) : option place :=
  match s with
  | SStr "top" => Some PTop
  | SStr "except" => Some PExcept
  | SList [SStr "then"; c] => do c' <- dec_cond c; Some (PThen c')
  | SList [SStr "else"; c] => do c' <- dec_cond c; Some (PElse c')
  | _ => None
  end.

Definition dec_bkind (s : sexp) : option bkind :=
  match s with SStr "import" => Some BImport | SStr "def" => Some BDef | SStr "assign" => Some BAssign | _ => None end.
Definition dec_bstmt (s : sexp) : option bstmt :=
  match s with
  | SList [k; b; t] => do k' <- dec_bkind k; do b' <- as_bool b; do t' <- as_bool t; Some (mkB k' b' t')
  | _ => None
  end.
Definition enc_bkind (k : bkind) : sexp := SStr (match k with BImport => "import" | BDef => "def" | BAssign => "assign" end).

(* ["rebind", stmts] -> [static binder kind; runtime binder kind; F12] *)
Definition dec_cstmt (s : sexp) : option cstmt :=
  match s with
  | SList [k; p] => do k' <- dec_bkind k; do p' <- dec_place p; Some (mkC k' p')
  | _ => None
  end.

Definition run_rebind (s : sexp) : option sexp :=
  match s with
  | SList [SStr "rebind"; l] =>
      match as_list_of dec_bstmt l with
      | Some l' => Some (SList [of_opt enc_bkind (visit_all l'); of_opt enc_bkind (run_all l'); of_bool (gap_rebind l')])
      | None => Some bad_input
      end
  | SList [SStr "rebindc"; l] =>
      (* [static binder kind; runtime flag of the kept member; runtime binder kind; F12; is each statement executed] *)
      match as_list_of dec_cstmt l with
      | Some l' =>
          Some (SList [of_opt enc_bkind (option_map fst (visit_all_c l'));
                       of_opt of_bool (option_map snd (visit_all_c l'));
                       of_opt enc_bkind (run_all (map lower l'));
                       of_bool (gap_cond l');
                       SList (map (fun s => of_bool (place_taken (c_place s))) l')])
      | None => Some bad_input
      end
  | _ => None
  end.
