(* C17 model, names bound more than once in one scope.
   Static : Visitor.visit_import / visit_importfrom and handle_function / visit_classdef always set the member;
            Visitor.handle_attribute keeps an existing member when the assignment sits directly in an `if` or `except`
            branch ("prefer the no-exception case") and replaces it otherwise.
   Runtime: the statements that are executed bind in order; the last one wins.
   Executable definitions only. *)
From Coq Require Import List ZArith String Ascii Bool Arith.
From Verif Require Import Lib.Sexp.
Import ListNotations.
Open Scope string_scope.
Open Scope list_scope.

(* what a name is after a statement: bound by an import, by def/class, or by an assignment *)
Inductive bkind := BImport | BDef | BAssign.

Record bstmt := mkB {
  b_kind : bkind;
  b_branch : bool;      (* the statement's parent node is an ast.If / ast.ExceptHandler *)
  b_taken : bool }.     (* CPython executes it *)

Definition is_some {A} (o : option A) : bool := match o with Some _ => true | None => false end.

(* the visitor: one statement *)
Definition visit_step (st : option bkind) (s : bstmt) : option bkind :=
  match b_kind s with
  | BImport => Some BImport
  | BDef => Some BDef
  | BAssign => if is_some st && b_branch s then st else Some BAssign
  end.

(* CPython: one statement *)
Definition run_step (rt : option bkind) (s : bstmt) : option bkind := if b_taken s then Some (b_kind s) else rt.

Definition visit_all (l : list bstmt) : option bkind := fold_left visit_step l None.
Definition run_all (l : list bstmt) : option bkind := fold_left run_step l None.

(* a statement is skipped by the visitor exactly when CPython does not execute it *)
Definition skipped (st : option bkind) (s : bstmt) : bool :=
  match b_kind s with BAssign => is_some st && b_branch s | _ => false end.
Fixpoint branches_in_step (st : option bkind) (l : list bstmt) : bool :=
  match l with
  | [] => true
  | s :: r => Bool.eqb (b_taken s) (negb (skipped st s)) && branches_in_step (visit_step st s) r
  end.

(* gap predicate F12 (decidable): some statement is executed although the visitor skips it, or the reverse *)
Definition gap_rebind (l : list bstmt) : bool := negb (branches_in_step None l).

Definition dec_bkind (s : sexp) : option bkind :=
  match s with SStr "import" => Some BImport | SStr "def" => Some BDef | SStr "assign" => Some BAssign | _ => None end.
Definition dec_bstmt (s : sexp) : option bstmt :=
  match s with
  | SList [k; b; t] => do k' <- dec_bkind k; do b' <- as_bool b; do t' <- as_bool t; Some (mkB k' b' t')
  | _ => None
  end.
Definition enc_bkind (k : bkind) : sexp := SStr (match k with BImport => "import" | BDef => "def" | BAssign => "assign" end).

(* ["rebind", stmts] -> [static binder kind; runtime binder kind; F12] *)
Definition run_rebind (s : sexp) : option sexp :=
  match s with
  | SList [SStr "rebind"; l] =>
      match as_list_of dec_bstmt l with
      | Some l' => Some (SList [of_opt enc_bkind (visit_all l'); of_opt enc_bkind (run_all l'); of_bool (gap_rebind l')])
      | None => Some bad_input
      end
  | _ => None
  end.
