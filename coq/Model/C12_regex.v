(* C12 regex model: characters, character classes, a regular-expression AST covering what the three docstring
   parsers write (the AST of every regex of /repo is regenerated into Gen/C12_regexes.v on each run), the model
   matcher (a backtracking matcher in continuation-passing style with Python's priorities: greedy / lazy
   quantifiers, ordered alternatives, leftmost search), and the syntactic criteria under which its number of
   steps is polynomially bounded.  Executable definitions only.

   No fuel anywhere: the matcher recurses on the structure of the regex; the only loop, the unbounded quantifier,
   recurses on a counter that starts at the number of characters left and goes down by one per iteration, every
   iteration being required to consume at least one character. *)
From Coq Require Import List NArith Bool Arith.
Import ListNotations.
Open Scope list_scope.
Open Scope nat_scope.

(* ---------------------------------------------------------------- characters *)
(* One character of a Python str.  [cp] is the code point.  For code points below 128 the other fields are
   determined by [cp] (see [ascii_ch]); for the others the harness fills them in with Python's str methods:
   c_word = c.isalnum() or c == "_" (regex \w), c_space = c.isspace() (regex \s and str.strip), c_digit =
   c.isdecimal() (regex \d), c_ci = the lower-case ASCII letter the character equals under re.IGNORECASE (0 when
   none; e.g. the Kelvin sign gives "k"), c_low = the code points of c.lower(). *)
Record ch := mkCh { cp : N; c_word : bool; c_space : bool; c_digit : bool; c_ci : N; c_low : list N }.

Definition in_range (a b x : N) : bool := N.leb a x && N.leb x b.
Definition is_upper (x : N) : bool := in_range 65 90 x.
Definition is_lower (x : N) : bool := in_range 97 122 x.
Definition is_digit (x : N) : bool := in_range 48 57 x.
Definition ascii_word (x : N) : bool := is_upper x || is_lower x || is_digit x || N.eqb x 95.
(* str.isspace below 128: \t \n \v \f \r, the four separators 28..31, and the space *)
Definition ascii_space (x : N) : bool := in_range 9 13 x || in_range 28 32 x.
Definition ascii_lower (x : N) : N := if is_upper x then (x + 32)%N else x.
Definition ascii_ci (x : N) : N := if is_upper x then (x + 32)%N else if is_lower x then x else 0%N.
Definition ascii_ch (x : N) : ch :=
  mkCh x (ascii_word x) (ascii_space x) (is_digit x) (ascii_ci x) [ascii_lower x].
(* the fields of an ASCII character are the ones computed here *)
Definition ch_wf (x : ch) : bool :=
  if N.ltb (cp x) 128 then
    Bool.eqb (c_word x) (ascii_word (cp x)) && Bool.eqb (c_space x) (ascii_space (cp x))
    && Bool.eqb (c_digit x) (is_digit (cp x)) && N.eqb (c_ci x) (ascii_ci (cp x))
    && match c_low x with [l] => N.eqb l (ascii_lower (cp x)) | _ => false end
  else
    (* the categories of another character are consistent: a character that equals an ASCII letter when case is
       ignored is a word character, a decimal digit is a word character, white space is neither *)
    implb (negb (N.eqb (c_ci x) 0)) (is_lower (c_ci x) && c_word x && negb (c_space x) && negb (c_digit x))
    && implb (c_digit x) (c_word x && negb (c_space x))
    && implb (c_space x) (negb (c_word x)).

(* ---------------------------------------------------------------- character classes *)
Inductive cat := CWord | CSpace | CDigit.
Inductive citem := ILit (c : N) | IRange (a b : N) | ICat (k : cat) (neg : bool).
(* CAny is "." without DOTALL: everything but a newline *)
Inductive cls := CAny | CSet (neg : bool) (items : list citem).

Definition cat_of (k : cat) (x : ch) : bool :=
  match k with CWord => c_word x | CSpace => c_space x | CDigit => c_digit x end.
Definition cp_in (x : N) (it : citem) : bool :=
  match it with ILit c => N.eqb x c | IRange a b => in_range a b x | ICat _ _ => false end.
(* [ic] = re.IGNORECASE: a literal or range (ASCII only: the translator refuses anything else under this flag)
   also takes the characters whose case-insensitive ASCII letter, in either case, lies in it *)
Definition item_match (ic : bool) (x : ch) (it : citem) : bool :=
  match it with
  | ICat k neg => xorb neg (cat_of k x)
  | _ => cp_in (cp x) it
         || (ic && negb (N.eqb (c_ci x) 0) && (cp_in (c_ci x) it || cp_in (c_ci x - 32)%N it))
  end.
Definition cls_match (ic : bool) (cl : cls) (x : ch) : bool :=
  match cl with
  | CAny => negb (N.eqb (cp x) 10)
  | CSet neg items => xorb neg (existsb (item_match ic x) items)
  end.

(* ---------------------------------------------------------------- regular expressions *)
(* What sre's parser hands to the translator: LITERAL / NOT_LITERAL / IN / ANY become [RChr]; a sequence is nested
   [RSeq]; BRANCH is nested [RAlt]; AT_BEGINNING / AT_END are [RBol] / [REol]; MAX_REPEAT / MIN_REPEAT with an
   unbounded maximum are [RStar] (preceded by the mandatory copies of the body), with a bounded maximum they are
   unrolled into nested [ROpt]; SUBPATTERN n is [RGrp n].  Anything else is refused by the translator. *)
Inductive re :=
| REps
| RChr (c : cls)
| RBol
| REol
| RSeq (a b : re)
| RAlt (a b : re)
| ROpt (greedy : bool) (a : re)
| RStar (greedy : bool) (a : re)
| RGrp (i : nat) (a : re).

(* captures, newest first: group number, start and end position (positions are binary numbers: the progress test
   of the quantifier compares two of them on every iteration) *)
Definition caps := list (nat * (N * N)).

Definition is_nl (x : ch) : bool := N.eqb (cp x) 10.

Section Matcher.
  Variable ic : bool.
  Variable R : Type.
  (* a continuation gets the position reached, the characters left and the captures; None = no match this way *)
  Definition kont := N -> list ch -> caps -> option R.

  (* the unbounded quantifier around [body]; n = iterations still allowed (starts at the number of characters left);
     an iteration that consumes nothing is abandoned *)
  Section Star.
    Variable body : N -> list ch -> caps -> kont -> option R.
    Variable g : bool.
    Variable k : kont.
    Fixpoint star_loop (n : nat) (p : N) (s : list ch) (c : caps) {struct n} : option R :=
      match n with
      | 0 => k p s c
      | S n' =>
          if g then
            match body p s c (fun p' s' c' => if N.ltb p p' then star_loop n' p' s' c' else None) with
            | Some v => Some v
            | None => k p s c
            end
          else
            match k p s c with
            | Some v => Some v
            | None => body p s c (fun p' s' c' => if N.ltb p p' then star_loop n' p' s' c' else None)
            end
      end.
  End Star.

  (* [m r p s c k]: match [r] at position [p] ([s] = subject[p:]), then go on with [k]; alternatives are tried in
     Python's order and the first one whose continuation succeeds wins *)
  Fixpoint m (r : re) (p : N) (s : list ch) (c : caps) (k : kont) {struct r} : option R :=
    match r with
    | REps => k p s c
    | RChr cl =>
        match s with
        | x :: s' => if cls_match ic cl x then k (N.succ p) s' c else None
        | [] => None
        end
    | RBol => if N.eqb p 0 then k p s c else None
    | REol =>           (* "$" without MULTILINE: at the end, or before a final newline *)
        match s with
        | [] => k p s c
        | [x] => if is_nl x then k p s c else None
        | _ => None
        end
    | RSeq a b => m a p s c (fun p' s' c' => m b p' s' c' k)
    | RAlt a b =>
        match m a p s c k with
        | Some v => Some v
        | None => m b p s c k
        end
    | ROpt true a =>
        match m a p s c k with
        | Some v => Some v
        | None => k p s c
        end
    | ROpt false a =>
        match k p s c with
        | Some v => Some v
        | None => m a p s c k
        end
    | RStar g a => star_loop (m a) g k (List.length s) p s c
    | RGrp i a => m a p s c (fun p' s' c' => k p' s' ((i, (p, p')) :: c'))
    end.

  (* ---- the same matcher counting its steps: one step per visit of a regex node (and per iteration of a
     quantifier); the result component is [m]'s (Proofs/C12_regex.v: mc_result) ---- *)
  Definition kontc := N -> list ch -> caps -> nat * option R.
  Definition tick (x : nat * option R) : nat * option R := (S (fst x), snd x).
  (* try x, and y only when x fails *)
  Definition orelse (x : nat * option R) (y : unit -> nat * option R) : nat * option R :=
    match snd x with
    | Some v => x
    | None => let r := y tt in (fst x + fst r, snd r)
    end.

  Section StarC.
    Variable body : N -> list ch -> caps -> kontc -> nat * option R.
    Variable g : bool.
    Variable k : kontc.
    Fixpoint star_loopc (n : nat) (p : N) (s : list ch) (c : caps) {struct n} : nat * option R :=
      match n with
      | 0 => tick (k p s c)
      | S n' =>
          let again := fun _ : unit =>
            body p s c (fun p' s' c' => if N.ltb p p' then star_loopc n' p' s' c' else (0, None)) in
          if g then tick (orelse (again tt) (fun _ => k p s c))
          else tick (orelse (k p s c) again)
      end.
  End StarC.

  Fixpoint mc (r : re) (p : N) (s : list ch) (c : caps) (k : kontc) {struct r} : nat * option R :=
    match r with
    | REps => tick (k p s c)
    | RChr cl =>
        match s with
        | x :: s' => if cls_match ic cl x then tick (k (N.succ p) s' c) else (1, None)
        | [] => (1, None)
        end
    | RBol => if N.eqb p 0 then tick (k p s c) else (1, None)
    | REol =>
        match s with
        | [] => tick (k p s c)
        | [x] => if is_nl x then tick (k p s c) else (1, None)
        | _ => (1, None)
        end
    | RSeq a b => tick (mc a p s c (fun p' s' c' => mc b p' s' c' k))
    | RAlt a b => tick (orelse (mc a p s c k) (fun _ => mc b p s c k))
    | ROpt true a => tick (orelse (mc a p s c k) (fun _ => k p s c))
    | ROpt false a => tick (orelse (k p s c) (fun _ => mc a p s c k))
    | RStar g a => tick (star_loopc (mc a) g k (List.length s) p s c)
    | RGrp i a => tick (mc a p s c (fun p' s' c' => k p' s' ((i, (p, p')) :: c')))
    end.
End Matcher.
Arguments m ic {R} r p s c k.
Arguments mc ic {R} r p s c k.
Arguments star_loop {R} body g k n p s c.
Arguments star_loopc {R} body g k n p s c.
Arguments tick {R} x.
Arguments orelse {R} x y.

(* pattern.match(subject): anchored at position 0; result = end position and captures *)
Definition re_match (ic : bool) (r : re) (s : list ch) : option (N * caps) :=
  m ic r 0%N s [] (fun p _ c => Some (p, c)).

(* pattern.fullmatch(subject) *)
Definition re_fullmatch (ic : bool) (r : re) (s : list ch) : option (N * caps) :=
  m ic r 0%N s [] (fun p s' c => match s' with [] => Some (p, c) | _ => None end).

(* pattern.search(subject) from position p: leftmost start, result = (start, end, captures) *)
Fixpoint re_search_from (ic : bool) (r : re) (p : N) (s : list ch) : option (N * N * caps) :=
  match m ic r p s [] (fun e _ c => Some (p, e, c)) with
  | Some v => Some v
  | None => match s with
            | [] => None
            | _ :: s' => re_search_from ic r (N.succ p) s'
            end
  end.
Definition re_search (ic : bool) (r : re) (s : list ch) : option (N * N * caps) := re_search_from ic r 0%N s.

(* pattern.sub("", subject): every non-overlapping match, leftmost first, is deleted.  [skip] = characters of the
   current match still to be dropped.  (An empty match deletes nothing.) *)
Fixpoint re_sub_del_from (ic : bool) (r : re) (p : N) (skip : nat) (s : list ch) : list ch :=
  match skip with
  | S k => match s with
           | [] => []
           | _ :: s' => re_sub_del_from ic r (N.succ p) k s'
           end
  | 0 =>
      match m ic r p s [] (fun e _ _ => Some e) with
      | Some e =>
          match N.to_nat (e - p), s with
          | S k, _ :: s' => re_sub_del_from ic r (N.succ p) k s'
          | _, [] => []
          | 0, x :: s' => x :: re_sub_del_from ic r (N.succ p) 0 s'
          end
      | None => match s with
                | [] => []
                | x :: s' => x :: re_sub_del_from ic r (N.succ p) 0 s'
                end
      end
  end.
Definition re_sub_del (ic : bool) (r : re) (s : list ch) : list ch := re_sub_del_from ic r 0%N 0 s.

(* match.group(i): None when the group did not take part *)
Fixpoint cap_find (i : nat) (c : caps) : option (N * N) :=
  match c with
  | [] => None
  | (j, se) :: r => if i =? j then Some se else cap_find i r
  end.
Definition substr {A} (s : list A) (a b : N) : list A := firstn (N.to_nat (b - a)) (skipn (N.to_nat a) s).
Definition group {A} (s : list A) (c : caps) (i : nat) : option (list A) :=
  match cap_find i c with Some (a, b) => Some (substr s a b) | None => None end.

(* ---------------------------------------------------------------- the criterion *)
(* A1 (linear-iteration criterion): every unbounded quantifier repeats ONE character matcher
   (a class, a literal or the dot, as in "[\s\w-]*" or ".+?").
   Then an iteration cannot be cut into iterations in two ways, and the matcher's steps are bounded by the
   polynomial [bound] below (Proofs/C12_regex.v: poly1_bounded). *)
Fixpoint poly1 (r : re) : bool :=
  match r with
  | REps | RBol | REol | RChr _ => true
  | RSeq a b | RAlt a b => poly1 a && poly1 b
  | ROpt _ a => poly1 a
  | RStar _ a => match a with RChr _ => true | _ => false end
  | RGrp _ a => poly1 a
  end.

(* ---- sets of characters a class may contain, decided conservatively: a table over the 128 ASCII code points
   plus one bit "may contain a character above 127" ---- *)
Definition has_letter (it : citem) : bool :=
  match it with
  | ILit c => is_upper c || is_lower c
  | IRange a b => N.leb a 122 && N.leb 65 b && negb (N.ltb b 97 && N.ltb 90 a)
  | ICat _ _ => false
  end.
Definition item_nonascii (ic : bool) (it : citem) : bool :=
  match it with
  | ILit c => N.leb 128 c || (ic && has_letter it)
  | IRange a b => N.leb 128 b || (ic && has_letter it)
  | ICat _ _ => true
  end.
Definition cls_nonascii (ic : bool) (cl : cls) : bool :=
  match cl with
  | CAny => true
  | CSet true _ => true
  | CSet false items => existsb (item_nonascii ic) items
  end.
Definition ascii_codes : list N := map N.of_nat (seq 0 128).
(* does the class name a code point above 127 *)
Definition item_explicit_nonascii (it : citem) : bool :=
  match it with ILit c => N.leb 128 c | IRange _ b => N.leb 128 b | ICat _ _ => false end.
Definition cls_explicit_nonascii (cl : cls) : bool :=
  match cl with CAny => false | CSet _ items => existsb item_explicit_nonascii items end.
(* the characters above 127 as a class that names none of them can tell them apart: by their categories and their
   case-insensitive ASCII letter (combinations allowed by ch_wf); the code point lies outside every range < 128 *)
Definition abstract_chars : list ch :=
  let mk w s d ci := mkCh 1114112 w s d ci [] in
  [mk false false false 0%N; mk false true false 0%N; mk true false false 0%N; mk true false true 0%N]
  ++ map (fun l => mk true false false (N.of_nat l)) (seq 97 26).
(* sound for well-formed characters (ch_wf): true -> no character is matched by both classes *)
Definition cls_disjoint (ic : bool) (c1 c2 : cls) : bool :=
  forallb (fun x => negb (cls_match ic c1 (ascii_ch x) && cls_match ic c2 (ascii_ch x))) ascii_codes
  && (if cls_explicit_nonascii c1 || cls_explicit_nonascii c2
      then negb (cls_nonascii ic c1 && cls_nonascii ic c2)
      else forallb (fun x => negb (cls_match ic c1 x && cls_match ic c2 x)) abstract_chars).

Fixpoint nullable (r : re) : bool :=
  match r with
  | REps | RBol | REol => true
  | RChr _ => false
  | RSeq a b => nullable a && nullable b
  | RAlt a b => nullable a || nullable b
  | ROpt _ _ | RStar _ _ => true
  | RGrp _ a => nullable a
  end.

(* classes that can match the first character of a word of r *)
Fixpoint first (r : re) : list cls :=
  match r with
  | REps | RBol | REol => []
  | RChr c => [c]
  | RSeq a b => if nullable a then first a ++ first b else first a
  | RAlt a b => first a ++ first b
  | ROpt _ a | RStar _ a | RGrp _ a => first a
  end.
Definition disjoint_from (ic : bool) (cs fs : list cls) : bool :=
  forallb (fun c => forallb (cls_disjoint ic c) fs) cs.

(* [det r F]: r is deterministic given that the characters that may follow it belong to the classes F: at every
   choice point (leave or repeat a quantifier, take or skip an optional part, left or right alternative) the next
   character decides.  This is the LL(1) condition on the regex; a deterministic regex reaches every position of
   the subject along at most one path. *)
Fixpoint det (ic : bool) (r : re) (F : list cls) : bool :=
  match r with
  | REps | RBol | REol | RChr _ => true
  | RSeq a b => det ic a (if nullable b then first b ++ F else first b) && det ic b F
  | RAlt a b => negb (nullable a) && negb (nullable b) && disjoint_from ic (first a) (first b)
                && det ic a F && det ic b F
  | ROpt _ a => negb (nullable a) && disjoint_from ic (first a) F && det ic a F
  | RStar _ a => negb (nullable a) && disjoint_from ic (first a) F && det ic a (first a ++ F)
  | RGrp _ a => det ic a F
  end.

(* every class that occurs in r *)
Fixpoint classes (r : re) : list cls :=
  match r with
  | REps | RBol | REol => []
  | RChr c => [c]
  | RSeq a b | RAlt a b => classes a ++ classes b
  | ROpt _ a | RStar _ a | RGrp _ a => classes a
  end.

(* A2 (delimited-iteration criterion), the second admissible form of an unbounded quantifier: the body is
   "d rest" where the delimiter d is one character matcher that no class of rest can match, rest itself meets A1
   and is deterministic with d as the only character that may follow.  Iterations then start exactly at the
   occurrences of d and rest reaches the next d along one path only, so no subject position is entered twice.
   The repeated group of further names in the Numpy parameter regex is of this form. *)
Definition delimited (ic : bool) (a : re) : bool :=
  match a with
  | RSeq (RChr d) rest =>
      poly1 rest && forallb (cls_disjoint ic d) (classes rest) && det ic rest [d]
  | _ => false
  end.
Fixpoint poly2 (ic : bool) (r : re) : bool :=
  match r with
  | REps | RBol | REol | RChr _ => true
  | RSeq a b | RAlt a b => poly2 ic a && poly2 ic b
  | ROpt _ a => poly2 ic a
  | RStar _ a => match a with RChr _ => true | _ => delimited ic a end
  | RGrp _ a => poly2 ic a
  end.

(* ---------------------------------------------------------------- the step bound for A1 *)
(* [bound r n K]: steps of [m r] on a subject suffix of at most n characters when every call of the continuation
   costs at most K steps.  One step = one visit of a regex node.  For a fixed regex this is a polynomial in n and
   K whose degree in n is the largest number of unbounded quantifiers along a path through the sequence. *)
Fixpoint bound (r : re) (n K : nat) : nat :=
  match r with
  | REps | RBol | REol | RChr _ => 1 + K
  | RSeq a b => 1 + bound a n (bound b n K)
  | RAlt a b => 1 + bound a n K + bound b n K
  | ROpt _ a => 1 + bound a n K + K
  | RStar _ _ => 1 + (n + 1) * (K + 4)
  | RGrp _ a => 1 + bound a n K
  end.

(* how a regex is used by the parsers *)
Inductive use := UMatch | USearch | USub | UFullmatch.
Record regex := mkRegex { rx_ic : bool; rx_re : re; rx_uses : list use }.
Definition regex_ok (x : regex) : bool := poly2 (rx_ic x) (rx_re x).
Definition regex_a1 (x : regex) : bool := poly1 (rx_re x).
