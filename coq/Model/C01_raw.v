(* C01 raw layer: modules as trees of Python AST nodes tagged with their CLASS NAMES, lowered to the statement
   language of Model/C01_visitor.v by the visitor's own decision tables, which Gen/C01_dispatch.v regenerates from
   visitor.py / assignments.py on every run:
     * [visit_handlers]    which node kinds have a visit_<kind> method (Visitor.visit dispatches on the lower-cased
                           class name; every other kind goes to generic_visit, which just visits the children);
     * [name_builders]     which target nodes get_name accepts (anything else: KeyError, the assignment is ignored);
     * [names_statement_kinds], [instance_prefix], [cond_parent_kinds], [guard_parent_kinds], [type_checking_tests],
       [init_method_name].
   Executable definitions only.  What stays in the harness: reading the payload of a node off the CPython ast
   (line numbers, resolved decorator heads, import paths, __all__ items, the text of an if-test). *)
From Coq Require Import List ZArith String Ascii Bool Arith.
From Verif Require Import Lib.Sexp Model.C01_base Gen.C01_tables Gen.C01_dispatch Model.C01_visitor.
Import ListNotations.
Open Scope string_scope.
Open Scope list_scope.
Open Scope nat_scope.

(* ---------- raw syntax ---------- *)
(* an assignment target: class name of the node, its text (Name.id / Attribute.attr), its value child if any *)
Inductive rtarget := RT (kind : string) (text : string) (value : list rtarget).

Inductive payload :=
| PDef (ln dln eln : nat) (name : string) (ds : list deco)
| PCls (ln dln eln : nat) (name : string) (ds : list deco)
| PAssign (ln eln : nat) (ts : list rtarget) (items : list string)
| PAnn (ln eln : nat) (t : rtarget) (hv cv : bool) (items : list string)
| PAug (all_add : bool) (items : list string)        (* target is the name __all__ and the operator is + *)
| PImport (ln eln : nat) (names : list (string * string))
| PImportFrom (ln eln : nat) (names : list impname)
| PIf (test : string)                                (* str() of the condition expression *)
| PDoc (ln eln : nat)                                (* expression statement holding a string constant: its span *)
| PCall (recv method : string) (has_arg : bool) (items : list string)
    (* expression statement that is a call of an attribute: name of the receiver when it is a bare name ("" otherwise),
       the attribute, whether there is a first positional argument, the __all__ items read off that argument *)
| PNone.

(* a node: class name, payload, and its statement-bearing fields in _fields order (body / handlers / orelse /
   finalbody / cases ...), each a list of child nodes *)
Inductive rnode := RNode (kind : string) (pay : payload) (fields : list (list rnode)).

(* ---------- tables ---------- *)
Fixpoint assoc {A} (k : string) (l : list (string * A)) : option A :=
  match l with [] => None | (k', v) :: r => if String.eqb k k' then Some v else assoc k r end.

Definition lower_char (c : ascii) : ascii :=
  let n := nat_of_ascii c in if (65 <=? n) && (n <=? 90) then ascii_of_nat (n + 32) else c.
Fixpoint lower_case (s : string) : string :=
  match s with EmptyString => EmptyString | String c r => String (lower_char c) (lower_case r) end.
(* Visitor.visit *)
Definition handler_of (kind : string) : option handler := assoc (lower_case kind) visit_handlers.

Fixpoint strs_eqb (a b : list string) : bool :=
  match a, b with
  | [], [] => true
  | x :: a', y :: b' => String.eqb x y && strs_eqb a' b'
  | _, _ => false
  end.
Definition is_block_handler (h : handler) : bool :=
  match h with HModule | HClass | HFunction _ | HIf => true | _ => false end.
(* the parts of the tables that the STRUCTURE of the statement language fixes (pkind: a class / module body is a
   "level", the branches of an `if` and the body of an `except` are "conditional", the name of the descended method) *)
Definition tables_ok : bool :=
  strs_eqb guard_parent_kinds ["Module"; "ClassDef"] &&
  String.eqb init_method_name "__init__" && String.eqb instance_prefix "self." &&
  forallb (fun kh => match snd kh with
                     | HIf => existsb (fun c => String.eqb (lower_case c) (fst kh)) cond_parent_kinds
                     | HModule | HClass | HFunction _ => negb (existsb (fun c => String.eqb (lower_case c) (fst kh)) cond_parent_kinds)
                     | _ => true end) visit_handlers &&
  forallb (fun kh => match snd kh with HFunction ls => strs_eqb ls [] || strs_eqb ls ["async"] | _ => true end) visit_handlers.

(* ---------- targets (assignments.py) ---------- *)
(* get_name: None = KeyError *)
Fixpoint get_name (t : rtarget) : option string :=
  match t with
  | RT kind text value =>
      match assoc kind name_builders with
      | Some NBName => Some text
      | Some NBAttribute =>
          match value with
          | [v] => match get_name v with Some s => Some (String.append s (String.append "." text)) | None => None end
          | _ => None
          end
      | None => None
      end
  end.
Definition classify_name (s : string) : target :=
  if has_dot s then
    if String.prefix instance_prefix s
    then TSelf (String.substring (String.length instance_prefix) (String.length s - String.length instance_prefix) s)
    else TDotted
  else TName s.
Definition lower_target (t : rtarget) : target :=
  match get_name t with Some s => classify_name s | None => TBad end.

(* ---------- lowering ---------- *)
Definition sub_of (kind : string) (body : list stmt) : stmt := SSub (str_mem kind cond_parent_kinds) body.

Fixpoint lower (n : rnode) {struct n} : option stmt :=
  match n with
  | RNode kind pay fields =>
      let lower_list := fix ll (l : list rnode) {struct l} : option (list stmt) :=
        match l with
        | [] => Some []
        | x :: r => match lower x with Some x' => match ll r with Some r' => Some (x' :: r') | None => None end | None => None end
        end in
      let lower_fields := fix lf (fs : list (list rnode)) {struct fs} : option (list (list stmt)) :=
        match fs with
        | [] => Some []
        | f :: r => match lower_list f with Some f' => match lf r with Some r' => Some (f' :: r') | None => None end | None => None end
        end in
      match lower_fields fields with
      | None => None
      | Some fs =>
          match handler_of kind with
          | Some (HFunction labels) =>
              match pay, fs with
              | PDef ln dln eln name ds, [body] => Some (SDef ln dln eln name (negb (strs_eqb labels [])) ds body)
              | _, _ => None end
          | Some HClass =>
              match pay, fs with PCls ln dln eln name ds, [body] => Some (SCls ln dln eln name ds body) | _, _ => None end
          | Some HAttribute =>
              match pay, fs with
              | PAssign ln eln ts items, [] =>
                  Some (SAssign ln eln (if str_mem kind names_statement_kinds then map lower_target ts else [TBad]) items)
              | _, _ => None end
          | Some HAnnAttribute =>
              match pay, fs with
              | PAnn ln eln t hv cv items, [] =>
                  Some (SAnn ln eln (if str_mem kind names_statement_kinds then lower_target t else TBad) hv cv items)
              | _, _ => None end
          | Some HAugAssign =>
              match pay, fs with PAug all_add items, [] => Some (if all_add then SAugAll items else SOther) | _, _ => None end
          | Some HImport => match pay, fs with PImport ln eln names, [] => Some (SImport ln eln names) | _, _ => None end
          | Some HImportFrom => match pay, fs with PImportFrom ln eln names, [] => Some (SImportFrom ln eln names) | _, _ => None end
          | Some HIf =>
              match pay, fs with
              | PIf test, [body; orelse] =>
                  Some (SIf (if str_mem test type_checking_tests then TCPos
                             else if str_mem test negated_type_checking_tests then TCNeg else TCNone) body orelse)
              | _, _ => None end
          | Some HExpr =>
              (* visit_expr: <all_receiver>.<method>(argument) with method in all_methods extends the exports exactly as
                 `__all__ += argument` does (module only, exports already a list, items well formed; `append(x)` is
                 `extend([x])`, so the items are those of x either way); any other expression statement does nothing;
                 a string constant stays the docstring marker it is for its neighbours *)
              match pay, fs with
              | PDoc ln eln, [] => Some (SDoc ln eln)
              | PCall recv method has_arg items, [] =>
                  Some (if String.eqb recv all_receiver && negb (String.eqb all_receiver "") && str_mem method all_methods && has_arg
                        then SAugAll items else SOther)
              | PNone, [] => Some SOther
              | _, _ => None end
          | Some HModule => None                       (* a module is not a statement *)
          | None =>
              (* generic_visit: the children, field by field; the node itself does nothing.  A string expression
                 statement is kept as the docstring marker it is for its neighbours. *)
              match pay, fs with
              | PDoc ln eln, [] => Some (SDoc ln eln)
              | _, _ => Some (SBlock (map (sub_of kind) fs))
              end
          end
      end
  end.
Fixpoint lower_list (l : list rnode) : option (list stmt) :=
  match l with
  | [] => Some []
  | x :: r => match lower x with Some x' => match lower_list r with Some r' => Some (x' :: r') | None => None end | None => None end
  end.
Fixpoint lower_fields (fs : list (list rnode)) : option (list (list stmt)) :=
  match fs with
  | [] => Some []
  | f :: r => match lower_list f with Some f' => match lower_fields r with Some r' => Some (f' :: r') | None => None end | None => None end
  end.

(* visit_module + generic_visit of the Module node *)
Definition lower_module (body : list rnode) : option (list stmt) :=
  if tables_ok then
    match handler_of "Module" with Some HModule => lower_list body | _ => None end
  else None.

(* ---------- s-expression interface ---------- *)
Fixpoint dec_rtarget (fuel : nat) (s : sexp) {struct fuel} : option rtarget :=
  match fuel with
  | O => None
  | S fuel' =>
      match s with
      | SList [SStr kind; SStr text; v] => do v' <- as_list_of (dec_rtarget fuel') v; Some (RT kind text v')
      | _ => None
      end
  end.
Definition dec_payload (s : sexp) : option payload :=
  match s with
  | SList [SStr "def"; ln; dln; eln; SStr name; ds] =>
      do ln' <- as_nat ln; do dln' <- as_nat dln; do eln' <- as_nat eln; do ds' <- as_list_of dec_deco ds;
      Some (PDef ln' dln' eln' name ds')
  | SList [SStr "class"; ln; dln; eln; SStr name; ds] =>
      do ln' <- as_nat ln; do dln' <- as_nat dln; do eln' <- as_nat eln; do ds' <- as_list_of dec_deco ds;
      Some (PCls ln' dln' eln' name ds')
  | SList [SStr "assign"; ln; eln; ts; items] =>
      do ln' <- as_nat ln; do eln' <- as_nat eln; do ts' <- as_list_of (dec_rtarget 64) ts; do it <- as_list_of as_str items;
      Some (PAssign ln' eln' ts' it)
  | SList [SStr "ann"; ln; eln; t; hv; cv; items] =>
      do ln' <- as_nat ln; do eln' <- as_nat eln; do t' <- dec_rtarget 64 t; do hv' <- as_bool hv; do cv' <- as_bool cv;
      do it <- as_list_of as_str items; Some (PAnn ln' eln' t' hv' cv' it)
  | SList [SStr "aug"; f; items] => do f' <- as_bool f; do it <- as_list_of as_str items; Some (PAug f' it)
  | SList [SStr "import"; ln; eln; names] =>
      do ln' <- as_nat ln; do eln' <- as_nat eln; do ns <- as_list_of dec_pair names; Some (PImport ln' eln' ns)
  | SList [SStr "importfrom"; ln; eln; names] =>
      do ln' <- as_nat ln; do eln' <- as_nat eln; do ns <- as_list_of dec_impname names; Some (PImportFrom ln' eln' ns)
  | SList [SStr "if"; SStr test] => Some (PIf test)
  | SList [SStr "doc"; ln; eln] => do ln' <- as_nat ln; do eln' <- as_nat eln; Some (PDoc ln' eln')
  | SList [SStr "call"; SStr recv; SStr method; ha; items] =>
      do ha' <- as_bool ha; do it <- as_list_of as_str items; Some (PCall recv method ha' it)
  | SList [SStr "none"] => Some PNone
  | _ => None
  end.
Fixpoint dec_rnode (fuel : nat) (s : sexp) {struct fuel} : option rnode :=
  match fuel with
  | O => None
  | S fuel' =>
      match s with
      | SList [SStr kind; pay; fields] =>
          do p <- dec_payload pay;
          do fs <- as_list_of (fun f => as_list_of (dec_rnode fuel') f) fields;
          Some (RNode kind p fs)
      | _ => None
      end
  end.
Definition dec_rbody (b : sexp) : option (list rnode) := as_list_of (dec_rnode 64) b.
