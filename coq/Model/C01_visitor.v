(* C01 model: agents/visitor.py (Visitor.visit_* / handle_function / handle_attribute / visit_if / events),
   agents/nodes/assignments.py (which targets create members), agents/nodes/docstrings.py + ast.py:ast_next
   (attribute docstrings), and the documented visibility table.  Executable definitions only.

   Two layers:
   * the *visitor machine* ([visit_stmt], [run_visit]): a state machine with the frame stack that stands for
     [Visitor.current] and its parents, the mutable [type_guarded] flag, the emitted extension events and a sticky
     error flag for Python exceptions;
   * the *level semantics* ([sem_stmt], [spec_module]): a purely recursive description -- the type-guard flag is an
     inherited attribute, a class body is evaluated on a fresh frame, there is no stack.
   Proofs/C01_visitor.v shows that the machine computes the level semantics, and proves the property statements
   about the level semantics.

   Decorator -> label tables come from Gen/C01_tables.v (regenerated from visitor.py on every run).
   What is NOT modelled here (C02's subject): the overload buffer and setter/deleter attachment; only their effect
   on *membership* is kept (an @overload def creates no member, a setter/deleter of an existing property neither). *)
From Coq Require Import List ZArith String Ascii Bool Arith.
From Verif Require Import Lib.Sexp Model.C01_base Gen.C01_tables.
Import ListNotations.
Open Scope string_scope.
Open Scope list_scope.
Open Scope nat_scope.

(* ---------- objects ---------- *)
Inductive okind := KMod | KFun | KCls | KAttr | KAlias.
Inductive skind := InModule | InClass | InInit.          (* what [Visitor.current] is: module, class, or a class's __init__ *)
Inductive pkind := PScope | PFunction | PIf | PHandler | POther.   (* the direct ast parent of a statement *)

Record info := mkInfo {
  ikind : okind; iline : nat; iend : nat; iruntime : bool;
  ilabels : list string; idoc : option (nat * nat);   (* docstring: line span of the string constant *)
  itarget : string }.                            (* alias target path, "" otherwise *)

Inductive obj := Obj (i : info) (ms : list (string * obj)) (imps : list (string * string)) (exps : option (list string)).
Definition oinfo (o : obj) := match o with Obj i _ _ _ => i end.
Definition omembers (o : obj) := match o with Obj _ ms _ _ => ms end.
Definition leaf (i : info) : obj := Obj i [] [] None.

(* ---------- statements (the abstraction of a Python module) ---------- *)
Inductive deco :=
| DPath (p : string)                    (* decorator whose callable path is p (already resolved) *)
| DAccessor (base fn : string)          (* @<base>.<fn> with base a bare name and fn in setter/deleter *)
| DRef (head rest : string).            (* NOT YET RESOLVED: dotted name <head><rest> (rest = "" or ".a.b"); resolved by
                                           Model/C01_resolve.v against the scopes at the moment of the definition; an
                                           unresolved reference derives no label *)

Inductive target :=
| TName (n : string)                    (* x *)
| TSelf (rest : string)                 (* self.<rest>, rest may itself contain dots *)
| TDotted                               (* a.b... not starting with self. *)
| TBad.                                 (* subscript / tuple / starred / call...: get_name raises KeyError *)

Inductive impname :=
| IName (an ap : string)                (* alias name, absolute alias path *)
| IStar (an ap : string)                (* wildcard: pseudo member name a/b/*, path a.b *)
| ISkip.                                (* `from . import b` inside an __init__ module *)

(* what the test of an `if` says about type checking: nothing, `TYPE_CHECKING` (the body is type-checking-only code),
   or `not TYPE_CHECKING` (the else branch is) *)
Inductive tcond := TCNone | TCPos | TCNeg.
Definition tc_pos (t : tcond) : bool := match t with TCPos => true | _ => false end.
Definition tc_neg (t : tcond) : bool := match t with TCNeg => true | _ => false end.

Inductive stmt :=
| SDef (ln dln eln : nat) (name : string) (is_async : bool) (decos : list deco) (body : list stmt)
| SCls (ln dln eln : nat) (name : string) (decos : list deco) (body : list stmt)
| SAssign (ln eln : nat) (targets : list target) (all_items : list string)
| SAnn (ln eln : nat) (t : target) (has_value classvar : bool) (all_items : list string)
| SAugAll (items : list string)                          (* __all__ += ... / __all__.extend(...) / __all__.append(.) *)
| SImport (ln eln : nat) (names : list (string * string))
| SImportFrom (ln eln : nat) (names : list impname)
| SIf (tc : tcond) (body orelse : list stmt)             (* tc: the test reads [not] TYPE_CHECKING / typing.TYPE_CHECKING *)
| SBlock (children : list stmt)                          (* for/while/with/try/match: statement children in field order *)
| SSub (handler : bool) (body : list stmt)               (* except handler (true) / match case (false), a child of a block *)
| SDoc (ln eln : nat)                                    (* expression statement that is a string constant *)
| SOther.

(* ---------- events ---------- *)
Inductive event :=
| EvNode (tag : string) (ln : nat)                                   (* on_node, on_<tag>_node *)
| EvInst (k : okind) (name : string) (ln : nat) (ppath : string) (pfun : bool)
                                                                     (* on_instance, on_<k>_instance; parent path *)
| EvMembers (k : okind) (name : string) (ln : nat) (path : string)   (* on_members, on_<k>_members *)
| EvAlias (name : string) (ln : nat) (ppath : string) (pfun : bool). (* on_alias *)

(* ---------- frames ---------- *)
Record frame := mkFrame {
  fkind : skind; fname : string; fpath : string;
  fmembers : list (string * obj); fimports : list (string * string); fexports : option (list string) }.

Definition set_members (f : frame) ms := mkFrame (fkind f) (fname f) (fpath f) ms (fimports f) (fexports f).
Definition set_imports (f : frame) im := mkFrame (fkind f) (fname f) (fpath f) (fmembers f) im (fexports f).
Definition set_exports (f : frame) ex := mkFrame (fkind f) (fname f) (fpath f) (fmembers f) (fimports f) ex.
Definition empty_frame (k : skind) (n p : string) := mkFrame k n p [] [] None.

Fixpoint lookup {A} (n : string) (l : list (string * A)) : option A :=
  match l with [] => None | (k, v) :: r => if String.eqb k n then Some v else lookup n r end.
(* dict assignment: keeps the position of an existing key, appends a new one *)
Fixpoint assign {A} (n : string) (v : A) (l : list (string * A)) : list (string * A) :=
  match l with
  | [] => [(n, v)]
  | (k, w) :: r => if String.eqb k n then (k, v) :: r else (k, w) :: assign n v r
  end.
Definition has_key {A} (n : string) (l : list (string * A)) : bool :=
  match lookup n l with Some _ => true | None => false end.

(* label sets as duplicate-free lists *)
Definition ladd (l : string) (ls : list string) : list string := if str_mem l ls then ls else ls ++ [l].
Definition lunion (a b : list string) : list string := fold_left (fun acc l => ladd l acc) b a.

Definition dot (a b : string) : string := String.append a (String.append "." b).

Fixpoint has_dot (s : string) : bool :=
  match s with EmptyString => false | String c r => if Ascii.eqb c "."%char then true else has_dot r end.

(* __all__ items: "s:<text>" string constant, "n:<id>" name, "c:<repr>" any other constant.  Building the exports
   list evaluates <item>.name on a non-string constant: AttributeError, suppressed, exports left unchanged. *)
Definition bad_item (s : string) : bool :=
  match s with String c (String d _) => Ascii.eqb c "c"%char && Ascii.eqb d ":"%char | _ => false end.
Definition items_ok (items : list string) : bool := negb (existsb bad_item items).

(* ---------- decorators ---------- *)
Definition deco_labels (d : deco) : list string :=
  match d with
  | DPath p => match assoc_labels p builtin_decorators with
               | Some ls => ls
               | None => match assoc_labels p stdlib_decorators with Some ls => ls | None => [] end
               end
  | DAccessor _ _ => []
  | DRef _ _ => []
  end.
Definition decorators_to_labels (ds : list deco) : list string :=
  fold_left (fun acc d => lunion acc (deco_labels d)) ds [].
Definition is_overload_deco (d : deco) : bool :=
  match d with DPath p => str_mem p typing_overload | _ => false end.

Definition member_is_property (ms : list (string * obj)) (n : string) : bool :=
  match lookup n ms with
  | Some o => match ikind (oinfo o) with
              | KAlias => false                         (* resolves to the target path, never the function's own path *)
              | _ => str_mem "property" (ilabels (oinfo o))
              end
  | None => false
  end.
(* get_base_property: the first decorator <name>.setter / <name>.deleter whose base is this function's own name
   while the member currently bound to that name carries the property label *)
Fixpoint base_property (ms : list (string * obj)) (n : string) (ds : list deco) : option string :=
  match ds with
  | [] => None
  | DAccessor b fn :: r =>
      if (String.eqb fn "setter" || String.eqb fn "deleter") && String.eqb b n && member_is_property ms n
      then Some fn else base_property ms n r
  | _ :: r => base_property ms n r
  end.

Definition add_label (n l : string) (ms : list (string * obj)) : list (string * obj) :=
  match lookup n ms with
  | Some (Obj i sub im ex) =>
      assign n (Obj (mkInfo (ikind i) (iline i) (iend i) (iruntime i) (ladd l (ilabels i)) (idoc i) (itarget i)) sub im ex) ms
  | None => ms
  end.

(* ---------- frame operations (shared by the machine and the level semantics) ---------- *)

(* handle_function, after the object has been built.  Result: new frame, python error. *)
Definition def_labels (is_async : bool) (ds : list deco) : list string :=
  lunion (if is_async then ["async"] else []) (decorators_to_labels ds).
Definition def_is_property (is_async : bool) (ds : list deco) : bool := str_mem "property" (def_labels is_async ds).
Definition def_is_overload (ds : list deco) : bool := existsb is_overload_deco ds.

Definition def_first_line (ln dln : nat) (ds : list deco) : nat := match ds with [] => ln | _ => dln end.

Definition op_def (g : bool) (ln dln eln : nat) (name : string) (is_async : bool) (ds : list deco) (doc : option (nat * nat))
           (f : frame) : frame * option string :=
  let labels := def_labels is_async ds in
  if def_is_property is_async ds then
    (set_members f (assign name (leaf (mkInfo KAttr ln eln (negb g) labels doc "")) (fmembers f)), None)
  else
    let fo := leaf (mkInfo KFun (def_first_line ln dln ds) eln (negb g) labels doc "") in
    let acc := base_property (fmembers f) name ds in
    if def_is_overload ds then
      (* only modules and classes keep the overload buffer (C02); inside an __init__ the overload is dropped *)
      (f, None)
    else match acc with
    | Some fn => (set_members f (add_label name (if String.eqb fn "setter" then "writable" else "deletable") (fmembers f)), None)
    | None => (set_members f (assign name fo (fmembers f)), None)
    end.
(* the function object becomes (or stays) the member bound to its name *)
Definition def_installed (ms : list (string * obj)) (name : string) (ds : list deco) : bool :=
  negb (def_is_overload ds) && match base_property ms name ds with None => true | Some _ => false end.
Definition def_event (name : string) (is_async : bool) (ds : list deco) (ln : nat) (f : frame) : event :=
  EvInst (if def_is_property is_async ds then KAttr else KFun) name ln (fpath f)
         (match fkind f with InInit => true | _ => false end).

(* which names an assignment statement creates, per scope kind; None = KeyError (statement ignored) *)
Definition target_bad (t : target) : bool := match t with TBad => true | _ => false end.
Definition names_scope (ts : list target) : option (list string) :=
  if existsb target_bad ts then None
  else Some (flat_map (fun t => match t with TName n => [n] | TSelf r => [String.append "self." r] | TDotted => ["a.b"] | TBad => [] end) ts).
Definition names_init (ts : list target) : option (list string) :=
  if existsb target_bad ts then None
  else Some (flat_map (fun t => match t with TSelf r => [r] | _ => [] end) ts).

Definition attr_labels (k : skind) (has_value classvar : bool) : list string :=
  match k with
  | InModule => ["module-attribute"]
  | InClass => if classvar then ["class-attribute"]
               else if has_value then ["class-attribute"; "instance-attribute"] else ["instance-attribute"]
  | InInit => ["instance-attribute"]
  end.

(* the loop `for name in names:` of handle_attribute on the receiving frame [f]; what is forwarded from an earlier
   definition (labels, docstring) concerns that name only *)
Fixpoint attr_loop (cond : bool) (g : bool) (ln eln : nat) (all_items : list string) (pfun : bool)
         (names : list string) (labels : list string) (doc : option (nat * nat)) (f : frame) : frame * list event :=
  match names with
  | [] => (f, [])
  | n :: r =>
    if has_dot n then attr_loop cond g ln eln all_items pfun r labels doc f
    else
      match lookup n (fmembers f) with
      | Some ex =>
        if cond then attr_loop cond g ln eln all_items pfun r labels doc f
        else
          let fwd := match ikind (oinfo ex) with KAlias => false | _ => true end in   (* an alias raises AliasResolutionError: suppressed *)
          let labels' := if fwd then lunion labels (ilabels (oinfo ex)) else labels in
          let doc' := if fwd then match doc with Some d => Some d | None => idoc (oinfo ex) end else doc in
          let f1 := set_members f (assign n (leaf (mkInfo KAttr ln eln (negb g) labels' doc' "")) (fmembers f)) in
          let f2 := if String.eqb n "__all__" && items_ok all_items then set_exports f1 (Some all_items) else f1 in
          let '(f3, evs) := attr_loop cond g ln eln all_items pfun r labels doc f2 in
          (f3, EvInst KAttr n ln (fpath f) pfun :: evs)
      | None =>
          let f1 := set_members f (assign n (leaf (mkInfo KAttr ln eln (negb g) labels doc "")) (fmembers f)) in
          let f2 := if String.eqb n "__all__" && items_ok all_items then set_exports f1 (Some all_items) else f1 in
          let '(f3, evs) := attr_loop cond g ln eln all_items pfun r labels doc f2 in
          (f3, EvInst KAttr n ln (fpath f) pfun :: evs)
      end
  end.

Definition is_cond (pk : pkind) : bool := match pk with PIf | PHandler => true | _ => false end.
Definition is_level (pk : pkind) : bool := match pk with PScope => true | _ => false end.
(* the guard flag in the body / in the else branch of an `if` visited with flag g and parent kind pk: only an `if`
   directly in a module or class body can guard *)
Definition gbody (g : bool) (pk : pkind) (tc : tcond) : bool := g || (is_level pk && tc_pos tc).
Definition gelse (g : bool) (pk : pkind) (tc : tcond) : bool := g || (is_level pk && tc_neg tc).



(* handle_attribute with [own] = Visitor.current and [up] = its parent; returns both *)
Definition op_attr (pk : pkind) (g : bool) (ln eln : nat) (ts : list target) (has_value classvar : bool)
           (all_items : list string) (nd : option (nat * nat)) (own up : frame) : frame * frame * list event :=
  match fkind own with
  | InInit =>
      match names_init ts with
      | None => (own, up, [])
      | Some names =>
          let '(up', evs) := attr_loop (is_cond pk) g ln eln all_items false names (attr_labels InInit has_value classvar) nd up in
          (own, up', evs)
      end
  | k =>
      match names_scope ts with
      | None => (own, up, [])
      | Some names =>
          let '(own', evs) := attr_loop (is_cond pk) g ln eln all_items false names (attr_labels k has_value classvar) nd own in
          (own', up, evs)
      end
  end.

Definition alias_obj (g : bool) (ln eln : nat) (ap : string) : obj := leaf (mkInfo KAlias ln eln (negb g) [] None ap).
Definition frame_pfun (f : frame) : bool := match fkind f with InInit => true | _ => false end.

Fixpoint op_import (g : bool) (ln eln : nat) (names : list (string * string)) (f : frame) : frame * list event :=
  match names with
  | [] => (f, [])
  | (an, ap) :: r =>
      let f1 := set_imports f (assign an ap (fimports f)) in
      let f2 := set_members f1 (assign an (alias_obj g ln eln ap) (fmembers f1)) in
      let '(f3, evs) := op_import g ln eln r f2 in
      (f3, EvAlias an ln (fpath f) (frame_pfun f) :: evs)
  end.

(* `from module import __all__` (runtime code, module level): the other module's list becomes this module's exports,
   recorded as the one name __all__ (expanded later by the loader) *)
Definition import_all (g : bool) (an : string) (f : frame) : frame :=
  match fkind f with
  | InModule => if String.eqb an "__all__" && negb g then set_exports f (Some ["n:__all__"]) else f
  | _ => f
  end.

Fixpoint op_importfrom (g : bool) (ln eln : nat) (names : list impname) (f : frame) : frame * list event :=
  match names with
  | [] => (f, [])
  | ISkip :: r => op_importfrom g ln eln r f
  | IStar an ap :: r =>
      if String.eqb ap (dot (fpath f) an) then op_importfrom g ln eln r f
      else
        let f2 := set_members f (assign an (alias_obj g ln eln ap) (fmembers f)) in
        let '(f3, evs) := op_importfrom g ln eln r f2 in
        (f3, EvAlias an ln (fpath f) (frame_pfun f) :: evs)
  | IName an ap :: r =>
      let f1 := set_imports f (assign an ap (fimports f)) in
      if String.eqb ap (dot (fpath f) an) then op_importfrom g ln eln r f1
      else
        let f2 := import_all g an (set_members f1 (assign an (alias_obj g ln eln ap) (fmembers f1))) in
        let '(f3, evs) := op_importfrom g ln eln r f2 in
        (f3, EvAlias an ln (fpath f) (frame_pfun f) :: evs)
  end.

(* visit_augassign (`__all__ += x`) and visit_expr (`__all__.extend(x)`, `__all__.append(x)`): only on a module
   (Visitor.current, so also inside the if / try / loop blocks of the module, never in a class or an __init__ body), only
   when exports is already a list (else AttributeError, suppressed: an extension before any `__all__ = ...` is lost),
   only when every item is a string or a name (else AttributeError on <item>.name, suppressed, nothing added) *)
Definition op_augall (items : list string) (f : frame) : frame :=
  match fkind f, fexports f with
  | InModule, Some ex => if items_ok items then set_exports f (Some (ex ++ items)) else f
  | _, _ => f
  end.

Definition head_doc (body : list stmt) : option (nat * nat) := match body with SDoc ln eln :: _ => Some (ln, eln) | _ => None end.
(* the attribute docstring: the next statement of the same block when it is a string expression statement
   ([follow] is what comes after the block: always None, a following else/finally block does not count) *)
Definition next_doc (rest : list stmt) (follow : option (nat * nat)) : option (nat * nat) :=
  match rest with [] => follow | SDoc ln eln :: _ => Some (ln, eln) | _ :: _ => None end.

Definition cls_info (g : bool) (ln dln eln : nat) (ds : list deco) (body : list stmt) : info :=
  mkInfo KCls (def_first_line ln dln ds) eln (negb g) (decorators_to_labels ds) (head_doc body) "".
Definition child_path (f : frame) (name : string) : string := dot (fpath f) name.
Definition descends (f : frame) (name : string) (is_async : bool) (ds : list deco) : bool :=
  match fkind f with InClass => String.eqb name "__init__" && negb (def_is_property is_async ds) | _ => false end.

(* ================= layer 1: the visitor machine ================= *)
Record vstate := mkSt { stack : list frame; guarded : bool; events : list event; err : option string }.

Definition set_stack (st : vstate) s := mkSt s (guarded st) (events st) (err st).
Definition set_guard (st : vstate) g := mkSt (stack st) g (events st) (err st).
Definition emit (evs : list event) (st : vstate) := mkSt (stack st) (guarded st) (events st ++ evs) (err st).
Definition py_raise (e : option string) (st : vstate) :=
  mkSt (stack st) (guarded st) (events st) (match err st with Some x => Some x | None => e end).

(* apply a function to Visitor.current *)
Definition on_top (h : frame -> frame * list event) (st : vstate) : vstate :=
  match stack st with
  | f :: r => let '(f', evs) := h f in emit evs (set_stack st (f' :: r))
  | [] => py_raise (Some "model-stack") st
  end.
Definition on_top2 (h : frame -> frame -> frame * frame * list event) (st : vstate) : vstate :=
  match stack st with
  | f :: u :: r => let '(f', u', evs) := h f u in emit evs (set_stack st (f' :: u' :: r))
  | _ => py_raise (Some "model-stack") st
  end.
Definition replace_top (f' : frame) (st : vstate) : vstate :=
  match stack st with _ :: r => set_stack st (f' :: r) | [] => py_raise (Some "model-stack") st end.
Definition push (f : frame) (st : vstate) := set_stack st (f :: stack st).
(* self.current = self.current.parent after a class body: the class object (still bound in its parent) keeps its members *)
Definition pop_class (name : string) (st : vstate) : vstate :=
  match stack st with
  | c :: p :: r =>
      match lookup name (fmembers p) with
      | Some (Obj i _ _ _) =>
          set_stack st (set_members p (assign name (Obj i (fmembers c) (fimports c) (fexports c)) (fmembers p)) :: r)
      | None => py_raise (Some "model-stack") st
      end
  | _ => py_raise (Some "model-stack") st
  end.
(* self.current = self.current.parent after the body of a class's __init__: the function object keeps what was bound
   in its body (definitions, classes, imports) as ITS members -- provided it was installed as the class member (not an
   overload, not attached as a setter/deleter) and is still that member (an unconditional `self.__init__ = ...` in its
   own body replaces it by an attribute; the detached function object is then unreachable) *)
Definition close_fun (inst : bool) (name : string) (c p : frame) : frame :=
  if inst then
    match lookup name (fmembers p) with
    | Some (Obj i _ _ _) =>
        match ikind i with
        | KFun => set_members p (assign name (Obj i (fmembers c) (fimports c) (fexports c)) (fmembers p))
        | _ => p
        end
    | None => p
    end
  else p.
Definition pop_fun (inst : bool) (name : string) (st : vstate) : vstate :=
  match stack st with
  | c :: p :: r => set_stack st (close_fun inst name c p :: r)
  | _ => py_raise (Some "model-stack") st
  end.

Definition top_frame (st : vstate) : frame :=
  match stack st with f :: _ => f | [] => empty_frame InModule "" "" end.

Fixpoint visit_stmt (pk : pkind) (nd : option (nat * nat)) (s : stmt) (st : vstate) {struct s} : vstate :=
  let visit_list :=
    fix vl (pk : pkind) (reset : option bool) (follow : option (nat * nat)) (l : list stmt) (st : vstate) {struct l} : vstate :=
      match l with
      | [] => st
      | x :: r =>
          let st0 := match reset with Some b => set_guard st b | None => st end in
          vl pk reset follow r (visit_stmt pk (next_doc r follow) x st0)
      end in
  match s with
  | SDef ln dln eln name is_async ds body =>
      let st1 := emit [EvNode "function" ln] st in
      let cur := top_frame st1 in
      let desc := descends cur name is_async ds in
      let ev := def_event name is_async ds ln cur in
      let r := op_def (guarded st1) ln dln eln name is_async ds (head_doc body) cur in
      let st3 := py_raise (snd r) (replace_top (fst r) st1) in
      let st4 := emit [ev] st3 in
      if desc then
        let st5 := push (empty_frame InInit name (child_path cur name)) st4 in
        pop_fun (def_installed (fmembers cur) name ds) name (visit_list PFunction None None body st5)
      else st4
  | SCls ln dln eln name ds body =>
      let st1 := emit [EvNode "class" ln] st in
      let cur := top_frame st1 in
      let st2 := on_top (fun f => (set_members f (assign name (leaf (cls_info (guarded st1) ln dln eln ds body)) (fmembers f)), [])) st1 in
      let st3 := push (empty_frame InClass name (child_path cur name)) st2 in
      let st4 := emit [EvInst KCls name ln (fpath cur) (frame_pfun cur)] st3 in
      let st5 := visit_list PScope None None body st4 in
      let st6 := emit [EvMembers KCls name ln (child_path cur name)] st5 in
      pop_class name st6
  | SAssign ln eln ts items =>
      on_top2 (op_attr pk (guarded st) ln eln ts true false items nd) (emit [EvNode "attribute" ln] st)
  | SAnn ln eln t hv cv items =>
      on_top2 (op_attr pk (guarded st) ln eln [t] hv cv items nd) (emit [EvNode "attribute" ln] st)
  | SAugAll items => on_top (fun f => (op_augall items f, [])) st
  | SImport ln eln names => on_top (op_import (guarded st) ln eln names) st
  | SImportFrom ln eln names => on_top (op_importfrom (guarded st) ln eln names) st
  | SIf tc body orelse =>
      let prev := guarded st in
      let st1 := if is_level pk && tc_pos tc then set_guard st true else st in
      let st2 := visit_list PIf None None body st1 in
      let st3 := visit_list PIf (Some (gelse prev pk tc)) None orelse st2 in
      set_guard st3 prev
  | SBlock children => visit_list POther None None children st
  | SSub handler body => visit_list (if handler then PHandler else POther) None None body st
  | SDoc _ _ => st
  | SOther => st
  end.

Fixpoint visit_list (pk : pkind) (reset : option bool) (follow : option (nat * nat)) (l : list stmt) (st : vstate) {struct l} : vstate :=
  match l with
  | [] => st
  | x :: r =>
      let st0 := match reset with Some b => set_guard st b | None => st end in
      visit_list pk reset follow r (visit_stmt pk (next_doc r follow) x st0)
  end.

(* visit_module.  The bottom frame stands for "no parent"; it is never written. *)
Definition sentinel : frame := empty_frame InModule "" "".
Definition mod_events_pre (mname : string) : list event := [EvNode "module" 0; EvInst KMod mname 0 "" false].
Definition mod_events_post (mname : string) : list event := [EvMembers KMod mname 0 mname].

Definition init_state (mname : string) : vstate :=
  mkSt [empty_frame InModule mname mname; sentinel] false (mod_events_pre mname) None.

Inductive result (A : Type) := Ok (a : A) | Err (e : string).
Arguments Ok {A} a. Arguments Err {A} e.

Record module_result := mkRes {
  r_doc : option (nat * nat); r_members : list (string * obj); r_imports : list (string * string);
  r_exports : option (list string); r_events : list event }.

Definition run_visit (mname : string) (body : list stmt) : result module_result :=
  let st := emit (mod_events_post mname) (visit_list PScope None None body (init_state mname)) in
  match err st with
  | Some e => Err e
  | None =>
      match stack st with
      | [m; _] => Ok (mkRes (head_doc body) (fmembers m) (fimports m) (fexports m) (events st))
      | _ => Err "model-stack"
      end
  end.

(* ================= layer 2: the level semantics ================= *)
(* Result of evaluating statements at one level: the receiving frame [own], its parent [up] (written only by the
   instance attributes of an __init__ body), the events, and the first Python error. *)
Record lres := mkL { l_own : frame; l_up : frame; l_events : list event; l_err : option string }.
Definition first_err (a b : option string) : option string := match a with Some x => Some x | None => b end.

Fixpoint sem_stmt (g : bool) (pk : pkind) (nd : option (nat * nat)) (s : stmt) (own up : frame) {struct s} : lres :=
  let sem_list :=
    fix sl (g : bool) (pk : pkind) (follow : option (nat * nat)) (l : list stmt) (own up : frame) {struct l} : lres :=
      match l with
      | [] => mkL own up [] None
      | x :: r =>
          let a := sem_stmt g pk (next_doc r follow) x own up in
          let b := sl g pk follow r (l_own a) (l_up a) in
          mkL (l_own b) (l_up b) (l_events a ++ l_events b) (first_err (l_err a) (l_err b))
      end in
  match s with
  | SDef ln dln eln name is_async ds body =>
      let '(own1, e1) := op_def g ln dln eln name is_async ds (head_doc body) own in
      let evs := [EvNode "function" ln; def_event name is_async ds ln own] in
      if descends own name is_async ds then
        let b := sem_list g PFunction None body (empty_frame InInit name (child_path own name)) own1 in
        mkL (close_fun (def_installed (fmembers own) name ds) name (l_own b) (l_up b)) up (evs ++ l_events b) (first_err e1 (l_err b))
      else mkL own1 up evs e1
  | SCls ln dln eln name ds body =>
      let b := sem_list g PScope None body (empty_frame InClass name (child_path own name)) sentinel in
      let c := l_own b in
      let o := Obj (cls_info g ln dln eln ds body) (fmembers c) (fimports c) (fexports c) in
      mkL (set_members own (assign name o (fmembers own))) up
          ([EvNode "class" ln; EvInst KCls name ln (fpath own) (frame_pfun own)] ++ l_events b
           ++ [EvMembers KCls name ln (child_path own name)])
          (l_err b)
  | SAssign ln eln ts items =>
      let '(own', up', evs) := op_attr pk g ln eln ts true false items nd own up in
      mkL own' up' (EvNode "attribute" ln :: evs) None
  | SAnn ln eln t hv cv items =>
      let '(own', up', evs) := op_attr pk g ln eln [t] hv cv items nd own up in
      mkL own' up' (EvNode "attribute" ln :: evs) None
  | SAugAll items => mkL (op_augall items own) up [] None
  | SImport ln eln names => let '(own', evs) := op_import g ln eln names own in mkL own' up evs None
  | SImportFrom ln eln names => let '(own', evs) := op_importfrom g ln eln names own in mkL own' up evs None
  | SIf tc body orelse =>
      let a := sem_list (gbody g pk tc) PIf None body own up in
      let b := sem_list (gelse g pk tc) PIf None orelse (l_own a) (l_up a) in
      mkL (l_own b) (l_up b) (l_events a ++ l_events b) (first_err (l_err a) (l_err b))
  | SBlock children => sem_list g POther None children own up
  | SSub handler body => sem_list g (if handler then PHandler else POther) None body own up
  | SDoc _ _ => mkL own up [] None
  | SOther => mkL own up [] None
  end.

Fixpoint sem_list (g : bool) (pk : pkind) (follow : option (nat * nat)) (l : list stmt) (own up : frame) {struct l} : lres :=
  match l with
  | [] => mkL own up [] None
  | x :: r =>
      let a := sem_stmt g pk (next_doc r follow) x own up in
      let b := sem_list g pk follow r (l_own a) (l_up a) in
      mkL (l_own b) (l_up b) (l_events a ++ l_events b) (first_err (l_err a) (l_err b))
  end.

Definition spec_module (mname : string) (body : list stmt) : result module_result :=
  let r := sem_list false PScope None body (empty_frame InModule mname mname) sentinel in
  match l_err r with
  | Some e => Err e
  | None => Ok (mkRes (head_doc body) (fmembers (l_own r)) (fimports (l_own r)) (fexports (l_own r))
                      (mod_events_pre mname ++ l_events r ++ mod_events_post mname))
  end.

(* ---------- the declarative side of the property: which names a level binds, which binding survives ---------- *)
Inductive bkind := BFun | BCls | BProp | BAttr | BAlias.
(* one binding occurrence at a level: name, reported first line (first decorator line for functions and classes), kind, "conditional re-assignment" flag,
   type-guarded flag *)
Record binding := mkB { b_name : string; b_line : nat; b_kind : bkind; b_cond : bool; b_guard : bool }.

Definition plain_names (l : list string) : list string := filter (fun n => negb (has_dot n)) l.

Definition import_bindings (g : bool) (ln : nat) (names : list (string * string)) : list binding :=
  map (fun x => mkB (fst x) ln BAlias false g) names.
Fixpoint importfrom_bindings (g : bool) (ln : nat) (path : string) (names : list impname) : list binding :=
  match names with
  | [] => []
  | ISkip :: r => importfrom_bindings g ln path r
  | IStar an ap :: r | IName an ap :: r =>
      if String.eqb ap (dot path an) then importfrom_bindings g ln path r
      else mkB an ln BAlias false g :: importfrom_bindings g ln path r
  end.

(* bindings that the statements of an __init__ body make on the class: self.<name> targets only *)
Fixpoint init_bindings (g : bool) (pk : pkind) (s : stmt) {struct s} : list binding :=
  let ibl := fix ibl (g : bool) (pk : pkind) (l : list stmt) {struct l} : list binding :=
               match l with [] => [] | x :: r => init_bindings g pk x ++ ibl g pk r end in
  match s with
  | SAssign ln _ ts _ =>
      match names_init ts with
      | Some ns => map (fun n => mkB n ln BAttr (is_cond pk) g) (plain_names ns)
      | None => [] end
  | SAnn ln _ t _ _ _ =>
      match names_init [t] with
      | Some ns => map (fun n => mkB n ln BAttr (is_cond pk) g) (plain_names ns)
      | None => [] end
  | SIf tc body orelse => ibl (gbody g pk tc) PIf body ++ ibl (gelse g pk tc) PIf orelse
      (* inside a function body pk is never PScope, so no new type guard arises there *)
  | SBlock ch => ibl g POther ch
  | SSub h body => ibl g (if h then PHandler else POther) body
  | _ => []
  end.
Fixpoint init_bindings_list (g : bool) (pk : pkind) (l : list stmt) : list binding :=
  match l with [] => [] | x :: r => init_bindings g pk x ++ init_bindings_list g pk r end.

(* bindings of a module / class level, in the order the source makes them.  [path] is the level's dotted path
   (needed only to recognise `from <itself> import x`).  Accessor-decorated definitions (x.setter) are C02's and
   are excluded from the statements this function is used on, see [no_accessor]. *)
Fixpoint level_bindings (k : skind) (path : string) (g : bool) (pk : pkind) (s : stmt) {struct s} : list binding :=
  let lbl := fix lbl (g : bool) (pk : pkind) (l : list stmt) {struct l} : list binding :=
               match l with [] => [] | x :: r => level_bindings k path g pk x ++ lbl g pk r end in
  match s with
  | SDef ln dln _ name is_async ds body =>
      if def_is_property is_async ds then [mkB name ln BProp false g]
      else
        (if def_is_overload ds then [] else [mkB name (def_first_line ln dln ds) BFun false g]) ++
        (match k with
         | InClass => if String.eqb name "__init__" then init_bindings_list g PFunction body else []
         | _ => [] end)
  | SCls ln dln _ name ds _ => [mkB name (def_first_line ln dln ds) BCls false g]
  | SAssign ln _ ts _ =>
      match names_scope ts with
      | Some ns => map (fun n => mkB n ln BAttr (is_cond pk) g) (plain_names ns)
      | None => [] end
  | SAnn ln _ t _ _ _ =>
      match names_scope [t] with
      | Some ns => map (fun n => mkB n ln BAttr (is_cond pk) g) (plain_names ns)
      | None => [] end
  | SImport ln _ names => import_bindings g ln names
  | SImportFrom ln _ names => importfrom_bindings g ln path names
  | SIf tc body orelse => lbl (gbody g pk tc) PIf body ++ lbl (gelse g pk tc) PIf orelse
  | SBlock ch => lbl g POther ch
  | SSub h body => lbl g (if h then PHandler else POther) body
  | _ => []
  end.
Fixpoint level_bindings_list (k : skind) (path : string) (g : bool) (pk : pkind) (l : list stmt) : list binding :=
  match l with [] => [] | x :: r => level_bindings k path g pk x ++ level_bindings_list k path g pk r end.

(* Griffe's tie-break: a later binding wins, except that an attribute assignment directly inside an `if` or an
   `except` does not displace a member that already exists. *)
Definition effective (bound : bool) (b : binding) : bool :=
  match b_kind b with BAttr => negb (b_cond b && bound) | _ => true end.
Fixpoint survivor (n : string) (cur : option binding) (bs : list binding) : option binding :=
  match bs with
  | [] => cur
  | b :: r =>
      if String.eqb (b_name b) n && effective (match cur with Some _ => true | None => false end) b
      then survivor n (Some b) r else survivor n cur r
  end.
(* dict key order: order of first binding *)
Fixpoint first_names (seen : list string) (bs : list binding) : list string :=
  match bs with
  | [] => []
  | b :: r => if str_mem (b_name b) seen then first_names seen r else b_name b :: first_names (b_name b :: seen) r
  end.

Definition okind_of_bkind (k : bkind) : okind :=
  match k with BFun => KFun | BCls => KCls | BProp => KAttr | BAttr => KAttr | BAlias => KAlias end.

(* accessor decorators anywhere among the definitions a level visits (C02's subject) *)
Definition is_accessor (d : deco) : bool := match d with DAccessor _ _ => true | _ => false end.
Fixpoint has_accessor (s : stmt) {struct s} : bool :=
  let hl := fix hl (l : list stmt) {struct l} : bool := match l with [] => false | x :: r => has_accessor x || hl r end in
  match s with
  | SDef _ _ _ _ _ ds body => existsb is_accessor ds || hl body
  | SCls _ _ _ _ _ body => hl body
  | SIf _ body orelse => hl body || hl orelse
  | SBlock ch => hl ch
  | SSub _ body => hl body
  | _ => false
  end.
Fixpoint has_accessor_list (l : list stmt) : bool := match l with [] => false | x :: r => has_accessor x || has_accessor_list r end.

(* ---------- event traces: bracket discipline ---------- *)
(* The checker keeps the stack of objects whose members are being announced (paths).  A class/module instance event
   must name the open object as its parent (unless the parent is a function, which has no members event) and opens
   a bracket; the members event must close the innermost open bracket; any other instance/alias event needs an
   open bracket, and its parent must be the innermost one unless the parent is a function. *)
Definition parent_ok (open : list string) (ppath : string) (pfun : bool) : bool :=
  match open with
  | [] => false
  | p :: _ => pfun || String.eqb p ppath
  end.
Fixpoint check_events (open : list string) (evs : list event) : option (list string) :=
  match evs with
  | [] => Some open
  | EvNode _ _ :: r => check_events open r
  | EvInst KMod n _ _ _ :: r => match open with [] => check_events [n] r | _ => None end
  | EvInst KCls n _ pp pf :: r => if parent_ok open pp pf then check_events (dot pp n :: open) r else None
  | EvInst _ _ _ pp pf :: r => if parent_ok open pp pf then check_events open r else None
  | EvAlias _ _ pp pf :: r => if parent_ok open pp pf then check_events open r else None
  | EvMembers _ _ _ p :: r =>
      match open with
      | q :: open' => if String.eqb p q then check_events open' r else None
      | [] => None
      end
  end.
Definition well_bracketed (evs : list event) : bool :=
  match check_events [] evs with Some [] => true | _ => false end.

(* ---------- documented visibility table (mixins.py docstrings and docs/guide/users/navigating.md) ---------- *)
Definition name_special (i : vin) : bool := v_dus i && v_due i.
Definition name_private (i : vin) : bool := v_us i && negb (name_special i).
Definition doc_is_special (i : vin) : bool := name_special i.
Definition doc_is_private (i : vin) : bool := name_private i.
Definition doc_is_class_private (i : vin) : bool := v_parent i && v_pcls i && v_dus i && negb (v_due i).
Definition doc_is_imported (i : vin) : bool := v_parent i && v_imported i.
Definition doc_is_exported (i : vin) : bool :=
  v_parent i && v_pmod i && match v_exports i with Some (_, l) => l | None => false end.
(* exposed to `from m import *`: runtime, module-level, listed in __all__ if defined, else not underscore-named;
   a submodule only if its parent imports it *)
Definition doc_is_wildcard_exposed (i : vin) : bool :=
  v_runtime i && v_parent i && v_pmod i &&
  match v_exports i with
  | Some (_, l) => l
  | None => negb (v_us i) && (v_alias i || negb (v_module i) || v_imported i)
  end.
(* is_public: the public attribute wins; a module is public unless underscore-named; a module-level object is public
   iff listed in __all__ when the parent module *declares* __all__; otherwise public iff not private-named and not imported *)
Definition doc_is_public (i : vin) : bool :=
  match v_public i with
  | Some b => b
  | None =>
      if negb (v_alias i) && v_module i && negb (v_us i) then true
      else if v_parent i && v_pmod i && match v_exports i with Some _ => true | None => false end
           then match v_exports i with Some (_, l) => l | None => false end
      else negb (name_private i) && negb (v_parent i && v_imported i)
  end.
(* ================= s-expression interface ================= *)
Definition dec_deco (s : sexp) : option deco :=
  match s with
  | SList [SStr "path"; SStr p] => Some (DPath p)
  | SList [SStr "acc"; SStr b; SStr f] => Some (DAccessor b f)
  | SList [SStr "ref"; SStr h; SStr r] => Some (DRef h r)
  | _ => None
  end.
Definition dec_target (s : sexp) : option target :=
  match s with
  | SList [SStr "name"; SStr n] => Some (TName n)
  | SList [SStr "self"; SStr r] => Some (TSelf r)
  | SList [SStr "dotted"] => Some TDotted
  | SList [SStr "bad"] => Some TBad
  | _ => None
  end.
Definition dec_impname (s : sexp) : option impname :=
  match s with
  | SList [SStr "name"; SStr a; SStr p] => Some (IName a p)
  | SList [SStr "star"; SStr a; SStr p] => Some (IStar a p)
  | SList [SStr "skip"] => Some ISkip
  | _ => None
  end.
Definition dec_pair (s : sexp) : option (string * string) :=
  match s with SList [SStr a; SStr b] => Some (a, b) | _ => None end.

Definition dec_tcond (s : sexp) : option tcond :=
  do n <- as_nat s; match n with 0 => Some TCNone | 1 => Some TCPos | 2 => Some TCNeg | _ => None end.

Fixpoint dec_stmt (fuel : nat) (s : sexp) {struct fuel} : option stmt :=
  match fuel with
  | O => None
  | S fuel' =>
    let dl := fun b => as_list_of (dec_stmt fuel') b in
    match s with
    | SList [SStr "def"; ln; dln; eln; SStr name; a; ds; body] =>
        do ln' <- as_nat ln; do dln' <- as_nat dln; do eln' <- as_nat eln; do a' <- as_bool a;
        do ds' <- as_list_of dec_deco ds; do b' <- dl body; Some (SDef ln' dln' eln' name a' ds' b')
    | SList [SStr "class"; ln; dln; eln; SStr name; ds; body] =>
        do ln' <- as_nat ln; do dln' <- as_nat dln; do eln' <- as_nat eln;
        do ds' <- as_list_of dec_deco ds; do b' <- dl body; Some (SCls ln' dln' eln' name ds' b')
    | SList [SStr "assign"; ln; eln; ts; items] =>
        do ln' <- as_nat ln; do eln' <- as_nat eln; do ts' <- as_list_of dec_target ts; do it <- as_list_of as_str items;
        Some (SAssign ln' eln' ts' it)
    | SList [SStr "ann"; ln; eln; t; hv; cv; items] =>
        do ln' <- as_nat ln; do eln' <- as_nat eln; do t' <- dec_target t; do hv' <- as_bool hv; do cv' <- as_bool cv;
        do it <- as_list_of as_str items; Some (SAnn ln' eln' t' hv' cv' it)
    | SList [SStr "augall"; items] => do it <- as_list_of as_str items; Some (SAugAll it)
    | SList [SStr "import"; ln; eln; names] =>
        do ln' <- as_nat ln; do eln' <- as_nat eln; do ns <- as_list_of dec_pair names; Some (SImport ln' eln' ns)
    | SList [SStr "importfrom"; ln; eln; names] =>
        do ln' <- as_nat ln; do eln' <- as_nat eln; do ns <- as_list_of dec_impname names; Some (SImportFrom ln' eln' ns)
    | SList [SStr "if"; tc; body; orelse] =>
        do tc' <- dec_tcond tc; do b' <- dl body; do o' <- dl orelse; Some (SIf tc' b' o')
    | SList [SStr "block"; ch] => do c' <- dl ch; Some (SBlock c')
    | SList [SStr "sub"; h; body] => do h' <- as_bool h; do b' <- dl body; Some (SSub h' b')
    | SList [SStr "doc"; ln; eln] => do ln' <- as_nat ln; do eln' <- as_nat eln; Some (SDoc ln' eln')
    | SList [SStr "other"] => Some SOther
    | _ => None
    end
  end.

Definition enc_okind (k : okind) : sexp :=
  SStr (match k with KMod => "module" | KFun => "function" | KCls => "class" | KAttr => "attribute" | KAlias => "alias" end).
Definition enc_strs (l : list string) : sexp := SList (map SStr l).
Definition enc_span (p : nat * nat) : sexp := SList [of_nat (fst p); of_nat (snd p)].
Definition enc_pairs (l : list (string * string)) : sexp := SList (map (fun p => SList [SStr (fst p); SStr (snd p)]) l).

Fixpoint enc_obj (n : string) (o : obj) {struct o} : sexp :=
  match o with
  | Obj i ms im ex =>
      SList [SStr n; enc_okind (ikind i); of_nat (iline i); of_nat (iend i); of_bool (iruntime i);
             enc_strs (ilabels i); of_opt enc_span (idoc i); SStr (itarget i);
             SList ((fix go (l : list (string * obj)) : list sexp :=
                       match l with [] => [] | (k, v) :: r => enc_obj k v :: go r end) ms);
             enc_pairs im; of_opt enc_strs ex]
  end.
Definition enc_members (ms : list (string * obj)) : sexp := SList (map (fun p => enc_obj (fst p) (snd p)) ms).

Definition enc_event (e : event) : sexp :=
  match e with
  | EvNode t ln => SList [SStr "node"; SStr t; of_nat ln]
  | EvInst k n ln pp pf => SList [SStr "inst"; enc_okind k; SStr n; of_nat ln; SStr pp; of_bool pf]
  | EvMembers k n ln p => SList [SStr "members"; enc_okind k; SStr n; of_nat ln; SStr p]
  | EvAlias n ln pp pf => SList [SStr "alias"; SStr n; of_nat ln; SStr pp; of_bool pf]
  end.

Definition enc_result (r : result module_result) : sexp :=
  match r with
  | Err e => SList [SStr "err"; SStr e]
  | Ok m => SList [SStr "ok"; of_opt enc_span (r_doc m); enc_members (r_members m); enc_pairs (r_imports m);
                   of_opt enc_strs (r_exports m); SList (map enc_event (r_events m))]
  end.

Definition enc_binding (b : binding) : sexp :=
  SList [SStr (b_name b); of_nat (b_line b);
         SStr (match b_kind b with BFun => "function" | BCls => "class" | BProp => "property" | BAttr => "attribute" | BAlias => "alias" end);
         of_bool (b_cond b); of_bool (b_guard b)].

Definition dec_vin (s : sexp) : option vin :=
  match s with
  | SList [pub; al; mo; us; dus; due; par; pm; pc; ex; imp; rt] =>
      do pub' <- as_opt as_bool pub; do al' <- as_bool al; do mo' <- as_bool mo; do us' <- as_bool us;
      do dus' <- as_bool dus; do due' <- as_bool due; do par' <- as_bool par; do pm' <- as_bool pm; do pc' <- as_bool pc;
      do ex' <- as_opt (fun e => match e with SList [a; b] => do a' <- as_bool a; do b' <- as_bool b; Some (a', b') | _ => None end) ex;
      do imp' <- as_bool imp; do rt' <- as_bool rt;
      Some (mkVin pub' al' mo' us' dus' due' par' pm' pc' ex' imp' rt')
  | _ => None
  end.
Definition enc_tb (t : tb) : sexp := match t with None => SStr "raises" | Some b => of_bool b end.

Definition dec_okind (s : sexp) : option okind :=
  match s with
  | SStr k => if String.eqb k "module" then Some KMod else if String.eqb k "function" then Some KFun
              else if String.eqb k "class" then Some KCls else if String.eqb k "attribute" then Some KAttr
              else if String.eqb k "alias" then Some KAlias else None
  | _ => None
  end.
Definition dec_event (s : sexp) : option event :=
  match s with
  | SList [SStr "node"; SStr t; ln] => do ln' <- as_nat ln; Some (EvNode t ln')
  | SList [SStr "inst"; k; SStr n; ln; SStr pp; pf] =>
      do k' <- dec_okind k; do ln' <- as_nat ln; do pf' <- as_bool pf; Some (EvInst k' n ln' pp pf')
  | SList [SStr "members"; k; SStr n; ln; SStr p] => do k' <- dec_okind k; do ln' <- as_nat ln; Some (EvMembers k' n ln' p)
  | SList [SStr "alias"; SStr n; ln; SStr pp; pf] => do ln' <- as_nat ln; do pf' <- as_bool pf; Some (EvAlias n ln' pp pf')
  | _ => None
  end.

Definition dec_body (b : sexp) : option (list stmt) := as_list_of (dec_stmt 64) b.

Definition run_C01 (s : sexp) : sexp :=
  match s with
  | SList [SStr "visit"; SStr mname; body] =>
      match dec_body body with Some b => enc_result (run_visit mname b) | None => bad_input end
  | SList [SStr "spec"; SStr mname; body] =>
      match dec_body body with Some b => enc_result (spec_module mname b) | None => bad_input end
  | SList [SStr "bindings"; SStr mname; body] =>
      (* declarative view of the module level: bindings, first-binding order, survivor per name, accessor flag *)
      match dec_body body with
      | Some b =>
          let bs := level_bindings_list InModule mname false PScope b in
          let names := first_names [] bs in
          SList [SList (map enc_binding bs); enc_strs names;
                 SList (map (fun n => of_opt enc_binding (survivor n None bs)) names);
                 of_bool (has_accessor_list b)]
      | None => bad_input end
  | SList [SStr "vis"; v] =>
      match dec_vin v with
      | Some i => SList [SList (map enc_tb [is_special i; is_private i; is_class_private i; is_imported i; is_exported i;
                                             is_wildcard_exposed i; is_public i]);
                         SList (map of_bool [doc_is_special i; doc_is_private i; doc_is_class_private i; doc_is_imported i;
                                             doc_is_exported i; doc_is_wildcard_exposed i; doc_is_public i]);
                         of_bool (vin_consistent i)]
      | None => bad_input end
  | SList [SStr "bracket"; evs] =>
      (* the bracket checker of theorem C01_events_well_bracketed applied to a trace recorded from the implementation *)
      match as_list_of dec_event evs with Some l => of_bool (well_bracketed l) | None => bad_input end
  | _ => bad_input
  end.
